// vsched.h — controlled scheduler for the schedule properties (C01-C03, C07, C08, C11, C12, C20).
//
// Force-included (-include) before any repo source. It first includes every libstdc++ header,
// then defines vs::mutex, vs::condition_variable and vs::thread and finally replaces the
// *tokens* mutex / condition_variable / thread by them, so that the unmodified sources of
// /repo (Resource.cpp, ThreadPool.cpp, Thread.{h,cpp}, ConcurrentSubjectRouter.h) compile
// against the controlled primitives. std::unique_lock / scoped_lock / lock_guard keep working:
// they are templates over any Lockable.
//
// Semantics: real OS threads, but exactly one runs at a time. Every synchronisation operation
// is a scheduling point at which the running thread hands the baton back to the controller
// (the harness's main thread), which decides who runs next:
//   before mutex.lock            (R_WANT_MUTEX; enabled iff the mutex is free)
//   at entry of cv.wait          (R_CV_ENTRY;   the predicate was evaluated, the mutex is still
//                                 held, the thread is not yet in the wait set)
//   blocked in cv.wait           (R_CV_BLOCKED; enabled iff notified and the mutex is free)
//   before notify_one/notify_all (R_PRE_NOTIFY)
//   at thread start              (R_START)
//   right after creating a thread (R_AFTER_SPAWN; the creator is still inside the std::thread constructor,
//                                 the new thread may already run)
//   before join                  (R_JOIN;       enabled iff the target has finished)
//   at explicit harness points   (R_POINT)
// notify_one wakes the waiter the controller chose (default: the longest waiting); spurious
// wake-ups are injected by the controller (set `notified` on a blocked thread).
#pragma once
#include <bits/stdc++.h>

namespace vs {
using real_mutex = std::mutex;
using real_cv = std::condition_variable;
using real_thread = std::thread;
using real_ulock = std::unique_lock<std::mutex>;

enum Reason { R_NEW, R_RUNNING, R_START, R_WANT_MUTEX, R_CV_ENTRY, R_CV_BLOCKED, R_PRE_NOTIFY, R_JOIN, R_POINT, R_FINISHED, R_AFTER_SPAWN };

inline const char *reasonName(Reason r) {
    static const char *n[] = {"new", "running", "start", "want-mutex", "cv-entry", "cv-blocked", "pre-notify", "join", "point", "finished", "after-spawn"};
    return n[r];
}

struct Baton {
    real_mutex m;
    real_cv c;
    bool go = false;
    void give() { { std::lock_guard<real_mutex> l(m); go = true; } c.notify_one(); }
    void take() { real_ulock l(m); c.wait(l, [&] { return go; }); go = false; }
};

class mutex;
class condition_variable;

struct VThread {
    int id = -1;
    Reason reason = R_NEW;
    const void *obj = nullptr;   // the mutex / cv / target thread the reason refers to
    bool notified = false;       // for R_CV_BLOCKED
    bool notifyAll = false;      // for R_PRE_NOTIFY
    int tag = 0;                 // for R_POINT
    bool finished = false;
    Baton baton;
    real_thread th;
    std::function<void()> fn;
};

struct Sched {
    std::vector<VThread *> threads;     // never freed while a process lives (cases run in forked children)
    Baton controller;
    int notifyChoice = -1;              // thread id notify_one should wake, -1 = longest waiting
    long steps = 0;
    static Sched &get() { static Sched s; return s; }
    void reset() { threads.clear(); notifyChoice = -1; steps = 0; }
};

inline thread_local VThread *self = nullptr;

inline void yield(Reason r, const void *obj = nullptr, int tag = 0) {
    if (!self) return; // controller / uncontrolled thread: no scheduling point
    self->reason = r;
    self->obj = obj;
    self->tag = tag;
    Sched::get().controller.give();
    self->baton.take();
    self->reason = R_RUNNING;
}

// explicit scheduling point for harness code (callbacks, tasks, command loops)
inline void point(int tag = 0) { yield(R_POINT, nullptr, tag); }

class mutex {
public:
    mutex() = default;
    mutex(const mutex &) = delete;
    mutex &operator=(const mutex &) = delete;
    void lock() {
        yield(R_WANT_MUTEX, this);
        if (owner != nullptr || held) {
            fprintf(stderr, "vsched: mutex %p taken while held (controller bug or relock)\n", (void *) this);
            abort();
        }
        held = true;
        owner = self;
    }
    bool try_lock() {
        if (held) return false;
        held = true;
        owner = self;
        return true;
    }
    void unlock() {
        held = false;
        owner = nullptr;
    }
    bool held = false;
    VThread *owner = nullptr;
};

class condition_variable {
public:
    condition_variable() = default;
    condition_variable(const condition_variable &) = delete;
    template <typename Lock> void wait(Lock &lk) {
        if (!self) { fprintf(stderr, "vsched: cv.wait on an uncontrolled thread\n"); abort(); }
        yield(R_CV_ENTRY, this);
        waiters.push_back(self);
        self->notified = false;
        auto *m = lk.mutex();
        lk.unlock();
        waitMutex = m;
        self->reason = R_CV_BLOCKED;
        // blocked: the controller resumes us only when notified and the mutex is free
        self->obj = this;
        Sched::get().controller.give();
        self->baton.take();
        self->reason = R_RUNNING;
        waiters.erase(std::remove(waiters.begin(), waiters.end(), self), waiters.end());
        // re-acquire without a further scheduling point (the controller checked it is free)
        if (m->held) { fprintf(stderr, "vsched: woken waiter finds its mutex held\n"); abort(); }
        m->held = true;
        m->owner = self;
        // unique_lock bookkeeping: it believes it is unlocked; lock() would yield again, so
        // re-own through release/adopt
        lk = Lock(*m, std::adopt_lock);
    }
    template <typename Lock, typename Pred> void wait(Lock &lk, Pred pred) {
        while (!pred()) wait(lk);
    }
    // timed waits: under the controlled scheduler any wake-up (a notification or the schedule's "spurious" wake-up) may be
    // the time-out, so a timed wait blocks at most once and then reports the time-out / the predicate's value; correct
    // callers re-check their condition anyway
    template <typename Lock, typename Rep, typename Period>
    std::cv_status wait_for(Lock &lk, const std::chrono::duration<Rep, Period> &) { wait(lk); return std::cv_status::timeout; }
    template <typename Lock, typename Rep, typename Period, typename Pred>
    bool wait_for(Lock &lk, const std::chrono::duration<Rep, Period> &, Pred pred) { if (pred()) return true; wait(lk); return pred(); }
    template <typename Lock, typename Clock, typename Duration>
    std::cv_status wait_until(Lock &lk, const std::chrono::time_point<Clock, Duration> &) { wait(lk); return std::cv_status::timeout; }
    template <typename Lock, typename Clock, typename Duration, typename Pred>
    bool wait_until(Lock &lk, const std::chrono::time_point<Clock, Duration> &, Pred pred) { if (pred()) return true; wait(lk); return pred(); }
    void notify_all() {
        if (self) { self->notifyAll = true; yield(R_PRE_NOTIFY, this); }
        for (auto *w : waiters) w->notified = true;
    }
    void notify_one() {
        if (self) { self->notifyAll = false; yield(R_PRE_NOTIFY, this); }
        VThread *pick = nullptr;
        int choice = Sched::get().notifyChoice;
        for (auto *w : waiters)
            if (!w->notified && (choice < 0 || w->id == choice)) { pick = w; break; }
        if (!pick)
            for (auto *w : waiters) if (!w->notified) { pick = w; break; }
        if (pick) pick->notified = true;
        Sched::get().notifyChoice = -1;
    }
    std::vector<VThread *> waiters;
    mutex *waitMutex = nullptr;
};

class thread {
public:
    using id = real_thread::id;
    thread() noexcept = default;
    thread(const thread &) = delete;
    thread(thread &&o) noexcept : vt(o.vt) { o.vt = nullptr; }
    thread &operator=(thread &&o) noexcept {
        if (vt && !joined) { fprintf(stderr, "vsched: joinable thread overwritten\n"); std::terminate(); }
        vt = o.vt;
        joined = o.joined;
        o.vt = nullptr;
        return *this;
    }
    template <typename F, typename... A,
              typename = std::enable_if_t<!std::is_same_v<std::decay_t<F>, thread>>>
    explicit thread(F &&f, A &&...a) {
        vt = new VThread();
        auto &s = Sched::get();
        vt->id = (int) s.threads.size();
        vt->reason = R_START;
        // decay-copied in the creating thread, invoked and destroyed on the new one, move-only callables allowed (as std::thread)
        auto state = std::make_shared<std::tuple<std::decay_t<F>, std::decay_t<A>...>>(std::forward<F>(f), std::forward<A>(a)...);
        vt->fn = [state]() mutable {
            std::apply([](auto &fn, auto &...args) { std::invoke(std::move(fn), std::move(args)...); }, *state);
            state.reset();
        };
        s.threads.push_back(vt);
        VThread *v = vt;
        vt->th = real_thread([v] {
            self = v;
            v->baton.take();
            v->reason = R_RUNNING;
            v->fn();
            v->fn = nullptr; // destroy the closure on the new thread, as std::thread does
            v->finished = true;
            v->reason = R_FINISHED;
            Sched::get().controller.give();
        });
        yield(R_AFTER_SPAWN, vt);
    }
    ~thread() {
        if (vt && !joined) { fprintf(stderr, "vsched: joinable thread destroyed\n"); std::terminate(); }
    }
    bool joinable() const noexcept { return vt && !joined; }
    void join() {
        if (!vt || joined) throw std::system_error(std::make_error_code(std::errc::invalid_argument));
        yield(R_JOIN, vt);
        if (!vt->finished) { fprintf(stderr, "vsched: join resumed before the target finished\n"); abort(); }
        vt->th.join();
        joined = true;
    }
    void detach() { joined = true; if (vt) vt->th.detach(); }
    int vid() const { return vt ? vt->id : -1; }
    VThread *vt = nullptr;
    bool joined = false;
};

// ---- controller side --------------------------------------------------------------------
inline bool enabled(const VThread *t) {
    switch (t->reason) {
    case R_START: case R_CV_ENTRY: case R_PRE_NOTIFY: case R_POINT: case R_AFTER_SPAWN: return true;
    case R_WANT_MUTEX: return !static_cast<const mutex *>(t->obj)->held;
    case R_CV_BLOCKED: {
        auto *cv = static_cast<const condition_variable *>(t->obj);
        return t->notified && !(cv->waitMutex && cv->waitMutex->held);
    }
    case R_JOIN: return static_cast<const VThread *>(t->obj)->finished;
    default: return false;
    }
}

// resume thread t and wait until it yields again (or finishes)
inline void step(VThread *t) {
    ++Sched::get().steps;
    t->baton.give();
    Sched::get().controller.take();
}

// spawn a controlled thread from the controller
inline VThread *spawn(std::function<void()> fn) {
    thread th(std::move(fn));
    VThread *v = th.vt;
    th.joined = true; // ownership stays with the scheduler; reaped by reap()
    return v;
}

inline void reap(VThread *v) {
    if (v->finished && v->th.joinable()) v->th.join();
}
} // namespace vs

namespace vs {
// the token macros below also rewrite vs::mutex etc. in harness code: keep those names valid
using verif_mutex = mutex;
using verif_condition_variable = condition_variable;
using verif_thread = thread;
}
namespace std {
using verif_mutex = vs::mutex;
using verif_condition_variable = vs::condition_variable;
using verif_thread = vs::thread;
}
#define mutex verif_mutex
#define condition_variable verif_condition_variable
#define thread verif_thread
