// pool.cpp — implementation side of the C07 / C08 correspondence (tulz::ThreadPool, non-expiring
// workers). Compiled with -include vsched.h together with /repo/src/threading/{ThreadPool,Thread,
// Runnable}.cpp, so the real pool runs on the controlled mutex / condition variable / thread.
//
// Case: header [variant; maxThreadCount], the owner's program (0 = start(new task), 1 = clear(),
// 2 = stop()) as one line, then model labels (PoolModel.plabel): 0 w = worker w takes its next
// step, 1 w = spurious wake-up of worker w, 2 [w] = the owner takes its next step (waking waiter w
// at notify_one). After every label: enabled flag, owner position, m_isRunning, SEP, the worker
// states, SEP, the queued task ids, SEP, the events of the step (1 k w = run() of task k entered
// on worker w, 2 k w = returned, 3 k = task destroyed, 4 w = worker spawned, 5 = stop() returned).
//
// Model-independent monitors (C07): a task's run() is entered at most once, a task is destroyed
// exactly once and never before or during its run(), no run() is entered between the return of
// stop() and the next start(), with one worker tasks run in submission order; (C08): after the
// schedule everything is driven to completion — stop() must return (no deadlock), afterwards
// getThreadCount() == 0, nothing runs, every task is destroyed; the number of workers never
// exceeds the maximum.
#define private public
#define protected public
#include <tulz/threading/ThreadPool.h>
#include <tulz/threading/Thread.h>
#undef private
#undef protected
#include "common.h"

using namespace vh;
using tulz::ThreadPool;

enum { TAG_IDLE = 1, TAG_BEGIN = 2, TAG_END = 3 };

struct Run;
static Run *cur = nullptr;

struct TaskRec { int begun = 0, ended = 0, deleted = 0; bool running = false; bool afterStop = false; };

struct Run {
    ThreadPool *pool = nullptr;
    vs::VThread *owner = nullptr;
    std::vector<int64_t> program;
    size_t pc = 0;
    int ownerCmd = -1;              // command the owner thread executes next (-1 = none, -2 = exit)
    int ownerPos = 0;               // model position of the owner (opc_z)
    std::deque<TaskRec> tasks;          // stable references: tasks are added while others run
    std::vector<Line> events;
    std::vector<int> order;         // run() entry order
    bool stopped = false;           // between the return of stop() and the next start()
    bool everStopped = false;
    int64_t maxw = 4;
    int labelNo = 0;
    size_t maxWorkersSeen = 0;
    std::vector<vs::VThread *> gone;

    void complain(const std::string &m) { oracle_fail("label=" + std::to_string(labelNo) + " " + m); }
    std::vector<vs::VThread *> workers() {
        std::vector<vs::VThread *> w;
        for (auto *t : vs::Sched::get().threads) if (t != owner) w.push_back(t);
        return w;
    }
};

struct Task : tulz::Runnable {
    int k;
    explicit Task(int k) : k(k) {}
    void run() override {
        auto &t = cur->tasks[k];
        int w = vs::self ? vs::self->id - 1 : -1;
        if (++t.begun > 1) cur->complain("C07: run() of task " + std::to_string(k) + " entered a second time");
        if (t.deleted) cur->complain("C07: run() of task " + std::to_string(k) + " entered after the task was destroyed");
        if (cur->stopped) cur->complain("C07: task " + std::to_string(k) + " started running after stop() had returned");
        t.running = true;
        cur->order.push_back(k);
        cur->events.push_back({1, k, w});
        vs::point(TAG_BEGIN);
        t.running = false;
        ++t.ended;
        cur->events.push_back({2, k, w});
        vs::point(TAG_END);
    }
    ~Task() override {
        auto &t = cur->tasks[k];
        if (t.running) cur->complain("C07: task " + std::to_string(k) + " destroyed during its own execution");
        if (++t.deleted > 1) cur->complain("C07: task " + std::to_string(k) + " destroyed twice");
        cur->events.push_back({3, k});
    }
};

static void ownerMain() {
    for (;;) {
        vs::point(TAG_IDLE);
        int c = cur->ownerCmd;
        cur->ownerCmd = -1;
        if (c == -2) return;
        if (c == 0) { int k = (int) cur->tasks.size(); cur->tasks.push_back({}); cur->stopped = false; cur->pool->start(new Task(k)); }
        else if (c == 1) cur->pool->clear();
        else if (c == 2) { cur->pool->stop(); cur->stopped = true; cur->everStopped = true; cur->events.push_back({5}); }
    }
}

// ---- stepping -------------------------------------------------------------------------------
static bool isQueueMutex(const vs::VThread *t) { return t->obj == (const void *) &cur->pool->m_queueMutex; }

// resume t until it reaches a boundary of the model: the queue mutex, cv entry / blocked, pre-notify,
// join, a harness point, or its end; the pool mutex (owner only, never contended) is passed through
static void runToBoundary(vs::VThread *t) {
    for (;;) {
        size_t before = vs::Sched::get().threads.size();
        vs::step(t);
        if (vs::Sched::get().threads.size() > before)
            cur->events.push_back({4, (int64_t) vs::Sched::get().threads.size() - 2});
        if (t->reason == vs::R_WANT_MUTEX && !isQueueMutex(t)) {
            if (!vs::enabled(t)) { cur->complain("blocked on m_poolMutex"); return; }
            continue;
        }
        if (t->reason == vs::R_AFTER_SPAWN) continue; // inside the std::thread constructor: not a boundary of the model
        return;
    }
}

int main() {
    return main_loop([](const Case &c) {
        if (c.lines.size() < 2 || c.lines[0].size() < 2 || c.lines[0].size() > 3) { emit({PRE}); return; }
        emit({});
        emit({});
        vs::Sched::get().reset();
        Run *r = new Run(); // leaked on purpose when threads stay blocked (deadlock)
        cur = r;
        r->maxw = c.lines[0][1];
        r->program = c.lines[1];
        r->pool = new ThreadPool();
        r->pool->setExpiryTimeout(-1);
        r->pool->setMaxThreadCount((int) r->maxw);
        r->owner = vs::spawn(ownerMain);
        vs::step(r->owner); // to its first idle point
        std::map<vs::VThread *, int64_t> running; // worker -> task id at BEGIN/END points
        int pendingCmd = -1;                      // command whose micro-steps are in progress
        bool notifiedInCmd = false;               // the command in progress has passed its notify
        auto state = [&](vs::VThread *t) -> int64_t {
            if (std::find(r->gone.begin(), r->gone.end(), t) != r->gone.end()) return 6;
            switch (t->reason) {
            case vs::R_START: return 0;
            case vs::R_WANT_MUTEX: return 1;
            case vs::R_CV_ENTRY: return 2;
            case vs::R_CV_BLOCKED: return t->notified ? 4 : 3;
            case vs::R_FINISHED: return 5;
            case vs::R_POINT: return (t->tag == TAG_BEGIN ? 100 : 200) + running[t];
            default: return 9;
            }
        };
        auto ownerPos = [&]() -> int64_t {
            auto *o = r->owner;
            switch (o->reason) {
            case vs::R_POINT: return 0;
            case vs::R_PRE_NOTIFY: return o->notifyAll ? 5 : 2;
            case vs::R_JOIN: return 6;
            case vs::R_WANT_MUTEX:
                if (pendingCmd == 0) return 1;
                if (pendingCmd == 1) return 3;
                return notifiedInCmd ? 7 : 4; // stop(): before the flag write / before the final clear()
            default: return 9;
            }
        };
        auto stepWorker = [&](vs::VThread *t) {
            size_t ev0 = r->events.size();
            runToBoundary(t);
            for (size_t i = ev0; i < r->events.size(); ++i)
                if (r->events[i][0] == 1) running[t] = r->events[i][1];
        };
        auto stepOwner = [&](int64_t pick) -> bool {
            auto *o = r->owner;
            if (o->reason == vs::R_POINT) {
                if (r->pc >= r->program.size()) return false;
                pendingCmd = (int) r->program[r->pc++];
                if (pendingCmd < 0 || pendingCmd > 2) return false;
                r->ownerCmd = pendingCmd;
                notifiedInCmd = false;
                runToBoundary(o);
                return true;
            }
            if (o->reason == vs::R_WANT_MUTEX) { if (!vs::enabled(o)) return false; runToBoundary(o); return true; }
            if (o->reason == vs::R_PRE_NOTIFY) {
                if (!o->notifyAll) {
                    // notify_one: the label names the waiter (or none when nobody waits unnotified)
                    auto ws = r->workers();
                    bool anyWaiting = false;
                    for (auto *w : ws) if (w->reason == vs::R_CV_BLOCKED && !w->notified) anyWaiting = true;
                    if (pick < 0) { if (anyWaiting) return false; }
                    else {
                        if ((size_t) pick >= ws.size() || ws[pick]->reason != vs::R_CV_BLOCKED || ws[pick]->notified) return false;
                        vs::Sched::get().notifyChoice = ws[pick]->id;
                    }
                }
                notifiedInCmd = true;
                runToBoundary(o);
                return true;
            }
            if (o->reason == vs::R_JOIN) {
                if (!vs::enabled(o)) return false;
                auto *target = (vs::VThread *) o->obj;
                runToBoundary(o);
                r->gone.push_back(target);
                return true;
            }
            return false;
        };
        auto emitState = [&](bool en, size_t ev0) {
            Line out = {en ? 1 : 0, ownerPos(), r->pool->m_isRunning ? 1 : 0, SEP};
            for (auto *w : r->workers()) out.push_back(state(w));
            out.push_back(SEP);
            for (auto *q : r->pool->m_queue) out.push_back(static_cast<Task *>(q)->k);
            out.push_back(SEP);
            if (en) for (size_t i = ev0; i < r->events.size(); ++i) out.insert(out.end(), r->events[i].begin(), r->events[i].end());
            emit(out);
            r->maxWorkersSeen = std::max(r->maxWorkersSeen, r->pool->m_pool.size());
            if (r->maxw >= 0 && (int64_t) r->pool->m_pool.size() > r->maxw)
                r->complain("C08: " + std::to_string(r->pool->m_pool.size()) + " worker threads although the maximum is " + std::to_string(r->maxw));
        };
        if (c.lines[0][0] == 2) {
            // free exploration (failing-input search only): header [2; max; seed]; every scheduling point of every
            // thread is a choice, drawn from the seed; only the monitors judge
            uint64_t rs = (uint64_t) (c.lines[0].size() > 2 ? c.lines[0][2] : 1) * 0x9E3779B97F4A7C15ULL + 12345;
            auto rnd = [&]() { rs ^= rs << 13; rs ^= rs >> 7; rs ^= rs << 17; return rs; };
            for (long guard = 0; guard < 20000; ++guard) {
                std::vector<vs::VThread *> en;
                auto *o = r->owner;
                if (o->reason == vs::R_POINT ? r->pc < r->program.size() : (o->reason != vs::R_FINISHED && vs::enabled(o))) en.push_back(o);
                for (auto *w : r->workers()) if (w->reason != vs::R_FINISHED && vs::enabled(w)) en.push_back(w);
                if (en.empty()) break;
                auto *t = en[rnd() % en.size()];
                if (t == o && o->reason == vs::R_POINT && rnd() % 3 == 0) {
                    // quiescence probe before the next owner call: let the workers run until none can; every
                    // task submitted so far must then have been taken (C07: executed unless stopped or cleared first)
                    for (long g2 = 0; g2 < 5000; ++g2) {
                        vs::VThread *w2 = nullptr;
                        for (auto *w : r->workers()) if (w->reason != vs::R_FINISHED && vs::enabled(w)) { w2 = w; break; }
                        if (!w2) break;
                        size_t e0 = r->events.size();
                        vs::step(w2);
                        for (size_t i = e0; i < r->events.size(); ++i) if (r->events[i][0] == 1) running[w2] = r->events[i][1];
                    }
                    if (!r->pool->m_queue.empty() && !r->stopped && r->everStopped && r->maxw != 0)
                        r->complain("C08: a start() after stop() does not work again: the submitted task is never taken although the pool was neither stopped nor cleared since");
                    if (!r->pool->m_queue.empty() && !r->stopped && r->maxw != 0)   // (with a maximum of 0 threads nothing ever runs: outside C07)
                        r->complain("C07: " + std::to_string(r->pool->m_queue.size()) + " submitted task(s) are still queued although no worker can make progress and the pool was neither stopped nor cleared (" +
                                    std::to_string(r->pool->getThreadCount()) + " thread(s), " + std::to_string(r->pool->getActiveThreadCount()) + " active)");
                }
                if (t == o && o->reason == vs::R_POINT) {
                    pendingCmd = (int) r->program[r->pc++];
                    if (pendingCmd < 0 || pendingCmd > 2) continue;
                    r->ownerCmd = pendingCmd;
                }
                vs::Sched::get().notifyChoice = -1;
                auto *target = (t->reason == vs::R_JOIN) ? (vs::VThread *) t->obj : nullptr;
                size_t ev0 = r->events.size();
                vs::step(t);
                if (target) r->gone.push_back(target);
                for (size_t i = ev0; i < r->events.size(); ++i) if (r->events[i][0] == 1) running[t] = r->events[i][1];
                if (r->maxw >= 0 && (int64_t) r->pool->m_pool.size() > r->maxw) r->complain("C08: more worker threads than the maximum");
            }
            // a task submitted after the last stop()/clear() and never run or destroyed is reported below
        }
        for (size_t li = 2; li < c.lines.size() && c.lines[0][0] != 2; ++li) {
            const Line &l = c.lines[li];
            r->labelNo = (int) li - 1;
            size_t ev0 = r->events.size();
            bool en = false;
            auto ws = r->workers();
            if (l.size() == 2 && l[0] == 0 && l[1] >= 0) {
                if ((size_t) l[1] < ws.size() && vs::enabled(ws[l[1]]) && ws[l[1]]->reason != vs::R_FINISHED &&
                    !(ws[l[1]]->reason == vs::R_CV_BLOCKED && !ws[l[1]]->notified)) { stepWorker(ws[l[1]]); en = true; }
            } else if (l.size() == 2 && l[0] == 1 && l[1] >= 0) {
                if ((size_t) l[1] < ws.size() && ws[l[1]]->reason == vs::R_CV_BLOCKED && !ws[l[1]]->notified) { ws[l[1]]->notified = true; en = true; }
            } else if (l.size() >= 1 && l[0] == 2 && l.size() <= 2) {
                en = stepOwner(l.size() == 2 ? l[1] : -1);
            } else { emit({PRE}); continue; }
            emitState(en, ev0);
        }
        // ---- drive everything to completion (C08: stop() must return) -------------------------
        r->labelNo = -1;
        bool endsWithStop = !r->program.empty() && r->program.back() == 2;
        for (long guard = 0; guard < 200000; ++guard) {
            bool progressed = false;
            auto *o = r->owner;
            if (o->reason == vs::R_POINT && r->pc < r->program.size()) { stepOwner(-1); progressed = true; }
            else if (o->reason != vs::R_POINT && o->reason != vs::R_FINISHED && vs::enabled(o)) {
                if (o->reason == vs::R_PRE_NOTIFY) {
                    vs::Sched::get().notifyChoice = -1; notifiedInCmd = true; runToBoundary(o);
                } else if (o->reason == vs::R_JOIN) { auto *t = (vs::VThread *) o->obj; runToBoundary(o); r->gone.push_back(t); }
                else runToBoundary(o);
                progressed = true;
            }
            if (!progressed)
                for (auto *w : r->workers())
                    if (w->reason != vs::R_FINISHED && vs::enabled(w)) { stepWorker(w); progressed = true; break; }
            if (!progressed) break;
        }
        if (!endsWithStop) return; // nothing to judge: workers legitimately stay blocked
        if (r->owner->reason != vs::R_POINT) {
            r->complain(std::string("C08: stop() does not return: the owner is blocked at ") + vs::reasonName(r->owner->reason) +
                        " and no thread can make progress (a worker missed the shutdown notification)");
            return;
        }
        if (r->pool->getThreadCount() != 0) r->complain("C08: getThreadCount() != 0 after stop() returned");
        for (size_t k = 0; k < r->tasks.size(); ++k) {
            auto &t = r->tasks[k];
            if (t.running) r->complain("C08: task " + std::to_string(k) + " is still running after stop() returned");
            if (t.deleted == 0) r->complain("C07: C08: task " + std::to_string(k) + " was never destroyed although stop() has returned");
            else if (t.deleted != 1) r->complain("C07: task " + std::to_string(k) + " was destroyed " + std::to_string(t.deleted) + " times");
            if (t.begun != t.ended) r->complain("C07: task " + std::to_string(k) + " began but did not end");
        }
        if (r->maxw == 1) {
            for (size_t i = 1; i < r->order.size(); ++i)
                if (r->order[i] < r->order[i - 1]) r->complain("C07: with one worker, task " + std::to_string(r->order[i]) + " ran after task " + std::to_string(r->order[i - 1]));
        }
        r->ownerCmd = -2;
        vs::step(r->owner);
        for (auto *t : vs::Sched::get().threads) vs::reap(t);
        delete r->pool;
        delete r;
    }, 30, 16);
}
