// subject.cpp — implementation side of the C05 / C10 correspondence (tulz::Subject, Subscription,
// Observer, EternalObserver, the observer factories).
//
// Case: header [variant; nsubjects; nscripts; signature], nscripts script lines (flat lists of
// length-prefixed actions), then one operation per line (see SubjectModel.v: action_of/op_of).
// Callbacks execute their script against the same Subjects, so re-entrancy is exercised on the
// real code. After every operation the driver prints: returned values, SEP, the events of the
// operation (1 o arg = callback of observer o ran with arg; 2 o = observer object o destroyed),
// SEP, isValid()/isMuted() of every handle, SEP, hasSubscriptions() of every Subject.
//
// Model-independent oracle: a reference simulation on plain records (no pointers) executes the
// same operations and scripts; the call log of every operation must equal the reference's, and
// handle validity must agree. Destruction is watched by tokens (double destruction, leaks at
// the end of the case) and by ASan/LSan.
#include "common.h"
#include <tulz/observer/Subject.h>
#include <deque>
#include <map>
#include <optional>
#include <memory>

using namespace vh;

static std::string enc(int64_t v) { return "value-" + std::to_string(v) + "-" + std::string(40, 'x'); }
static int64_t dec(const std::string &s) {
    if (s.size() < 48 || s.compare(0, 6, "value-") != 0) return -424242;
    return strtoll(s.c_str() + 6, nullptr, 10);
}

struct Action { int64_t code; int64_t a = 0, b = 0; };
struct FuelOut {};   // notifications nested deeper than the model's fuel: the case ends here on both sides

static std::optional<Action> actionOf(const Line &l) {
    if (l.empty()) return std::nullopt;
    switch (l[0]) {
    case 0: if (l.size() == 3) return Action{0, l[1], l[2]}; break;
    case 1: case 2: case 3: case 4: if (l.size() == 2) return Action{l[0], l[1]}; break;
    case 5: if (l.size() == 1) return Action{5}; break;
    case 6: if (l.size() == 3) return Action{6, l[1], l[2]}; break;
    }
    return std::nullopt;
}

static std::vector<Action> scriptOf(const Line &l) {
    std::vector<Action> out;
    size_t i = 0;
    while (i < l.size()) {
        int64_t n = l[i++];
        Line chunk;
        for (int64_t k = 0; k < n && i < l.size(); ++k) chunk.push_back(l[i++]);
        if (auto a = actionOf(chunk)) out.push_back(*a);
    }
    return out;
}

// ---- reference simulation (the oracle) ---------------------------------------------------
struct Ref {
    struct Rec { int64_t sid; int64_t o; bool valid = true, muted = false; int64_t script; };
    std::vector<std::vector<Rec>> subjects;
    std::vector<int64_t> counters;
    std::vector<std::optional<std::pair<int64_t, int64_t>>> handles; // (subject, sid)
    std::vector<std::vector<Action>> scripts;
    int64_t nextObs = 0;
    std::vector<std::pair<int64_t, int64_t>> calls;
    bool zeroArgs = false;

    Rec *find(int64_t k, int64_t sid) {
        for (auto &r : subjects[k]) if (r.sid == sid) return &r;
        return nullptr;
    }
    bool valid(int64_t h) { return handles[h] && find(handles[h]->first, handles[h]->second); }
    void remove(int64_t k, int64_t sid) {
        auto &v = subjects[k];
        v.erase(std::remove_if(v.begin(), v.end(), [&](const Rec &r) { return r.sid == sid; }), v.end());
    }
    void act(const Action &a, int64_t self, int depth) {
        if ((a.code == 0 || a.code == 6) && !(a.a >= 0 && (size_t) a.a < subjects.size() && counters[a.a] >= 0)) return;
        if (a.code >= 1 && a.code <= 4 && !(a.a >= 0 && (size_t) a.a < handles.size())) return;
        switch (a.code) {
        case 0: {
            int64_t sid = counters[a.a]++;
            subjects[a.a].push_back({sid, nextObs++, true, false, a.b});
            handles.push_back(std::make_pair(a.a, sid));
            break;
        }
        case 1: if (valid(a.a)) { remove(handles[a.a]->first, handles[a.a]->second); handles[a.a].reset(); } break;
        case 2: if (valid(a.a)) find(handles[a.a]->first, handles[a.a]->second)->muted = true; break;
        case 3: if (valid(a.a)) find(handles[a.a]->first, handles[a.a]->second)->muted = false; break;
        case 4: if (valid(a.a)) find(handles[a.a]->first, handles[a.a]->second)->valid = false; break;
        case 5:
            if (self >= 0)
                for (auto &s : subjects) for (auto &r : s) if (r.o == self) r.valid = false;
            break;
        case 6: notify(a.a, zeroArgs ? 0 : a.b, depth + 1); break;
        }
    }
    void notify(int64_t k, int64_t arg, int depth) {
        if (depth > 6) return;
        std::vector<int64_t> snap;
        for (auto &r : subjects[k]) snap.push_back(r.sid);
        for (int64_t sid : snap) {
            Rec *r = find(k, sid);
            if (!r) continue; // removed before its turn: skipped
            if (r->valid && !r->muted) {
                calls.push_back({r->o, arg});
                int64_t o = r->o, sc = r->script;
                if (sc >= 0 && sc < (int64_t) scripts.size())
                    for (auto &a : scripts[sc]) act(a, o, depth);
            }
            r = find(k, sid);
            if (r && !r->valid) remove(k, sid); // lazy removal of an invalidated observer
        }
    }
};

// ---- the real thing ------------------------------------------------------------------------
struct Token {
    int64_t o;
    std::vector<Line> *events;
    std::vector<int> *freed;
    ~Token() {
        events->push_back({2, o});
        if ((*freed)[o]++) oracle_fail("observer object " + std::to_string(o) + " destroyed twice");
    }
};

template<typename... Args>
struct Sig;
template<> struct Sig<> {
    static void notify(tulz::Subject<> &s, int64_t) { s.notify(); }
    template<typename F> static auto cb(F f) { return [f]() { f(0); }; }
    template<typename F> static auto cbSelf(F f) { return [f](typename tulz::Observer<>::SelfView) { f(0); }; }
};
template<> struct Sig<int> {
    static void notify(tulz::Subject<int> &s, int64_t v) { s.notify((int) v); }
    template<typename F> static auto cb(F f) { return [f](int v) { f(v); }; }
    template<typename F> static auto cbSelf(F f) { return [f](typename tulz::Observer<int>::SelfView, int v) { f(v); }; }
};
template<> struct Sig<const std::string &> {
    static void notify(tulz::Subject<const std::string &> &s, int64_t v) { s.notify(enc(v)); }
    template<typename F> static auto cb(F f) { return [f](const std::string &v) { f(dec(v)); }; }
    template<typename F> static auto cbSelf(F f) {
        return [f](typename tulz::Observer<const std::string &>::SelfView, const std::string &v) { f(dec(v)); };
    }
};
template<> struct Sig<int, std::string> {
    static void notify(tulz::Subject<int, std::string> &s, int64_t v) { s.notify((int) v, enc(v)); }
    template<typename F> static auto cb(F f) { return [f](int a, std::string v) { f(dec(v) == a ? a : -424243); }; }
    template<typename F> static auto cbSelf(F f) {
        return [f](typename tulz::Observer<int, std::string>::SelfView, int a, std::string v) { f(dec(v) == a ? a : -424243); };
    }
};
template<> struct Sig<std::string> {
    static void notify(tulz::Subject<std::string> &s, int64_t v) { s.notify(enc(v)); }
    template<typename F> static auto cb(F f) { return [f](std::string v) { f(dec(v)); }; }
    template<typename F> static auto cbSelf(F f) {
        return [f](typename tulz::Observer<std::string>::SelfView, std::string v) { f(dec(v)); };
    }
};

template<typename... Args>
struct Runner {
    using Subject_t = tulz::Subject<Args...>;
    using Subscription_t = tulz::Subscription<Args...>;
    using Observer_t = tulz::Observer<Args...>;
    using S = Sig<Args...>;

    struct TrackedObserver : tulz::EternalObserver<Args...> {
        std::shared_ptr<Token> tok;
        TrackedObserver(typename Observer_t::Func f, std::shared_ptr<Token> t)
            : tulz::EternalObserver<Args...>(std::move(f)), tok(std::move(t)) {}
    };

    std::vector<std::unique_ptr<Subject_t>> subjects;
    std::deque<Subscription_t> handles;
    std::vector<Observer_t *> obsPtr;
    std::vector<std::vector<Action>> scripts;
    std::vector<Line> events;
    std::vector<int> freed;
    bool zeroArgs = false;
    int nesting = 0;

    void runScript(int64_t o, int64_t sc) {
        if (sc < 0 || sc >= (int64_t) scripts.size()) return;
        // copy: the std::function that owns this frame may be destroyed by the script (upstream code)
        std::vector<Action> acts = scripts[sc];
        for (auto &a : acts) act(a, o);
    }

    void act(const Action &a, int64_t self) {
        // a script that refers to a missing Subject / handle skips the action
        auto okH = [&](int64_t h) { return h >= 0 && (size_t) h < handles.size(); };
        auto okS = [&](int64_t k) { return k >= 0 && (size_t) k < subjects.size() && subjects[k]; };
        if ((a.code == 0 || a.code == 6) && !okS(a.a)) return;
        if (a.code >= 1 && a.code <= 4 && !okH(a.a)) return;
        switch (a.code) {
        case 0: {
            int64_t o = (int64_t) obsPtr.size();
            obsPtr.push_back(nullptr);
            freed.push_back(0);
            auto tok = std::shared_ptr<Token>(new Token{o, &events, &freed});
            int64_t sc = a.b;
            auto body = [this, o, sc, tok](int64_t v) {
                events.push_back({1, o, v});
                runScript(o, sc);
            };
            auto &subj = *subjects[a.a];
            switch (o % 3) {
            case 0: handles.push_back(subj.subscribe(S::cb(body))); break;
            case 1: handles.push_back(subj.subscribe(S::cbSelf(body))); break;
            default: {
                std::weak_ptr<Token> weak = tok;
                auto body2 = [this, o, sc](int64_t v) {
                    events.push_back({1, o, v});
                    runScript(o, sc);
                };
                handles.push_back(subj.subscribe(new TrackedObserver(S::cb(body2), std::move(tok))));
                break;
            }
            }
            obsPtr[o] = handles.back().getObserver();
            break;
        }
        case 1: if (handles[a.a].isValid()) handles[a.a].unsubscribe(); break;
        case 2: if (handles[a.a].isValid()) handles[a.a].mute(); break;
        case 3: if (handles[a.a].isValid()) handles[a.a].unmute(); break;
        case 4: if (handles[a.a].isValid()) handles[a.a].getObserver()->invalidate(); break;
        case 5: if (self >= 0) obsPtr[self]->invalidate(); break;
        case 6: {
            if (nesting >= 6) throw FuelOut{};
            struct N { int &n; N(int &n): n(n) { ++n; } ~N() { --n; } } guard{nesting};
            S::notify(*subjects[a.a], zeroArgs ? 0 : a.b);
            break;
        }
        }
    }

    bool refsOk(const Line &l, size_t nh, size_t ns) {
        auto okH = [&](int64_t h) { return h >= 0 && (size_t) h < nh; };
        auto okS = [&](int64_t k) { return k >= 0 && (size_t) k < ns && subjects[k]; };
        switch (l[0]) {
        case 0: return l.size() == 3 && okS(l[1]);
        case 1: case 2: case 3: case 4: return l.size() == 2 && okH(l[1]);
        case 5: return l.size() == 1;
        case 6: return l.size() == 3 && okS(l[1]);
        case 7: return l.size() == 3 && okS(l[1]) && okH(l[2]);
        case 8: return l.size() == 3 && okH(l[1]) && okH(l[2]);
        case 10: return l.size() == 2 && okS(l[1]);
        }
        return false;
    }

    void run(const Case &c) {
        int ns = (int) c.lines[0][1], nscr = (int) c.lines[0][2];
        zeroArgs = c.lines[0][3] == 0;
        Ref ref;
        ref.zeroArgs = zeroArgs;
        for (int i = 0; i < ns; ++i) { subjects.push_back(std::make_unique<Subject_t>()); ref.subjects.emplace_back(); ref.counters.push_back(0); }
        for (int i = 0; i < nscr; ++i) scripts.push_back(scriptOf(c.lines[1 + i]));
        ref.scripts = scripts;
        for (size_t i = 1 + nscr; i < c.lines.size(); ++i) {
            const Line &l = c.lines[i];
            if (l.empty() || !refsOk(l, handles.size(), subjects.size())) { emit({PRE}); continue; }
            events.clear();
            ref.calls.clear();
            Line ret;
            switch (l[0]) {
            case 7: {
                bool threw = false;
                try { subjects[l[1]]->unsubscribe(handles[l[2]]); }
                catch (const std::invalid_argument &) { threw = true; }
                ret.push_back(threw ? 1 : 0);
                // reference
                bool rv = ref.handles[l[2]] && ref.handles[l[2]]->first == l[1] && ref.valid(l[2]);
                if (rv) { ref.remove(l[1], ref.handles[l[2]]->second); ref.handles[l[2]].reset(); }
                if (rv == threw) oracle_fail(std::string("C05: Subject::unsubscribe(handle) ") + (threw ? "threw for a valid handle of this Subject" : "accepted a stale or foreign handle"));
                break;
            }
            case 8:
                if (l[1] != l[2]) {
                    handles[l[1]] = std::move(handles[l[2]]);
                    std::swap(ref.handles[l[1]], ref.handles[l[2]]);
                }
                break;
            case 10:
                subjects[l[1]].reset();
                ref.subjects[l[1]].clear();
                ref.counters[l[1]] = -1;
                break;
            default: {
                Action a = *actionOf(l);
                try { act(a, -1); }
                catch (const FuelOut &) { emit({-777002}); handles.clear(); subjects.clear(); return; }
                ref.act(a, -1, 0);
            }
            }
            Line out = ret;
            out.push_back(SEP);
            std::vector<std::pair<int64_t, int64_t>> calls;
            for (auto &e : events) {
                out.insert(out.end(), e.begin(), e.end());
                if (e[0] == 1) calls.push_back({e[1], e[2]});
            }
            out.push_back(SEP);
            for (size_t h = 0; h < handles.size(); ++h) {
                bool subjAlive = handles[h].getSubject() == nullptr;
                for (auto &s : subjects) if (s.get() == handles[h].getSubject()) subjAlive = true;
                bool v = subjAlive && handles[h].isValid();
                out.push_back(v ? 1 : 0);
                if (v) out.push_back(handles[h].isMuted() ? 1 : 0);
                bool rv = ref.valid((int64_t) h) && subjects[ref.handles[h]->first];
                if (rv != v) oracle_fail("C05: handle " + std::to_string(h) + " reports isValid()=" + std::to_string(v) + " but the reference says " + std::to_string(rv));
                else if (v && handles[h].isMuted() != ref.find(ref.handles[h]->first, ref.handles[h]->second)->muted)
                    oracle_fail("C05: handle " + std::to_string(h) + " reports a wrong mute state");
            }
            out.push_back(SEP);
            for (auto &s : subjects) out.push_back(s ? (s->hasSubscriptions() ? 1 : 0) : 0);
            emit(out);
            if (calls != ref.calls) {
                std::string m = "calls made:";
                for (auto &p : calls) m += " " + std::to_string(p.first) + "(" + std::to_string(p.second) + ")";
                m += " expected:";
                for (auto &p : ref.calls) m += " " + std::to_string(p.first) + "(" + std::to_string(p.second) + ")";
                oracle_fail(std::string(l[0] == 6 && nscr == 0 ? "C05" : "C10") + ": notification delivered to the wrong observers / arguments / order: " + m);
            }
        }
        // end of case: destroy everything; every observer must have been destroyed exactly once
        handles.clear();
        subjects.clear();
        for (size_t o = 0; o < freed.size(); ++o)
            if (freed[o] != 1) oracle_fail("end of case: observer object " + std::to_string(o) + " destroyed " + std::to_string(freed[o]) + " times");
    }
};

int main() {
    return main_loop([](const Case &c) {
        if (c.lines.empty() || c.lines[0].size() < 4 || (size_t) c.lines[0][2] + 1 > c.lines.size()) { emit({PRE}); return; }
        emit({});
        switch (c.lines[0][3]) {
        case 0: { Runner<> r; r.run(c); break; }
        case 1: { Runner<int> r; r.run(c); break; }
        case 2: { Runner<const std::string &> r; r.run(c); break; }
        case 3: { Runner<int, std::string> r; r.run(c); break; }
        default: { Runner<std::string> r; r.run(c); break; }
        }
    }, 20, 64);
}
