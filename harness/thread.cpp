// thread.cpp — implementation side of the C20 correspondence (tulz::Thread).
// Compiled with -include vsched.h together with /repo/src/threading/{Thread,Runnable}.cpp: the
// std::thread inside tulz::Thread is the controlled one, so the new thread runs exactly when the
// schedule says — in particular long after start() has returned and the starter has reused its stack.
//
// Case: header [variant; callable kind], then labels: 0 = the starter takes its next step
// (call start(), reuse the stack and call join(), complete join()), 1 = the new thread takes its
// next step (enter the callable, leave it and finish). After every label: enabled flag, starter
// position, new-thread position, number of invocations, isFinished(), Runnable deletions.
//
// Model-independent oracle: the callable objects carry a liveness canary that is poisoned in
// their destructor: an invocation on a destroyed or overwritten object is reported (and
// AddressSanitizer with detect_stack_use_after_return catches the function-pointer case);
// isFinished() must be false until the callable has returned; join() must not return before;
// the callable must have run exactly once when join() has returned.
#include "common.h"
#include <tulz/threading/Thread.h>

using namespace vh;

enum { TAG_IDLE = 1, TAG_AFTER_START = 2, TAG_JOINED = 3, TAG_IN_CALLABLE = 4 };
static const uint64_t LIVE = 0x11C0FFEE11C0FFEEULL, DEAD = 0xDEADDEADDEADDEADULL;

struct Shared {
    int invoked = 0, returned = 0, deleted = 0;
    bool badCanary = false;
    int argSeen = 0;
} *sh = nullptr;

template<size_t N>
struct Canary {
    uint64_t magic = LIVE;
    unsigned char payload[N];
    Canary() { memset(payload, 0x5A, N); }
    Canary(const Canary &o) : magic(o.magic == LIVE ? LIVE : DEAD) { memcpy(payload, o.payload, N); }
    ~Canary() { magic = DEAD; memset(payload, 0xEE, N); }
    void operator()(int &arg) const {
        ++sh->invoked;
        bool ok = magic == LIVE;
        for (size_t i = 0; i < N; ++i) if (payload[i] != 0x5A) ok = false;
        if (!ok) { sh->badCanary = true; oracle_fail("C20: the callable object was already destroyed (or overwritten) when the new thread invoked it"); }
        sh->argSeen = arg;
        vs::point(TAG_IN_CALLABLE);
        ++sh->returned;
    }
};

// two functions of the same type: successive cases of one process hand different ones to start()
static int expectedFn = 0;
static void plainFunction(int &arg) {
    ++sh->invoked;
    if (expectedFn != 1) oracle_fail("C20: the function that runs is not the one that was handed to start()");
    sh->argSeen = arg;
    vs::point(TAG_IN_CALLABLE);
    ++sh->returned;
}
static void otherFunction(int &arg) {
    ++sh->invoked;
    if (expectedFn != 2) oracle_fail("C20: the function that runs is not the one that was handed to start()");
    sh->argSeen = arg;
    vs::point(TAG_IN_CALLABLE);
    ++sh->returned;
}

struct Job : tulz::Runnable {
    uint64_t magic = LIVE;
    void run() override {
        ++sh->invoked;
        if (magic != LIVE) oracle_fail("C20: run() on a destroyed Runnable");
        vs::point(TAG_IN_CALLABLE);
        ++sh->returned;
    }
    ~Job() override { magic = DEAD; ++sh->deleted; }
};

static __attribute__((noinline)) void clobberStack() {
    volatile unsigned char junk[4096];
    for (size_t i = 0; i < sizeof(junk); ++i) junk[i] = (unsigned char) (0xC3 ^ i);
    asm volatile("" ::: "memory");
}

static int kind = 0;
static tulz::Thread *theThread = nullptr;

template<typename C> static __attribute__((noinline)) void startWith(tulz::Thread &t, int &arg) {
    C callable;                  // the caller's callable: a local of this frame, gone when we return
    t.start(callable, arg);      // start() takes it by value
}

// the same through the constructor Thread(callable, args...): the object is built in raw storage that is not zero
template<typename C> static __attribute__((noinline)) tulz::Thread *constructWith(void *storage, int &arg) {
    C callable;
    return new (storage) tulz::Thread(callable, arg);
}

static bool viaConstructor = false;   // alternates between the cases of a process

static void starterMain() {
    vs::point(TAG_IDLE);
    alignas(tulz::Thread) unsigned char storage[sizeof(tulz::Thread)];
    memset(storage, 0xA5, sizeof storage);
    int arg = 4242;              // caller-owned lvalue argument, alive until after join()
    tulz::Thread *tp;
    viaConstructor = !viaConstructor;
    if (viaConstructor && kind != 3) {
        theThread = reinterpret_cast<tulz::Thread *>(storage);     // members are initialised before the constructor body starts the thread
        switch (kind) {
        case 0: tp = constructWith<Canary<8>>(storage, arg); break;
        case 1: tp = constructWith<Canary<256>>(storage, arg); break;
        default: expectedFn = expectedFn == 1 ? 2 : 1; tp = expectedFn == 1 ? new (storage) tulz::Thread(&plainFunction, arg) : new (storage) tulz::Thread(&otherFunction, arg); break;
        }
    } else {
        tp = new (storage) tulz::Thread();
        theThread = tp;
        if (tp->isJoinable()) oracle_fail("C20: a Thread that was never started reports isJoinable()");
        switch (kind) {
        case 0: startWith<Canary<8>>(*tp, arg); break;
        case 1: startWith<Canary<256>>(*tp, arg); break;
        case 2: expectedFn = expectedFn == 1 ? 2 : 1; if (expectedFn == 1) tp->start(&plainFunction, arg); else tp->start(&otherFunction, arg); break;
        default: tp->start(new Job()); break;
        }
    }
    tulz::Thread &t = *tp;
    if (!t.isJoinable()) oracle_fail("C20: after start() the Thread is not joinable");
    vs::point(TAG_AFTER_START);
    clobberStack();
    t.join();
    if (!t.isFinished() || t.isRunning()) oracle_fail("C20: join() has returned but isFinished() is false / isRunning() is true");
    if (t.isJoinable()) oracle_fail("C20: the Thread is still joinable after join() returned");
    vs::point(TAG_JOINED);
    theThread = nullptr;
    t.~Thread();
}

int main() {
    return main_loop([](const Case &c) {
        if (c.lines.empty() || c.lines[0].size() != 2) { emit({PRE}); return; }
        emit({});
        vs::Sched::get().reset();
        sh = new Shared();
        kind = (int) c.lines[0][1];
        auto *starter = vs::spawn(starterMain);
        vs::step(starter);
        auto newThread = [&]() -> vs::VThread * {
            for (auto *t : vs::Sched::get().threads) if (t != starter) return t;
            return nullptr;
        };
        auto spc = [&]() -> int64_t {
            if (starter->reason == vs::R_POINT) return starter->tag == TAG_IDLE ? 0 : starter->tag == TAG_AFTER_START ? 2 : 4;
            if (starter->reason == vs::R_AFTER_SPAWN) return 1;   // inside start(): the thread exists, start() has not returned
            if (starter->reason == vs::R_JOIN) return 3;
            return starter->reason == vs::R_FINISHED ? 4 : 9;
        };
        auto npc = [&]() -> int64_t {
            auto *n = newThread();
            if (!n || n->reason == vs::R_START) return 0;
            if (n->reason == vs::R_POINT) return 1;
            return n->finished ? 2 : 9;
        };
        auto check = [&]() {
            bool fin = theThread ? theThread->isFinished() : (sh->returned > 0);
            if (fin && sh->returned == 0) oracle_fail("C20: isFinished() is true before the callable has returned");
            if (spc() == 4 && (sh->invoked != 1 || sh->returned != 1)) oracle_fail("C20: join() returned but the callable ran " + std::to_string(sh->invoked) + " time(s)");
            if (sh->invoked > 1) oracle_fail("C20: the callable was invoked more than once");
            if (kind == 3 && sh->deleted > 1) oracle_fail("C20: the Runnable was deleted twice");
            if (kind != 3 && sh->invoked == 1 && sh->argSeen != 4242) oracle_fail("C20: the callable received a wrong argument value");
            return fin;
        };
        for (size_t li = 1; li < c.lines.size(); ++li) {
            const Line &l = c.lines[li];
            bool en = false;
            if (l.size() == 1 && l[0] == 0) {
                if (starter->reason != vs::R_FINISHED && vs::enabled(starter) && spc() != 4) { vs::step(starter); en = true; }
            } else if (l.size() == 1 && l[0] == 1) {
                auto *n = newThread();
                if (n && !n->finished && vs::enabled(n)) { vs::step(n); en = true; }
            } else { emit({PRE}); continue; }
            bool fin = check();
            emit({en ? 1 : 0, spc(), npc(), sh->invoked, fin ? 1 : 0, sh->deleted});
        }
        // drive to the end
        for (int guard = 0; guard < 100; ++guard) {
            auto *n = newThread();
            if (n && !n->finished && vs::enabled(n)) { vs::step(n); check(); continue; }
            if (starter->reason != vs::R_FINISHED && vs::enabled(starter)) { vs::step(starter); check(); continue; }
            break;
        }
        if (!starter->finished) { oracle_fail("C20: the starter never completes join()"); return; }
        if (sh->invoked != 1 || sh->returned != 1) oracle_fail("C20: the callable ran " + std::to_string(sh->invoked) + " time(s) in total");
        if (kind == 3 && sh->deleted != 1) oracle_fail("C20: the Runnable was deleted " + std::to_string(sh->deleted) + " time(s)");
        for (auto *t : vs::Sched::get().threads) vs::reap(t);
        delete sh;
    }, 20, 32);
}
