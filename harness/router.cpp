// router.cpp — implementation side of the C06 / C13 correspondence (tulz::SubjectRouter and
// tulz::ConcurrentSubjectRouter used from one thread).
//
// Case: header [variant; nregex; signature; router kind (0 = SubjectRouter, 1 = Concurrent)],
// nregex lines (the names regex i of the table below fully matches, computed by the generator
// with an independent regex engine; checked here against std::regex_match), then operations
// (see RouterModel.v: rop_of). After every operation: returned values, SEP, the calls made
// (observer, received value).
//
// Model-independent oracle: a flat list of the recorded subscriptions. notify(pattern) must
// invoke exactly the present, valid, unmuted observers whose key has the pattern's length and
// matches it level by level, in key order then subscription order, each once, each with the
// value passed; its result lies between the number of matched keys with a present subscription
// and the number of matched keys ever subscribed; exists / depth lie between what the present
// subscriptions force and what the keys ever subscribed allow (shrink may only remove dead keys).
#include "common.h"
#include <tulz/observer/routing/SubjectRouter.h>
#include <tulz/observer/routing/ConcurrentSubjectRouter.h>
#include <tulz/observer/routing/RoutingKeyBuilder.h>
#include <deque>
#include <set>

using namespace vh;

// level names are arbitrary strings: the last two contain a NUL byte (a regex level is a full match on the whole name)
static const std::string NAMES[] = {"", "a", "ab", "abc", "b", "ba", "bar", "baz", "foo", "qux", "x1", "zz",
                                    std::string("zz\0", 3), std::string("zz\0y", 4)};   // (ids follow the byte-wise order of the names)
static const int NNAMES = 14;
static const char *REGEXES[] = {".*", "a.*", "ba[rz]", "b.*", "(foo|qux)", ".", "ab?c?", "[a-f].*", ".+z", "x1|zz|a", "b", "q",
                                "zz", "zz.y", "zz."};
static const int NREGEX = 15;

static std::string enc(int64_t v) { return "value-" + std::to_string(v) + "-" + std::string(40, 'x'); }
static int64_t dec(const std::string &s) {
    if (s.size() < 48 || s.compare(0, 6, "value-") != 0) return -424242;
    return strtoll(s.c_str() + 6, nullptr, 10);
}

struct Lvl { bool rx; int64_t id; };
using Pattern = std::vector<Lvl>;

static bool parsePattern(const Line &l, size_t from, int nrx, Pattern &p) {
    for (size_t i = from; i < l.size();) {
        if (l[i] == 0 && i + 1 < l.size()) { p.push_back({false, l[i + 1]}); i += 2; }
        else if (l[i] == 1 && i + 1 < l.size()) { if (l[i + 1] < 0 || l[i + 1] >= nrx) return false; p.push_back({true, l[i + 1]}); i += 2; }
        else if (l[i] == 2) { p.push_back({true, 0}); i += 1; }
        else return false;
    }
    return true;
}

static tulz::RoutingKey buildKey(const Pattern &p) {
    tulz::RoutingKeyBuilder b;
    for (auto &l : p) {
        if (!l.rx) b.level(l.id >= 0 && l.id < NNAMES ? std::string(NAMES[l.id]) : "name" + std::to_string(l.id));
        else if (l.id == 0) b.all();
        else b.level(std::regex(REGEXES[l.id]));
    }
    return b.build();
}

template<typename... Args> struct Sig;
template<> struct Sig<> {
    template<typename R> static size_t notify(R &r, const tulz::RoutingKey &k, int64_t) { return r.notify(k); }
    template<typename F> static auto cb(F f) { return [f]() { f(0); }; }
};
template<> struct Sig<int> {
    template<typename R> static size_t notify(R &r, const tulz::RoutingKey &k, int64_t v) { return r.notify(k, (int) v); }
    template<typename F> static auto cb(F f) { return [f](int v) { f(v); }; }
};
template<> struct Sig<std::string> {
    template<typename R> static size_t notify(R &r, const tulz::RoutingKey &k, int64_t v) { return r.notify(k, enc(v)); }
    template<typename F> static auto cb(F f) { return [f](std::string v) { f(dec(v)); }; }
};
template<> struct Sig<const std::string &> {
    template<typename R> static size_t notify(R &r, const tulz::RoutingKey &k, int64_t v) {
        return r.template notify<const std::string &>(k, enc(v));
    }
    template<typename F> static auto cb(F f) { return [f](const std::string &v) { f(dec(v)); }; }
};
template<> struct Sig<int, std::string> {
    template<typename R> static size_t notify(R &r, const tulz::RoutingKey &k, int64_t v) { return r.notify(k, (int) v, enc(v)); }
    template<typename F> static auto cb(F f) { return [f](int a, std::string v) { f(dec(v) == a ? a : -424243); }; }
};

template<typename Router, typename... Args>
struct Runner {
    using S = Sig<Args...>;
    Router router;
    std::deque<tulz::USubscription> handles;
    std::vector<tulz::Observer<Args...> *> obsPtr;
    std::vector<std::pair<int64_t, int64_t>> calls;
    std::vector<std::vector<int64_t>> rxset;

    struct Rec { std::vector<int64_t> key; int64_t o; bool present = true, valid = true, muted = false; long shrinkStamp = 0; };
    long shrinks = 0;       // a key holds its subject from its first subscribe until a shrink removes it: nothing else does
    std::vector<Rec> ref;
    std::set<std::vector<int64_t>> ever;

    bool lvlMatch(const Lvl &l, int64_t name) const {
        if (!l.rx) return l.id == name;
        auto &s = rxset[l.id];
        return std::find(s.begin(), s.end(), name) != s.end();
    }
    bool keyMatch(const Pattern &p, const std::vector<int64_t> &key, size_t len) const {
        // does the prefix of length len of key match the whole pattern?
        if (p.size() != len || key.size() < len) return false;
        for (size_t i = 0; i < len; ++i) if (!lvlMatch(p[i], key[i])) return false;
        return true;
    }

    void run(const Case &c) {
        int nrx = (int) c.lines[0][1];
        bool zero = c.lines[0][2] == 0;
        for (int i = 0; i < nrx; ++i) {
            rxset.push_back(c.lines[1 + i]);
            emit({});
            if (i < NREGEX) {
                std::regex re(REGEXES[i]);
                for (int n = 0; n < NNAMES; ++n) {
                    bool m = std::regex_match(std::string(NAMES[n]), re);
                    bool inSet = std::find(rxset[i].begin(), rxset[i].end(), (int64_t) n) != rxset[i].end();
                    if (m != inSet) oracle_fail("harness: std::regex_match disagrees with the generator on regex " + std::string(REGEXES[i]) + " and name " + NAMES[n]);
                }
            }
        }
        for (size_t li = 1 + nrx; li < c.lines.size(); ++li) {
            const Line &l = c.lines[li];
            calls.clear();
            Line ret;
            bool ok = !l.empty();
            auto okH = [&](int64_t h) { return h >= 0 && (size_t) h < handles.size(); };
            if (ok) switch (l[0]) {
            case 0: {
                std::vector<int64_t> key(l.begin() + 1, l.end());
                for (auto k : key) if (k < 0 || k >= NNAMES) ok = false;   // (name 0 is the empty string: a valid level name)
                if (!ok) break;
                Pattern p;
                for (auto k : key) p.push_back({false, k});
                int64_t o = (int64_t) obsPtr.size();
                auto body = [this, o](int64_t v) { calls.push_back({o, v}); };
                auto *ob = new tulz::EternalObserver<Args...>(S::cb(body));
                obsPtr.push_back(ob);
                handles.emplace_back(router.template subscribe<Args...>(buildKey(p), static_cast<tulz::Observer<Args...> *>(ob)));
                ref.push_back({key, o});
                ref.back().shrinkStamp = shrinks;
                for (size_t n = 0; n <= key.size(); ++n) ever.insert(std::vector<int64_t>(key.begin(), key.begin() + n));
                break;
            }
            case 1: case 2: case 3: case 4: {
                if (l.size() != 2 || !okH(l[1])) { ok = false; break; }
                Rec &r = ref[l[1]];
                if (!r.present) break; // the subscription is gone (its Subject may have been destroyed by shrink): nothing to do
                if (!handles[l[1]]->isValid()) { oracle_fail("C06: a present subscription reports isValid() == false"); break; }
                if (l[0] == 1) { handles[l[1]]->unsubscribe(); r.present = false; }
                else if (l[0] == 2) { handles[l[1]]->mute(); r.muted = true; }
                else if (l[0] == 3) { handles[l[1]]->unmute(); r.muted = false; }
                else { obsPtr[r.o]->invalidate(); r.valid = false; }
                break;
            }
            case 6: {
                Pattern p;
                if (l.size() < 2 || !parsePattern(l, 2, nrx, p)) { ok = false; break; }
                int64_t arg = zero ? 0 : l[1];
                size_t n = S::notify(router, buildKey(p), arg);
                ret.push_back((int64_t) n);
                // ---- oracle: brute-force matcher over the recorded subscriptions
                std::set<std::vector<int64_t>> live, all;
                for (auto &r : ref) if (keyMatch(p, r.key, r.key.size())) { all.insert(r.key); if (r.present) live.insert(r.key); }
                std::vector<std::pair<int64_t, int64_t>> expect;
                for (auto &k : all)
                    for (auto &r : ref) if (r.key == k && r.present && r.valid && !r.muted) expect.push_back({r.o, arg});
                if (calls != expect) {
                    std::string m = "C06: notify reached";
                    for (auto &x : calls) m += " " + std::to_string(x.first) + "(" + std::to_string(x.second) + ")";
                    m += " expected";
                    for (auto &x : expect) m += " " + std::to_string(x.first) + "(" + std::to_string(x.second) + ")";
                    oracle_fail(m);
                }
                std::set<std::vector<int64_t>> holding = live;      // keys that certainly still hold a subject
                for (auto &r : ref) if (all.count(r.key) && r.shrinkStamp == shrinks) holding.insert(r.key);
                if (n < holding.size())
                    oracle_fail("C06: notify returned " + std::to_string(n) + " but " + std::to_string(holding.size()) + " matched keys hold a subject (subscribed, and no shrink since)");
                if (n < live.size() || n > all.size())
                    oracle_fail("C06: notify returned " + std::to_string(n) + " but " + std::to_string(live.size()) + " matched keys have subscriptions and " + std::to_string(all.size()) + " were ever subscribed");
                for (auto &r : ref) if (all.count(r.key) && !r.valid) r.present = false; // lazily removed
                break;
            }
            case 11: {
                Pattern p;
                if (!parsePattern(l, 1, nrx, p)) { ok = false; break; }
                size_t depthBefore = router.depth();
                router.shrink(buildKey(p));
                ++shrinks;
                // C13: a wildcard pattern at least as deep as the tree removes every dead branch
                bool allWild = true;
                for (auto &lv : p) if (!lv.rx || lv.id != 0) allWild = false;
                if (allWild && p.size() + 1 >= depthBefore)
                    for (auto &k : ever) {
                        if (k.empty()) continue;
                        bool liveBelow = false;
                        for (auto &r : ref)
                            if (r.present && r.key.size() >= k.size() && std::equal(k.begin(), k.end(), r.key.begin())) liveBelow = true;
                        if (liveBelow) continue;
                        Pattern kp;
                        for (auto x : k) kp.push_back({false, x});
                        if (router.exists(buildKey(kp))) {
                            std::string ks;
                            for (auto x : k) ks += "/" + std::string(NAMES[x]);
                            oracle_fail("C13: a full-depth wildcard shrink left the dead key " + ks + " in the router");
                        }
                    }
                break;
            }
            case 12: {
                Pattern p;
                if (!parsePattern(l, 1, nrx, p)) { ok = false; break; }
                bool e = router.exists(buildKey(p));
                ret.push_back(e ? 1 : 0);
                bool lo = false, hi = false;
                for (auto &r : ref) if (r.present && keyMatch(p, r.key, p.size())) lo = true;
                for (auto &k : ever) if (keyMatch(p, k, k.size())) hi = true;
                if (p.empty()) lo = hi = true; // the root
                if ((lo && !e) || (e && !hi)) oracle_fail(std::string("C13: exists() is ") + (e ? "true" : "false") + " but " + (lo ? "a live subscription key or prefix matches" : "no key ever subscribed matches"));
                break;
            }
            case 13: {
                if (l.size() != 1) { ok = false; break; }
                size_t d = router.depth();
                ret.push_back((int64_t) d);
                size_t lo = 1, hi = 1;
                for (auto &r : ref) { if (r.present) lo = std::max(lo, r.key.size() + 1); hi = std::max(hi, r.key.size() + 1); }
                if (d < lo || d > hi) oracle_fail("C13: depth() = " + std::to_string(d) + " outside [" + std::to_string(lo) + ", " + std::to_string(hi) + "]");
                break;
            }
            default: ok = false;
            }
            if (!ok) { emit({PRE}); continue; }
            Line out = ret;
            out.push_back(SEP);
            for (auto &x : calls) { out.push_back(x.first); out.push_back(x.second); }
            emit(out);
        }
    }
};

template<typename Router>
static void dispatch(const Case &c) {
    switch (c.lines[0][2]) {
    case 0: { Runner<Router> r; r.run(c); break; }
    case 1: { Runner<Router, int> r; r.run(c); break; }
    case 2: { Runner<Router, std::string> r; r.run(c); break; }
    case 3: { Runner<Router, const std::string &> r; r.run(c); break; }
    default: { Runner<Router, int, std::string> r; r.run(c); break; }
    }
}

int main() {
    return main_loop([](const Case &c) {
        if (c.lines.empty() || c.lines[0].size() < 4 || (size_t) c.lines[0][1] + 1 > c.lines.size()) { emit({PRE}); return; }
        emit({});
        if (c.lines[0][3] == 0) dispatch<tulz::SubjectRouter>(c);
        else dispatch<tulz::ConcurrentSubjectRouter>(c);
    }, 20, 64);
}
