// observable.cpp — implementation side of the C16 correspondence (tulz::Observable).
//
// Case: header [kind] (0 = Observable<int>, 1 = Observable<double, NearEq>, 2 = Observable<std::string>, 3 = Observable<int, BucketEq>),
// a line with the initial value, then one operation per line (see ObservableModel.v: oop_of).
// After every operation: the operator's return value (if any), SEP, value(), SEP, the
// notifications received during the operation as (subscriber, value).
// Doubles are driven with dyadic rationals n / 2^20 only, so every operation is exact; the
// driver tracks n exactly and refuses (PRE) operations whose result would not be exact.
//
// Model-independent oracle: per operation "changed according to Eq <=> every live unmuted
// subscriber was notified exactly once with the post-operation value" recomputed here from the
// value before / after, and "a recording subscriber holds value()" for the default equality.
#include "common.h"
#include <tulz/observer/Observable.h>
#include <cmath>
#include <deque>
#include <map>

using namespace vh;

static const int64_t SCALE = 1048576, TOL = 16384, RANGE = 1099511627776LL;

struct NearEq {
    bool operator()(const double &a, const double &b) const { return std::abs(a - b) < 1.0 / 64; }
};

// an equality coarser than the unit step of ++ / --: same bucket of eight (floor division)
struct BucketEq {
    static long bucket(long x) { return x >= 0 ? x / 8 : -((-x + 7) / 8); }
    bool operator()(const int &a, const int &b) const { return bucket(a) == bucket(b); }
};

template<typename T> struct Codec;
template<> struct Codec<int> {
    static bool ok(const Line &v) { return v.size() == 1 && std::llabs(v[0]) < RANGE; }
    static int dec(const Line &v) { return (int) v[0]; }
    static Line enc(const int &x) { return {x}; }
};
template<> struct Codec<double> {
    static bool ok(const Line &v) { return v.size() == 1 && std::llabs(v[0]) < RANGE; }
    static double dec(const Line &v) { return (double) v[0] / (double) SCALE; }
    static Line enc(const double &x) {
        double y = x * (double) SCALE;
        if (y != std::floor(y)) oracle_fail("harness: inexact double reached the observable");
        return {(int64_t) std::llround(y)};
    }
};
template<> struct Codec<std::string> {
    static bool ok(const Line &v) { for (auto c : v) if (c < 1 || c > 255) return false; return true; }
    static std::string dec(const Line &v) { std::string s; for (auto c : v) s.push_back((char) (unsigned char) c); return s; }
    static Line enc(const std::string &x) { Line l; for (unsigned char c : x) l.push_back(c); return l; }
};

static void put(Line &out, const Line &v) { out.push_back((int64_t) v.size()); out.insert(out.end(), v.begin(), v.end()); }

// exact result of a binary operator on the integer representation; false = precondition violated
static bool bin(int kind, int64_t code, const Line &a, const Line &b, Line &r) {
    if (kind == 2) { if (code != 11) return false; r = a; r.insert(r.end(), b.begin(), b.end()); return true; }
    __int128 x = a[0], y = b[0], n;
    if (kind == 0 || kind == 3) {
        if (code == 11) n = x + y; else if (code == 12) n = x - y; else if (code == 13) n = x * y;
        else if (code == 14) { if (y == 0) return false; n = x / y; } else return false;
    } else {
        if (code == 11) n = x + y; else if (code == 12) n = x - y;
        else if (code == 13) { if ((x * y) % SCALE != 0) return false; n = (x * y) / SCALE; }
        else if (code == 14) { if (y == 0 || (x * SCALE) % y != 0) return false; n = (x * SCALE) / y; } else return false;
    }
    if (n >= RANGE || n <= -RANGE) return false;
    r = {(int64_t) n};
    return true;
}

struct DefaultEq {};
template<typename T, typename Eq> struct ObsOf { using type = tulz::Observable<T, Eq>; };
template<typename T> struct ObsOf<T, DefaultEq> { using type = tulz::Observable<T>; };

template<typename T, typename Eq>
struct Runner {
    // DefaultEq = the Observable's own default template argument (not spelled out here, so that a change of the default is seen)
    using Obs = typename ObsOf<T, Eq>::type;
    using OracleEq = std::conditional_t<std::is_same_v<Eq, DefaultEq>, std::equal_to<T>, Eq>;
    using Sub = typename Obs::Subject_t::Subscription_t;
    int kind;
    std::unique_ptr<Obs> obs;
    std::deque<Sub> handles;
    std::vector<std::pair<int64_t, Line>> events;
    struct Rec { bool subscribed = true, valid = true, muted = false; };
    std::vector<Rec> ref;           // reference bookkeeping for the oracle
    std::vector<Line> recorded;     // what a recording subscriber holds
    std::vector<bool> inSync;       // subscribed, valid and never muted since it held value()

    void run(const Case &c) {
        kind = (int) c.lines[0][0];
        const Line &v0 = c.lines[1];
        if (!Codec<T>::ok(v0)) { emit({PRE}); return; }
        obs = std::make_unique<Obs>(Codec<T>::dec(v0));
        emit({});
        OracleEq eq{};
        for (size_t i = 2; i < c.lines.size(); ++i) {
            const Line &l = c.lines[i];
            events.clear();
            Line before = Codec<T>::enc(obs->value());
            Line ret;
            bool hasRet = false, ok = true;
            bool mustNotify = false, mayNotify = false, always = false;
            Line expectStored; bool haveExpect = false;
            auto idOk = [&](int64_t id) { return id >= 0 && (size_t) id < handles.size(); };
            if (l.empty()) ok = false;
            else switch (l[0]) {
            case 0:
                if (l.size() != 1) { ok = false; break; }
                {
                    int64_t id = (int64_t) handles.size();
                    if (id % 2 == 0)
                        handles.push_back(obs->subscribe([this, id](T &v) { events.push_back({id, Codec<T>::enc(v)}); }));
                    else
                        handles.push_back(obs->subscribe([this, id](T v) { events.push_back({id, Codec<T>::enc(v)}); }));
                    ref.push_back({});
                    recorded.push_back(before);
                    inSync.push_back(true);
                }
                break;
            case 1: if (l.size() != 2 || !idOk(l[1])) { ok = false; break; }
                if (handles[l[1]].isValid()) handles[l[1]].unsubscribe();
                ref[l[1]].subscribed = false; inSync[l[1]] = false; break;
            case 2: if (l.size() != 2 || !idOk(l[1])) { ok = false; break; }
                if (handles[l[1]].isValid()) { handles[l[1]].mute(); ref[l[1]].muted = true; inSync[l[1]] = false; } break;
            case 3: if (l.size() != 2 || !idOk(l[1])) { ok = false; break; }
                if (handles[l[1]].isValid()) { handles[l[1]].unmute(); ref[l[1]].muted = false; } break;
            case 4: if (l.size() != 2 || !idOk(l[1])) { ok = false; break; }
                if (handles[l[1]].isValid()) { handles[l[1]].getObserver()->invalidate(); ref[l[1]].valid = false; inSync[l[1]] = false; } break;
            case 10: {
                Line v(l.begin() + 1, l.end());
                if (!Codec<T>::ok(v)) { ok = false; break; }
                if constexpr (std::is_same_v<T, int>) {
                    // the right-hand side may have another type: what counts is the value that would be stored (5.5 stores 5),
                    // so an assignment that converts to an Eq-equal value notifies nobody
                    int x = Codec<T>::dec(v);
                    switch (i % 4) {
                    case 0: *obs = (double) x + (x >= 0 ? 0.5 : -0.5); break;     // truncates to x
                    case 1: *obs = (long long) x; break;
                    default: *obs = x; break;
                    }
                } else if constexpr (std::is_same_v<T, std::string>) {
                    std::string x = Codec<T>::dec(v);
                    if (i % 3 == 0 && x.find('\0') == std::string::npos) *obs = x.c_str(); else *obs = x;
                } else *obs = Codec<T>::dec(v);
                mayNotify = true;
                break;
            }
            case 11: case 12: case 13: case 14: {
                Line v(l.begin() + 1, l.end()), r;
                if (!Codec<T>::ok(v) || !bin(kind, l[0], before, v, r)) { ok = false; break; }
                expectStored = r; haveExpect = true;
                if constexpr (std::is_same_v<T, std::string>) { *obs += Codec<T>::dec(v); }
                else {
                    T x = Codec<T>::dec(v);
                    // the operand may have another arithmetic type (unsigned, long long, int for a double): the result is the one of
                    // the built-in operator on the held type
                    bool integral = std::is_same_v<T, int> || (v[0] % SCALE == 0);
                    int64_t whole = std::is_same_v<T, int> ? v[0] : v[0] / SCALE;
                    int alt = (int) (i % 4);
                    auto apply = [&](auto y) { if (l[0] == 11) *obs += y; else if (l[0] == 12) *obs -= y; else if (l[0] == 13) *obs *= y; else *obs /= y; };
                    if (integral && alt == 1 && whole >= 0 && whole < (1LL << 31) && (std::is_same_v<T, double> || l[0] == 11 || l[0] == 12)) apply((unsigned) whole);
                    else if (integral && alt == 2 && std::llabs(whole) < (1LL << 31)) apply((long long) whole);
                    else if (integral && alt == 3 && std::is_same_v<T, double> && std::llabs(whole) < (1LL << 31)) apply((int) whole);
                    else apply(x);
                }
                mayNotify = true;
                break;
            }
            case 15: case 16: case 17: case 18: {
                Line one = {kind == 1 ? SCALE : 1}, r;
                if (l.size() != 1 || kind == 2 || !bin(kind, l[0] <= 16 ? 11 : 12, before, one, r)) { ok = false; break; }
                if constexpr (!std::is_same_v<T, std::string>) {
                    T x = l[0] == 15 ? (*obs)++ : l[0] == 16 ? ++(*obs) : l[0] == 17 ? (*obs)-- : --(*obs);
                    ret = Codec<T>::enc(x); hasRet = true;
                    Line expectRet = (l[0] == 15 || l[0] == 17) ? before : r;
                    if (ret != expectRet) oracle_fail("C16: increment / decrement returned the wrong value");
                }
                always = true;
                break;
            }
            case 19:
                if (l.size() >= 2 && l[1] == 0) {
                    Line v(l.begin() + 2, l.end());
                    if (!Codec<T>::ok(v)) { ok = false; break; }
                    T nv = Codec<T>::dec(v);
                    obs->apply([&](T &x) { x = nv; });
                    mayNotify = true;
                } else if (l.size() == 2 && l[1] == 2) {
                    obs->apply([](T &) {});
                    mayNotify = true;
                } else ok = false;
                break;
            default: ok = false;
            }
            if (!ok) { emit({PRE}); continue; }
            Line after = Codec<T>::enc(obs->value());
            if (haveExpect && after != expectStored) oracle_fail("C16: a compound assignment did not store old (op) operand");
            if (l[0] == 10) {
                // an Eq-equal assignment leaves the stored value untouched, subscribers or not; any other stores the assigned value
                Line assigned(l.begin() + 1, l.end());
                bool equal = eq(Codec<T>::dec(before), Codec<T>::dec(assigned));
                if (equal && after != before) oracle_fail("C16: an Eq-equal assignment changed the stored value");
                if (!equal && after != assigned) oracle_fail("C16: an assignment of a different value did not store it");
            }
            Line out;
            if (hasRet) put(out, ret);
            out.push_back(SEP);
            put(out, after);
            out.push_back(SEP);
            for (auto &e : events) { out.push_back(e.first); put(out, e.second); }
            emit(out);
            // ---- oracle -------------------------------------------------------------------
            if (mayNotify || always) {
                bool changed = always || !eq(Codec<T>::dec(before), Codec<T>::dec(after));
                mustNotify = changed;
                std::vector<int64_t> expect;
                if (mustNotify)
                    for (size_t id = 0; id < ref.size(); ++id)
                        if (ref[id].subscribed && ref[id].valid && !ref[id].muted) expect.push_back((int64_t) id);
                std::vector<int64_t> got;
                bool valuesOk = true;
                for (auto &e : events) { got.push_back(e.first); if (e.second != after) valuesOk = false; }
                if (got != expect)
                    oracle_fail(std::string("C16: ") + (changed ? "the value changed" : "the value did not change (Eq)") +
                                " but " + std::to_string(got.size()) + " notification(s) were delivered, expected " + std::to_string(expect.size()));
                else if (!valuesOk) oracle_fail("C16: a subscriber was notified with a value different from the post-operation value()");
                if (mustNotify) for (size_t id = 0; id < ref.size(); ++id) if (!ref[id].valid) ref[id].subscribed = false; // lazily removed
            } else if (!events.empty()) oracle_fail("C16: notification outside an assignment / apply / increment");
            for (auto &e : events) recorded[e.first] = e.second;
            if (kind != 1 && kind != 3)
                for (size_t id = 0; id < ref.size(); ++id)
                    if (inSync[id] && recorded[id] != after)
                        oracle_fail("C16: recording subscriber " + std::to_string(id) + " does not hold value() (default equality)");
        }
    }
};

int main() {
    return main_loop([](const Case &c) {
        if (c.lines.size() < 2 || c.lines[0].size() != 1) { emit({PRE}); return; }
        emit({});
        switch (c.lines[0][0]) {
        case 0: { Runner<int, DefaultEq> r; r.run(c); break; }
        case 1: { Runner<double, NearEq> r; r.run(c); break; }
        case 2: { Runner<std::string, DefaultEq> r; r.run(c); break; }
        case 3: { Runner<int, BucketEq> r; r.run(c); break; }
        default: emit({PRE});
        }
    }, 20, 64);
}
