// tracked.h — element type with observable lifetime, bitwise relocatable (C04/C09/C14).
//
// Every object carries its value, a unique serial and a state word. All special member
// functions report to a registry keyed by *serial* (not by address, so memcpy/realloc
// relocation is transparent): the registry knows which serials currently hold a value.
// While `Tracked::logging` is on, each action is also appended to `Tracked::events` in the
// integer encoding the Coq model uses (RingModel.event_z / ArrayModel.event_z):
//   1 v        an element holding v was constructed (value or copy construction)
//   2 old v    v was move-assigned over an object whose previous state was old
//   3 s        a destructor ran on storage in state s
//   4 s        move construction from an object in state s (value moved out)
//   5 old v    v was copy-assigned over an object whose previous state was old
// where a state is the value (live), SHELLZ (moved-from) or RAWZ (no object there).
// Independently of any model the registry flags: destructor on storage that holds no
// object, destruction of a serial that is not alive (double destruction, or destruction of
// a copy that was relocated away), and serials still alive when a case ends.
#pragma once
#include "common.h"
#include <unordered_map>

namespace vh {
struct Tracked {
    static constexpr uint32_t LIVE = 0xA11CE5u, MOVED = 0x30BEDu, DEAD = 0xDEADu;
    int64_t val;
    uint32_t serial;
    uint32_t state;

    inline static bool logging = false;
    inline static Line events;
    inline static uint32_t nextSerial = 1;
    inline static std::unordered_map<uint32_t, int> alive; // serial -> 1 live, 2 shell
    inline static std::vector<std::string> faults;

    static int64_t stateOf(const Tracked *t) {
        if (t->state == LIVE) return t->val;
        if (t->state == MOVED) return SHELLZ;
        return RAWZ;
    }
    static void ev(std::initializer_list<int64_t> l) {
        if (logging) events.insert(events.end(), l);
    }
    static void fault(const std::string &s) { faults.push_back(s); }
    void born() {
        serial = nextSerial++;
        state = LIVE;
        alive[serial] = 1;
    }
    // value construction
    Tracked(int64_t v) : val(v) { born(); ev({1, v}); }
    Tracked() : val(0) { born(); ev({1, 0}); }
    Tracked(const Tracked &o) : val(o.val) {
        if (o.state != LIVE) fault("copy construction from a non-element (state " + std::to_string(stateOf(&o)) + ")");
        born();
        ev({1, o.val});
    }
    Tracked(Tracked &&o) noexcept : val(o.val) {
        int64_t s = stateOf(&o);
        if (o.state != LIVE) fault("move construction from a non-element");
        born();
        if (o.state == LIVE) { o.state = MOVED; alive[o.serial] = 2; }
        ev({4, s});
    }
    Tracked &operator=(Tracked &&o) noexcept {
        int64_t old = stateOf(this);
        if (state != LIVE && state != MOVED) fault("move assignment onto storage that holds no object");
        if (o.state != LIVE) fault("move assignment from a non-element");
        val = o.val;
        if (state == LIVE || state == MOVED) { state = LIVE; alive[serial] = 1; }
        if (o.state == LIVE) { o.state = MOVED; alive[o.serial] = 2; }
        ev({2, old, val});
        return *this;
    }
    Tracked &operator=(const Tracked &o) {
        int64_t old = stateOf(this);
        if (state != LIVE && state != MOVED) fault("copy assignment onto storage that holds no object");
        if (o.state != LIVE) fault("copy assignment from a non-element");
        val = o.val;
        if (state == LIVE || state == MOVED) { state = LIVE; alive[serial] = 1; }
        ev({5, old, val});
        return *this;
    }
    ~Tracked() {
        int64_t s = stateOf(this);
        ev({3, s});
        if (state != LIVE && state != MOVED) {
            fault("destructor on storage that holds no object");
            return;
        }
        auto it = alive.find(serial);
        if (it == alive.end())
            fault("destructor on an object that is not alive any more (serial " + std::to_string(serial) +
                  ", value " + std::to_string(s) + "): destroyed twice or relocated away");
        else
            alive.erase(it);
        state = DEAD;
    }
    bool operator==(const Tracked &o) const { return val == o.val; }

    // number of serials still holding a value (shells do not count)
    static size_t liveCount() {
        size_t n = 0;
        for (auto &p : alive) n += p.second == 1;
        return n;
    }
    static std::string liveList() {
        std::string s;
        for (auto &p : alive) if (p.second == 1) s += " #" + std::to_string(p.first);
        return s;
    }
    static void reset() {
        std::unordered_map<uint32_t, int>().swap(alive);
        std::vector<std::string>().swap(faults);
        Line().swap(events);
        logging = false;
    }
};

// RAII: log element events while in scope
struct LogScope {
    LogScope() { Tracked::logging = true; }
    ~LogScope() { Tracked::logging = false; }
};

template <typename T> struct Elem;
template <> struct Elem<int64_t> {
    static constexpr bool tracked = false;
    static int64_t make(int64_t v) { return v; }
    static int64_t show(const int64_t &v) { return v; }
};
// doubles: value v <-> v + 0.5, and 0 <-> -0.0 (so that the sign of zero and the fractional part are
// part of "exactly those values"); anything else reads as a sentinel
template <> struct Elem<double> {
    static constexpr bool tracked = false;
    static double make(int64_t v) { return v == 0 ? -0.0 : (double) v + 0.5; }
    static int64_t show(const double &x) {
        uint64_t bits; memcpy(&bits, &x, 8);
        if (bits == 0xbebebebebebebebeULL) return (int64_t) 0xbebebebebebebebeULL;
        if (bits == 0x8000000000000000ULL) return 0;
        double f = x - 0.5;
        if (f == (double) (int64_t) f && f != 0 && f > -1e15 && f < 1e15) return (int64_t) f;
        return -424242;
    }
};
template <> struct Elem<Tracked> {
    static constexpr bool tracked = true;
    static Tracked make(int64_t v) { return Tracked(v); }
    static int64_t show(const Tracked &t) { return Tracked::stateOf(&t); }
};
} // namespace vh
