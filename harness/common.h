// common.h — shared plumbing of the implementation-side correspondence harnesses.
//
// Input (stdin): blocks "# <component> <free text>" followed by lines of decimal integers
// (exactly the file the extracted Coq model reads). Output: the "#" line echoed, then one
// line of integers per input line — the observation the model must reproduce — plus lines
// starting with '!' that report a violation found by the harness's own, model-independent
// oracle ("!ORACLE ...") or an abnormal end of the case ("!CRASH ...").
//
// Every case runs in a forked child so that an ASan/UBSan abort, a failed assert or a hang
// in one case is attributed to that case and does not hide the others.
#pragma once
#include <cstdint>
#include <cstdio>
#include <cstdlib>
#include <cstring>
#include <string>
#include <vector>
#include <functional>
#include <iostream>
#include <sstream>
#include <unistd.h>
#include <sys/wait.h>
#include <sys/mman.h>
#include <algorithm>
#include <signal.h>
#if defined(__has_feature)
#if __has_feature(address_sanitizer)
#define VERIF_ASAN 1
#endif
#endif
#if defined(__SANITIZE_ADDRESS__)
#define VERIF_ASAN 1
#endif
#ifdef VERIF_ASAN
#include <sanitizer/lsan_interface.h>
extern "C" size_t __sanitizer_get_current_allocated_bytes(void);
#endif

namespace vh {
using Line = std::vector<int64_t>;
constexpr int64_t SEP = -999999;
constexpr int64_t PRE = -555555;
constexpr int64_t RAWZ = -111111;
constexpr int64_t SHELLZ = -222222;

struct Case {
    std::string header;
    std::vector<Line> lines;
};

inline void emit(const Line &l) {
    std::string s;
    for (size_t i = 0; i < l.size(); ++i) {
        if (i) s += ' ';
        s += std::to_string(l[i]);
    }
    s += '\n';
    fputs(s.c_str(), stdout);
    fflush(stdout);
}

inline void oracle_fail(const std::string &msg) {
    printf("!ORACLE %s\n", msg.c_str());
    fflush(stdout);
}

inline bool leak_check() {
#ifdef VERIF_ASAN
    return __lsan_do_recoverable_leak_check() != 0;
#else
    return false;
#endif
}

// bytes currently allocated from the heap (0 when not built with ASan)
inline size_t heap_bytes() {
#ifdef VERIF_ASAN
    return __sanitizer_get_current_allocated_bytes();
#else
    return 0;
#endif
}

inline std::vector<Case> read_cases(FILE *in) {
    std::vector<Case> cases;
    char *buf = nullptr;
    size_t cap = 0;
    ssize_t n;
    while ((n = getline(&buf, &cap, in)) >= 0) {
        while (n > 0 && (buf[n - 1] == '\n' || buf[n - 1] == '\r')) buf[--n] = 0;
        if (n > 0 && buf[0] == '#') {
            cases.push_back({buf, {}});
        } else if (!cases.empty()) {
            Line l;
            char *p = buf;
            while (*p) {
                while (*p == ' ') ++p;
                if (!*p) break;
                char *e;
                l.push_back(strtoll(p, &e, 10));
                p = e;
            }
            cases.back().lines.push_back(std::move(l));
        }
    }
    free(buf);
    return cases;
}

// Runs every case of stdin through `run`. Cases run in forked children, `batch` cases per
// child (forking an ASan process is expensive); a shared progress counter tells the parent
// which case was running when a child died, so the crash is attributed to that case and the
// rest of the batch continues in a new child. Time limit `timeout_s` per case.
inline int main_loop(const std::function<void(const Case &)> &run, unsigned timeout_s = 20, size_t batch = 64) {
    auto cases = read_cases(stdin);
    const char *nofork = getenv("VERIF_NOFORK");
    if (nofork) {
        for (auto &c : cases) { puts(c.header.c_str()); fflush(stdout); run(c); }
        return 0;
    }
    auto *progress = static_cast<volatile long *>(
        mmap(nullptr, sizeof(long), PROT_READ | PROT_WRITE, MAP_SHARED | MAP_ANONYMOUS, -1, 0));
    size_t i = 0;
    while (i < cases.size()) {
        size_t end = std::min(cases.size(), i + batch);
        *progress = (long) i;
        fflush(stdout);
        fflush(stderr);
        pid_t pid = fork();
        if (pid == 0) {
            for (size_t k = i; k < end; ++k) {
                *progress = (long) k;
                puts(cases[k].header.c_str());
                fflush(stdout);
                alarm(timeout_s);
                run(cases[k]);
                alarm(0);
                fflush(stdout);
                fflush(stderr);
            }
            *progress = (long) end;
            _exit(0);
        }
        int status = 0;
        waitpid(pid, &status, 0);
        if (WIFEXITED(status) && WEXITSTATUS(status) == 0 && (size_t) *progress == end) {
            i = end;
            continue;
        }
        if (WIFSIGNALED(status))
            printf("\n!CRASH signal=%d%s\n", WTERMSIG(status), WTERMSIG(status) == SIGALRM ? " (timeout)" : "");
        else
            printf("\n!CRASH exit=%d\n", WEXITSTATUS(status));
        fflush(stdout);
        i = (size_t) *progress + 1;
    }
    return 0;
}
} // namespace vh
