// file.cpp — implementation side of the C17 correspondence (tulz::File).
//
// Case: header [0], then operations (see FileModel.v: file_step) on one File object at a time and
// on a scratch directory: 30 n = mkdir, 31 n bytes = create a file with these bytes (directly),
// 1 n mode = open, 2 = close, 3 bytes = write, 4 k = read(buf, 1, k), 5 = read(), 6 = readStr(),
// 7 off origin = seek, 8 = tell, 9 = size.
//
// Model-independent oracle: after a sequential (seek-free) write or append session the file on
// disk must hold truncated-plus-written resp. old-plus-written bytes; read()/readStr() must return
// exactly the bytes on disk (read here through std::ifstream); size() must equal
// std::filesystem::file_size and leave tell() unchanged; open() of a missing file for reading must
// throw NotFound and of a directory NotFile.
#include "common.h"
#include <tulz/File.h>
#include <tulz/Exception.h>
#include <filesystem>
#include <fstream>
#include <map>
#include <optional>

using namespace vh;
namespace fs = std::filesystem;
using tulz::File;
using tulz::Path;

static int counter = 0;

static std::string slurp(const std::string &p) {
    std::ifstream f(p, std::ios::binary);
    return std::string((std::istreambuf_iterator<char>(f)), std::istreambuf_iterator<char>());
}
static bool bytesOk(const Line &l, size_t from) { for (size_t i = from; i < l.size(); ++i) if (l[i] < 0 || l[i] > 255) return false; return true; }
static std::string strOf(const Line &l, size_t from) { std::string s; for (size_t i = from; i < l.size(); ++i) s.push_back((char) (unsigned char) l[i]); return s; }
static void put(Line &out, const std::string &s) { out.push_back((int64_t) s.size()); for (unsigned char c : s) out.push_back(c); }

int main() {
    return main_loop([](const Case &c) {
        if (c.lines.empty() || c.lines[0].size() != 1) { emit({PRE}); return; }
        emit({});
        size_t fds0 = 0;
        for (auto &e : fs::directory_iterator("/proc/self/fd")) { (void) e; ++fds0; }
        std::string root = fs::current_path().string() + "/files-" + std::to_string(getpid()) + "-" + std::to_string(counter++);
        fs::remove_all(root);
        fs::create_directories(root);
        auto pathOf = [&](int64_t n) { return root + "/f" + std::to_string(n); };
        // two File users side by side (operation 33 switches between them): File objects are independent of one another
        struct Slot {
            File theFile;                 // one File object for the whole case: re-opened with open()
            File *dyn = nullptr;          // a File constructed with (path, mode); closed explicitly or by its destructor
            File *f = nullptr;            // the open File (&theFile or dyn)
            int64_t curName = -1;
            int curMode = 0;
            bool sequential = true;
            std::string before, written;
        } slots[2];
        int act = 0;
        for (size_t li = 1; li < c.lines.size(); ++li) {
            const Line &l = c.lines[li];
            Line out;
            bool ok = !l.empty();
            Slot &S = slots[act], &O = slots[1 - act];
            File &theFile = S.theFile; File *&dyn = S.dyn; File *&f = S.f;
            int64_t &curName = S.curName; int &curMode = S.curMode; bool &sequential = S.sequential;
            std::string &before = S.before, &written = S.written;
            // one stream per file at a time: an operation that names the file the other user has open is not issued
            if (ok && (l[0] == 1 || l[0] == 31) && l.size() >= 2 && O.f && O.curName == l[1]) { emit({PRE}); continue; }
            if (ok) switch (l[0]) {
            case 33: if (l.size() != 1) { ok = false; break; } act = 1 - act; out.push_back(0); break;
            case 30:
                if (l.size() != 2 || fs::exists(pathOf(l[1]))) { ok = false; break; }
                fs::create_directory(pathOf(l[1])); out.push_back(1); break;
            case 32: {
                // a symbolic link to a directory is a directory as far as File::open is concerned
                if (l.size() != 3 || fs::exists(pathOf(l[1])) || fs::is_symlink(pathOf(l[1])) || !fs::is_directory(pathOf(l[2]))) { ok = false; break; }
                fs::create_directory_symlink(pathOf(l[2]), pathOf(l[1])); out.push_back(1); break;
            }
            case 31: {
                if (l.size() < 2 || f || !bytesOk(l, 2) || fs::is_directory(pathOf(l[1]))) { ok = false; break; }
                std::ofstream o(pathOf(l[1]), std::ios::binary | std::ios::trunc);
                std::string s = strOf(l, 2); o.write(s.data(), (std::streamsize) s.size());
                out.push_back(1); break;
            }
            case 1: {
                if (l.size() != 3 || l[2] < 1 || l[2] > 6) { ok = false; break; }
                std::string p = pathOf(l[1]);
                bool existed = fs::exists(p), isDir = fs::is_directory(p);
                if (f) {
                    // open() on a File that is open: the old stream is closed (its bytes reach the disk) before the new
                    // one is opened; if the checks fail the exception leaves the old stream open
                    bool wasWrite = curMode >= 3, known = sequential;
                    std::string logical = before + written, oldPath = pathOf(curName);
                    auto mode = static_cast<File::Mode>(l[2]);
                    try {
                        f->open(Path(p), mode);
                        bool opened = f->isOpen();
                        out.push_back(opened ? 0 : -1);
                        if (!existed && l[2] <= 2) oracle_fail("C17: opening a missing file for reading did not fail with NotFound");
                        if (isDir) oracle_fail("C17: opening a directory did not fail with NotFile");
                        bool same = oldPath == p;
                        if (wasWrite && known && !(same && (l[2] == 3 || l[2] == 4)) && opened && slurp(oldPath) != logical)
                            oracle_fail("C17: re-opening a File did not first bring the bytes written through it to the disk");
                        if (same && wasWrite && (l[2] == 3 || l[2] == 4) && opened && !slurp(p).empty())
                            oracle_fail("C17: re-opening the same path in a write mode did not leave an empty file");
                        std::string old = (same && wasWrite) ? (known ? logical : slurp(p)) : (existed && !isDir ? slurp(p) : "");
                        if (opened) {
                            curName = l[1]; curMode = (int) l[2]; sequential = !(same && wasWrite && !known); written.clear();
                            before = (curMode == 5 || curMode == 6) ? old : "";
                        } else { if (f == dyn) { delete dyn; dyn = nullptr; } f = nullptr; }
                    } catch (const tulz::Exception &e) {
                        out.push_back(e.type == Path::NotFound ? -12 : e.type == Path::NotFile ? -10 : -11);
                        if (e.type == Path::NotFound && (existed || l[2] > 2)) oracle_fail("C17: NotFound for an existing file or a write mode");
                        if (e.type == Path::NotFile && !isDir) oracle_fail("C17: NotFile for something that is not a directory");
                        if (!f->isOpen()) oracle_fail("C17: a failed open() closed the stream that was open");
                    }
                    break;
                }
                std::string old = existed && !isDir ? slurp(p) : "";
                try {
                    // three ways to get an open File: re-open the long-lived object, or construct a new one from a Path / a string
                    File *obj = &theFile;
                    auto mode = static_cast<File::Mode>(l[2]);
                    switch ((li + (size_t) l[1]) % 3) {
                    case 0: theFile.open(Path(p), mode); break;
                    case 1: obj = dyn = new File(Path(p), mode); break;
                    default: obj = dyn = new File(p, mode); break;
                    }
                    bool opened = obj->isOpen();
                    out.push_back(opened ? 0 : -1);
                    if (opened && obj->getMode() != mode) oracle_fail("C17: getMode() does not report the mode the file was opened with");
                    if (opened) {
                        f = obj; curName = l[1]; curMode = (int) l[2]; sequential = true; written.clear();
                        before = (curMode == 5 || curMode == 6) ? old : "";
                    } else if (dyn) { delete dyn; dyn = nullptr; }
                    if (!existed && l[2] <= 2) oracle_fail("C17: opening a missing file for reading did not fail with NotFound");
                    if (isDir) oracle_fail("C17: opening a directory did not fail with NotFile");
                } catch (const tulz::Exception &e) {
                    out.push_back(e.type == Path::NotFound ? -12 : e.type == Path::NotFile ? -10 : -11);
                    if (e.type == Path::NotFound && (existed || l[2] > 2)) oracle_fail("C17: NotFound for an existing file or a write mode");
                    if (e.type == Path::NotFile && !isDir) oracle_fail("C17: NotFile for something that is not a directory");
                }
                break;
            }
            case 2: {
                if (l.size() != 1 || !f) { ok = false; break; }
                if (f == dyn) { if (li % 2) dyn->close(); delete dyn; dyn = nullptr; }   // the destructor closes (and flushes) too
                else f->close();
                f = nullptr; out.push_back(0);
                if (curMode >= 3 && sequential && slurp(pathOf(curName)) != before + written)
                    oracle_fail("C17: after a sequential " + std::string(curMode >= 5 ? "append" : "write") +
                                " session the file does not hold " + (curMode >= 5 ? "old + written" : "exactly the written") + " bytes");
                break;
            }
            case 3: {
                if (!f || curMode < 3 || !bytesOk(l, 1)) { ok = false; break; }
                std::string s = strOf(l, 1);
                size_t n = li % 3 == 0 ? f->write(s) : li % 3 == 1 ? f->write(s.data(), s.size())
                                                                   : f->write(tulz::Array<tulz::byte>((tulz::byte *) s.data(), s.size()));
                out.push_back((int64_t) n); written += s;
                if (n != s.size()) oracle_fail("C17: write() reports a short count");
                break;
            }
            case 4: {
                if (l.size() != 2 || !f || curMode > 2 || l[1] < 0) { ok = false; break; }
                std::string buf((size_t) l[1], '\0');
                size_t n = f->read(buf.data(), 1, (size_t) l[1]);
                put(out, buf.substr(0, n)); break;
            }
            case 5: case 6: {
                if (l.size() != 1 || !f || curMode > 2) { ok = false; break; }
                std::string got;
                if (l[0] == 5) { auto a = f->read(); got.assign((const char *) a.array(), a.size()); }
                else got = f->readStr();
                put(out, got);
                if (got != slurp(pathOf(curName))) oracle_fail("C17: read()/readStr() does not return exactly the bytes of the file");
                break;
            }
            case 7: {
                if (l.size() != 3 || !f || l[2] < 0 || l[2] > 2) { ok = false; break; }
                out.push_back(f->seek((long) l[1], static_cast<File::Origin>(l[2])) == 0 ? 0 : -1);
                sequential = false; break;
            }
            case 8: if (l.size() != 1 || !f) { ok = false; break; } out.push_back(f->tell()); break;
            case 9: {
                if (l.size() != 1 || !f) { ok = false; break; }
                long t0 = f->tell();
                size_t sz = f->size();
                out.push_back((int64_t) sz);
                if (f->tell() != t0) oracle_fail("C17: size() moved the file position");
                f->flush();
                if (sz != fs::file_size(pathOf(curName))) oracle_fail("C17: size() = " + std::to_string(sz) + " but the file has " + std::to_string(fs::file_size(pathOf(curName))) + " bytes");
                break;
            }
            default: ok = false;
            }
            if (!ok) emit({PRE}); else emit(out);
        }
        for (auto &S : slots) {
            if (S.f && S.f != S.dyn) S.f->close();
            delete S.dyn;
            S.f = S.dyn = nullptr;
        }
        fs::remove_all(root);
        {
            size_t fdsNow = 0;
            for (auto &e : fs::directory_iterator("/proc/self/fd")) { (void) e; ++fdsNow; }
            if (fdsNow > fds0 && !slots[0].theFile.isOpen() && !slots[1].theFile.isOpen())
                oracle_fail("C17: " + std::to_string(fdsNow - fds0) + " file descriptor(s) are still open although every File was closed or destroyed");
        }
    }, 60, 32);
}
