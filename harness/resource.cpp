// resource.cpp — implementation side of the C01/C02/C03/C12 correspondence.
// Compiled with -include vsched.h together with /repo/src/threading/rwp/Resource.cpp, so the
// real Resource runs on the controlled mutex / condition variable. The controller follows a
// schedule of *model labels* (ResourceModel.label) and prints, after every label, whether the
// label was enabled and the per-thread status vector the model must reproduce:
//   0 idle   1 parked   2 parked+notified   3 holding read   4 holding write   5 about to notify_all
// Independent monitors (no model involved):
//   C01  a writer holds the lock together with any other holder
//   C02  after the schedule every thread is driven to completion: a thread that stays parked
//        although nobody holds the lock is a lost wake-up; afterwards the idle lock must grant
//        a write request and two simultaneous read requests at once
//   C03  a request is granted while an earlier-parked request is still ungranted (other than
//        two reads with no parked write between them)
//   C12  a reader parks although no writer holds or waits
#include "common.h"
#include <tulz/threading/rwp/Resource.h>
#include <tulz/threading/rwp/ReadLock.h>
#include <tulz/threading/rwp/WriteLock.h>

using namespace vh;
using tulz::rwp::Resource;

enum Cmd { C_NONE, C_LOCK_R, C_LOCK_W, C_UNLOCK, C_EXIT, C_MANY_READS };
enum { TAG_IDLE = 1, TAG_HOLDING = 2 };

struct Worker {
    vs::VThread *vt = nullptr;
    Cmd cmd = C_NONE;
    bool guard = false;      // use ReadLock / WriteLock objects instead of the raw calls
    bool holdsWrite = false;
    bool wantWrite = false;
    bool holdsAux = false;   // holds a read lock on the second, unrelated Resource during the whole case
    // monitor bookkeeping
    long arrival = -1;       // arrival number of the pending / granted request
    bool parkedObserved = false;
    // free exploration only
    enum Phase { P_IDLE, P_REQUESTING, P_PARKED, P_HOLDING, P_RELEASING } phase = P_IDLE;
    long issuedAt = 0, parkedAt = 0;
    int stepsInLock = 0;
    std::vector<int64_t> program;
    size_t pc = 0;
};

struct Run {
    Resource *res = nullptr;
    Resource *aux = nullptr;
    std::vector<Worker> w;
    long arrivals = 0;
    int labelNo = 0;
    std::vector<std::string> complaints;

    void complain(const std::string &m) { oracle_fail("label=" + std::to_string(labelNo) + " " + m); }

    void workerMain(int t) {
        tulz::rwp::ReadLock *rl = nullptr;
        tulz::rwp::WriteLock *wl = nullptr;
        // instances are independent: holding a read lock on an unrelated Resource must change nothing
        if (w[t].holdsAux) aux->lockRead();
        for (;;) {
            vs::point(TAG_IDLE);
            Cmd c = w[t].cmd;
            if (c == C_EXIT) { if (w[t].holdsAux) aux->unlockRead(); return; }
            if (c == C_MANY_READS) {
                // one thread holds very many read locks at once (the holder count is a size_t): take them, wait, give one
                // back, wait, give the rest back
                for (long i = 0; i < manyCount; ++i) res->lockRead();
                vs::point(TAG_HOLDING);
                res->unlockRead();
                vs::point(TAG_HOLDING);
                for (long i = 1; i < manyCount; ++i) res->unlockRead();
                continue;
            }
            bool write = c == C_LOCK_W;
            if (w[t].guard) { if (write) wl = new tulz::rwp::WriteLock(*res); else rl = new tulz::rwp::ReadLock(*res); }
            else { if (write) res->lockWrite(); else res->lockRead(); }
            vs::point(TAG_HOLDING);
            if (w[t].guard) { delete rl; delete wl; rl = nullptr; wl = nullptr; }
            else { if (write) res->unlockWrite(); else res->unlockRead(); }
        }
    }

    // resume t until it is parked, about to notify, finished, or at a harness point
    void runUntilStop(int t) {
        auto *v = w[t].vt;
        for (;;) {
            vs::step(v);
            switch (v->reason) {
            case vs::R_WANT_MUTEX:
                if (!vs::enabled(v)) { complain("thread blocks on the internal mutex while no thread should hold it"); return; }
                break; // pass through
            case vs::R_CV_ENTRY: break;
            default: return;
            }
        }
    }

    int status(int t) {
        auto *v = w[t].vt;
        switch (v->reason) {
        case vs::R_POINT: return v->tag == TAG_IDLE ? 0 : (w[t].holdsWrite ? 4 : 3);
        case vs::R_CV_BLOCKED: return v->notified ? 2 : 1;
        case vs::R_PRE_NOTIFY: return 5;
        case vs::R_START: return 0;
        default: return 9;
        }
    }
    bool atIdle(int t) { auto *v = w[t].vt; return v->reason == vs::R_START || (v->reason == vs::R_POINT && v->tag == TAG_IDLE); }
    bool holding(int t) { auto *v = w[t].vt; return v->reason == vs::R_POINT && v->tag == TAG_HOLDING; }
    bool parked(int t) { return w[t].vt->reason == vs::R_CV_BLOCKED; }

    // ---- monitors ------------------------------------------------------------------------
    void monitorHolders() {
        int readers = 0, writers = 0;
        for (size_t t = 0; t < w.size(); ++t)
            if (holding((int) t)) { if (w[t].holdsWrite) ++writers; else ++readers; }
        if (writers > 1 || (writers == 1 && readers > 0))
            complain("C01: a writer holds the lock together with " + std::to_string(readers) + " reader(s) and " +
                     std::to_string(writers - 1) + " other writer(s)");
    }
    void onGranted(int t) {
        // C03: every request that was parked before this one was issued and is still ungranted
        for (size_t a = 0; a < w.size(); ++a) {
            if ((int) a == t || !parked((int) a) || w[a].arrival > w[t].arrival) continue;
            bool okException = !w[a].wantWrite && !w[t].wantWrite;
            if (okException)
                for (size_t c = 0; c < w.size(); ++c)
                    if (parked((int) c) && w[c].wantWrite && w[c].arrival > w[a].arrival && w[c].arrival < w[t].arrival)
                        okException = false;
            if (!okException)
                complain(std::string("C03: request #") + std::to_string(w[t].arrival) + " (" + (w[t].wantWrite ? "write" : "read") +
                         ", thread " + std::to_string(t) + ") was granted while request #" + std::to_string(w[a].arrival) + " (" +
                         (w[a].wantWrite ? "write" : "read") + ", thread " + std::to_string(a) + "), parked before it was issued, still waits");
        }
    }
    void onParked(int t) {
        if (!w[t].wantWrite) {
            bool writerAround = false;
            for (size_t a = 0; a < w.size(); ++a) {
                if ((int) a == t) continue;
                if (holding((int) a) && w[a].holdsWrite) writerAround = true;
                if (parked((int) a) && w[a].wantWrite) writerAround = true;
                // a writer that has released in its critical section but not yet notified is gone
            }
            if (!writerAround) complain("C12: a reader parked although no writer holds or waits for the lock");
        }
    }

    // ---- labels --------------------------------------------------------------------------
    bool doLabel(const Line &l) {
        int64_t code = l.at(0);
        int t = l.size() > 1 ? (int) l[1] : -1;
        if (t < 0 || t >= (int) w.size()) return false;
        switch (code) {
        case 0: {
            if (!atIdle(t)) return false;
            bool write = l.at(2) != 0;
            w[t].cmd = write ? C_LOCK_W : C_LOCK_R;
            w[t].wantWrite = write;
            w[t].guard = (l.size() > 3 && l[3] != 0);
            w[t].arrival = arrivals++;
            runUntilStop(t);
            if (holding(t)) { w[t].holdsWrite = write; onGranted(t); }
            else if (parked(t)) onParked(t);
            else complain("lock() neither returned nor blocked in the condition variable (" + std::string(vs::reasonName(w[t].vt->reason)) + ")");
            return true;
        }
        case 1: {
            if (!parked(t) || !w[t].vt->notified) return false;
            if (!vs::enabled(w[t].vt)) { complain("a notified waiter cannot re-acquire the internal mutex"); return false; }
            runUntilStop(t);
            if (holding(t)) { w[t].holdsWrite = w[t].wantWrite; onGranted(t); }
            return true;
        }
        case 2: {
            if (!parked(t) || w[t].vt->notified) return false;
            w[t].vt->notified = true;
            return true;
        }
        case 3: {
            if (!holding(t)) return false;
            w[t].cmd = C_UNLOCK;
            runUntilStop(t);
            return true;
        }
        case 4: {
            if (w[t].vt->reason != vs::R_PRE_NOTIFY) return false;
            runUntilStop(t);
            return true;
        }
        default: return false;
        }
    }

    // drive every thread to completion without any model: C02's oracle
    void finish() {
        for (int guardIter = 0; guardIter < 100000; ++guardIter) {
            bool progressed = false;
            for (size_t t = 0; t < w.size(); ++t) {
                auto *v = w[t].vt;
                if (v->reason == vs::R_PRE_NOTIFY) { runUntilStop((int) t); progressed = true; }
                else if (parked((int) t) && v->notified && vs::enabled(v)) {
                    runUntilStop((int) t);
                    if (holding((int) t)) {
                        if (freeMode) { w[t].phase = Worker::P_HOLDING; freeGranted((int) t); }
                        else { w[t].holdsWrite = w[t].wantWrite; onGranted((int) t); monitorHolders(); }
                    }
                    progressed = true;
                }
            }
            if (progressed) continue;
            for (size_t t = 0; t < w.size(); ++t)
                if (holding((int) t)) { w[t].cmd = C_UNLOCK; runUntilStop((int) t); progressed = true; break; }
            if (!progressed) break;
        }
        bool stuck = false;
        for (size_t t = 0; t < w.size(); ++t)
            if (!atIdle((int) t)) {
                stuck = true;
                complain("C02: thread " + std::to_string(t) + " (" + (w[t].wantWrite ? "write" : "read") + " request #" +
                         std::to_string(w[t].arrival) + ") is still " + (parked((int) t) ? "parked" : vs::reasonName(w[t].vt->reason)) +
                         " after every holder released and every notification was delivered: lost wake-up");
            }
        if (stuck) return;
        // idle again: a write request and then two simultaneous read requests are granted at once
        if (w.size() >= 1) {
            labelNo = -1;
            Line wr = {0, 0, 1};
            doLabel(wr);
            if (!holding(0)) { complain("C02: the idle lock does not grant a write request immediately"); return; }
            w[0].cmd = C_UNLOCK; runUntilStop(0);
            if (w[0].vt->reason == vs::R_PRE_NOTIFY) runUntilStop(0);
            size_t k = std::min<size_t>(2, w.size());
            for (size_t t = 0; t < k; ++t) { Line rd = {0, (int64_t) t, 0}; doLabel(rd); }
            for (size_t t = 0; t < k; ++t)
                if (!holding((int) t)) { complain("C02: the idle lock does not grant read requests immediately"); return; }
            for (size_t t = 0; t < k; ++t) {
                w[t].cmd = C_UNLOCK; runUntilStop((int) t);
                if (w[t].vt->reason == vs::R_PRE_NOTIFY) runUntilStop((int) t);
            }
        }
        // let the workers exit
        for (size_t t = 0; t < w.size(); ++t) {
            if (!atIdle((int) t)) return;
            w[t].cmd = C_EXIT;
            for (int k = 0; k < 50 && !w[t].vt->finished && vs::enabled(w[t].vt); ++k) vs::step(w[t].vt);
            vs::reap(w[t].vt);
        }
        delete res;
        delete aux;
        res = aux = nullptr;
    }

    // ---- free exploration (failing-input search only; the model is not involved) -----------------
    // header [n; 2; seed], then one program line per thread (each entry: bit 0 = write request, bit 1 = use the
    // ReadLock / WriteLock guard objects). Every scheduling point of every thread — including the point before
    // each acquisition of the internal mutex — is a choice drawn from the seed; only the monitors judge.
    bool freeMode = false;
    long clock = 0;
    long manyCount = 0;

    // ---- marathon (deterministic; no model): header [3; 3; count]. The counters of the lock (holders, tickets, bounds)
    // are 64-bit quantities: (A) one thread holds `count` read locks at once while a writer waits; (B) two writers hand the
    // lock to each other `count` times without the lock ever becoming idle, then a third writer queues
    void toBoundary(int t) {   // resume t until it is parked, holding, idle or finished
        for (int k = 0; k < 8; ++k) {
            auto *v = w[t].vt;
            if (v->reason == vs::R_CV_BLOCKED && !v->notified) return;
            if (!vs::enabled(v)) return;
            if (v->reason == vs::R_POINT && k > 0) return;
            vs::step(v);
            if (v->reason == vs::R_POINT || v->reason == vs::R_CV_BLOCKED) return;
        }
    }
    void marathon(long count) {
        manyCount = count;
        // (C) many requests queued at once: thread 0 holds the write lock, every other thread queues a write request;
        // the lock then passes down the queue, one holder at a time, in arrival order
        {
            int n = (int) w.size();
            w[0].cmd = C_LOCK_W; w[0].wantWrite = true; w[0].arrival = arrivals++;
            toBoundary(0); if (!holding(0)) toBoundary(0);
            if (!holding(0)) { complain("C02: the idle lock does not grant a write request"); return; }
            w[0].holdsWrite = true;
            for (int t = 1; t < n; ++t) {
                w[t].cmd = C_LOCK_W; w[t].wantWrite = true; w[t].arrival = arrivals++;
                toBoundary(t); if (!parked(t) && !holding(t)) toBoundary(t);
                if (holding(t)) { complain("C01: a write request was granted while another writer holds the lock (" + std::to_string(t) + " requests queued)"); return; }
            }
            for (int t = 0; t < n; ++t) {
                w[t].cmd = C_UNLOCK;
                for (int g = 0; g < 8 && !atIdle(t); ++g) vs::step(w[t].vt);
                if (t + 1 == n) break;
                for (int g = 0; g < 4; ++g)
                    for (int u = t + 1; u < n; ++u)
                        if (parked(u) && w[u].vt->notified && vs::enabled(w[u].vt)) toBoundary(u);
                int holders = 0;
                for (int u = t + 1; u < n; ++u) if (holding(u)) ++holders;
                if (holders > 1) { complain("C01: " + std::to_string(holders) + " writers hold the lock at the same time (" + std::to_string(n - 1) + " write requests were queued)"); return; }
                if (!holding(t + 1)) {
                    complain(std::string(holders ? "C03: with " : "C02: with ") + std::to_string(n - 1) + " write requests queued, the one at the head of the queue was not " +
                             (holders ? "the one granted" : "granted after the holder released"));
                    return;
                }
                w[t + 1].holdsWrite = true;
            }
        }
        // (A)
        w[0].cmd = C_MANY_READS; w[0].wantWrite = false; w[0].arrival = arrivals++;
        for (long g = 0; g < 4 * count + 100 && !holding(0); ++g) vs::step(w[0].vt);
        if (!holding(0)) { complain("C02: taking many read locks on one thread does not complete"); return; }
        w[1].cmd = C_LOCK_W; w[1].wantWrite = true; w[1].holdsWrite = false; w[1].arrival = arrivals++;
        toBoundary(1); if (!parked(1) && !holding(1)) toBoundary(1);
        if (holding(1)) { complain("C01: the write lock was granted while another thread holds " + std::to_string(count) + " read locks"); return; }
        // thread 0 gives one read lock back
        for (int g = 0; g < 6; ++g) { vs::step(w[0].vt); if (w[0].vt->reason == vs::R_POINT) break; }
        for (int g = 0; g < 4; ++g) if (parked(1) && w[1].vt->notified && vs::enabled(w[1].vt)) toBoundary(1);
        if (holding(1)) { complain("C01: the write lock was granted while another thread still holds " + std::to_string(count - 1) + " read lock(s)"); return; }
        // ... and the rest
        for (long g = 0; g < 4 * count + 100 && !atIdle(0); ++g) vs::step(w[0].vt);
        for (int g = 0; g < 4 && !holding(1); ++g) toBoundary(1);
        if (!holding(1)) { complain("C02: the writer is not granted after every read lock was released"); return; }
        w[1].holdsWrite = true;
        // (B) thread 1 holds the write lock, threads 0 and 2 queue behind it; from then on the holder releases, the request
        // at the head of the queue must be the one that is granted, and the old holder queues again at the tail: the lock
        // never becomes idle, every round hands out one more ticket
        int holder = 1;
        std::deque<int> q;
        for (int t : {0, 2}) {
            w[t].cmd = C_LOCK_W; w[t].wantWrite = true; w[t].arrival = arrivals++;
            toBoundary(t); if (!parked(t) && !holding(t)) toBoundary(t);
            if (holding(t)) { complain("C01: a write request was granted while another writer holds the lock"); return; }
            q.push_back(t);
        }
        for (long i = 0; i < count; ++i) {
            w[holder].cmd = C_UNLOCK;
            for (int g = 0; g < 8 && !atIdle(holder); ++g) vs::step(w[holder].vt);       // unlock + notify
            int next = q.front(); q.pop_front();
            int other = q.front();
            for (int g = 0; g < 4 && !holding(next); ++g) { toBoundary(next); if (parked(other) && w[other].vt->notified && vs::enabled(w[other].vt)) toBoundary(other); }
            if (holding(other)) {
                complain(std::string(holding(next) ? "C01: C03: " : "C03: ") + "round " + std::to_string(i) + ": the write request parked later was granted " +
                         (holding(next) ? "together with" : "before") + " the one parked earlier");
                return;
            }
            if (!holding(next)) { complain("C02: round " + std::to_string(i) + ": the request at the head of the queue was not granted after the holder released"); return; }
            w[next].holdsWrite = true;
            w[holder].cmd = C_LOCK_W; w[holder].wantWrite = true; w[holder].holdsWrite = false; w[holder].arrival = arrivals++;
            toBoundary(holder); if (!parked(holder) && !holding(holder)) toBoundary(holder);
            if (holding(holder)) {
                complain("C01: C03: round " + std::to_string(i) + ": a new write request was granted at once although another writer holds the lock and an earlier request is still parked");
                return;
            }
            q.push_back(holder);
            holder = next;
        }
    }
    void freeGranted(int t) {
        w[t].holdsWrite = w[t].wantWrite;
        // C03 with explicit timestamps: a was observed parked before t's call was issued
        for (size_t a = 0; a < w.size(); ++a) {
            if ((int) a == t || w[a].phase != Worker::P_PARKED || w[a].parkedAt > w[t].issuedAt) continue;
            bool okException = !w[a].wantWrite && !w[t].wantWrite;
            if (okException)
                for (size_t c = 0; c < w.size(); ++c)
                    if (w[c].phase == Worker::P_PARKED && w[c].wantWrite && w[c].parkedAt > w[a].parkedAt && w[c].parkedAt < w[t].issuedAt)
                        okException = false;
            if (!okException)
                complain(std::string("C03: a ") + (w[t].wantWrite ? "write" : "read") + " request of thread " + std::to_string(t) +
                         " was granted while the " + (w[a].wantWrite ? "write" : "read") + " request of thread " + std::to_string(a) +
                         ", parked before it was issued, still waits");
        }
        monitorHolders();
    }
    void freeParked(int t) {
        if (w[t].wantWrite) return;
        bool writerAround = false;
        for (size_t a = 0; a < w.size(); ++a) {
            if ((int) a == t) continue;
            if (!(w[a].phase == Worker::P_HOLDING ? w[a].holdsWrite : w[a].wantWrite)) continue;
            if (w[a].phase == Worker::P_HOLDING || w[a].phase == Worker::P_PARKED) writerAround = true;
            // a writer inside unlock() still owns the lock until its critical section has run
            if (w[a].phase == Worker::P_RELEASING && w[a].vt->reason != vs::R_PRE_NOTIFY) writerAround = true;
            // a writer inside lock() that has not parked yet may already have queued itself
            if (w[a].phase == Worker::P_REQUESTING) writerAround = true;
        }
        if (!writerAround) complain("C12: a reader parked although no writer holds or waits for the lock");
    }
    void freeStep(int t) {
        auto *v = w[t].vt;
        if (atIdle(t)) {
            int64_t e = w[t].program[w[t].pc++];
            bool write = (e & 1) != 0;
            w[t].cmd = write ? C_LOCK_W : C_LOCK_R;
            w[t].wantWrite = write;
            w[t].guard = (e & 2) != 0;
            w[t].issuedAt = ++clock;
            w[t].phase = Worker::P_REQUESTING;
            w[t].stepsInLock = 0;
        } else if (holding(t)) {
            w[t].cmd = C_UNLOCK;
            w[t].phase = Worker::P_RELEASING;
        }
        if (w[t].phase == Worker::P_REQUESTING) ++w[t].stepsInLock;
        vs::step(v);
        if (holding(t) && w[t].phase != Worker::P_HOLDING) { w[t].phase = Worker::P_HOLDING; freeGranted(t); }
        else if (w[t].phase == Worker::P_REQUESTING && (parked(t) || v->reason == vs::R_CV_ENTRY || w[t].stepsInLock >= 2)) {
            // the request has looked at the lock (its first critical section is over, or it is about to block in the
            // condition variable with its queue entry made) and was not granted: from here on it is waiting inside lock*()
            w[t].phase = Worker::P_PARKED; w[t].parkedAt = ++clock; freeParked(t);
        }
        else if (atIdle(t)) w[t].phase = Worker::P_IDLE;
    }
    void freeExplore(uint64_t seed) {
        uint64_t rs = seed * 0x9E3779B97F4A7C15ULL + 12345;
        auto rnd = [&]() { rs ^= rs << 13; rs ^= rs >> 7; rs ^= rs << 17; return rs; };
        for (long guardIter = 0; guardIter < 20000; ++guardIter) {
            std::vector<int> en, sleepers;
            for (size_t t = 0; t < w.size(); ++t) {
                auto *v = w[t].vt;
                if (atIdle((int) t)) { if (w[t].pc < w[t].program.size()) en.push_back((int) t); }
                else if (parked((int) t) && !v->notified) sleepers.push_back((int) t);
                else if (vs::enabled(v)) en.push_back((int) t);
            }
            if (!sleepers.empty() && rnd() % 40 == 0) { w[sleepers[rnd() % sleepers.size()]].vt->notified = true; continue; } // spurious wake-up
            if (en.empty()) break;
            freeStep(en[rnd() % en.size()]);
        }
        // bring every thread to a boundary the drive-to-completion oracle understands
        for (long guardIter = 0; guardIter < 20000; ++guardIter) {
            bool progressed = false;
            for (size_t t = 0; t < w.size(); ++t) {
                auto *v = w[t].vt;
                if ((v->reason == vs::R_WANT_MUTEX || v->reason == vs::R_CV_ENTRY) && vs::enabled(v)) { freeStep((int) t); progressed = true; }
            }
            if (!progressed) break;
        }
    }

    void run(const Case &c) {
        vs::Sched::get().reset();
        int n = (int) c.lines[0][0];
        res = new Resource();
        aux = new Resource();
        w.resize(n);
        int64_t auxMask = c.lines[0].size() > 2 && c.lines[0][1] != 2 ? c.lines[0][2] : (c.lines[0].size() > 3 ? c.lines[0][3] : 0);
        for (int t = 0; t < n; ++t) w[t].holdsAux = ((auxMask >> t) & 1) != 0;
        for (int t = 0; t < n; ++t) w[t].vt = vs::spawn([this, t] { workerMain(t); });
        for (int t = 0; t < n; ++t)   // to the first idle point (through the read lock on the unrelated Resource, never contended)
            for (int k = 0; k < 50 && !(w[t].vt->reason == vs::R_POINT); ++k) {
                if (!vs::enabled(w[t].vt)) { complain("a read lock on an unrelated, otherwise unused Resource blocks"); break; }
                vs::step(w[t].vt);
            }
        if (c.lines[0][1] == 3) {
            if (n < 3) { emit({PRE}); return; }
            marathon(c.lines[0].size() > 2 ? (long) c.lines[0][2] : 70000);
            emit({3});
            finish();
            return;
        }
        if (c.lines[0][1] == 2) {
            freeMode = true;
            for (int t = 0; t < n && (size_t) t + 1 < c.lines.size(); ++t) w[t].program = c.lines[t + 1];
            freeExplore(c.lines[0].size() > 2 ? (uint64_t) c.lines[0][2] : 1);
            emit({2});
            finish();
            return;
        }
        for (size_t i = 1; i < c.lines.size(); ++i) {
            labelNo = (int) i;
            bool en = doLabel(c.lines[i]);
            Line out = {en ? 1 : 0};
            for (int t = 0; t < n; ++t) out.push_back(status(t));
            emit(out);
            monitorHolders();
        }
        finish();
    }
};

int main() {
    return main_loop([](const Case &c) {
        if (c.lines.empty() || c.lines[0].size() < 2) { emit({PRE}); return; }
        emit({});
        Run *r = new Run(); // leaked on purpose when threads stay blocked (lost wake-up)
        r->run(c);
    }, 150, 32);
}
