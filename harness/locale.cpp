// locale.cpp — implementation side of the C19 correspondence (tulz::LocaleInfo::get).
//
// Case: header [variant], then one input string per line (its bytes). For every string the
// driver calls the real LocaleInfo::get — the Info object is constructed in storage pre-filled
// with a poison pattern, so a field that get() never assigns is recognisable — and prints:
// error flag, languageCode, the languages, country, countryCode (length-prefixed byte strings;
// -1 for a field still holding the poison pattern).
//
// Model-independent oracle: an independent lookup in the public tables (languageInfo /
// countryInfo, by code and by name, split at the first '_' and the first '.'), membership of
// every returned string in the tables (by content), the documented fallback otherwise;
// AddressSanitizer covers the buffers.
#include "common.h"
#include <tulz/LocaleInfo.h>
#include <new>

using namespace vh;
using tulz::LocaleInfo;

static const unsigned char POISON = 0xAB;
static bool poisoned(const char *p) {
    uintptr_t v = (uintptr_t) p, pat = 0;
    memset(&pat, POISON, sizeof(pat));
    return v == pat;
}
static void put(Line &out, const char *s) {
    if (poisoned(s)) { out.push_back(-1); return; }
    size_t n = strlen(s);
    out.push_back((int64_t) n);
    for (size_t i = 0; i < n; ++i) out.push_back((unsigned char) s[i]);
}

static bool inLang(const char *s, bool code) {
    for (int i = 0; i < LocaleInfo::languagesCount; ++i)
        if (strcmp(code ? LocaleInfo::languageInfo[i].code : LocaleInfo::languageInfo[i].value, s) == 0) return true;
    return false;
}

int main() {
    return main_loop([](const Case &c) {
        if (c.lines.empty() || c.lines[0].size() != 1) { emit({PRE}); return; }
        emit({});
        for (size_t li = 1; li < c.lines.size(); ++li) {
            const Line &l = c.lines[li];
            bool ok = true;
            std::string s;
            for (auto b : l) { if (b < 1 || b > 255) ok = false; s.push_back((char) (unsigned char) b); }
            if (!ok) { emit({PRE}); continue; }
            // exact-size heap copy: ASan sees any read past the terminating zero
            char *in = (char *) malloc(s.size() + 1);
            memcpy(in, s.c_str(), s.size() + 1);
            alignas(LocaleInfo::Info) unsigned char storage[sizeof(LocaleInfo::Info)];
            memset(storage, POISON, sizeof(storage));
            fflush(stdout);
            int saved = dup(2); // get() reports the fallback on stderr: keep the log quiet
            FILE *nul = fopen("/dev/null", "w");
            dup2(fileno(nul), 2);
            auto *info = new (storage) LocaleInfo::Info(LocaleInfo::get(in));
            fflush(stderr);
            dup2(saved, 2); close(saved); fclose(nul);
            Line out;
            out.push_back(info->error ? 1 : 0);
            put(out, info->languageCode);
            out.push_back((int64_t) info->languages.size());
            for (auto *p : info->languages) put(out, p);
            put(out, info->country);
            put(out, info->countryCode);
            emit(out);
            // ---- oracle ------------------------------------------------------------------------
            bool uninit = poisoned(info->languageCode) || poisoned(info->country) || poisoned(info->countryCode);
            if (uninit) oracle_fail("C19: get(\"" + s + "\") returns a field that was never assigned");
            else {
                size_t us = s.find('_'), dot = s.find('.');
                if (dot == std::string::npos) dot = s.size();
                bool known = false;
                std::string lang, ctry;
                int crow = -1;
                std::vector<std::string> names;
                std::string code;
                if (us != std::string::npos && us < dot) {
                    lang = s.substr(0, us); ctry = s.substr(us + 1, dot - us - 1);
                    for (int i = 0; i < LocaleInfo::languagesCount; ++i)
                        if (lang == LocaleInfo::languageInfo[i].code) { code = lang; names.push_back(LocaleInfo::languageInfo[i].value); }
                    bool byName = false;
                    if (names.empty())
                        for (int i = 0; i < LocaleInfo::languagesCount; ++i)
                            if (lang == LocaleInfo::languageInfo[i].value) { code = LocaleInfo::languageInfo[i].code; names.push_back(lang); byName = true; break; }
                    for (int i = 0; i < LocaleInfo::countiesCount && crow < 0; ++i)
                        if (ctry == LocaleInfo::countryInfo[i].code || ctry == LocaleInfo::countryInfo[i].value) crow = i;
                    known = !names.empty() && crow >= 0;
                    if (known) {
                        bool good = !info->error && code == info->languageCode &&
                                    std::string(LocaleInfo::countryInfo[crow].value) == info->country &&
                                    std::string(LocaleInfo::countryInfo[crow].code) == info->countryCode;
                        std::vector<std::string> got;
                        for (auto *p : info->languages) got.push_back(p);
                        if (byName) {
                            // by name: the name must be listed and every listed name must carry the returned code
                            bool has = false;
                            for (auto &g : got) {
                                if (g == lang) has = true;
                                bool okc = false;
                                for (int i = 0; i < LocaleInfo::languagesCount; ++i)
                                    if (g == LocaleInfo::languageInfo[i].value && code == LocaleInfo::languageInfo[i].code) okc = true;
                                if (!okc) good = false;
                            }
                            if (!has) good = false;
                        } else if (got != names) good = false;
                        if (!good) oracle_fail("C19: get(\"" + s + "\") does not return the table entries of that language and country");
                    }
                }
                if (!known) {
                    bool fb = info->error && std::string(info->languageCode) == "en" && info->languages.size() == 1 &&
                              std::string(info->languages.front()) == "English" && std::string(info->country) == "United Kingdom" &&
                              std::string(info->countryCode) == "GB";
                    if (!fb) oracle_fail("C19: get(\"" + s + "\") is not a known language_COUNTRY[.charset] but does not return the English / United Kingdom fallback with error set");
                }
                if (!inLang(info->languageCode, true)) oracle_fail("C19: returned languageCode is not a table entry");
                for (auto *p : info->languages) if (!inLang(p, false)) oracle_fail("C19: returned language name is not a table entry");
            }
            info->~Info();
            free(in);
        }
    }, 30, 8);
}
