// concrouter.cpp — implementation side of the C11 correspondence (tulz::ConcurrentSubjectRouter on
// several threads). Compiled with -include vsched.h together with Resource.cpp and the router
// sources: the rwp::Resource inside the router runs on the controlled mutex / condition variable.
//
// Case: header [nthreads; nregex], nregex match-set lines, one program line per thread (router
// operations in the encoding of RouterModel.rop_of, separated by -1), then labels: t = thread t
// advances to its next observable boundary (parked inside Resource::lock, inside a callback — the
// callbacks contain a scheduling point —, operation completed). After every label: enabled flag,
// per-thread status (0 idle, 1 parked, 2 parked and notified, 10+k inside the k-th callback), SEP,
// the events of the step (1 t obs v = callback of observer obs run by thread t with value v;
// 2 t n r.. = thread t's operation returned the n values r..).
//
// Model-independent monitors: no subscribe / unsubscribe / shrink completes while another thread is
// inside a notify (between its first callback and its return); the callbacks of a notify are exactly
// the present subscriptions whose key matches, as of one instant; no callback of an observer runs
// after its unsubscribe() has returned.
#include "common.h"
// the free exploration looks at the wrapped router between two steps of the scheduler (all threads parked) to see
// *when* a modification took effect: it needs the one private member ConcurrentSubjectRouter::m_router (the access
// translator relies on the same name); everything else goes through public interfaces
#define private public
#include <tulz/observer/routing/ConcurrentSubjectRouter.h>
#undef private
#include <tulz/observer/routing/RoutingKeyBuilder.h>
#include <deque>
#include <set>

using namespace vh;

// the same tables as harness/router.cpp (the generator is shared): the last two names contain a NUL byte
static const std::string NAMES[] = {"", "a", "ab", "abc", "b", "ba", "bar", "baz", "foo", "qux", "x1", "zz",
                                    std::string("zz\0", 3), std::string("zz\0y", 4)};
static const int NNAMES = 14;
static const char *REGEXES[] = {".*", "a.*", "ba[rz]", "b.*", "(foo|qux)", ".", "ab?c?", "[a-f].*", ".+z", "x1|zz|a", "b", "q",
                                "zz", "zz.y", "zz."};
enum { TAG_IDLE = 1, TAG_CB = 2 };

struct Lvl { bool rx; int64_t id; };
using Pattern = std::vector<Lvl>;
static bool parsePattern(const Line &l, size_t from, int nrx, Pattern &p) {
    for (size_t i = from; i < l.size();) {
        if (l[i] == 0 && i + 1 < l.size()) { p.push_back({false, l[i + 1]}); i += 2; }
        else if (l[i] == 1 && i + 1 < l.size()) { if (l[i + 1] < 0 || l[i + 1] >= nrx) return false; p.push_back({true, l[i + 1]}); i += 2; }
        else if (l[i] == 2) { p.push_back({true, 0}); i += 1; }
        else return false;
    }
    return true;
}
static tulz::RoutingKey buildKey(const Pattern &p) {
    tulz::RoutingKeyBuilder b;
    for (auto &l : p) {
        if (!l.rx) b.level(l.id >= 0 && l.id < NNAMES ? std::string(NAMES[l.id]) : "name" + std::to_string(l.id));
        else if (l.id == 0) b.all();
        else b.level(std::regex(REGEXES[l.id]));
    }
    return b.build();
}

struct Op { int64_t code; std::vector<int64_t> key; Pattern pat; int64_t arg = 0, h = 0; };

struct World {
    tulz::ConcurrentSubjectRouter router;
    std::deque<tulz::USubscription> handles;
    std::vector<std::vector<int64_t>> rxset;
    int nrx = 0;
    struct Rec { std::vector<int64_t> key; int64_t o; bool present = true; bool unsubReturned = false; bool unsubPending = false;
                 long subCall = 0, subRet = -1, unsubCall = -1, unsubRet = -1; };   // logical times (free exploration)
    // free exploration: operations of different threads overlap at every scheduling point, so the monitors reason about
    // the intervals [call, return] of the operations instead of instants
    bool freeMode = false;
    long clk = 0;
    std::vector<int> epoch;            // per thread: number of notify calls started
    std::vector<std::unique_ptr<tulz::USubscription>> fhandles;   // by observer id (assigned at the subscribe call)
    struct Inside { int u; int ep; };
    std::vector<Inside> delivering(int t) const {
        std::vector<Inside> r;
        for (size_t u = 0; u < cbIndex.size(); ++u) if ((int) u != t && cbIndex[u] >= 1) r.push_back({(int) u, epoch[u]});
        return r;
    }
    // the whole mutation [call, return] lies inside one delivery of another thread (which therefore held the read lock
    // throughout): the thread was delivering at the call and is inside a callback of the same notify at the return
    bool insideOneDelivery(const std::vector<Inside> &atCall) const {
        for (auto &i : atCall)
            if (epoch[i.u] == i.ep && cbIndex[i.u] >= 1 && th[i.u]->reason == vs::R_POINT && th[i.u]->tag == TAG_CB) return true;
        return false;
    }
    std::vector<Rec> ref;
    std::vector<Line> events;
    std::vector<std::vector<Op>> progs;
    std::vector<size_t> pc;
    std::vector<vs::VThread *> th;
    std::vector<int> cbIndex;          // per thread: callbacks run in the current notify (-1 = not inside a notify)
    std::vector<std::vector<std::pair<int64_t, int64_t>>> curCalls;
    int labelNo = 0;
    void complain(const std::string &m) { oracle_fail("label=" + std::to_string(labelNo) + " " + m); }

    bool lvlMatch(const Lvl &l, int64_t name) const {
        if (!l.rx) return l.id == name;
        auto &s = rxset[l.id];
        return std::find(s.begin(), s.end(), name) != s.end();
    }
    bool keyMatch(const Pattern &p, const std::vector<int64_t> &key) const {
        if (p.size() != key.size()) return false;
        for (size_t i = 0; i < key.size(); ++i) if (!lvlMatch(p[i], key[i])) return false;
        return true;
    }
    // what the structure of the wrapped router looks like from outside: which of the keys ever subscribed exist, and the depth
    std::vector<std::vector<int64_t>> allKeys;
    std::vector<int64_t> fingerprint() const {
        std::vector<int64_t> fp;
        for (auto &k : allKeys) { Pattern p; for (auto x : k) p.push_back({false, x}); fp.push_back(router.m_router.exists(buildKey(p)) ? 1 : 0); }
        fp.push_back((int64_t) router.m_router.depth());
        return fp;
    }
    bool othersInsideNotify(int t) const {
        for (size_t u = 0; u < cbIndex.size(); ++u) if ((int) u != t && cbIndex[u] >= 1) return true; // at least one callback has started and the notify has not returned
        return false;
    }
};
static World *W = nullptr;

static void threadMain(int t) {
    for (;;) {
        vs::point(TAG_IDLE);
        if (W->pc[t] >= W->progs[t].size()) return;
        Op op = W->progs[t][W->pc[t]++];
        switch (op.code) {
        case 0: {
            Pattern p; for (auto k : op.key) p.push_back({false, k});
            // the observer's identity is its position in the order in which subscriptions take effect
            auto idp = std::make_shared<int64_t>(-1);
            auto body = [idp](int v) {
                int64_t o = *idp;
                int me = vs::self ? vs::self->id : -1;
                int t2 = -1;
                for (size_t i = 0; i < W->th.size(); ++i) if (W->th[i]->id == me) t2 = (int) i;
                W->events.push_back({1, t2, o, v});
                if (t2 >= 0) { W->curCalls[t2].push_back({o, v}); ++W->cbIndex[t2]; }
                if (W->ref[o].unsubReturned) W->complain("C11: callback of observer " + std::to_string(o) + " runs after its unsubscribe() returned");
                vs::point(TAG_CB);
            };
            if (W->freeMode) {
                int64_t o = (int64_t) W->ref.size();
                *idp = o;
                W->ref.push_back({op.key, o, true});
                W->ref[o].subCall = ++W->clk;
                W->fhandles.emplace_back(nullptr);
                auto atCall = W->delivering(t);
                auto h = std::make_unique<tulz::USubscription>(W->router.subscribe<int>(buildKey(p), body));
                W->fhandles[o] = std::move(h);
                W->ref[o].subRet = ++W->clk;
                if (W->insideOneDelivery(atCall)) W->complain("C11: a subscribe was carried out completely while another thread was in the middle of one delivery");
                break;
            }
            W->handles.emplace_back(W->router.subscribe<int>(buildKey(p), body));
            int64_t o = (int64_t) W->ref.size();
            *idp = o;
            W->ref.push_back({op.key, o, true});
            if (W->othersInsideNotify(t)) W->complain("C11: a subscribe took effect while a delivery was in progress on another thread");
            W->events.push_back({2, t, 0});
            break;
        }
        case 1: {
            // a handle is used by one thread at a time (handle operations presuppose a valid handle)
            if (W->freeMode) {
                if (op.h < 0 || (size_t) op.h >= W->fhandles.size() || !W->fhandles[op.h] || W->ref[op.h].unsubCall >= 0) break;
                W->ref[op.h].unsubCall = ++W->clk;
                auto atCall = W->delivering(t);
                (*W->fhandles[op.h])->unsubscribe();
                W->ref[op.h].unsubRet = ++W->clk;
                W->ref[op.h].unsubReturned = true;
                if (W->insideOneDelivery(atCall)) W->complain("C11: an unsubscribe was carried out completely while another thread was in the middle of one delivery");
                break;
            }
            if (op.h < 0 || (size_t) op.h >= W->handles.size() || !W->ref[op.h].present || W->ref[op.h].unsubPending) { W->events.push_back({2, t, 0}); break; }
            W->ref[op.h].unsubPending = true;
            W->handles[op.h]->unsubscribe();
            W->ref[op.h].unsubPending = false;
            W->ref[op.h].present = false;
            W->ref[op.h].unsubReturned = true;
            if (W->othersInsideNotify(t)) W->complain("C11: an unsubscribe took effect while a delivery was in progress on another thread");
            W->events.push_back({2, t, 0});
            break;
        }
        case 6: {
            W->cbIndex[t] = 0; W->curCalls[t].clear();
            if (W->freeMode) {
                ++W->epoch[t];
                long callAt = ++W->clk;
                size_t n = W->router.notify(buildKey(op.pat), (int) op.arg);
                long retAt = ++W->clk;
                // linearizability, stated so that it cannot misjudge: every observer whose subscribe had returned before
                // the call and whose unsubscribe was not even called before the return must have been reached; nobody
                // may be reached whose subscribe was called after the return or whose unsubscribe returned before the call
                std::set<int64_t> got;
                for (auto &cv : W->curCalls[t]) {
                    if (!got.insert(cv.first).second) W->complain("C11: one notify reached observer " + std::to_string(cv.first) + " twice");
                    if (cv.second != op.arg) W->complain("C11: a callback received a value of another notify");
                }
                for (auto &r : W->ref) {
                    if (!W->keyMatch(op.pat, r.key)) { if (got.count(r.o)) W->complain("C11: a notify reached an observer whose key does not match the pattern"); continue; }
                    bool must = r.subRet >= 0 && r.subRet < callAt && (r.unsubCall < 0 || r.unsubCall > retAt);
                    bool may = r.subCall < retAt && (r.unsubRet < 0 || r.unsubRet > callAt);
                    if (must && !got.count(r.o)) W->complain("C11: a notify missed observer " + std::to_string(r.o) + ", subscribed before the call and not unsubscribed before the return");
                    if (!may && got.count(r.o)) W->complain("C11: a notify reached observer " + std::to_string(r.o) + ", which was not subscribed at any instant between the call and the return");
                }
                (void) n;
                W->cbIndex[t] = -1;
                break;
            }
            // the subscriptions as of the call (no mutation may complete until the return: monitored above)
            std::vector<std::pair<int64_t, int64_t>> expect;
            size_t n = W->router.notify(buildKey(op.pat), (int) op.arg);
            std::set<std::vector<int64_t>> keys;
            for (auto &r : W->ref) if (r.present && W->keyMatch(op.pat, r.key)) keys.insert(r.key);
            for (auto &k : keys) for (auto &r : W->ref) if (r.present && r.key == k) expect.push_back({r.o, op.arg});
            if (W->curCalls[t] != expect) W->complain("C11: a notify did not reach exactly the observers subscribed at one instant between its call and its return");
            W->cbIndex[t] = -1;
            W->events.push_back({2, t, 1, (int64_t) n});
            break;
        }
        case 11: {
            if (W->freeMode) {
                auto atCall = W->delivering(t);
                W->router.shrink(buildKey(op.pat));
                if (W->insideOneDelivery(atCall)) W->complain("C11: a shrink was carried out completely while another thread was in the middle of one delivery");
                break;
            }
            W->router.shrink(buildKey(op.pat));
            if (W->othersInsideNotify(t)) W->complain("C11: a shrink took effect while a delivery was in progress on another thread");
            W->events.push_back({2, t, 0});
            break;
        }
        case 12: { bool e = W->router.exists(buildKey(op.pat)); W->events.push_back({2, t, 1, e ? 1 : 0}); break; }
        case 13: { size_t d = W->router.depth(); W->events.push_back({2, t, 1, (int64_t) d}); break; }
        }
    }
}

// advance thread v to its next observable boundary
static void advance(vs::VThread *v) {
    for (;;) {
        vs::step(v);
        switch (v->reason) {
        case vs::R_WANT_MUTEX: if (!vs::enabled(v)) { W->complain("thread blocks on the Resource's internal mutex"); return; } break;
        case vs::R_CV_ENTRY: case vs::R_PRE_NOTIFY: break;
        default: return;
        }
    }
}

int main() {
    return main_loop([](const Case &c) {
        if (c.lines.empty() || c.lines[0].size() < 2 || c.lines[0].size() > 3) { emit({PRE}); return; }
        int nt = (int) c.lines[0][0], nrx = (int) c.lines[0][1];
        if ((size_t) (1 + nrx + nt) > c.lines.size()) { emit({PRE}); return; }
        emit({});
        vs::Sched::get().reset();
        W = new World(); // leaked on purpose if threads stay blocked
        W->nrx = nrx;
        for (int i = 0; i < nrx; ++i) { W->rxset.push_back(c.lines[1 + i]); emit({}); }
        for (int t = 0; t < nt; ++t) {
            const Line &l = c.lines[1 + nrx + t];
            std::vector<Op> prog;
            Line cur;
            auto flush = [&]() {
                if (cur.empty()) return;
                Op op; op.code = cur[0]; bool ok = true;
                if (cur[0] == 0) { op.key.assign(cur.begin() + 1, cur.end()); for (auto k : op.key) if (k < 0 || k >= NNAMES) ok = false; }
                else if (cur[0] == 1 && cur.size() == 2 && cur[1] >= 0) op.h = cur[1];
                else if (cur[0] == 6 && cur.size() >= 2) { op.arg = cur[1]; ok = parsePattern(cur, 2, nrx, op.pat); }
                else if (cur[0] == 11 || cur[0] == 12) ok = parsePattern(cur, 1, nrx, op.pat);
                else if (cur[0] == 13 && cur.size() == 1) {}
                else ok = false;
                if (ok && op.code == 0 && std::find(W->allKeys.begin(), W->allKeys.end(), op.key) == W->allKeys.end()) W->allKeys.push_back(op.key);
                if (ok) prog.push_back(op);
                cur.clear();
            };
            for (auto x : l) { if (x == -1) flush(); else cur.push_back(x); }
            flush();
            W->progs.push_back(prog);
            emit({});
        }
        W->pc.assign(nt, 0); W->cbIndex.assign(nt, -1); W->curCalls.assign(nt, {}); W->epoch.assign(nt, 0);
        W->freeMode = c.lines[0].size() == 3;
        for (int t = 0; t < nt; ++t) W->th.push_back(vs::spawn([t] { threadMain(t); }));
        for (int t = 0; t < nt; ++t) vs::step(W->th[t]);
        auto status = [&](int t) -> int64_t {
            auto *v = W->th[t];
            if (v->reason == vs::R_CV_BLOCKED) return v->notified ? 2 : 1;
            if (v->reason == vs::R_POINT && v->tag == TAG_CB) return 10 + (W->cbIndex[t] - 1);
            return 0;
        };
        auto canStep = [&](int t) {
            auto *v = W->th[t];
            if (v->finished) return false;
            if (v->reason == vs::R_POINT && v->tag == TAG_IDLE) return W->pc[t] < W->progs[t].size();
            if (v->reason == vs::R_CV_BLOCKED) return v->notified && vs::enabled(v);
            return v->reason == vs::R_POINT;
        };
        if (c.lines[0].size() == 3) {
            // free exploration (failing-input search only): header [nthreads; nregex; seed]; every scheduling point of
            // every thread (inside Resource::lock / unlock too) is a random choice; only the monitors judge
            uint64_t rs = (uint64_t) c.lines[0][2] * 0x9E3779B97F4A7C15ULL + 777;
            auto rnd = [&]() { rs ^= rs << 13; rs ^= rs >> 7; rs ^= rs << 17; return rs; };
            for (long guard = 0; guard < 50000; ++guard) {
                std::vector<int> en;
                for (int t = 0; t < nt; ++t) {
                    auto *v = W->th[t];
                    if (v->finished) continue;
                    if (v->reason == vs::R_POINT && v->tag == TAG_IDLE) { if (W->pc[t] < W->progs[t].size()) en.push_back(t); }
                    else if (vs::enabled(v)) en.push_back(t);
                }
                if (en.empty()) break;
                int pick = en[rnd() % en.size()];
                auto fp0 = W->fingerprint();
                vs::step(W->th[pick]);
                if (W->fingerprint() != fp0)
                    for (int u = 0; u < nt; ++u)
                        if (u != pick && W->cbIndex[u] >= 1 && W->th[u]->reason == vs::R_POINT && W->th[u]->tag == TAG_CB) {
                            // u sat inside a callback of one delivery before and after this step: it held the read lock throughout
                            W->complain("C11: the structure of the router was modified by thread " + std::to_string(pick) + " while thread " +
                                        std::to_string(u) + " was in the middle of a delivery");
                            break;
                        }
            }
        }
        for (size_t li = 1 + nrx + nt; li < c.lines.size() && c.lines[0].size() == 2; ++li) {
            const Line &l = c.lines[li];
            W->labelNo = (int) (li - nrx - nt);
            if (l.size() != 1 || l[0] < 0) { emit({PRE}); continue; }
            size_t ev0 = W->events.size();
            bool en = l[0] < nt && canStep((int) l[0]);
            if (en) advance(W->th[l[0]]);
            Line out = {en ? 1 : 0};
            for (int t = 0; t < nt; ++t) out.push_back(status(t));
            out.push_back(SEP);
            for (size_t i = ev0; i < W->events.size(); ++i) out.insert(out.end(), W->events[i].begin(), W->events[i].end());
            emit(out);
        }
        // drive everything to completion: every operation must return (the lock is C02's subject; a hang here is reported)
        W->labelNo = -1;
        for (long guard = 0; guard < 100000; ++guard) {
            bool progressed = false;
            for (int t = 0; t < nt; ++t) if (canStep(t)) { advance(W->th[t]); progressed = true; }
            if (!progressed) break;
        }
        bool stuck = false;
        for (int t = 0; t < nt; ++t) {
            auto *v = W->th[t];
            if (!(v->reason == vs::R_POINT && v->tag == TAG_IDLE && W->pc[t] >= W->progs[t].size())) stuck = true;
        }
        if (stuck) { W->complain("C11: some router operation never returns (threads blocked in Resource::lock)"); return; }
        for (int t = 0; t < nt; ++t) { vs::step(W->th[t]); vs::reap(W->th[t]); }
        delete W;
    }, 30, 16);
}
