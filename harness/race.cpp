// race.cpp — free-running stress programs for C15, built from /repo's working tree with
// -fsanitize=thread (no controlled scheduler, no model): the failing-input search and supporting
// validation of the data-race theorem. Each program uses a component the way the property
// describes its intended use; a ThreadSanitizer report that names tulz code is the replay.
//
//   race <program> <iterations> <seed>
//     1  rwp::Resource with ReadLock / WriteLock guards and raw calls, 6 threads
//     2  ThreadPool: one owner calling start / clear / update / stop (+ restart) and the getters
//        while workers run tasks and expire (expiry timeout 1 ms)
//     3  ConcurrentSubjectRouter: 5 threads mixing notify / subscribe / unsubscribe / shrink /
//        exists / depth (callbacks only touch an atomic)
//     4  tulz::Thread: start with callables and Runnables, poll isFinished(), join
//     5  tulz::Thread as a hand-over (C20): the callable / Runnable writes plain (non-atomic) data, the owner polls
//        isFinished() and, once it is true, reads the data without joining first: "isFinished() becomes true only
//        after the callable has returned" must hold as an ordering of memory accesses, not only of wall-clock time
#include <tulz/threading/rwp/Resource.h>
#include <tulz/threading/rwp/ReadLock.h>
#include <tulz/threading/rwp/WriteLock.h>
#include <tulz/threading/ThreadPool.h>
#include <tulz/threading/Thread.h>
#include <tulz/observer/routing/ConcurrentSubjectRouter.h>
#include <tulz/observer/routing/RoutingKeyBuilder.h>
#include <atomic>
#include <cstdio>
#include <cstdlib>
#include <deque>
#include <mutex>
#include <thread>
#include <vector>

static uint64_t mix(uint64_t &s) { s ^= s << 13; s ^= s >> 7; s ^= s << 17; return s; }

static void resourceStress(long iters, uint64_t seed) {
    tulz::rwp::Resource res;
    long shared = 0;            // protected by res: written under the write lock, read under the read lock
    std::atomic<long> sink{0};
    std::vector<std::thread> ts;
    for (int t = 0; t < 6; ++t)
        ts.emplace_back([&, t] {
            uint64_t s = seed * 977 + t * 7919 + 1;
            for (long i = 0; i < iters; ++i) {
                switch (mix(s) % 4) {
                case 0: { tulz::rwp::WriteLock l(res); ++shared; break; }
                case 1: { tulz::rwp::ReadLock l(res); sink += shared; break; }
                case 2: res.lockRead(); sink += shared; res.unlockRead(); break;
                default: res.lockWrite(); shared += 2; res.unlockWrite(); break;
                }
            }
        });
    for (auto &t : ts) t.join();
    printf("resource: shared=%ld\n", shared);
}

static std::atomic<long> tasksRun{0};
struct Job : tulz::Runnable { void run() override { ++tasksRun; } };

static void poolStress(long iters, uint64_t seed) {
    tulz::ThreadPool pool;
    pool.setMaxThreadCount(3);
    pool.setExpiryTimeout(1);           // workers expire: start-up, expiry and shutdown windows all occur
    uint64_t s = seed * 31 + 5;
    long sink = 0;
    for (long i = 0; i < iters; ++i) {
        switch (mix(s) % 12) {
        case 0: case 1: case 2: case 3: case 4: pool.start(new Job()); break;
        case 5: pool.start([] { ++tasksRun; }); break;
        case 6: pool.update(); break;
        case 7: sink += pool.getActiveThreadCount() + pool.getThreadCount() + pool.isRunning() + pool.getExpiryTimeout(); break;
        case 8: pool.clear(); break;
        case 9: std::this_thread::sleep_for(std::chrono::microseconds(300 + mix(s) % 2500)); pool.update(); break;
        case 10: if (mix(s) % 8 == 0) pool.stop(); break;
        default: std::this_thread::yield(); break;
        }
    }
    pool.stop();
    printf("pool: tasks run=%ld sink=%ld\n", tasksRun.load(), sink);
}

static void routerStress(long iters, uint64_t seed) {
    tulz::ConcurrentSubjectRouter router;
    std::atomic<long> calls{0};
    std::mutex handlesMutex;            // the harness's own table of subscriptions (each handle is used by one thread at a time)
    std::deque<std::unique_ptr<tulz::USubscription>> handles;
    const char *names[] = {"a", "b", "foo", "bar"};
    auto key = [&](uint64_t &s, bool wild) {
        tulz::RoutingKeyBuilder b;
        int d = 1 + (int) (mix(s) % 2);
        for (int i = 0; i < d; ++i) { if (wild && mix(s) % 3 == 0) b.all(); else b.level(std::string(names[mix(s) % 4])); }
        return b.build();
    };
    std::vector<std::thread> ts;
    for (int t = 0; t < 5; ++t)
        ts.emplace_back([&, t] {
            uint64_t s = seed * 131 + t * 104729 + 3;
            for (long i = 0; i < iters; ++i) {
                switch (mix(s) % 10) {
                case 0: case 1: {
                    auto sub = std::make_unique<tulz::USubscription>(router.subscribe<int>(key(s, false), [&calls](int v) { calls += v; }));
                    std::lock_guard<std::mutex> l(handlesMutex);
                    handles.push_back(std::move(sub));
                    break;
                }
                case 2: {
                    std::unique_ptr<tulz::USubscription> h;
                    { std::lock_guard<std::mutex> l(handlesMutex); if (!handles.empty()) { h = std::move(handles.front()); handles.pop_front(); } }
                    if (h) (*h)->unsubscribe();
                    break;
                }
                case 3: router.shrink(key(s, true)); break;
                case 4: (void) router.exists(key(s, true)); break;
                case 5: (void) router.depth(); break;
                default: router.notify(key(s, true), 1); break;
                }
            }
        });
    for (auto &t : ts) t.join();
    { std::lock_guard<std::mutex> l(handlesMutex); for (auto &h : handles) (*h)->unsubscribe(); handles.clear(); }
    printf("router: calls=%ld\n", calls.load());
}

static void threadStress(long iters, uint64_t seed) {
    long sink = 0;
    for (long i = 0; i < iters; ++i) {
        int arg = (int) i;
        std::atomic<int> seen{0};
        tulz::Thread t;
        if ((i + seed) % 2) t.start([&seen](int &a) { seen = a; }, arg);
        else t.start(new Job());
        while (!t.isFinished()) std::this_thread::yield();
        sink += t.isRunning();
        t.join();
    }
    printf("thread: sink=%ld\n", sink);
}

struct Payload { long a = 0, b = 0; char text[48] = {0}; };
struct FillJob : tulz::Runnable {
    Payload *p; long v;
    FillJob(Payload *p, long v) : p(p), v(v) {}
    void run() override { p->a = v; p->b = -v; snprintf(p->text, sizeof p->text, "job %ld", v); }
};

static void handoverStress(long iters, uint64_t seed) {
    long sink = 0, bad = 0;
    for (long i = 0; i < iters; ++i) {
        Payload pl;
        tulz::Thread t;
        long v = (long) (seed * 1000 + i + 1);
        switch (i % 3) {
        case 0: t.start([](Payload *p, long &x) { p->a = x; p->b = -x; snprintf(p->text, sizeof p->text, "fn %ld", x); }, &pl, v); break;
        case 1: { long big[6] = {v, 1, 2, 3, 4, 5}; t.start([big](Payload *p) { p->a = big[0]; p->b = -big[0]; p->text[0] = 'c'; }, &pl); break; }
        default: t.start(new FillJob(&pl, v)); break;
        }
        while (!t.isFinished()) std::this_thread::yield();
        // completion was reported: everything the callable wrote is visible
        if (pl.a != v || pl.b != -v || pl.text[0] == 0) ++bad;
        sink += pl.a + pl.b;
        t.join();
    }
    printf("handover: sink=%ld bad=%ld\n", sink, bad);
    if (bad) exit(3);
}

int main(int argc, char **argv) {
    int prog = argc > 1 ? atoi(argv[1]) : 0;
    long iters = argc > 2 ? atol(argv[2]) : 1000;
    uint64_t seed = argc > 3 ? strtoull(argv[3], nullptr, 10) : 1;
    switch (prog) {
    case 1: resourceStress(iters, seed); break;
    case 2: poolStress(iters, seed); break;
    case 3: routerStress(iters, seed); break;
    case 4: threadStress(iters, seed); break;
    case 5: handoverStress(iters, seed); break;
    default: fprintf(stderr, "usage: race <1-5> <iterations> <seed>\n"); return 2;
    }
    return 0;
}
