// ring.cpp — implementation side of the C04/C09 correspondence: drives the real
// tulz::RingBuffer (from /repo's working tree) with the operation lines of a case and prints
// the observation line RingModel.ring_step must reproduce. Independent oracle: a std::deque
// replay per buffer, the Tracked registry, LeakSanitizer.
#include "tracked.h"
#include <deque>
#include <memory>
#include <tulz/container/RingBuffer.h>

using namespace vh;

// floats: value v <-> v + 0.5f, and 0 <-> a zero whose sign alternates from one call to the next: +0.0f and -0.0f are
// equal elements with different bytes (so is every pair of values operator== of the element type calls equal)
namespace vh {
template <> struct Elem<float> {
    static constexpr bool tracked = false;
    static float make(int64_t v) { static bool neg = false; if (v == 0) { neg = !neg; return neg ? -0.0f : 0.0f; } return (float) v + 0.5f; }
    static int64_t show(const float &x) {
        if (x == 0.0f) return 0;
        float f = x - 0.5f;
        if (f == (float) (int64_t) f && f > -4e6f && f < 4e6f) return (int64_t) f;
        return -424242;
    }
};
}

template <typename T, bool OW> struct Runner {
    using RB = tulz::RingBuffer<T, OW>;
    using E = Elem<T>;
    RB *buf[3] = {nullptr, nullptr, nullptr};
    // oracle state: what a bounded deque holds
    struct Ref { bool present = false; std::deque<int64_t> items; int64_t cap = 0; } ref[3];
    int opNo = 0;
    bool showEvents = true;

    void fail(const std::string &m) { oracle_fail("op=" + std::to_string(opNo) + " " + m); }

    Line dump() {
        Line l;
        for (int b = 0; b < 3; ++b) {
            if (!buf[b]) { l.push_back(-1); continue; }
            RB &rb = *buf[b];
            const RB &crb = rb;
            l.push_back((int64_t) rb.size());
            l.push_back((int64_t) rb.capacity());
            Line viaIndex, viaIter, viaRange, viaConst;
            for (size_t i = 0; i < rb.size(); ++i) viaIndex.push_back(E::show(rb[i]));
            for (auto it = rb.begin(); it != rb.end(); ++it) viaIter.push_back(E::show(*it));
            for (auto &x : crb) viaRange.push_back(E::show(x));
            for (auto it = crb.cbegin(); it != crb.cend(); it++) viaConst.push_back(E::show(*it));
            if (viaIndex != viaIter || viaIndex != viaRange || viaIndex != viaConst)
                fail("operator[] and iteration disagree on buffer " + std::to_string(b));
            if (rb.empty() != (rb.size() == 0) || rb.full() != (rb.size() == rb.capacity()))
                fail("empty()/full() inconsistent with size()/capacity()");
            if (rb.size() > 0 && rb.capacity() > 0) {
                if (E::show(rb.front()) != viaIndex.front() || E::show(rb.back()) != viaIndex.back())
                    fail("front()/back() disagree with operator[]");
                if ((rb.end() - rb.begin()) != (std::ptrdiff_t) rb.size()) fail("iterator distance != size");
            }
            l.insert(l.end(), viaIndex.begin(), viaIndex.end());
            // oracle: the bounded deque
            if (!ref[b].present) fail("oracle has no buffer " + std::to_string(b));
            else {
                Line want(ref[b].items.begin(), ref[b].items.end());
                if (want != viaIndex || (int64_t) rb.capacity() != ref[b].cap)
                    fail("contents/capacity of buffer " + std::to_string(b) + " differ from the bounded deque");
            }
        }
        return l;
    }

    void out(const Line &ret) {
        Line l = ret;
        l.push_back(SEP);
        Line d = dump();
        l.insert(l.end(), d.begin(), d.end());
        l.push_back(SEP);
        if (E::tracked && showEvents) l.insert(l.end(), Tracked::events.begin(), Tracked::events.end());
        Tracked::events.clear();
        emit(l);
        for (auto &f : Tracked::faults) fail("lifetime: " + f);
        Tracked::faults.clear();
    }

    void refPushBack(Ref &r, int64_t v) {
        if ((int64_t) r.items.size() == r.cap) r.items.pop_front();
        r.items.push_back(v);
    }
    void refPushFront(Ref &r, int64_t v) {
        if ((int64_t) r.items.size() == r.cap) r.items.pop_back();
        r.items.push_front(v);
    }

    void step(const Line &op) {
        ++opNo;
        int64_t code = op.at(0);
        int b = op.size() > 1 ? (int) op[1] : 0;
        switch (code) {
        case 0: {
            buf[b] = new RB((size_t) op[2]);
            ref[b] = {true, {}, op[2]};
            out({});
            break;
        }
        case 1: {
            T x = E::make(op[2]);
            T *r;
            {
                LogScope ls;
                if (op[2] % 2 == 0) r = &buf[b]->push_back(x);
                else if constexpr (std::is_same_v<T, float>) r = &buf[b]->emplace_back(E::make(op[2]));
                else r = &buf[b]->emplace_back(op[2]);
            }
            refPushBack(ref[b], op[2]);
            if (r != &(*buf[b])[buf[b]->size() - 1]) fail("push_back did not return a reference to the last element");
            if (E::show(*r) != op[2]) fail("push_back's reference does not hold the inserted value");
            out({E::show(*r)});
            break;
        }
        case 2: {
            T x = E::make(op[2]);
            T *r;
            {
                LogScope ls;
                if (op[2] % 2 == 0) r = &buf[b]->push_front(x);
                else if constexpr (std::is_same_v<T, float>) r = &buf[b]->emplace_front(E::make(op[2]));
                else r = &buf[b]->emplace_front(op[2]);
            }
            refPushFront(ref[b], op[2]);
            if (r != &(*buf[b])[0]) fail("push_front did not return a reference to the first element");
            if (E::show(*r) != op[2]) fail("push_front's reference does not hold the inserted value");
            out({E::show(*r)});
            break;
        }
        case 3: {
            int64_t got;
            {
                Tracked::logging = true;
                T r = buf[b]->pop_back();
                Tracked::logging = false;
                got = E::show(r);
            }
            if (got != ref[b].items.back()) fail("pop_back returned a wrong value");
            ref[b].items.pop_back();
            out({got});
            break;
        }
        case 4: {
            int64_t got;
            {
                Tracked::logging = true;
                T r = buf[b]->pop_front();
                Tracked::logging = false;
                got = E::show(r);
            }
            if (got != ref[b].items.front()) fail("pop_front returned a wrong value");
            ref[b].items.pop_front();
            out({got});
            break;
        }
        case 5: {
            {
                LogScope ls;
                buf[b]->resize((size_t) op[2]);
            }
            while ((int64_t) ref[b].items.size() > op[2]) ref[b].items.pop_back();
            ref[b].cap = op[2];
            out({});
            break;
        }
        case 6: out({E::show(buf[b]->front())}); break;
        case 7: out({E::show(buf[b]->back())}); break;
        case 8: out({E::show((*buf[b])[(size_t) op[2]])}); break;
        case 9: {
            int c = (int) op[2];
            {
                LogScope ls;
                buf[b] = new RB(*buf[c]);
            }
            ref[b] = ref[c];
            out({});
            break;
        }
        case 10: {
            int c = (int) op[2];
            {
                LogScope ls;
                *buf[b] = *buf[c];
            }
            ref[b] = ref[c];
            out({});
            break;
        }
        case 11: {
            int c = (int) op[2];
            {
                LogScope ls;
                buf[b] = new RB(std::move(*buf[c]));
            }
            ref[b] = ref[c];
            ref[c] = {true, {}, 0};
            out({});
            break;
        }
        case 12: {
            int c = (int) op[2];
            {
                LogScope ls;
                *buf[b] = std::move(*buf[c]);
            }
            std::swap(ref[b], ref[c]); // documented as a swap-based move
            out({});
            break;
        }
        case 13: {
            {
                LogScope ls;
                delete buf[b];
            }
            buf[b] = nullptr;
            ref[b] = {};
            out({});
            break;
        }
        case 14: {
            int c = (int) op[2];
            bool eq = *buf[b] == *buf[c];
            if (eq != (ref[b].items == ref[c].items)) fail("operator== disagrees with the contents");
            out({eq ? 1 : 0});
            break;
        }
        case 15: {
            int64_t cap = op[2];
            std::vector<int64_t> v(op.begin() + 3, op.end());
            auto mk = [&](std::initializer_list<T> il) {
                LogScope ls;
                buf[b] = cap == -1 ? new RB(il) : new RB(il, (size_t) cap);
            };
            switch (v.size()) {
            case 1: mk({E::make(v[0])}); break;
            case 2: mk({E::make(v[0]), E::make(v[1])}); break;
            case 3: mk({E::make(v[0]), E::make(v[1]), E::make(v[2])}); break;
            case 4: mk({E::make(v[0]), E::make(v[1]), E::make(v[2]), E::make(v[3])}); break;
            default: mk({}); break;
            }
            ref[b] = {true, std::deque<int64_t>(v.begin(), v.end()), cap == -1 ? (int64_t) v.size() : cap};
            out({});
            break;
        }
        case 16: case 17: {
            // aliasing argument: a reference to an element of the same buffer
            int64_t v = ref[b].items.at((size_t) op[2]);
            T *r;
            {
                LogScope ls;
                if (code == 16) r = &buf[b]->push_back((*buf[b])[(size_t) op[2]]);
                else r = &buf[b]->push_front((*buf[b])[(size_t) op[2]]);
            }
            if (code == 16) refPushBack(ref[b], v); else refPushFront(ref[b], v);
            if (r != &(*buf[b])[code == 16 ? buf[b]->size() - 1 : 0]) fail("push with an aliasing argument did not return a reference to the new element");
            if (E::show(*r) != v) fail("push with an argument referring to an own element stored a different value");
            out({E::show(*r)});
            break;
        }
        default: emit({PRE}); break;
        }
    }

    void run(const Case &c) {
        Tracked::reset();
        size_t heap0 = heap_bytes();
        for (size_t i = 1; i < c.lines.size(); ++i) step(c.lines[i]);
        bool anyLeft = false;
        for (auto *p : buf) if (p) anyLeft = true;
        if (!anyLeft) {
            if (Tracked::liveCount() != 0)
                oracle_fail("end of case: " + std::to_string(Tracked::liveCount()) +
                            " element(s) still hold a value although every buffer was destroyed:" + Tracked::liveList());
            size_t live = Tracked::liveCount();
            Tracked::reset();
            for (auto &r : ref) r = {};
            // cheap filter (allocated bytes grew over the case) confirmed by LeakSanitizer
            if (live == 0 && heap_bytes() > heap0 && leak_check())
                oracle_fail("end of case: LeakSanitizer reports an allocation that was never freed");
        }
    }
};

int main() {
    return main_loop([](const Case &c) {
        if (c.lines.empty() || c.lines[0].size() < 3) { emit({PRE}); return; }
        emit({});
        bool ow = c.lines[0][0] != 0;
        bool tracked = c.lines[0][2] == 1 || c.lines[0][2] == 2;
        if (c.lines[0][2] == 3) { if (ow) { Runner<float, true> r; r.showEvents = false; r.run(c); } else { Runner<float, false> r; r.showEvents = false; r.run(c); } return; }
        bool ev = c.lines[0][2] == 1;
        auto go = [&](auto runner) { runner.showEvents = ev; runner.run(c); };
        if (tracked) { if (ow) go(Runner<Tracked, true>()); else go(Runner<Tracked, false>()); }
        else { if (ow) go(Runner<int64_t, true>()); else go(Runner<int64_t, false>()); }
    });
}
