// array.cpp — implementation side of the C14 correspondence: drives the real tulz::Array
// (from /repo's working tree) with the operation lines of a case and prints the observation
// line ArrayModel.arr_step must reproduce. Independent oracle: a std::vector replay per
// array, the Tracked registry, LeakSanitizer.
#include "tracked.h"
#include <optional>
#include <tulz/container/Array.h>

using namespace vh;

// what malloc'ed-but-never-written int64 storage reads as under ASan's malloc_fill_byte=190
static constexpr int64_t UNINIT = (int64_t) 0xbebebebebebebebeULL;

template <typename T> struct Runner {
    using A = tulz::Array<T>;
    using E = Elem<T>;
    A *arr[3] = {nullptr, nullptr, nullptr};
    struct Ref { bool present = false; std::vector<std::optional<int64_t>> v; } ref[3];
    int opNo = 0;

    void fail(const std::string &m) { oracle_fail("op=" + std::to_string(opNo) + " " + m); }
    static int64_t show(const T &x) {
        int64_t v = E::show(x);
        if (!E::tracked && v == UNINIT) return RAWZ;
        return v;
    }

    Line dump() {
        Line l;
        for (int b = 0; b < 3; ++b) {
            if (!arr[b]) { l.push_back(-1); continue; }
            A &a = *arr[b];
            const A &ca = a;
            l.push_back((int64_t) a.size());
            Line viaIndex, viaIter, viaConst;
            for (size_t i = 0; i < a.size(); ++i) viaIndex.push_back(show(a[i]));
            for (auto &x : a) viaIter.push_back(show(x));
            for (auto it = ca.cbegin(); it != ca.cend(); ++it) viaConst.push_back(show(*it));
            if (viaIndex != viaIter || viaIndex != viaConst) fail("operator[] and iteration disagree");
            if (a.empty() != (a.size() == 0)) fail("empty() inconsistent with size()");
            if (a.size() > 0 && a.array() != &a[0]) fail("array() is not the address of element 0");
            l.insert(l.end(), viaIndex.begin(), viaIndex.end());
            if (!ref[b].present) fail("oracle has no array " + std::to_string(b));
            else {
                bool same = ref[b].v.size() == viaIndex.size();
                for (size_t i = 0; same && i < viaIndex.size(); ++i)
                    if (ref[b].v[i] && *ref[b].v[i] != viaIndex[i]) same = false; // unspecified values may be anything
                if (!same) fail("size/contents of array " + std::to_string(b) + " differ from the value-semantics reference");
            }
        }
        return l;
    }

    void out(const Line &ret) {
        Line l = ret;
        l.push_back(SEP);
        Line d = dump();
        l.insert(l.end(), d.begin(), d.end());
        l.push_back(SEP);
        if (E::tracked) l.insert(l.end(), Tracked::events.begin(), Tracked::events.end());
        Tracked::events.clear();
        emit(l);
        for (auto &f : Tracked::faults) fail("lifetime: " + f);
        Tracked::faults.clear();
    }

    std::optional<int64_t> dflt() { return E::tracked ? std::optional<int64_t>(0) : std::nullopt; }

    void step(const Line &op) {
        ++opNo;
        int64_t code = op.at(0);
        int b = op.size() > 1 ? (int) op[1] : 0;
        switch (code) {
        case 0: {
            { LogScope ls; arr[b] = new A((size_t) op[2]); }
            ref[b] = {true, std::vector<std::optional<int64_t>>((size_t) op[2], dflt())};
            out({});
            break;
        }
        case 1: {
            T x = E::make(op[3]);
            { LogScope ls; arr[b] = new A((size_t) op[2], x); }
            ref[b] = {true, std::vector<std::optional<int64_t>>((size_t) op[2], op[3])};
            out({});
            break;
        }
        case 2: {
            std::vector<int64_t> v(op.begin() + 2, op.end());
            auto mk = [&](std::initializer_list<T> il) { LogScope ls; arr[b] = new A(il); };
            switch (v.size()) {
            case 1: mk({E::make(v[0])}); break;
            case 2: mk({E::make(v[0]), E::make(v[1])}); break;
            case 3: mk({E::make(v[0]), E::make(v[1]), E::make(v[2])}); break;
            case 4: mk({E::make(v[0]), E::make(v[1]), E::make(v[2]), E::make(v[3])}); break;
            case 5: mk({E::make(v[0]), E::make(v[1]), E::make(v[2]), E::make(v[3]), E::make(v[4])}); break;
            default: mk({}); v.clear(); break;
            }
            ref[b] = {true, std::vector<std::optional<int64_t>>(v.begin(), v.end())};
            out({});
            break;
        }
        case 3: {
            std::vector<T> src;
            src.reserve(op.size());
            for (size_t i = 2; i < op.size(); ++i) src.push_back(E::make(op[i]));
            { LogScope ls; arr[b] = new A(src.data(), src.size()); }
            if (arr[b]->array() == src.data()) fail("an Array built from a pointer and a length (copying) shares the caller's storage");
            ref[b] = {true, std::vector<std::optional<int64_t>>(op.begin() + 2, op.end())};
            out({});
            break;
        }
        case 4: {
            int c = (int) op[2];
            { LogScope ls; arr[b] = new A(*arr[c]); }
            ref[b] = ref[c];
            if (arr[b]->size() > 0 && arr[b]->array() == arr[c]->array()) fail("copy shares storage with its source");
            out({});
            break;
        }
        case 5: {
            int c = (int) op[2];
            { LogScope ls; *arr[b] = *arr[c]; }
            ref[b] = ref[c];
            if (b != c && arr[b]->size() > 0 && arr[b]->array() == arr[c]->array()) fail("copy shares storage with its source");
            out({});
            break;
        }
        case 6: {
            int c = (int) op[2];
            { LogScope ls; arr[b] = new A(std::move(*arr[c])); }
            ref[b] = ref[c];
            ref[c] = {true, {}};
            out({});
            break;
        }
        case 7: {
            int c = (int) op[2];
            { LogScope ls; *arr[b] = std::move(*arr[c]); }
            std::swap(ref[b], ref[c]);
            out({});
            break;
        }
        case 8: {
            int c = (int) op[2];
            { LogScope ls; arr[b]->swap(*arr[c]); }
            std::swap(ref[b], ref[c]);
            out({});
            break;
        }
        case 9: {
            { LogScope ls; arr[b]->resize((size_t) op[2]); }
            ref[b].v.resize((size_t) op[2], dflt());
            out({});
            break;
        }
        case 10: {
            T x = E::make(op[3]);
            { LogScope ls; arr[b]->resize((size_t) op[2], x); }
            ref[b].v.resize((size_t) op[2], op[3]);
            out({});
            break;
        }
        case 11: {
            T x = E::make(op[3]);
            { LogScope ls; (*arr[b])[(size_t) op[2]] = x; }
            ref[b].v[(size_t) op[2]] = op[3];
            out({});
            break;
        }
        case 12: {
            { LogScope ls; delete arr[b]; }
            arr[b] = nullptr;
            ref[b] = {};
            out({});
            break;
        }
        case 13: out({show((*arr[b])[(size_t) op[2]])}); break;
        case 14: out({show(arr[b]->front()), show(arr[b]->back())}); break;
        case 16: {
            // Array(ptr, n, copy = false): the Array adopts a malloc'ed block whose elements the caller constructed
            size_t n = op.size() - 2;
            T *block = static_cast<T *>(malloc((n ? n : 1) * sizeof(T)));
            for (size_t i = 0; i < n; ++i) new (&block[i]) T(E::make(op[i + 2]));
            { LogScope ls; arr[b] = new A(block, n, false); }
            if (arr[b]->array() != block) fail("an adopting Array (copy = false) does not use the caller's block");
            ref[b] = {true, std::vector<std::optional<int64_t>>(op.begin() + 2, op.end())};
            out({});
            break;
        }
        case 15: {
            // the fill value is a reference to an element of the same array
            auto v = ref[b].v.at((size_t) op[3]);
            { LogScope ls; arr[b]->resize((size_t) op[2], (*arr[b])[(size_t) op[3]]); }
            ref[b].v.resize((size_t) op[2], v);
            out({});
            break;
        }
        default: emit({PRE}); break;
        }
    }

    void run(const Case &c) {
        Tracked::reset();
        size_t heap0 = heap_bytes();
        for (size_t i = 1; i < c.lines.size(); ++i) step(c.lines[i]);
        bool anyLeft = false;
        for (auto *p : arr) if (p) anyLeft = true;
        if (!anyLeft) {
            size_t live = Tracked::liveCount();
            if (live != 0)
                oracle_fail("end of case: " + std::to_string(live) +
                            " element(s) still hold a value although every array was destroyed:" + Tracked::liveList());
            Tracked::reset();
            for (auto &r : ref) r = {};
            if (live == 0 && heap_bytes() > heap0 && leak_check())
                oracle_fail("end of case: LeakSanitizer reports an allocation that was never freed");
        }
    }
};

int main() {
    return main_loop([](const Case &c) {
        if (c.lines.empty() || c.lines[0].size() < 2) { emit({PRE}); return; }
        emit({});
        if (c.lines[0][0] != 0) Runner<Tracked>().run(c);
        else if (c.lines[0].size() > 2 && c.lines[0][2] == 1) Runner<double>().run(c);
        else Runner<int64_t>().run(c);
    });
}
