// path.cpp — implementation side of the C18 correspondence (tulz::Path, tulz::DirectoryVisitor).
//
// Case: header [0], then operations (see PathModel.v: path_step): string operations on byte
// strings (join, getPathName, getParentDirectory, isAbsolute) and filesystem operations on a
// scratch tree created below <cwd>/tree-<pid>-<n> (mkdir / create file of a given size, then
// exists / isFile / isDirectory, size, listChildren, DirectoryVisitor).
//
// Model-independent oracle: std::filesystem for the tree queries, and the consistency law
// name(join(d, n)) == n, parent(join(d, n)) == d without one trailing '/', recomputed here with
// plain string code for every join of a non-empty d with a separator-free n.
#include "common.h"
#include <tulz/Path.h>
#include <tulz/DirectoryVisitor.h>
#include <map>
#include <tulz/Exception.h>
#include <filesystem>
#include <fstream>

using namespace vh;
namespace fs = std::filesystem;
using tulz::Path;

static const char *NAMES[] = {"a", "b", "c", "dir with space", "x.y", ".hidden", "\xc3\xbcn\xc3\xaf", "file.tar.gz",
                              "\xff\xfe\x01", "zz", "a.b.c", "-dash", "0", "..data", "...",
                              "LLLLLLLLLLLLLLLLLLLLLLLLLLLLLLLLLLLLLLLLLLLLLLLLLLLLLLLLLLLLLLLLLLLLLLLLLLLLLLLLLLLLLLLLLLLLLLLLLLLLLLLLLLLLLLLLLLLLLLLLLLLLLLLLLLLLLLLLLLLLLLLLLLLLLLLLLLLLLLLL",
                              "MMMMMMMMMMMMMMMMMMMMMMMMMMMMMMMMMMMMMMMMMMMMMMMMMMMMMMMMMMMMMMMMMMMMMMMMMMMMMMMMMMMMMMMMMMMMMMMMMMMMMMMMMMMMMMMMMMMMMMMMMMMMMMMMMMMMMMMMMMMMMMMMMMMMMMMMMMMMMMMMMMMMMMMMMMMMMMMMMMMMMMMMMMMMMM"};
static const int NNAMES = 17;
// a directory with a large fan-out is filled with files g00000, g00001, ... (ids 1000, 1001, ...)
static std::string bulkName(int64_t id) { char b[16]; snprintf(b, sizeof b, "g%05d", (int) (id - 1000)); return b; }
static int64_t bulkId(const std::string &n) {
    if (n.size() != 6 || n[0] != 'g') return -99;
    for (size_t i = 1; i < 6; ++i) if (n[i] < '0' || n[i] > '9') return -99;
    return 1000 + atoi(n.c_str() + 1);
}
static int counter = 0;

static std::string str(const Line &v) { std::string s; for (auto c : v) s.push_back((char) (unsigned char) c); return s; }
static void put(Line &out, const std::string &s) { out.push_back((int64_t) s.size()); for (unsigned char c : s) out.push_back(c); }
static bool take(const Line &l, size_t &i, Line &out) {
    if (i >= l.size()) { out.clear(); return true; }
    int64_t n = l[i++];
    out.clear();
    for (int64_t k = 0; k < n && i < l.size(); ++k) out.push_back(l[i++]);
    return true;
}
static bool bytesOk(const Line &v) { for (auto c : v) if (c < 1 || c > 255) return false; return true; }

int main() {
    return main_loop([](const Case &c) {
        if (c.lines.empty() || c.lines[0].size() != 1) { emit({PRE}); return; }
        emit({});
        size_t fds0 = 0;
        for (auto &e : fs::directory_iterator("/proc/self/fd")) { (void) e; ++fds0; }
        std::string base = fs::current_path().string();
        std::string root = base + "/tree-" + std::to_string(getpid()) + "-" + std::to_string(counter++);
        fs::remove_all(root);
        fs::create_directories(root);
        if (chdir(root.c_str()) != 0) { oracle_fail("harness: cannot enter the scratch directory"); return; }
        {
            using namespace tulz;
            if (Path::getSystemPath().toString() != "/" || !Path::getSystemPath().isAbsolute()) oracle_fail("C18: the system path is not the absolute path /");
            if ("a b/..c"_p.toString() != "a b/..c") oracle_fail("C18: the _p literal does not keep its bytes");
        }
        auto pathOf = [&](const Line &l, size_t from, bool &ok) {
            std::string p = root;
            for (size_t i = from; i < l.size(); ++i) {
                if (l[i] >= 1000 && l[i] < 1000 + 100000) { p += "/" + bulkName(l[i]); continue; }   // entries of a bulk-filled directory
                if (l[i] < 0 || l[i] >= NNAMES) { ok = false; return p; }
                p += "/"; p += NAMES[l[i]];
            }
            return p;
        };
        std::map<std::string, Path> keep;
        for (size_t li = 1; li < c.lines.size(); ++li) {
            const Line &l = c.lines[li];
            if (l.empty()) { emit({PRE}); continue; }
            Line out;
            bool ok = true;
            switch (l[0]) {
            case 20: {
                size_t i = 1; Line a, b; take(l, i, a); take(l, i, b);
                if (!bytesOk(a) || !bytesOk(b)) { ok = false; break; }
                std::string d = str(a), n = str(b), j = Path::join(d, n);
                put(out, j);
                if (!d.empty() && !n.empty() && n.find_first_of("/\\") == std::string::npos) {
                    std::string expectParent = d.back() == '/' ? d.substr(0, d.size() - 1) : d;
                    if (Path(j).getPathName() != n) oracle_fail("C18: getPathName(join(d, n)) != n for d=\"" + d + "\" n=\"" + n + "\"");
                    if (Path(j).getParentDirectory().toString() != expectParent)
                        oracle_fail("C18: getParentDirectory(join(d, n)) is not d without a trailing separator for d=\"" + d + "\" n=\"" + n + "\"");
                }
                if (!n.empty() && n[0] == '/' && j != n) oracle_fail("C18: joining an absolute path does not yield that path");
                break;
            }
            case 21: { size_t i = 1; Line a; take(l, i, a); if (!bytesOk(a)) { ok = false; break; } put(out, Path(str(a)).getPathName()); break; }
            case 22: {
                size_t i = 1; Line a; take(l, i, a); if (!bytesOk(a)) { ok = false; break; }
                try { put(out, Path(str(a)).getParentDirectory().toString()); }
                catch (const std::out_of_range &) { out.push_back(-777005); }
                break;
            }
            case 23: { size_t i = 1; Line a; take(l, i, a); if (!bytesOk(a)) { ok = false; break; } out.push_back(Path(str(a)).isAbsolute() ? 1 : 0); break; }
            case 40: case 41: {
                size_t from = l[0] == 40 ? 1 : 2;
                if (l.size() <= from || (l[0] == 41 && l[1] < 0)) { ok = false; break; }
                std::string p = pathOf(l, from, ok);
                if (!ok) break;
                std::error_code ec;
                if (fs::exists(p) || !fs::is_directory(fs::path(p).parent_path())) { ok = false; break; }
                if (l[0] == 40) fs::create_directory(p);
                else if (l[1] > (1 << 20)) { { std::ofstream f(p, std::ios::binary); } fs::resize_file(p, (uintmax_t) l[1]); }   // sparse: sizes beyond 2^31 / 2^32
                else { std::ofstream f(p, std::ios::binary); std::string blob((size_t) l[1], 'x'); f.write(blob.data(), (std::streamsize) blob.size()); }
                out.push_back(1);
                break;
            }
            case 43: {
                // fill the directory p with k one-byte files g00000 .. (large fan-out: directory listings that need several reads)
                if (l.size() < 2 || l[1] < 1 || l[1] > 5000) { ok = false; break; }
                std::string p = pathOf(l, 2, ok); if (!ok) break;
                if (!fs::is_directory(p) || fs::is_symlink(p) || fs::exists(p + "/" + bulkName(1000))) { ok = false; break; }
                for (int64_t i2 = 0; i2 < l[1]; ++i2) { std::ofstream f2(p + "/" + bulkName(1000 + i2), std::ios::binary); f2.put('x'); }
                out.push_back(1);
                break;
            }
            case 42: {
                // remove a regular file or an empty directory (never the working directory or one of its ancestors)
                if (l.size() < 2) { ok = false; break; }
                std::string p = pathOf(l, 1, ok); if (!ok) break;
                std::string cwdNow = fs::current_path().string();
                if (cwdNow.compare(0, p.size(), p) == 0 && (cwdNow.size() == p.size() || cwdNow[p.size()] == '/')) { ok = false; break; }
                std::error_code ec;
                if (fs::is_symlink(p) || !(fs::is_regular_file(p) || (fs::is_directory(p) && fs::is_empty(p)))) { ok = false; break; }
                fs::remove(p);
                out.push_back(1);
                break;
            }
            case 50: {
                std::string p = pathOf(l, 1, ok); if (!ok) break;
                // Path objects live as long as the case: a name may stop being a directory (or a file) between two queries
                Path &pp = keep.try_emplace(p, Path(p)).first->second;
                bool e = pp.exists(), f = pp.isFile(), d = pp.isDirectory();
                out = {e ? 1 : 0, f ? 1 : 0, d ? 1 : 0};
                if (e != fs::exists(p) || f != fs::is_regular_file(p) || d != fs::is_directory(p))
                    oracle_fail("C18: exists/isFile/isDirectory disagree with the filesystem for " + p);
                break;
            }
            case 51: {
                std::string p = pathOf(l, 1, ok); if (!ok) break;
                try {
                    size_t sz = keep.try_emplace(p, Path(p)).first->second.size();
                    out.push_back((int64_t) sz);
                    uintmax_t expect = 0;
                    if (fs::is_regular_file(p)) expect = fs::file_size(p);
                    else for (auto &e : fs::recursive_directory_iterator(p)) if (e.is_regular_file()) expect += e.file_size();
                    if (expect != sz) oracle_fail("C18: size() = " + std::to_string(sz) + " but the regular files beneath " + p + " total " + std::to_string(expect));
                } catch (const tulz::Exception &e) {
                    out.push_back(e.type == Path::NotFound ? -12 : e.type == Path::NotDirectory ? -11 : -10);
                    if (fs::exists(p)) oracle_fail("C18: size() threw for an existing path");
                }
                break;
            }
            case 52: {
                std::string p = pathOf(l, 1, ok); if (!ok) break;
                try {
                    auto children = keep.try_emplace(p, Path(p)).first->second.listChildren();
                    std::vector<int64_t> ids;
                    std::vector<std::string> got;
                    for (auto &ch : children) {
                        got.push_back(ch.toString());
                        int64_t id = -99;
                        for (int k = 0; k < NNAMES; ++k) if (ch.toString() == NAMES[k]) id = k;
                        if (id == -99) id = bulkId(ch.toString());
                        ids.push_back(id);
                    }
                    std::sort(ids.begin(), ids.end());
                    out.push_back((int64_t) ids.size());
                    out.insert(out.end(), ids.begin(), ids.end());
                    std::vector<std::string> expect;
                    for (auto &e : fs::directory_iterator(p)) expect.push_back(e.path().filename().string());
                    std::sort(expect.begin(), expect.end()); std::sort(got.begin(), got.end());
                    if (got != expect) oracle_fail("C18: listChildren does not return every entry exactly once for " + p);
                } catch (const tulz::Exception &e) {
                    out.push_back(e.type == Path::NotFound ? -12 : e.type == Path::NotDirectory ? -11 : -10);
                    if (fs::is_directory(p)) oracle_fail("C18: listChildren threw for a directory");
                }
                break;
            }
            case 53: {
                std::string p = pathOf(l, 1, ok); if (!ok) break;
                std::string before = fs::current_path().string(), during;
                if (p.size() % 2) {
                    tulz::DirectoryVisitor v{Path(p)}; during = fs::current_path().string();
                    if (v.get().toString() != p) oracle_fail("C18: DirectoryVisitor::get() does not return the directory it was given");
                } else {   // the same in three calls: default construction, set(), visit(); the destructor restores
                    tulz::DirectoryVisitor v; v.set(Path(p)); v.visit(); during = fs::current_path().string();
                    if (v.get().toString() != p) oracle_fail("C18: DirectoryVisitor::get() does not return the directory it was given");
                }
                std::string after = fs::current_path().string();
                out = {during == before ? 1 : 0, after == before ? 1 : 0};
                if (after != before) oracle_fail("C18: DirectoryVisitor did not restore the working directory");
                if (fs::is_directory(p) && fs::path(during) != fs::path(p)) oracle_fail("C18: DirectoryVisitor did not enter the directory");
                break;
            }
            case 60: case 61: case 62: {
                // the same queries on the path spelled with a trailing separator
                std::string p = pathOf(l, 1, ok); if (!ok) break;
                p += "/";
                Path pp(p);
                if (l[0] == 60) {
                    bool e = pp.exists(), f = pp.isFile(), d = pp.isDirectory();
                    out = {e ? 1 : 0, f ? 1 : 0, d ? 1 : 0};
                    if (e != fs::exists(p) || f != fs::is_regular_file(p) || d != fs::is_directory(p))
                        oracle_fail("C18: exists/isFile/isDirectory disagree with the filesystem for " + p);
                } else if (l[0] == 61) {
                    try {
                        size_t sz = pp.size();
                        out.push_back((int64_t) sz);
                        uintmax_t expect = 0;
                        if (fs::is_directory(p)) { for (auto &e : fs::recursive_directory_iterator(p)) if (e.is_regular_file()) expect += e.file_size(); }
                        else oracle_fail("C18: size() returned for a path that does not name anything (a file name followed by a separator)");
                        if (fs::is_directory(p) && expect != sz) oracle_fail("C18: size() = " + std::to_string(sz) + " but the regular files beneath " + p + " total " + std::to_string(expect));
                    } catch (const tulz::Exception &e) {
                        out.push_back(e.type == Path::NotFound ? -12 : e.type == Path::NotDirectory ? -11 : -10);
                        if (fs::exists(p)) oracle_fail("C18: size() threw for an existing path");
                    }
                } else {
                    try {
                        auto children = pp.listChildren();
                        std::vector<int64_t> ids;
                        for (auto &ch : children) { int64_t id = -99; for (int k = 0; k < NNAMES; ++k) if (ch.toString() == NAMES[k]) id = k; if (id == -99) id = bulkId(ch.toString()); ids.push_back(id); }
                        std::sort(ids.begin(), ids.end());
                        out.push_back((int64_t) ids.size()); out.insert(out.end(), ids.begin(), ids.end());
                        if (!fs::is_directory(p)) oracle_fail("C18: listChildren returned for something that is not a directory");
                    } catch (const tulz::Exception &e) {
                        out.push_back(e.type == Path::NotFound ? -12 : e.type == Path::NotDirectory ? -11 : -10);
                        if (fs::is_directory(p)) oracle_fail("C18: listChildren threw for a directory");
                    }
                }
                break;
            }
            case 55: {
                // one visitor object used twice
                if (l.size() < 2 || l[1] < 0 || (size_t) l[1] + 2 > l.size()) { ok = false; break; }
                Line lp(l.begin() + 2, l.begin() + 2 + l[1]), lq(l.begin() + 2 + l[1], l.end());
                std::string p = pathOf(lp, 0, ok), q = pathOf(lq, 0, ok); if (!ok) break;
                std::string before = fs::current_path().string(), afterFirst, elsewhere, afterSecond;
                {
                    tulz::DirectoryVisitor v;
                    v.set(Path(p)); v.visit(); v.restore();
                    afterFirst = fs::current_path().string();
                    if (fs::is_directory(q)) fs::current_path(q);
                    elsewhere = fs::current_path().string();
                    v.set(Path(p)); v.visit();
                }
                afterSecond = fs::current_path().string();
                fs::current_path(before);
                out = {afterFirst == before ? 1 : 0, afterSecond == elsewhere ? 1 : 0};
                if (afterFirst != before) oracle_fail("C18: DirectoryVisitor::restore() did not restore the working directory");
                if (afterSecond != elsewhere) oracle_fail("C18: a DirectoryVisitor used a second time did not restore the directory it found when it was destroyed");
                break;
            }
            case 54: {
                // nested visitors: 54 n p... q... : enter p (n components), inside it visit q and leave, then leave p
                if (l.size() < 2 || l[1] < 0 || (size_t) l[1] + 2 > l.size()) { ok = false; break; }
                Line lp(l.begin() + 2, l.begin() + 2 + l[1]), lq(l.begin() + 2 + l[1], l.end());
                std::string p = pathOf(lp, 0, ok), q = pathOf(lq, 0, ok); if (!ok) break;
                std::string before = fs::current_path().string(), in1, afterInner;
                {
                    tulz::DirectoryVisitor v1{Path(p)}; in1 = fs::current_path().string();
                    { tulz::DirectoryVisitor v2{Path(q)}; }
                    afterInner = fs::current_path().string();
                }
                std::string after = fs::current_path().string();
                out = {in1 == before ? 1 : 0, afterInner == in1 ? 1 : 0, after == before ? 1 : 0};
                if (afterInner != in1) oracle_fail("C18: an inner DirectoryVisitor did not restore the working directory it found (" + std::to_string(in1.size()) + " bytes long)");
                if (after != before) oracle_fail("C18: DirectoryVisitor did not restore the working directory");
                break;
            }
            default: ok = false;
            }
            if (!ok) emit({PRE}); else emit(out);
        }
        if (chdir(base.c_str()) != 0) {}
        fs::remove_all(root);
        {
            // Path operations are self-contained: they must give back every descriptor they open (a leak of one per probed
            // directory makes exists / isDirectory / size disagree with the filesystem once the process runs out of them)
            size_t fdsNow = 0;
            for (auto &e : fs::directory_iterator("/proc/self/fd")) { (void) e; ++fdsNow; }
            if (fdsNow > fds0) oracle_fail("C18: " + std::to_string(fdsNow - fds0) + " file descriptor(s) opened by Path operations were never closed");
        }
    }, 15, 32);
}
