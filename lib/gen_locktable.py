"""Translator: include/tulz/observer/routing/ConcurrentSubjectRouter.h -> coq/gen/LockTable.v.
Lexical (clang 14 cannot parse the observer headers): for each public operation of ConcurrentSubjectRouter and for
ConcurrentInvoker::unsubscribe, which guard object is constructed on m_resource before the underlying call."""
import os, re
from vcommon import REPO, COQ


def body_of(src, header_regex):
    m = re.search(header_regex, src)
    if not m:
        raise RuntimeError(f"cannot find {header_regex!r} in ConcurrentSubjectRouter.h")
    i = src.index("{", m.end() - 1)
    depth, j = 0, i
    while True:
        if src[j] == "{": depth += 1
        elif src[j] == "}":
            depth -= 1
            if depth == 0: break
        j += 1
    return src[i + 1:j]


def mode_of(body, call_regex):
    """the guard constructed before the delegated call"""
    m = re.search(call_regex, body)
    if not m:
        raise RuntimeError(f"operation body does not contain the expected call {call_regex!r}")
    before = body[:m.start()]
    g = re.findall(r"rwp::(ReadLock|WriteLock)\s+\w+\s*[\{\(]\s*m_resource\s*[\}\)]\s*;", before)
    if not g:
        return "MNone"
    return "MRead" if g[-1] == "ReadLock" else "MWrite"


def extract():
    src = open(os.path.join(REPO, "include", "tulz", "observer", "routing", "ConcurrentSubjectRouter.h"), encoding="utf8").read()
    src = re.sub(r"//[^\n]*", "", src)
    src = re.sub(r"/\*.*?\*/", "", src, flags=re.S)
    return {
        "notify": mode_of(body_of(src, r"size_t\s+notify\s*\([^)]*\)\s*\{"), r"m_router\.notify"),
        "exists": mode_of(body_of(src, r"bool\s+exists\s*\([^)]*\)\s*const\s*\{"), r"m_router\.exists"),
        "depth": mode_of(body_of(src, r"size_t\s+depth\s*\(\s*\)\s*const\s*\{"), r"m_router\.depth"),
        "subscribe": mode_of(body_of(src, r"USubscription\s+subscribe\s*\([^)]*\)\s*\{"), r"m_router\.subscribe"),
        "shrink": mode_of(body_of(src, r"void\s+shrink\s*\([^)]*\)\s*\{"), r"m_router\.shrink"),
        "unsubscribe": mode_of(body_of(src, r"void\s+unsubscribe\s*\(\s*\)\s*override\s*\{"), r"::unsubscribe\s*\("),
    }


def run():
    t = extract()
    txt = ("(* generated from /repo/include/tulz/observer/routing/ConcurrentSubjectRouter.h by lib/gen_locktable.py on every run; do not edit *)\n"
           "From Tulz Require Import ConcRouterModel.\n"
           f"Definition lock_table : locktable := mkLT {t['notify']} {t['exists']} {t['depth']} {t['subscribe']} {t['shrink']} {t['unsubscribe']}.\n")
    path = os.path.join(COQ, "gen", "LockTable.v")
    os.makedirs(os.path.dirname(path), exist_ok=True)
    old = open(path).read() if os.path.exists(path) else None
    if old != txt:                      # atomic: checks of several properties may run side by side
        tmp = f"{path}.{os.getpid()}.tmp"
        open(tmp, "w").write(txt)
        os.replace(tmp, path)
    return "LockTable.v: " + ", ".join(f"{k}={v}" for k, v in t.items())


run.__name__ = "gen_locktable"
