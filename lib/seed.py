#!/usr/bin/env python3
"""Seeded-change bookkeeping (development tool, not part of any registered check).

  seed.py confirm <worktree> <patch> <demo.cpp> [extra src ...]
      in the scratch worktree: apply the patch, build + run the library's test suite, build + run
      the demonstration (must fail), undo the patch, rebuild + run the demonstration (must pass)
  seed.py run <patch> <pid> [<pid> ...]
      apply the patch to /repo, run ./check <pid> --tier quick for every pid, undo the patch
  seed.py siderun <worktree> <patch> <pid> [<pid> ...]
      the same without touching /repo: apply the patch in the scratch worktree and run the checks against it
      (VERIF_REPO=<worktree>, scratch build and evidence directories under /tmp), undo the patch
  seed.py keep <id> <property> <patch> <demo> <notes-file> -- <free text: what it needs to manifest>
      store /verif/seeded/<id>/{patch.diff,demo.cpp,meta.json}
"""
import json, os, re, shutil, subprocess, sys, time

VERIF = os.path.dirname(os.path.dirname(os.path.abspath(__file__)))
REPO = "/repo"


def sh(cmd, cwd=None, timeout=3600):
    p = subprocess.run(cmd, shell=True, cwd=cwd, stdout=subprocess.PIPE, stderr=subprocess.STDOUT, text=True, timeout=timeout)
    return p.returncode, p.stdout


def demo_cmd(wt, demo, out):
    """compile command: taken from the demo's header comment if it has one, else a default"""
    txt = open(demo).read()
    srcs = []
    for s in ("src/threading/rwp/Resource.cpp", "src/threading/ThreadPool.cpp", "src/threading/Thread.cpp", "src/threading/Runnable.cpp",
              "src/File.cpp", "src/Path.cpp", "src/Exception.cpp", "src/LocaleInfo.cpp", "src/DirectoryVisitor.cpp",
              "src/observer/routing/SubjectRouter.cpp", "src/observer/routing/RoutingKey.cpp", "src/observer/routing/RoutingKeyBuilder.cpp",
              "src/observer/routing/RoutingLevelView.cpp"):
        if os.path.basename(s) in txt or s in txt or (os.path.dirname(s) + "/*.cpp") in txt:
            srcs.append(os.path.join(wt, s))
    m = re.search(r"(g\+\+[^\n]*)", txt)
    flags = "-std=c++20 -O1 -g -fsanitize=address,undefined"
    if m and "-fsanitize=thread" in m.group(1):
        flags = "-std=c++20 -O1 -g -fsanitize=thread"
    if m and "-fsanitize" not in m.group(1):
        flags = "-std=c++20 -O1 -g"
    if m and "-DNDEBUG" in m.group(1):
        flags += " -DNDEBUG"
    if m and "-fno-sanitize=vptr" in m.group(1):
        flags += " -fno-sanitize=vptr"
    return f"g++ {flags} -I{wt}/include {demo} {' '.join(srcs)} -lpthread -o {out}"


def confirm(wt, patch, demo):
    res = {}
    sh("git checkout -- .", cwd=wt)
    rc, out = sh(f"git apply {patch}", cwd=wt)
    if rc:
        print("patch does not apply:", out); return None
    rc, out = sh("cmake -G Ninja -B _build -S . -DFETCHCONTENT_SOURCE_DIR_GOOGLETEST=/usr/src/googletest >/dev/null 2>&1; "
                 "cmake --build _build 2>&1 | tail -3 && ctest --test-dir _build -j8 --timeout 900 2>&1 | tail -6", cwd=wt)
    res["suite_with_change"] = out.strip().splitlines()[-4:]
    print("suite with change:", "\n".join(res["suite_with_change"]))
    exe = os.path.join(wt, "mutation", "demo_bin")
    cmd = demo_cmd(wt, demo, exe)
    rc, out = sh(cmd)
    if rc:
        print("demo does not compile with change:", out[-1500:]); res["demo_with_change"] = "compile error"
    else:
        rc, out = sh(f"timeout 120 {exe}")
        res["demo_with_change"] = {"exit": rc, "tail": out[-600:]}
        print("demo WITH change: exit", rc, out[-300:])
    sh("git checkout -- .", cwd=wt)
    rc, out = sh(cmd)
    rc, out = sh(f"timeout 120 {exe}")
    res["demo_without_change"] = {"exit": rc, "tail": out[-300:]}
    print("demo WITHOUT change: exit", rc, out[-200:])
    res["compile_cmd"] = cmd
    if os.path.exists(exe):
        os.remove(exe)
    return res


def run_checks(patch, pids, tier="quick"):
    rc, out = sh("git status --porcelain --untracked-files=no", cwd=REPO)
    if out.strip():
        print("/repo has uncommitted changes; refusing"); return None
    rc, out = sh(f"git apply {patch}", cwd=REPO)
    if rc:
        print("patch does not apply to /repo:", out); return None
    results = {}
    try:
        for pid in pids:
            t0 = time.time()
            rc, out = sh(f"./check {pid} --tier {tier}", cwd=VERIF)
            lines = [l for l in out.splitlines() if l.startswith("VIOLATION") or l.startswith("[") or l.startswith("KNOWN")]
            results[pid] = {"exit": rc, "lines": lines[-4:], "wall_s": round(time.time() - t0, 1)}
            print(pid, "exit", rc, *lines[-3:], sep="\n   ")
    finally:
        sh("git checkout -- .", cwd=REPO)
    return results


def side_checks(wt, patch, pids, tier="quick"):
    sh("git checkout -- .", cwd=wt)
    rc, out = sh(f"git apply {patch}", cwd=wt)
    if rc:
        print("patch does not apply:", out); return None
    # a private copy of /verif: generated Coq files and compiled theories depend on the source tree they were made from
    copy = f"/tmp/vside/{os.path.basename(wt)}"
    os.makedirs(copy, exist_ok=True)
    sh(f"rsync -a --delete --exclude .git --exclude replays --exclude 'build/C*' {VERIF}/ {copy}/")
    env = f"VERIF_REPO={wt} VERIF_EVIDENCE_DIR=/tmp/sideev-{os.path.basename(wt)} "
    results = {}
    try:
        for pid in pids:
            t0 = time.time()
            rc, out = sh(env + f"./check {pid} --tier {tier}", cwd=copy)
            lines = [l for l in out.splitlines() if l.startswith("VIOLATION") or l.startswith("[") or l.startswith("KNOWN")]
            results[pid] = {"exit": rc, "lines": lines[-4:], "wall_s": round(time.time() - t0, 1)}
            print(pid, "exit", rc, *lines[-3:], sep="\n   ")
    finally:
        sh("git checkout -- .", cwd=wt)
    return results


def main():
    a = sys.argv[1:]
    if a[0] == "confirm":
        r = confirm(a[1], os.path.abspath(a[2]), os.path.abspath(a[3]))
        json.dump(r, open("/tmp/seed_confirm.json", "w"), indent=1)
    elif a[0] == "run":
        r = run_checks(os.path.abspath(a[1]), a[2:])
        json.dump(r, open("/tmp/seed_run.json", "w"), indent=1)
    elif a[0] == "siderun":
        r = side_checks(a[1], os.path.abspath(a[2]), a[3:])
        json.dump(r, open("/tmp/seed_run.json", "w"), indent=1)
    elif a[0] == "keep":
        sid, prop, patch, demo, notes = a[1:6]
        needs = " ".join(a[7:]) if len(a) > 6 else ""
        d = os.path.join(VERIF, "seeded", sid)
        os.makedirs(d, exist_ok=True)
        shutil.copy(patch, os.path.join(d, "patch.diff"))
        shutil.copy(demo, os.path.join(d, "demo.cpp"))
        meta = {"id": sid, "breaks_property": prop, "needs_to_manifest": needs,
                "confirmed": json.load(open("/tmp/seed_confirm.json")) if os.path.exists("/tmp/seed_confirm.json") else None,
                "checks": json.load(open("/tmp/seed_run.json")) if os.path.exists("/tmp/seed_run.json") else None,
                "author_notes": open(notes).read()[:6000] if os.path.exists(notes) else ""}
        json.dump(meta, open(os.path.join(d, "meta.json"), "w"), indent=1)
        print("kept", d)


if __name__ == "__main__":
    main()
