#!/usr/bin/env python3
"""Development aid: re-run every kept seeded change (seeded/<id>/patch.diff) against the current machinery.
Each worker has its own scratch worktree of /repo (at HEAD) and its own private copy of /verif; /repo is never touched.
    python3 lib/seed_sweep.py [workers] [id-prefix ...]   -> /tmp/sweep.json, one line per seed on stdout"""
import json, os, subprocess, sys, threading, time
sys.path.insert(0, os.path.dirname(os.path.abspath(__file__)))
import seed as S

VERIF = S.VERIF


def main():
    nw = int(sys.argv[1]) if len(sys.argv) > 1 else 4
    prefixes = sys.argv[2:]
    ids = sorted(d for d in os.listdir(os.path.join(VERIF, "seeded")) if os.path.isdir(os.path.join(VERIF, "seeded", d)))
    if prefixes:
        ids = [i for i in ids if any(i.startswith(p) for p in prefixes)]
    if os.environ.get("SWEEP_WAVE"):
        want = int(os.environ["SWEEP_WAVE"])
        ids = [i for i in ids if json.load(open(os.path.join(VERIF, "seeded", i, "meta.json"))).get("wave", 1) == want]
    lock = threading.Lock()
    results = {}

    def worker(k):
        wt = f"/tmp/wt/REG{k}"
        if not os.path.exists(wt):
            S.sh(f"git -C /repo worktree add --detach -q {wt} HEAD")
        else:
            S.sh("git checkout -q -- . && git checkout -q --detach $(git -C /repo rev-parse HEAD)", cwd=wt)
        while True:
            with lock:
                if not ids: return
                sid = ids.pop(0)
            d = os.path.join(VERIF, "seeded", sid)
            meta = json.load(open(os.path.join(d, "meta.json")))
            pids = sorted((meta.get("checks") or {}).keys()) or [meta["breaks_property"]]
            patch = os.path.join(d, "patch.diff")
            S.sh("git checkout -q -- .", cwd=wt)
            rc, out = S.sh(f"git apply --check {patch}", cwd=wt)
            if rc:
                # the seed was made against an older HEAD: three-way merge
                rc, out = S.sh(f"git apply -3 {patch}", cwd=wt)
                if rc:
                    with lock:
                        results[sid] = {"applies": False}; print(sid, "PATCH DOES NOT APPLY", flush=True)
                    S.sh("git checkout -q -- . ; git reset -q --hard", cwd=wt)
                    continue
                S.sh(f"git diff HEAD > /tmp/sweep_{k}.diff; git reset -q --hard", cwd=wt)
                patch = f"/tmp/sweep_{k}.diff"
            r = S.side_checks(wt, patch, pids)
            caught = {p: (v["exit"] != 0, any("no-failing-input-found" in l for l in v["lines"])) for p, v in (r or {}).items()}
            with lock:
                results[sid] = {"applies": True, "checks": r}
                print(sid, " ".join(f"{p}:{'CAUGHT' + ('(no input)' if c[1] else '') if c[0] else 'MISSED'}" for p, c in caught.items()), flush=True)
                json.dump(results, open("/tmp/sweep.json", "w"), indent=1)

    ts = [threading.Thread(target=worker, args=(k,)) for k in range(nw)]
    for t in ts: t.start()
    for t in ts: t.join()


if __name__ == "__main__":
    main()
