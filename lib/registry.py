import props_ring
SPECS = {
    "C04": props_ring.C04,
    "C09": props_ring.C09,
}
NOT_CLAIMED = {}
