import props_ring
import props_array
SPECS = {
    "C04": props_ring.C04,
    "C09": props_ring.C09,
    "C14": props_array.C14,
}
NOT_CLAIMED = {}
