import props_ring
import props_array
import props_resource
import props_subject
import props_observable
import props_router
import props_locale
import props_path
import props_file
import props_pool
import props_thread
import props_concrouter
import props_race
SPECS = {
    "C01": props_resource.C01,
    "C02": props_resource.C02,
    "C03": props_resource.C03,
    "C12": props_resource.C12,
    "C04": props_ring.C04,
    "C09": props_ring.C09,
    "C14": props_array.C14,
    "C05": props_subject.C05,
    "C10": props_subject.C10,
    "C16": props_observable.C16,
    "C06": props_router.C06,
    "C13": props_router.C13,
    "C19": props_locale.C19,
    "C18": props_path.C18,
    "C17": props_file.C17,
    "C07": props_pool.C07,
    "C08": props_pool.C08,
    "C20": props_thread.C20,
    "C11": props_concrouter.C11,
    "C15": props_race.C15,
}
# specs that can be run (./check) but are not claimed in MANIFEST.json yet
IN_PROGRESS = set()
NOT_CLAIMED = {}
