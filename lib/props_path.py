"""C18: tulz::Path and DirectoryVisitor. String operations on generated path strings; filesystem queries on a
generated scratch tree (directories and regular files) compared with the model and with std::filesystem."""
from engine import Spec

NNAMES = 17
SEGS = [[97], [98, 99], [46], [46, 46], [32], [97, 46, 98], [195, 188], [100, 105, 114], [120] * 5, [58], [68, 58]]
SEPS = [[47], [47], [47], [92], [47, 47], [92, 47]]


def rand_path(rng):
    k = rng.weighted([(0, 2), (1, 6), (2, 6), (3, 4), (5, 1)])
    s = []
    if rng.chance(1, 3):
        s += rng.choice(SEPS)
    for i in range(k):
        s += rng.choice(SEGS)
        if i + 1 < k or rng.chance(1, 3):
            s += rng.choice(SEPS)
    return s


def rand_name(rng):
    if rng.chance(1, 8):
        return rand_path(rng)          # not separator-free: the law does not apply, join still must agree
    return rng.choice(SEGS + [[]] if rng.chance(1, 10) else SEGS)


def enc(s):
    return [len(s)] + list(s)


def gen_case(rng, maxops):
    lines = [[0]]
    dirs = [[]]
    files = []
    used = set([()])
    bulked = set()
    for _ in range(rng.range(2, maxops)):
        k = rng.weighted([("join", 6), ("name", 3), ("parent", 3), ("abs", 1), ("mkdir", 5), ("mkfile", 5), ("stat", 4), ("size", 4),
                          ("list", 3), ("visit", 2), ("nested", 2), ("remove", 2), ("bulk", 1 if rng.chance(1, 6) else 0)])
        if k == "join":
            lines.append([20] + enc(rand_path(rng) if rng.chance(9, 10) else []) + enc(rand_name(rng)))
        elif k == "name":
            lines.append([21] + enc(rand_path(rng)))
        elif k == "parent":
            lines.append([22] + enc(rand_path(rng)))
        elif k == "abs":
            lines.append([23] + enc(rand_path(rng)))
        elif k in ("mkdir", "mkfile"):
            parent = rng.choice(dirs)
            if len(parent) >= 4:
                continue
            nm = rng.below(NNAMES) if rng.chance(4, 5) else rng.choice([13, 14, 15, 16])
            if nm >= 15 and k == "mkfile": nm = rng.below(13)
            p = parent + [nm]
            if tuple(p) in used and not rng.chance(1, 10):
                continue
            if tuple(p) not in used:
                used.add(tuple(p))
                (dirs if k == "mkdir" else files).append(p)
            if k == "mkdir":
                lines.append([40] + p)
            else:
                lines.append([41, rng.choice([0, 0, 1, 7, 100, 4096, 65536, rng.range(0, 3000)]) if not rng.chance(1, 12)
                              else rng.choice([(1 << 31) + 1, (1 << 32) + 5, (1 << 31) - 1])] + p)   # sparse files: sizes are size_t, not int
        elif k == "bulk":
            # a directory with a large fan-out (its listing needs several reads of the directory stream), then list / size it
            cands = [d for d in dirs if d and tuple(d) not in bulked]
            if not cands or len(bulked) >= 1: continue
            p = rng.choice(cands)
            lines.append([43, rng.choice([1100, 1500, 2300])] + p)
            bulked.add(tuple(p))
            lines.append([52] + p); lines.append([51] + p)
        elif k == "remove":
            # remove a file or an empty directory; the name may come back as the other kind later (long-lived Path objects
            # in the harness were asked about it before)
            cands = [f for f in files] + [d for d in dirs if d and tuple(d) not in bulked and not any(len(x) > len(d) and x[:len(d)] == d for x in dirs + files)]
            if not cands: continue
            p = rng.choice(cands)
            lines.append([50] + p)
            lines.append([42] + p)
            if p in files: files.remove(p)
            else: dirs.remove(p)
            used.discard(tuple(p))
            if rng.chance(2, 3):
                if rng.chance(1, 2): lines.append([41, rng.choice([0, 5, 300])] + p); files.append(p)
                else: lines.append([40] + p); dirs.append(p)
                used.add(tuple(p))
            lines.append([rng.choice([50, 51, 52])] + p)
        elif k == "nested":
            deep = sorted(dirs, key=lambda d: -sum(150 if x >= 15 else 1 for x in d))
            p = list(deep[0] if rng.chance(2, 3) else rng.choice(dirs))
            q = list(rng.choice(dirs + files))
            lines.append([54, len(p)] + p + q)
        else:
            pool = dirs + files
            p = list(rng.choice(pool))
            if rng.chance(1, 6):
                p = p + [rng.below(NNAMES)]      # probably missing
            code = {"stat": 50, "size": 51, "list": 52, "visit": 53}[k]
            if code <= 52 and rng.chance(1, 4):
                code += 10                          # the same query on the path spelled with a trailing separator
            if code == 53 and rng.chance(1, 3):
                q = list(rng.choice(dirs + files))  # one visitor object used twice, the caller moves to q in between
                lines.append([55, len(p)] + p + q)
                continue
            lines.append([code] + p)
    lines.append([51])
    lines.append([52])
    return lines


class C18(Spec):
    pid = "C18"
    component = "path"
    harness_name = "path"
    harness_sources = ("path.cpp",)
    repo_sources = ("src/Path.cpp", "src/DirectoryVisitor.cpp", "src/Exception.cpp")
    quick_cases = 1200
    thorough_cases = 30000
    search_cases = 3000
    case_chunk = 600
    design_ref = "DESIGN.md section 4, C18"
    rule = ("cases of 3-40 operations: join / getPathName / getParentDirectory / isAbsolute on strings built from 11 segments (incl. '.', "
            "'..', spaces, UTF-8, 'D:') and 6 separator forms ('/', '\\\\', doubled, mixed), relative and absolute, with and without "
            "trailing separator, empty strings; mkdir / create-file (sizes 0-64 KiB) building a scratch tree of depth <= 4 over 13 names "
            "(spaces, dots, hidden, '..data', '...', UTF-8, invalid UTF-8 bytes, two names of 150+ bytes so that working directories exceed 260 bytes), then exists/isFile/isDirectory, size, listChildren and DirectoryVisitor "
            "on existing and missing paths; non-trivial = at least one join and one filesystem query")
    level_text = ("Kernel-checked: (strings) for every non-empty d and every non-empty n without '/' and '\\\\', getPathName(join(d, n)) = n "
                  "and getParentDirectory(join(d, n)) = d without one trailing '/'; join(p, q) = q whenever q is absolute or p is empty; "
                  "getParentDirectory never erases out of range (totality) — for all byte strings; (filesystem model) on every well-formed "
                  "tree Path::size of a path, computed as the code does by recursion through join(this, child) and fresh look-ups, equals "
                  "the total size of the regular files beneath it; listChildren returns every entry exactly once and never '.'/'..'; "
                  "isFile/isDirectory/exists partition the nodes; a DirectoryVisitor restores the previous working directory. Partial: "
                  "opendir/readdir/fopen/chdir are modelled by a tree; the tie is the differential run on real scratch trees.")
    level_note = ("Trusted: Coq kernel; extraction; hand transcription PathModel.v; g++/libstdc++/ASan; std::filesystem as second opinion. "
                  "Modelled, not verified: POSIX directory and file I/O (a tree), std::string::find_last_of/erase/npos arithmetic.")
    technique = "Coq proof over a byte-string / filesystem-tree model of Path + extracted-model vs C++ differential run on real scratch trees"
    assumptions = ("Linux (Separator = SystemSeparator = '/'); no symlinks or special files; the tree is not modified concurrently; "
                   "DirectoryVisitor used as constructor-then-destroy (DESIGN.md section 6)",)
    trusted_extra = ("PathModel.v is a hand transcription of Path.cpp / DirectoryVisitor.cpp; harness/path.cpp builds real trees under "
                     "/verif/build/C18 and removes them",)
    harness_cwd = True

    def generate(self, rng, n, tier):
        return [("mixed", gen_case(rng, rng.choice([8, 20, 40]))) for _ in range(n)]

    def nontrivial(self, lines):
        ops = [l.split()[0] for l in lines[1:] if l.split()]
        return "20" in ops and any(o in ("50", "51", "52", "60", "61", "62") for o in ops)

    def classify(self, lines):
        names = {"20": "join", "21": "getPathName", "22": "getParentDirectory", "23": "isAbsolute", "40": "mkdir", "41": "create file",
                 "50": "exists/isFile/isDirectory", "51": "size", "52": "listChildren", "53": "DirectoryVisitor", "54": "nested DirectoryVisitors", "55": "DirectoryVisitor used twice", "43": "fill a directory with 1100-2300 files",
                 "60": "exists/isFile/isDirectory (trailing separator)", "61": "size (trailing separator)", "62": "listChildren (trailing separator)"}
        return sorted({"op:" + names.get(l.split()[0], "?") for l in lines[1:] if l.split()})
