"""C04 / C09: RingBuffer. Case generator aimed at the case splits of the proofs:
capacity 1-2, full and empty buffers, every head position, wrap-around, newCapacity on both
sides of size / lastIndex / pos; copies, moves and comparisons between up to three buffers."""
from engine import Spec


class RingSim:
    def __init__(self):
        self.present = [False] * 3
        self.items = [[], [], []]
        self.cap = [0, 0, 0]


def gen_ring_case(rng, ow, elem, maxops):
    sim = RingSim()
    ops = []
    nextv = [10 + rng.below(5)]

    def val():
        if elem == 3 and rng.chance(1, 3):
            return 0          # floats: zeros of either sign (equal elements with different bytes)
        nextv[0] += 1 + rng.below(2)
        return nextv[0]
    # first buffer
    b0 = rng.below(3)
    if rng.chance(1, 6):
        k = rng.range(1, 4)
        vals = [val() for _ in range(k)]
        cap = -1 if rng.chance(1, 2) else k + rng.below(3)
        ops.append([15, b0, cap] + vals)
        sim.present[b0] = True; sim.items[b0] = list(vals); sim.cap[b0] = k if cap == -1 else cap
    else:
        cap = rng.weighted([(1, 3), (2, 3), (3, 3), (4, 2), (5, 3), (6, 1), (7, 1), (8, 1), (9, 1)])
        ops.append([0, b0, cap])
        sim.present[b0] = True; sim.items[b0] = []; sim.cap[b0] = cap
    n = rng.range(1, maxops)
    # a bias per case makes long runs of pushes (fill, wrap) or pops (drain) likely
    bias = rng.choice(["push", "pop", "mixed", "front", "resize"])
    for _ in range(n):
        live = [b for b in range(3) if sim.present[b]]
        usable = [b for b in live if sim.cap[b] >= 1]
        absent = [b for b in range(3) if not sim.present[b]]
        w = {"pb": 6, "pf": 4, "ob": 3, "of": 3, "rs": 3, "acc": 2, "new": 1, "cc": 1, "ca": 1, "mc": 1, "ma": 1, "del": 1, "eq": 1}
        if bias == "push": w["pb"] = 14; w["pf"] = 6
        if bias == "pop": w["ob"] = 7; w["of"] = 7
        if bias == "front": w["pf"] = 12; w["of"] = 6
        if bias == "resize": w["rs"] = 9
        if elem == 3: w["eq"] = 4; w["cc"] = 3
        kind = rng.weighted(list(w.items()))
        if kind in ("pb", "pf") and usable:
            b = rng.choice(usable)
            fullb = len(sim.items[b]) == sim.cap[b]
            if fullb and not ow:
                continue
            if sim.items[b] and rng.chance(1, 6):
                # aliasing argument: push a reference to an own element (front, back or any)
                i = rng.choice([0, len(sim.items[b]) - 1, rng.below(len(sim.items[b]))])
                v = sim.items[b][i]
                if kind == "pb":
                    if fullb: sim.items[b].pop(0)
                    sim.items[b].append(v); ops.append([16, b, i])
                else:
                    if fullb: sim.items[b].pop()
                    sim.items[b].insert(0, v); ops.append([17, b, i])
                continue
            v = val()
            if kind == "pb":
                if fullb: sim.items[b].pop(0)
                sim.items[b].append(v); ops.append([1, b, v])
            else:
                if fullb: sim.items[b].pop()
                sim.items[b].insert(0, v); ops.append([2, b, v])
        elif kind in ("ob", "of") and usable:
            b = rng.choice(usable)
            if not sim.items[b]:
                continue
            if kind == "ob": sim.items[b].pop(); ops.append([3, b])
            else: sim.items[b].pop(0); ops.append([4, b])
        elif kind == "rs" and usable:
            b = rng.choice(usable)
            sz, cp = len(sim.items[b]), sim.cap[b]
            cands = [1, cp - 1, cp, cp + 1, sz - 1, sz, sz + 1, cp + rng.range(1, 4), rng.range(1, 10), max(1, sz // 2)]
            nn = max(1, rng.choice(cands))
            ops.append([5, b, nn])
            sim.items[b] = sim.items[b][:nn]; sim.cap[b] = nn
        elif kind == "acc" and usable:
            b = rng.choice(usable)
            if not sim.items[b]:
                continue
            k = rng.below(3)
            if k == 0: ops.append([6, b])
            elif k == 1: ops.append([7, b])
            else: ops.append([8, b, rng.below(len(sim.items[b]))])
        elif kind == "new" and absent:
            b = rng.choice(absent)
            cap = rng.range(1, 6)
            ops.append([0, b, cap]); sim.present[b] = True; sim.items[b] = []; sim.cap[b] = cap
        elif kind == "cc" and absent and live:
            b, c = rng.choice(absent), rng.choice(live)
            ops.append([9, b, c]); sim.present[b] = True; sim.items[b] = list(sim.items[c]); sim.cap[b] = sim.cap[c]
        elif kind == "ca" and len(live) >= 1:
            b, c = rng.choice(live), rng.choice(live)
            ops.append([10, b, c])
            if b != c:
                sim.items[b] = list(sim.items[c]); sim.cap[b] = sim.cap[c]
        elif kind == "mc" and absent and live:
            b, c = rng.choice(absent), rng.choice(live)
            ops.append([11, b, c]); sim.present[b] = True
            sim.items[b] = sim.items[c]; sim.cap[b] = sim.cap[c]; sim.items[c] = []; sim.cap[c] = 0
        elif kind == "ma" and len(live) >= 2:
            b, c = rng.choice(live), rng.choice(live)
            if b == c:
                continue
            ops.append([12, b, c])
            sim.items[b], sim.items[c] = sim.items[c], sim.items[b]
            sim.cap[b], sim.cap[c] = sim.cap[c], sim.cap[b]
        elif kind == "del" and len(live) >= 2:
            b = rng.choice(live)
            ops.append([13, b]); sim.present[b] = False; sim.items[b] = []; sim.cap[b] = 0
        elif kind == "eq" and live:
            ops.append([14, rng.choice(live), rng.choice(live)])
    for b in range(3):
        if sim.present[b]:
            ops.append([13, b])
    return ops


class RingSpec(Spec):
    component = "ring"
    harness_name = "ring"
    harness_sources = ("ring.cpp",)
    elem_types = (0, 2, 3)   # 0 = int64, 1 = tracked with event comparison, 2 = tracked, events not compared, 3 = float (signed zeros)
    quick_cases = 2500
    thorough_cases = 90000
    search_cases = 8000

    def generate(self, rng, n, tier):
        out = []
        for i in range(n):
            ow = rng.below(2)
            elem = rng.choice(self.elem_types)
            maxops = rng.choice([6, 12, 25, 40])
            ops = gen_ring_case(rng, ow, elem, maxops)
            out.append((f"ow={ow} elem={['int', 'tracked+events', 'tracked', 'float'][elem]}", [[ow, 1, elem]] + ops))
        return out

    def nontrivial(self, lines):
        # at least one state-changing element operation beyond construction/destruction
        return any(l.split()[0] in ("1", "2", "3", "4", "5", "10", "12", "16", "17") for l in lines[1:])

    def classify(self, lines):
        tags = set()
        names = {"0": "construct", "1": "push_back", "2": "push_front", "3": "pop_back", "4": "pop_front", "5": "resize",
                 "6": "front", "7": "back", "8": "index", "9": "copy_ctor", "10": "copy_assign", "11": "move_ctor",
                 "12": "move_assign", "13": "destroy", "14": "equal", "15": "init_list",
                 "16": "push_back_alias", "17": "push_front_alias"}
        for l in lines[1:]:
            tags.add("op:" + names.get(l.split()[0], "?"))
        hd = lines[0].split()
        tags.add("overwrite" if hd[0] == "1" else "no-overwrite")
        tags.add({"0": "elem:int", "3": "elem:float"}.get(hd[2], "elem:tracked"))
        tags.add("len:%s" % ("1-8" if len(lines) <= 9 else "9-20" if len(lines) <= 21 else "21+"))
        return sorted(tags)


class C04(RingSpec):
    pid = "C04"
    level_text = ("Kernel-checked refinement theorem: for every history of operation lines (any length, any capacity, both overwrite "
                  "modes, three buffer variables, valid or not) the RingBuffer model returns what a bounded deque returns and has its "
                  "size/capacity/contents after every step (C04_refines_deque), plus per-operation refinement lemmas for an arbitrary "
                  "element type and modCap = mod. The model is a statement-by-statement transcription of RingBuffer.h and is tied to the "
                  "current source on every run by running the extracted model and the real template on the same generated histories.")
    level_note = ("Trusted: Coq kernel; extraction (ExtrOcamlBasic) and OCaml driver; the hand transcription RingModel.v, validated only "
                  "differentially; g++/libstdc++/ASan. Modelled, not verified: malloc/realloc/memcpy as slot relocation, C++ value "
                  "categories, machine integers as unbounded Z. Element types bitwise relocatable (the property's quantifier).")
    technique = "Coq refinement proof (ring buffer model -> bounded deque spec) + extracted-model vs C++ differential run"
    design_ref = "DESIGN.md section 4, C04"
    rule = ("operation histories over up to three RingBuffer variables (int64 and lifetime-tracked elements, both overwrite "
            "modes, capacities 1-9, 1-40 ops incl. resize/copy/move/assign/compare), generated from one SplitMix64 state and "
            "respecting the documented preconditions; a case is non-trivial if it contains at least one push/pop/resize/assign; "
            "distinct = distinct case text")
    assumptions = ("element types are bitwise relocatable (property's quantifier); machine integers modelled as unbounded Z "
                   "(sizes far below 2^63); malloc/realloc/memcpy modelled as slot relocation; C++ value categories modelled",)
    trusted_extra = ("RingModel.v is a hand transcription of RingBuffer.h; oracle in harness/ring.cpp is an independent std::deque replay",)

    def oracle_relevant(self, msg):
        # element lifetimes and leaks are C09's subject, except reading a value out of storage that holds no
        # element (any more): what is then stored is not "exactly the value pushed"
        if "from a non-element" in msg:
            return True
        return "lifetime:" not in msg and "end of case:" not in msg


class C09(RingSpec):
    pid = "C09"
    level_text = ("Kernel-checked theorems over the event-emitting RingBuffer model: in every step of every history no out-of-bounds or "
                  "non-element access, no destructor/assignment on raw storage, no array dropped or freed while holding an element, and the "
                  "values destroyed/assigned over are exactly the values the bounded deque removes (C09_step_lifetimes); conservation of "
                  "elements over whole histories (C09_conservation); kernel-checked refutations of the pinned upstream variants. Tied to "
                  "the source by comparing the model's event log with the lifetime-tracking element type's log on the real template.")
    level_note = C04.level_note + " Lifetime registry harness/tracked.h and LeakSanitizer are trusted for the implementation-side oracle."
    technique = "Coq invariant proof over lifetime events + extracted-model vs C++ (tracked elements, ASan/LSan) differential run"
    elem_types = (1,)
    design_ref = "DESIGN.md section 4, C09"
    rule = ("as C04 but only the lifetime-tracked element type: per operation the exact sequence of element constructions, "
            "move-assignments, destructor calls (with the state of the storage they hit) and move-outs is compared with the "
            "model's event log; the registry and LeakSanitizer check double destruction, destruction of raw storage and leaks; "
            "non-trivial/distinct as C04")
    assumptions = C04.assumptions
    trusted_extra = ("RingModel.v is a hand transcription of RingBuffer.h; lifetime registry in harness/tracked.h keyed by serial; "
                     "LeakSanitizer for abandoned arrays",)
