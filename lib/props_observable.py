"""C16: tulz::Observable. Histories of =, +=, -=, *=, /=, ++, --, apply, subscribe / unsubscribe /
mute / unmute / invalidate over Observable<int>, Observable<double, NearEq> (dyadic values only,
so every double operation is exact) and Observable<std::string>."""
from engine import Spec

SCALE, TOL, RANGE = 1 << 20, 1 << 14, 1 << 40


def binop(kind, code, x, y):
    """exact mirror of the precondition: returns None when the operation is not exact / defined"""
    if kind == 2:
        return x + y if code == 11 else None
    x, y = x[0], y[0]
    if kind in (0, 3):
        if code == 11: n = x + y
        elif code == 12: n = x - y
        elif code == 13: n = x * y
        else:
            if y == 0: return None
            n = abs(x) // abs(y) * (1 if (x >= 0) == (y >= 0) else -1)
    else:
        if code == 11: n = x + y
        elif code == 12: n = x - y
        elif code == 13:
            if (x * y) % SCALE: return None
            n = x * y // SCALE
        else:
            if y == 0 or (x * SCALE) % y: return None
            n = x * SCALE // y
    return [n] if abs(n) < RANGE else None


def rand_value(rng, kind, cur):
    if kind == 2:
        k = rng.weighted([(0, 2), (1, 3), (3, 3), (20, 1), (40, 1)])
        if rng.chance(1, 4):
            return list(cur)
        return [rng.choice([97, 98, 99, 32, 200, 1, 255]) for _ in range(k)]
    c = cur[0]
    if kind == 0:
        return [rng.choice([c, c, c + 1, c - 1, 0, 1, -1, rng.range(-50, 50), rng.range(-100000, 100000)])]
    if kind == 3:   # equality = same bucket of eight: aim at the bucket boundaries
        b = c // 8 * 8
        return [rng.choice([c, c + 1, c - 1, b, b - 1, b + 7, b + 8, 0, -1, -8, -9, 7, 8, rng.range(-40, 40), rng.range(-100000, 100000)])]
    # doubles: aim at the tolerance boundary |a-b| < 1/64
    return [rng.choice([c, c + TOL - 1, c + TOL, c - TOL + 1, c - TOL, c + TOL + 1, c + 1, 0, SCALE, -SCALE // 2,
                        rng.range(-64, 64) * TOL, rng.range(-5, 5) * SCALE + rng.range(0, 63) * TOL])]


def gen_case(rng, maxops):
    kind = rng.weighted([(0, 4), (1, 4), (2, 3), (3, 3)])
    cur = rand_value(rng, kind, [0] if kind != 2 else [])
    lines = [[kind], list(cur)]
    nsub = 0
    for _ in range(rng.range(1, maxops)):
        k = rng.weighted([("sub", 4), ("unsub", 2), ("mute", 2), ("unmute", 2), ("inval", 1), ("assign", 8), ("bin", 8),
                          ("step", 4 if kind != 2 else 0), ("apply", 3), ("bad", 1)])
        if k == "sub":
            lines.append([0]); nsub += 1
        elif k in ("unsub", "mute", "unmute", "inval"):
            if nsub == 0:
                continue
            lines.append([{"unsub": 1, "mute": 2, "unmute": 3, "inval": 4}[k], rng.below(nsub)])
        elif k == "assign":
            v = rand_value(rng, kind, cur)
            lines.append([10] + v)
            if kind == 1:
                if not abs(cur[0] - v[0]) < TOL: cur = v
            elif kind == 3:
                if cur[0] // 8 != v[0] // 8: cur = v
            elif cur != v:
                cur = v
        elif k == "bin":
            code = 11 if kind == 2 else rng.choice([11, 12, 13, 14])
            if kind == 2:
                y = rand_value(rng, 2, [])
                if rng.chance(1, 3): y = []
            elif kind in (0, 3):
                y = [rng.choice([0, 1, -1, 2, 3, -2, 10, rng.range(-20, 20)])]
            else:
                y = [rng.choice([0, SCALE, 2 * SCALE, SCALE // 2, SCALE // 4, -SCALE, 3 * SCALE, TOL, TOL // 2, rng.range(-8, 8) * TOL])]
            r = binop(kind, code, cur, y)
            if r is None and not rng.chance(1, 10):
                continue
            lines.append([code] + y)
            if r is not None: cur = r
        elif k == "step":
            code = rng.choice([15, 16, 17, 18])
            r = binop(kind, 11 if code <= 16 else 12, cur, [SCALE if kind == 1 else 1])
            lines.append([code])
            if r is not None: cur = r
        elif k == "apply":
            if rng.chance(1, 2):
                lines.append([19, 2])
            else:
                v = rand_value(rng, kind, cur)
                lines.append([19, 0] + v); cur = v
        else:
            lines.append(rng.choice([[1, nsub + 3], [14, 0] if kind != 2 else [12, 97], [99], [15, 1]]))
    return lines


class C16(Spec):
    pid = "C16"
    component = "observable"
    harness_name = "observable"
    harness_sources = ("observable.cpp",)
    quick_cases = 3000
    thorough_cases = 90000
    search_cases = 8000
    design_ref = "DESIGN.md section 4, C16"
    rule = ("histories of 1-40 operations (=, +=, -=, *=, /=, ++, --, apply(set), apply(identity), subscribe, unsubscribe, mute, unmute, "
            "invalidate; ~3% operations violating a precondition) over Observable<int>, Observable<double, NearEq(1/64)> driven with "
            "dyadic rationals n/2^20 around the tolerance boundary, Observable<std::string>, and Observable<int, BucketEq> (equal = same "
            "bucket of eight: an equality coarser than the step of ++/--); subscribers take T& or T by value; "
            "non-trivial = at least one subscriber and one value-changing operator; distinct = distinct case text")
    level_text = ("Kernel-checked for an arbitrary value type and an arbitrary boolean Eq (not assumed to be an equivalence): an assignment "
                  "stores and notifies every live unmuted subscriber exactly once, in order, with the new value iff Eq(old, new) is false "
                  "and otherwise changes neither value nor logs; apply / compound assignment always store f(old) and notify once with it "
                  "iff Eq(old, f(old)) is false; ++/-- always notify once with the new value and return the documented value; if Eq is "
                  "the equality of T a recording subscriber that stays subscribed, valid and unmuted always holds value(). The Subject is "
                  "represented by what C05 proves about it (delivery to the valid unmuted subscriptions in order). Tied to the source by "
                  "running the extracted model and the real Observable on the same histories.")
    level_note = ("Trusted: Coq kernel; extraction; hand transcription ObservableModel.v; g++/libstdc++/ASan. Modelled, not verified: "
                  "floating point (only exactly representable dyadic values are used, integer arithmetic on n/2^20 stands for it), signed "
                  "overflow excluded (|values| < 2^40 resp. int range by generation), the Subject as its C05 specification.")
    technique = "Coq proof over a generic Observable model (arbitrary T and Eq) + extracted-model vs C++ differential run"
    assumptions = ("doubles restricted to dyadic rationals with exact results; no signed overflow; subscribers do not re-enter the "
                   "Observable from their callbacks",)
    trusted_extra = ("ObservableModel.v is a hand transcription of Observable.h; harness/observable.cpp recomputes 'changed <=> notified "
                     "once with the post value' independently",)

    def generate(self, rng, n, tier):
        out = []
        for i in range(n):
            lines = gen_case(rng, rng.choice([6, 12, 25, 40]))
            out.append((f"type={['int', 'double+NearEq', 'string', 'int+BucketEq'][lines[0][0]]}", lines))
        return out

    def nontrivial(self, lines):
        ops = [l.split() for l in lines[2:] if l.split()]
        return any(o[0] == "0" for o in ops) and any(o[0] in ("10", "11", "12", "13", "14", "15", "16", "17", "18", "19") for o in ops)

    def classify(self, lines):
        names = {"0": "subscribe", "1": "unsubscribe", "2": "mute", "3": "unmute", "4": "invalidate", "10": "=", "11": "+=", "12": "-=",
                 "13": "*=", "14": "/=", "15": "x++", "16": "++x", "17": "x--", "18": "--x", "19": "apply"}
        tags = {"type:" + ["int", "double", "string", "int+BucketEq"][int(lines[0].split()[0])]}
        for l in lines[2:]:
            if l.split():
                tags.add("op:" + names.get(l.split()[0], "malformed"))
        return sorted(tags)

    def shrinkable_from(self):
        return 2
