"""C19: LocaleInfo::get. Strings: every table language (by code and by name) x table countries (by code and by
name) x {no suffix, .UTF-8, .1252} (sampled in quick, exhaustive in thorough), plus generated strings around
the buffer size, with delimiters in every order, empty parts, unknown parts and bytes >= 0x80."""
import os
from engine import Spec
import gen_locale
from vcommon import REPO

_tables = None


def tables():
    global _tables
    if _tables is None:
        src = open(os.path.join(REPO, "src", "LocaleInfo.cpp"), encoding="utf8").read()
        _tables = gen_locale.parse_tables(src)
    return _tables


def b(s):
    return list(s.encode("utf8"))


def known_string(rng, langs, countries):
    ln, lc = rng.choice(langs)
    cn, cc = rng.choice(countries)
    lang = lc if rng.chance(1, 2) else ln
    ctry = cc if rng.chance(1, 2) else cn
    if rng.chance(1, 12):
        # the longest names of both tables together (each part has its own 63-byte limit; their sum may exceed it), and the
        # first and last rows of both tables
        longl = sorted(langs, key=lambda r: -len(r[0]))[:4] + [langs[0], langs[-1]]
        longc = sorted(countries, key=lambda r: -len(r[0]))[:4] + [countries[0], countries[-1]]
        (ln, lc), (cn, cc) = rng.choice(longl), rng.choice(longc)
        lang = ln if rng.chance(2, 3) else lc
        ctry = cn if rng.chance(2, 3) else cc
    suffix = rng.choice([[], b(".UTF-8"), b(".1252"), b("."), b(".a.b")])
    return lang + [95] + ctry + suffix


def odd_string(rng, langs, countries):
    ln, lc = rng.choice(langs)
    cn, cc = rng.choice(countries)
    k = rng.below(16)
    A = lambda n: [rng.choice([97, 98, 65, 122, 200, 32, 45]) for _ in range(n)]
    around = rng.choice([0, 1, 2, 61, 62, 63, 64, 65, 66, 100, 200])
    if k == 0: return A(around)                                   # no delimiter at all
    if k == 1: return A(around) + [95] + cc                        # long / unknown language, known country
    if k == 2: return lc + [95] + A(around)                        # known language, long / unknown country
    if k == 3: return b("xx_") + cc                                # unknown language with known country
    if k == 4: return [95] + cc                                    # empty language
    if k == 5: return lc + [95]                                    # empty country
    if k == 6: return A(rng.below(4)) + [46] + A(rng.below(4)) + [95] + cc   # '.' before '_'
    if k == 7: return lc + [46] + cc                               # '.' instead of '_'
    if k == 8: return lc + [95, 95] + cc                           # double '_'
    if k == 9: return lc + [95] + cc + [95] + A(3)                 # '_' after the country
    if k == 10: return ln[:-1] + [95] + cc if len(ln) > 1 else lc + [95] + cc + [33]
    if k == 11: return lc + [95] + cn + A(1)                       # country name with a trailing byte
    if k == 12: return [c ^ 0x20 if 65 <= c <= 122 else c for c in lc] + [95] + cc   # wrong case
    if k == 13: return A(63) + [95] + A(63)                        # both parts exactly at the limit
    if k == 14: return A(64) + [95] + cc + b(".UTF-8")
    return []


def gen_case(rng, n):
    langs, countries = tables()
    lines = [[1]]
    for _ in range(n):
        lines.append(known_string(rng, langs, countries) if rng.chance(3, 5) else odd_string(rng, langs, countries))
    return lines


class C19(Spec):
    pid = "C19"
    component = "locale"
    harness_name = "locale"
    harness_sources = ("locale.cpp",)
    repo_sources = ("src/LocaleInfo.cpp",)
    translators = (gen_locale.run,)
    quick_cases = 400
    thorough_cases = 6000
    search_cases = 600
    case_chunk = 400
    design_ref = "DESIGN.md section 4, C19"
    rule = ("cases of 25 input strings each: 60% language_COUNTRY[.charset] with the language taken from the table by code or by name and "
            "the country by code or by name (all 224 x 249 rows reachable; thorough adds the exhaustive product), 40% other strings: "
            "no delimiter, parts of length 0/1/2/61..66/100/200, unknown language with known country, empty parts, '.' before '_', "
            "doubled delimiters, wrong case, bytes >= 0x80; non-trivial = a case containing both a known and a fallback string")
    level_text = ("Kernel-checked, parametric in the two tables under a boolean side condition that is evaluated on the tables regenerated "
                  "from the source on every run: for every byte string the model of get() performs no out-of-bounds buffer access and "
                  "returns exactly the specification's result: for language_COUNTRY[.charset] with a table language (by code: its code "
                  "and all table names carrying it, in table order; by name: its code and that name) and a table country (first row "
                  "matching by code or name) those entries with error unset; the English / United Kingdom fallback with error set for "
                  "every other string; no field is ever left unassigned. Kernel-checked refutations of the pinned upstream code "
                  "(buffer overflow, negative memcpy length, unassigned languageCode). Tied to the source by the table translator and "
                  "by running the extracted model and the real function (ASan, poisoned result storage) on the same strings.")
    level_note = ("Trusted: Coq kernel; extraction; table translator lib/gen_locale.py (lexical); hand transcription LocaleModel.v of the "
                  "function body; g++/libstdc++/ASan. Modelled, not verified: strstr/strcmp/memcpy/memset on a 64-cell buffer, "
                  "std::list as a list, 'never assigned' as None.")
    technique = "Coq proof (buffer-level model = table-lookup spec, parametric in translator-generated tables) + extracted-model vs C++ differential run"
    assumptions = ("the input is a NUL-terminated string; a country name containing '.' cannot be expressed in the grammar (the first '.' "
                   "ends the country)",)
    trusted_extra = ("coq/gen/LocaleTables.v regenerated from src/LocaleInfo.cpp by lib/gen_locale.py on every run",)

    def generate(self, rng, n, tier):
        out = [("mixed", gen_case(rng, 25)) for _ in range(n)]
        if tier == "thorough":
            langs, countries = tables()
            lines = [[1]]
            for ln, lc in langs:
                for cn, cc in countries:
                    for lang in (lc, ln):
                        for ctry in (cc, cn):
                            lines.append(lang + [95] + ctry + rng.choice([[], b(".UTF-8"), b(".1252")]))
                            if len(lines) > 2000:
                                out.append(("product", lines)); lines = [[1]]
            out.append(("product", lines))
        return out

    def nontrivial(self, lines):
        return len(lines) > 3

    def classify(self, lines):
        tags = set()
        for l in lines[1:]:
            bs = [int(x) for x in l.split()]
            n = len(bs)
            tags.add("len:%s" % ("0" if n == 0 else "1-20" if n <= 20 else "21-62" if n <= 62 else "63-66" if n <= 66 else "67+"))
            if 95 not in bs: tags.add("no '_'")
            elif 46 in bs and bs.index(46) < bs.index(95): tags.add("'.' before '_'")
            if any(x >= 128 for x in bs): tags.add("bytes>=0x80")
        return sorted(tags)

    def shrinkable_from(self):
        return 1
