#!/usr/bin/env python3
"""Development aid: run the failing-input search (tier "search": free exploration etc.) of a property on its own,
against the current VERIF_REPO, and print what the implementation-side monitors report.
    python3 lib/freerun.py <pid> [cases] [seed]"""
import os, sys
sys.path.insert(0, os.path.dirname(os.path.abspath(__file__)))
from vcommon import *
import registry
from engine import fmt_case


def main():
    pid = sys.argv[1]
    n = int(sys.argv[2]) if len(sys.argv) > 2 else 2000
    seed = int(sys.argv[3]) if len(sys.argv) > 3 else 1
    spec = registry.SPECS[pid]() if isinstance(registry.SPECS[pid], type) else registry.SPECS[pid]
    ok, exe, log = build_harness(pid, spec.harness_name, spec.harness_sources, spec.extra_flags, spec.repo_sources, san=spec.san)
    if not ok:
        print("build failed", log[-3000:]); return 1
    gen = spec.generate(Rng(seed ^ 0x5EA4C4), n, "search")
    cases = [fmt_case(spec.component, f"search.{i}", sfx, l) for i, (sfx, l) in enumerate(gen)]
    bad = 0
    for k in range(0, len(cases), spec.case_chunk):
        text = "".join(case_text(h, l) for h, l in cases[k:k + spec.case_chunk])
        rc, so, se = run_harness(exe, text, timeout=spec.harness_timeout, env_extra=spec.harness_env)
        cur = None
        for ln in so.splitlines():
            if ln.startswith("#"): cur = ln
            elif ln.startswith("!"):
                bad += 1
                if bad <= 12: print(cur, "\n   ", ln[:300])
    print(f"{len(cases)} search cases, {bad} oracle/crash lines")


if __name__ == "__main__":
    sys.exit(main())
