"""C17: tulz::File. Write / append sessions (one or several chunks), read-back in binary and text modes through
read(), readStr() and read(buffer, ...), seek / tell / size sequences, open errors."""
from engine import Spec

ALPHA = [0, 10, 13, 26, 255, 0, 10, 13]


def rand_bytes(rng, maxlen):
    n = rng.weighted([(0, 2), (1, 3), (5, 4), (40, 3), (maxlen, 2)])
    n = rng.range(0, n) if n > 1 else n
    return [rng.choice(ALPHA) if rng.chance(1, 2) else rng.below(256) for _ in range(n)]


def gen_case(rng, maxops, big, mega=False):
    lines = [[0]]
    files = {}     # name -> exists as file (approximate bookkeeping, the model decides)
    dirs = set()
    opened = None
    cur = 0
    large = set()     # names that may hold more than 16 KiB: not read in text mode (the model's text-mode scan is quadratic)
    for _ in range(rng.range(3, maxops)):
        if opened is None:
            k = rng.weighted([("open_w", 6), ("open_r", 6), ("mkdir", 1), ("symlink", 1), ("mkfile", 2), ("bad", 1)])
            n = rng.below(4)
            if k == "mkdir":
                if n in files or n in dirs: continue
                dirs.add(n); lines.append([30, n])
            elif k == "symlink":     # a symbolic link to a directory
                if n in files or n in dirs or not dirs: continue
                lines.append([32, n, rng.choice(sorted(dirs))]); dirs.add(n)
            elif k == "mkfile":
                if n in dirs: continue
                files[n] = True
                if rng.chance(1, 5):
                    # generated contents of whole blocks and their neighbours (block-wise readers); megabytes only in the big cases
                    base = rng.choice([4096, 8192, 65536, 131072] + ([1 << 20, 1 << 20, 1 << 21] if mega else []))
                    lines.append([34, n, base + rng.choice([0, 0, 0, 1, -1, 17]), rng.below(251)])
                    if base > 16384: large.add(n)
                else:
                    lines.append([31, n] + rand_bytes(rng, 300))
                if rng.chance(1, 4):
                    lines.append([35, n, rng.choice([1, 2, 3, 4, 5, 6])])     # a path below this regular file names nothing
            elif k == "open_w":
                if rng.chance(1, 8) and dirs: n = rng.choice(sorted(dirs))
                m = rng.choice([3, 4, 5, 6])
                lines.append([1, n, m])
                if n not in dirs:
                    files[n] = True; opened = ("w", m); cur = n
            elif k == "open_r":
                if rng.chance(1, 10) and dirs: n = rng.choice(sorted(dirs))
                m = rng.choice([1, 2]) if n not in large else 2
                lines.append([1, n, m])
                if n in files and n not in dirs:
                    opened = ("r", m); cur = n
            else:
                lines.append(rng.choice([[2], [5], [3, 1, 2], [9]]))
        else:
            kind, m = opened
            if kind == "w":
                k = rng.weighted([("write", 10), ("close", 4), ("seek", 1), ("tell", 2), ("size", 3), ("reopen", 2)])
            else:
                k = rng.weighted([("readall", 5), ("readstr", 4), ("readn", 5), ("close", 4), ("seek", 4), ("tell", 3), ("size", 4), ("reopen", 1)])
            if rng.chance(1, 6):
                # a second File user works on another file while this one stays open (33 switches between the two): File
                # objects are independent of one another
                n2 = rng.choice([x for x in range(4) if x != cur])
                m2 = rng.choice([3, 4, 5, 6])
                lines += [[33], [1, n2, m2], [3] + rand_bytes(rng, 200), [33]]
                lines.append([3] + rand_bytes(rng, 200) if kind == "w" else [4, rng.choice([1, 7, 64])])
                lines += [[33], [3] + rand_bytes(rng, 600), [9], [2], [33]]
                if n2 not in dirs: files[n2] = True
                continue
            if k == "reopen":
                # open() on the File that is open: often the same path again, sometimes a directory or a missing file (the open fails
                # and the old stream stays open)
                n = cur if rng.chance(1, 2) else rng.below(4)
                m2 = rng.choice([1, 2, 3, 4, 5, 6])
                if n in large and m2 == 1: m2 = 2
                lines.append([1, n, m2])
                if n in dirs or (m2 <= 2 and n not in files):
                    pass
                else:
                    files[n] = True; opened = ("w" if m2 >= 3 else "r", m2); cur = n
            elif k == "write":
                lines.append([3] + rand_bytes(rng, 5000 if big else 600))
            elif k == "close":
                lines.append([2]); opened = None
            elif k == "seek":
                lines.append([7, rng.choice([0, 0, 1, 5, -1, -3, 100, 1000, rng.range(-10, 700)]), rng.below(3)])
            elif k == "tell":
                lines.append([8])
            elif k == "size":
                lines.append([9])
            elif k == "readall":
                lines.append([5])
            elif k == "readstr":
                lines.append([6])
            else:
                lines.append([4, rng.choice([0, 1, 2, 10, 100, 5000])])
    if opened is not None:
        lines.append([2])
    # read everything back in both read modes
    for n in sorted(files):
        if n not in dirs:
            for m in ((2, 1) if n not in large else (2,)):
                lines += [[1, n, m], [9], [5 if m == 2 else 6], [8], [2]]
    return lines


class C17(Spec):
    pid = "C17"
    component = "file"
    harness_name = "file"
    harness_sources = ("file.cpp",)
    repo_sources = ("src/File.cpp", "src/Path.cpp", "src/Exception.cpp")
    quick_cases = 1000
    thorough_cases = 20000
    search_cases = 3000
    case_chunk = 500
    design_ref = "DESIGN.md section 4, C17"
    rule = ("cases of 4-60 operations on up to four files and directories in a scratch directory: write / append sessions in text and "
            "binary modes with 1-8 chunks of 0-600 bytes (thorough: up to 5000) drawn half from {00, 0A, 0D, 1A, FF} and half uniformly, "
            "seek / tell / size in between, then read-back of every file in Read and ReadText modes through size(), read(), readStr(), "
            "read(buffer, 1, n), tell(); opening missing files and directories in every mode; non-trivial = at least one write and one "
            "whole-file read")
    level_text = ("Kernel-checked over the stdio model: in a read mode, from any position, read() returns exactly the bytes of the file "
                  "(the fgetc-until-feof count of the text branch and the size() of the binary branch both equal its length; the fuel "
                  "of the counting loop always suffices); size() returns the length of the file and leaves the position unchanged for "
                  "every reachable position; any split of a byte string into successive write calls followed by close and a read-mode "
                  "open reads back the concatenation (write modes truncate, append modes yield old ++ new); opening a missing path for "
                  "reading is NotFound and a directory is NotFile in every mode. Partial: stdio and the kernel are modelled; multi-megabyte "
                  "contents are covered by the theorem (unbounded lists) but only sampled up to 40 KiB in the correspondence run.")
    level_note = ("Trusted: Coq kernel; extraction; hand transcription FileModel.v of File.cpp and of the POSIX stdio behaviour it relies "
                  "on (glibc: append streams start at the end; text = binary); g++/libstdc++/ASan; std::ifstream / std::filesystem as "
                  "second opinion. Modelled, not verified: the C library and the kernel.")
    technique = "Coq proof over a stdio model of File.cpp + extracted-model vs C++ differential run on real files"
    assumptions = ("POSIX/glibc stdio semantics as modelled; one stream per file at a time (buffering invisible); no I/O errors",)
    trusted_extra = ("FileModel.v is a hand transcription of File.cpp plus a model of fopen/fread/fwrite/fgetc/feof/fseek/ftell",)

    def generate(self, rng, n, tier):
        # "big" cases: chunks up to 5000 bytes (thorough); "mega" cases: files of 1 MiB / 2 MiB (under 1% in thorough); the first
        # case of every run reads back files of exactly 1 MiB and 2 MiB (and appends to one of them)
        out = [("megabytes", [[0], [34, 0, 1 << 20, rng.below(251)], [1, 0, 2], [9], [5], [8], [2],
                              [34, 1, 1 << 21, rng.below(251)], [1, 1, 2], [6], [2],
                              [1, 0, 6], [3] + rand_bytes(rng, 300), [9], [2], [1, 0, 2], [9], [5], [2]])]
        out += [("mixed", gen_case(rng, rng.choice([10, 25, 50]), tier == "thorough" and rng.chance(1, 10),
                                   tier == "thorough" and rng.chance(1, 600)))
                for i in range(n - 1)]
        return out

    def nontrivial(self, lines):
        ops = [l.split()[0] for l in lines[1:] if l.split()]
        return "3" in ops and ("5" in ops or "6" in ops)

    def classify(self, lines):
        names = {"30": "mkdir", "31": "create file", "1": "open", "2": "close", "3": "write", "4": "read(buf)", "5": "read()",
                 "6": "readStr()", "7": "seek", "8": "tell", "9": "size", "32": "symlink to a directory", "33": "switch to the other File user", "34": "create file (generated blocks)",
                 "35": "open a path below a regular file"}
        tags = set()
        for l in lines[1:]:
            t = l.split()
            if not t: continue
            tags.add("op:" + names.get(t[0], "?"))
            if t[0] == "1" and len(t) == 3:
                tags.add("mode:" + {"1": "ReadText", "2": "Read", "3": "WriteText", "4": "Write", "5": "AppendText", "6": "Append"}.get(t[2], "?"))
            if t[0] == "3":
                n = len(t) - 1
                tags.add("chunk:%s" % ("0" if n == 0 else "1-10" if n <= 10 else "11-100" if n <= 100 else "101+"))
        return sorted(tags)
