"""Development aid: confirm + side-run + keep a list of seeded changes produced by sub-agents.
   python3 lib/seed_keep_wave.py <list.json> [worktree names ...]   (list entries: [worktree, n, id, property, [pids], needs])"""
import json, os, subprocess, sys, threading
sys.path.insert(0, '/verif/lib')
import seed as S
entries = json.load(open(sys.argv[1]))
only = set(sys.argv[2:])
bywt = {}
for e in entries:
    if only and e[0] not in only: continue
    bywt.setdefault(e[0], []).append(e)
lock = threading.Lock()
def work(wtname, es):
    wt = f'/tmp/wt/{wtname}'
    for (_, n, sid, prop, pids, needs) in es:
        patch = f'{wt}/mutation/patch{n}.diff'
        if os.path.exists(f'{wt}/mutation/patch{n}_rebased.diff'): patch = f'{wt}/mutation/patch{n}_rebased.diff'
        demo = f'{wt}/mutation/demo{n}.cpp'
        conf = S.confirm(wt, patch, demo)
        run = S.side_checks(wt, patch, pids)
        d = f'/verif/seeded/{sid}'
        os.makedirs(d, exist_ok=True)
        subprocess.run(['cp', patch, f'{d}/patch.diff']); subprocess.run(['cp', demo, f'{d}/demo.cpp'])
        notes = open(f'{wt}/mutation/NOTES.md').read()[:6000] if os.path.exists(f'{wt}/mutation/NOTES.md') else ''
        meta = {"id": sid, "breaks_property": prop, "needs_to_manifest": needs, "wave": int(os.environ.get("SEED_WAVE", "0")) or int("".join(ch for ch in os.path.basename(sys.argv[1]) if ch.isdigit()) or 2), "confirmed": conf, "checks": run, "author_notes": notes}
        json.dump(meta, open(f'{d}/meta.json', 'w'), indent=1)
        with lock:
            print("KEPT", sid, {p: (v['exit'], any('no-failing' in l for l in v['lines'])) for p, v in (run or {}).items()},
                  "demo with:", (conf or {}).get('demo_with_change', {}) if not isinstance((conf or {}).get('demo_with_change'), dict) else conf['demo_with_change'].get('exit'),
                  "without:", ((conf or {}).get('demo_without_change') or {}).get('exit'), flush=True)
ts = []
sem = threading.Semaphore(4)
def guarded(w, es):
    with sem: work(w, es)
for w, es in bywt.items():
    t = threading.Thread(target=guarded, args=(w, es)); t.start(); ts.append(t)
for t in ts: t.join()
