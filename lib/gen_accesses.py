"""Translator: the threading sources -> coq/gen/Accesses.v: per function, which member fields it reads / writes, under
which guards, and whether the field is a std::atomic.

Lexical (brace tracking over comment-free source text; no C++ parser): recognises std::scoped_lock / std::unique_lock /
std::lock_guard objects on a mutex member, explicit m_x.lock() / m_x.unlock(), rwp::ReadLock / rwp::WriteLock objects on a
Resource member; member accesses are identifiers m_<name> (possibly through m_threadPool-> / m_pooledThread-> / thread->)
and calls of the small accessor functions listed in ACCESSORS. It fails loudly when a function of interest disappears.
Helper functions (any other member function defined in the same file, e.g. Resource::enqueue / select) are inlined into
the entry points that call them: their accesses are attributed to the caller, under the guards held at the call site plus
their own, so that extracting or inlining a private helper does not change the table."""
import os, re
from vcommon import REPO, COQ

MUTATORS = {"emplace_back", "push_back", "pop_front", "pop_back", "erase", "clear", "insert", "emplace", "emplace_front", "reset",
            "remove_if", "join", "detach", "swap"}
SYNC_OBJECTS = {"m_mutex", "m_queueMutex", "m_poolMutex", "m_cv", "m_condition", "m_resource"}
# accessor call -> (field, is_write)
ACCESSORS = {
    "isRunning": None,            # resolved per receiver below
    "getExpiryTimeout": ("m_expiryTimeout", False),
    "getLastActiveTime": ("m_lastActiveTime", False),
    "setLastActiveTime": ("m_lastActiveTime", True),
    "isFinished": ("Thread::m_isFinished", False),
    "getActiveThreadCount": ("m_pool", False),
    "getThreadCount": ("m_pool", False),
}
# router operations: how the wrapped SubjectRouter is used (C05/C06/C11: a notify on valid observers does not modify the router)
ROUTER_CALLS = {"m_router.notify": False, "m_router.exists": False, "m_router.depth": False,
                "m_router.subscribe": True, "m_router.shrink": True, "::unsubscribe": True,
                "::mute": True, "::unmute": True, "::isValid": False, "::isMuted": False}

FUNCTIONS = [
    # (component, file, regex of the function header, name)
    ("Resource", "src/threading/rwp/Resource.cpp", r"void\s+Resource::lock\s*\(", "Resource::lock"),
    ("Resource", "src/threading/rwp/Resource.cpp", r"void\s+Resource::unlock\s*\(", "Resource::unlock"),
    ("ThreadPool", "src/threading/ThreadPool.cpp", r"void\s+PooledRunnable::run\s*\(", "PooledRunnable::run"),
    ("ThreadPool", "src/threading/ThreadPool.cpp", r"void\s+ThreadPool::start\s*\(", "ThreadPool::start"),
    ("ThreadPool", "src/threading/ThreadPool.cpp", r"void\s+ThreadPool::clear\s*\(", "ThreadPool::clear"),
    ("ThreadPool", "src/threading/ThreadPool.cpp", r"void\s+ThreadPool::stop\s*\(", "ThreadPool::stop"),
    ("ThreadPool", "src/threading/ThreadPool.cpp", r"void\s+ThreadPool::update\s*\(", "ThreadPool::update"),
    ("ThreadPool", "src/threading/ThreadPool.cpp", r"int\s+ThreadPool::getActiveThreadCount\s*\(", "ThreadPool::getActiveThreadCount"),
    ("ThreadPool", "src/threading/ThreadPool.cpp", r"int\s+ThreadPool::getThreadCount\s*\(", "ThreadPool::getThreadCount"),
    ("ThreadPool", "src/threading/ThreadPool.cpp", r"bool\s+ThreadPool::isRunning\s*\(", "ThreadPool::isRunning"),
    ("ThreadPool", "src/threading/ThreadPool.cpp", r"int\s+ThreadPool::getExpiryTimeout\s*\(", "ThreadPool::getExpiryTimeout"),
    ("Thread", "src/threading/Thread.cpp", r"void\s+Thread::start\s*\(", "Thread::start(Runnable)"),
    ("Thread", "src/threading/Thread.cpp", r"bool\s+Thread::isFinished\s*\(", "Thread::isFinished"),
    ("Thread", "src/threading/Thread.cpp", r"bool\s+Thread::isRunning\s*\(", "Thread::isRunning"),
    ("Thread", "src/threading/Thread.cpp", r"void\s+Thread::join\s*\(", "Thread::join"),
    ("Thread", "include/tulz/threading/Thread.h", r"enable_if_t<[^;{]*>\s*start\s*\(", "Thread::start(callable)"),
    ("Router", "include/tulz/observer/routing/ConcurrentSubjectRouter.h", r"size_t\s+notify\s*\(", "ConcurrentSubjectRouter::notify"),
    ("Router", "include/tulz/observer/routing/ConcurrentSubjectRouter.h", r"USubscription\s+subscribe\s*\(", "ConcurrentSubjectRouter::subscribe"),
    ("Router", "include/tulz/observer/routing/ConcurrentSubjectRouter.h", r"void\s+shrink\s*\(", "ConcurrentSubjectRouter::shrink"),
    ("Router", "include/tulz/observer/routing/ConcurrentSubjectRouter.h", r"bool\s+exists\s*\(", "ConcurrentSubjectRouter::exists"),
    ("Router", "include/tulz/observer/routing/ConcurrentSubjectRouter.h", r"size_t\s+depth\s*\(", "ConcurrentSubjectRouter::depth"),
    ("Router", "include/tulz/observer/routing/ConcurrentSubjectRouter.h", r"void\s+unsubscribe\s*\(\s*\)\s*override", "ConcurrentInvoker::unsubscribe"),
]


def strip_comments(src):
    src = re.sub(r"//[^\n]*", "", src)
    return re.sub(r"/\*.*?\*/", "", src, flags=re.S)


def function_body(src, header_rx, name):
    m = re.search(header_rx, src)
    if not m:
        raise RuntimeError(f"function {name} not found")
    i = src.index("{", m.end())
    # skip a constructor-style initialiser? (not needed for these functions)
    depth, j = 0, i
    while True:
        c = src[j]
        if c == "{": depth += 1
        elif c == "}":
            depth -= 1
            if depth == 0: break
        j += 1
    return src[i:j + 1]


def atomic_fields():
    out = set()
    for f in ("include/tulz/threading/ThreadPool.h", "include/tulz/threading/Thread.h", "include/tulz/threading/rwp/Resource.h"):
        s = strip_comments(open(os.path.join(REPO, f), encoding="utf8").read())
        cls = "Thread::" if f.endswith("Thread.h") else ""
        for m in re.finditer(r"std::atomic\s*<[^;>]*>\s*(m_\w+)", s):
            out.add(cls + m.group(1) if cls and m.group(1) == "m_isFinished" else m.group(1))
    return out


def scan(body, name, helpers=()):
    """-> list of (field, write, guards) and list of (callee, guards) for helper calls"""
    accesses, calls = [], []
    # reference aliases of member fields (auto &queue = m_threadPool->m_queue;): rewrite their uses to the field
    for am in re.finditer(r"auto\s*&\s*(\w+)\s*=\s*(?:\w+\s*->\s*)?(m_\w+)\s*;", body):
        alias, fld = am.group(1), am.group(2)
        head, tail = body[:am.end()], body[am.end():]
        body = head + re.sub(r"(?<![\w>.])" + re.escape(alias) + r"(?=\s*[.\[])", fld, tail)
    stack = [set()]
    i, n = 0, len(body)
    token_rx = re.compile(
        r"(?P<lb>\{)|(?P<rb>\})|"
        r"(?P<guard>std::(?:scoped_lock|unique_lock|lock_guard)(?:\s*<[^>]*>)?\s+\w+\s*[\(\{]\s*(?:\w+->)?(?P<gm>m_\w+)\s*[\)\}])|"
        r"(?P<rw>rwp::(?P<rwk>ReadLock|WriteLock)\s+\w+\s*[\(\{]\s*(?P<rwm>m_\w+)\s*[\)\}])|"
        r"(?P<lock>(?P<lm>m_\w+)\s*\.\s*(?P<lop>lock|unlock)\s*\(\s*\))|"
        r"(?P<rcall>m_router\s*\.\s*(?:template\s+)?(?P<rop>\w+)|(?:\w+\s*(?:<[^>]*>)?\s*::\s*)+(?P<bop>unsubscribe|isValid|isMuted|mute|unmute)\s*\()|"
        r"(?P<acc>(?:(?P<recv>\w+)\s*->\s*)?(?P<fn>isRunning|getExpiryTimeout|getLastActiveTime|setLastActiveTime|isFinished|getActiveThreadCount|getThreadCount)\s*\()|"
        + (r"(?P<helper>(?<![\w.>:])(?P<hn>" + "|".join(map(re.escape, sorted(helpers))) + r")\s*\()|" if helpers else r"(?P<helper>(?P<hn>\b\B))|") +
        r"(?P<pre>(?:\+\+|--)\s*)?(?:(?P<through>\w+)\s*->\s*)?(?P<field>m_\w+)(?P<post>\s*(?:\+\+|--|=(?!=)|\.\s*(?P<meth>\w+)\s*\())?")
    for m in token_rx.finditer(body):
        if m.group("lb"):
            stack.append(set(stack[-1]))
        elif m.group("rb"):
            if len(stack) > 1: stack.pop()
        elif m.group("guard"):
            stack[-1].add((m.group("gm"), "Excl"))
        elif m.group("rw"):
            stack[-1].add((m.group("rwm"), "Shared" if m.group("rwk") == "ReadLock" else "Excl"))
        elif m.group("lock"):
            g = (m.group("lm"), "Excl")
            if m.group("lop") == "lock": stack[-1].add(g)
            else: stack[-1].discard(g)
        elif m.group("rcall"):
            # a qualified call of the wrapped (default) invoker reaches into the router's subjects: unsubscribe / mute / unmute
            # modify them, isValid / isMuted read them
            key = "m_router." + m.group("rop") if m.group("rop") else "::" + m.group("bop")
            if key not in ROUTER_CALLS:
                raise RuntimeError(f"{name}: unknown router call {key}")
            accesses.append(("m_router", ROUTER_CALLS[key], frozenset(stack[-1])))
        elif m.group("acc"):
            fn, recv = m.group("fn"), m.group("recv")
            if fn == "isRunning":
                fld = ("Thread::m_isFinished", False) if recv in ("thread", "pooledThread") else ("m_isRunning", False)
            else:
                fld = ACCESSORS[fn]
            accesses.append((fld[0], fld[1], frozenset(stack[-1])))
        elif m.group("helper"):
            calls.append((m.group("hn"), frozenset(stack[-1])))
        elif m.group("field"):
            fld = m.group("field")
            if fld in SYNC_OBJECTS:
                continue
            post = (m.group("post") or "").strip()
            write = bool(m.group("pre")) or post in ("++", "--") or post == "=" or (m.group("meth") in MUTATORS if m.group("meth") else False)
            if fld == "m_isFinished": fld = "Thread::m_isFinished"
            accesses.append((fld, write, frozenset(stack[-1])))
    return accesses, calls


def discover(src):
    """all out-of-class member function definitions 'Class::name(...) {' of a comment-free source text -> {(cls, name): body}"""
    out = {}
    for m in re.finditer(r"\b(\w+)::(~?\w+)\s*\(([^;{}()]|\([^()]*\))*\)\s*(?:const\s*)?(?:noexcept\s*)?\{", src):
        i = src.index("{", m.end() - 1)
        depth, j = 0, i
        while True:
            c = src[j]
            if c == "{": depth += 1
            elif c == "}":
                depth -= 1
                if depth == 0: break
            j += 1
        out[(m.group(1), m.group(2))] = src[i:j + 1]
    return out


def collect(body, name, helpers, depth=0):
    """accesses of a function body with its helpers inlined (guards of the call site added)"""
    names = {h[1] for h in helpers}
    acc, calls = scan(body, name, names)
    rows = list(acc)
    if depth < 4:
        for callee, g in calls:
            for (cls, hn), hbody in helpers.items():
                if hn == callee:
                    for fld, w, hg in collect(hbody, cls + "::" + hn, helpers, depth + 1):
                        rows.append((fld, w, frozenset(hg | g)))
    return rows


def extract():
    atom = atomic_fields()
    rows = []
    cache = {}
    for comp, f, rx, name in FUNCTIONS:
        if f not in cache:
            src = strip_comments(open(os.path.join(REPO, f), encoding="utf8").read())
            roots = {n for c2, f2, r2, n in FUNCTIONS if f2 == f}
            found = discover(src) if f.endswith(".cpp") else {}
            # helpers: member functions defined in this file that are not entry points themselves
            helpers = {k: v for k, v in found.items()
                       if not any(n.split("(")[0] == k[0] + "::" + k[1] for n in roots)}
            cache[f] = (src, helpers)
        src, helpers = cache[f]
        acc = collect(function_body(src, rx, name), name, helpers)
        seen = set()
        for fld, w, g in acc:
            key = (fld, w, g)
            if key in seen: continue
            seen.add(key)
            rows.append((comp, name, fld, w, fld in atom, sorted(g)))
    rows.sort()
    return rows


def run():
    rows = extract()

    def row(r):
        comp, fn, fld, w, at, gs = r
        gl = "; ".join(f'("{g}", {m})' for g, m in gs)
        return f'  mkAcc "{comp}" "{fn}" "{fld}" {"true" if w else "false"} {"true" if at else "false"} [{gl}]'
    txt = ("(* generated from the threading sources of /repo by lib/gen_accesses.py on every run; do not edit *)\n"
           "From Coq Require Import List String.\nFrom Tulz Require Import RaceModel.\nImport ListNotations.\nLocal Open Scope string_scope.\n"
           "Definition extracted_accesses : list access :=\n[" + ";\n ".join(row(r).strip() for r in rows) + "].\n")
    path = os.path.join(COQ, "gen", "Accesses.v")
    os.makedirs(os.path.dirname(path), exist_ok=True)
    old = open(path).read() if os.path.exists(path) else None
    if old != txt:                      # atomic: checks of several properties may run side by side
        tmp = f"{path}.{os.getpid()}.tmp"
        open(tmp, "w").write(txt)
        os.replace(tmp, path)
    return f"Accesses.v: {len(rows)} access rows over {len(FUNCTIONS)} functions"


run.__name__ = "gen_accesses"

if __name__ == "__main__":
    for r in extract():
        print(r)
