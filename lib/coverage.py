#!/usr/bin/env python3
"""Development aid (not a registered check): which lines of /repo's sources do the correspondence
harnesses execute on the generated cases?  Builds each harness with --coverage (no sanitizers),
feeds it the quick-tier cases of the given seed in-process (VERIF_NOFORK) and runs gcov.

    python3 lib/coverage.py [pid ...]      -> /tmp/verif-cov/<pid>/*.gcov and a summary of
                                              unexecuted lines in the anchored sources
"""
import os, re, subprocess, sys, shutil
sys.path.insert(0, os.path.dirname(os.path.abspath(__file__)))
os.environ.setdefault("VERIF_BUILD", "/tmp/verif-cov/build")
from vcommon import *
import registry
from engine import fmt_case, corpus_cases


def main():
    pids = sys.argv[1:] or sorted(registry.SPECS)
    seed = int(os.environ.get("VERIF_SEED", "1"))
    for pid in pids:
        spec = registry.SPECS[pid]() if isinstance(registry.SPECS[pid], type) else registry.SPECS[pid]
        out = f"/tmp/verif-cov/{pid}"
        shutil.rmtree(out, ignore_errors=True)
        os.makedirs(out)
        flags = list(spec.extra_flags) + ["--coverage", "-O0"]
        ok, exe, log = build_harness(pid, spec.harness_name, spec.harness_sources, extra_flags=flags,
                                     repo_sources=spec.repo_sources, san=False)
        if not ok:
            print(pid, "build failed", log[-2000:]); continue
        rng = Rng(seed * 1000003 + 17)
        cases = [(h, l) for h, l in corpus_cases(pid)]
        gen = spec.generate(rng, spec.quick_cases, "quick")
        text = ""
        for h, l in cases:
            text += case_text(h, l)
        for i, (sfx, lines) in enumerate(gen):
            h, ls = fmt_case(spec.component, f"cov.{i}", sfx, lines)
            text += case_text(h, ls)
        env = dict(spec.harness_env or {})
        env["VERIF_NOFORK"] = "1"
        rc, so, se = run_harness(exe, text, timeout=900, env_extra=env)
        bd = os.path.dirname(exe)
        gcdas = [f for f in os.listdir(bd) if f.endswith(".gcda")]
        cov = {}   # source -> {line: (hit, text)}
        for k, g in enumerate(gcdas):
            od = os.path.join(out, str(k)); os.makedirs(od)
            subprocess.run(["gcov", "-p", "-o", bd, os.path.join(bd, g)], cwd=od, stdout=subprocess.DEVNULL, stderr=subprocess.DEVNULL)
            for f in os.listdir(od):
                if "#repo#" not in f or "#_build#" in f:
                    continue
                name = f.replace("#", "/").replace(".gcov", "")
                d = cov.setdefault(name, {})
                for ln in open(os.path.join(od, f), errors="replace"):
                    m = re.match(r"\s*([^:]+):\s*(\d+):(.*)", ln)
                    if not m: continue
                    c = m.group(1).strip()
                    if c == "-": continue
                    hit = not (c.startswith("#####") or c.startswith("====="))
                    n = int(m.group(2))
                    d[n] = (d.get(n, (False, ""))[0] or hit, m.group(3).strip()[:100])
            shutil.rmtree(od)
        print(f"== {pid} rc={rc} cases={len(gen)}")
        for name in sorted(cov):
            d = cov[name]
            miss = sorted(n for n in d if not d[n][0])
            print(f"  {name}: {len(d) - len(miss)}/{len(d)} lines executed")
            for n in miss:
                print(f"      {n}: {d[n][1]}")


if __name__ == "__main__":
    main()
