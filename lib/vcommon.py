"""Shared machinery of the /verif checks (see DESIGN.md section 1).

A check = (1) regenerate coq/gen from /repo, (2) kernel-check the property's theorems and audit
Print Assumptions, (3) run model and implementation on the same generated cases and diff,
(4) decide / search for a failing input, (5) known findings, (6) evidence.
"""
import fcntl, hashlib, json, os, re, shutil, subprocess, sys, time

VERIF = os.path.dirname(os.path.dirname(os.path.abspath(__file__)))
REPO = os.environ.get("VERIF_REPO", "/repo")
BUILD = os.environ.get("VERIF_BUILD", os.path.join(VERIF, "build"))   # development aid: side runs against a scratch copy of the repo
COQ = os.path.join(VERIF, "coq")
NPROC = os.cpu_count() or 4

ALLOWED_AXIOMS = {
    # axioms declared by Coq's standard library; allowed if a library drags them in, and then
    # named in the evidence. The development itself declares none.
    "functional_extensionality_dep", "FunctionalExtensionality.functional_extensionality_dep",
    "proof_irrelevance", "ProofIrrelevance.proof_irrelevance", "classic", "Classical_Prop.classic",
    "JMeq_eq", "JMeq.JMeq_eq", "Eqdep.Eq_rect_eq.eq_rect_eq", "eq_rect_eq",
}

TRUSTED_BASE_COMMON = [
    "Coq 8.16.1 kernel (coqc, full .vo build; vm_compute used, native_compute not used)",
    "no Axiom/Parameter/Admitted in the development (syntactic gate + Print Assumptions audit per theorem)",
    "extraction: Require Extraction + ExtrOcamlBasic only (bool/option/unit/list/prod/sumbool/sumor mapped to OCaml's; "
    "no Extract Constant; nat/positive/N/Z stay inductive), OCaml driver ocaml/driver.ml, ocamlfind ocamlopt 4.13.1",
    "hand-written Gallina model tied to /repo by the differential correspondence run of this check "
    "(g++ 12 -std=c++20, libstdc++, ASan/UBSan/LSan); agreement on generated cases is evidence, not proof",
]


# ------------------------------------------------------------------------------------------
class Rng:
    """SplitMix64; every random choice of a run derives from one state (VERIF_SEED)."""
    M = (1 << 64) - 1

    def __init__(self, seed):
        self.s = (seed * 0x9E3779B97F4A7C15 + 0x1234567) & self.M

    def next(self):
        self.s = (self.s + 0x9E3779B97F4A7C15) & self.M
        z = self.s
        z = ((z ^ (z >> 30)) * 0xBF58476D1CE4E5B9) & self.M
        z = ((z ^ (z >> 27)) * 0x94D049BB133111EB) & self.M
        return z ^ (z >> 31)

    def below(self, n):
        return self.next() % n if n > 0 else 0

    def range(self, a, b):  # inclusive
        return a + self.below(b - a + 1)

    def chance(self, num, den):
        return self.below(den) < num

    def choice(self, xs):
        return xs[self.below(len(xs))]

    def weighted(self, pairs):
        tot = sum(w for _, w in pairs)
        k = self.below(tot)
        for x, w in pairs:
            if k < w:
                return x
            k -= w
        return pairs[-1][0]

    def shuffle(self, xs):
        xs = list(xs)
        for i in range(len(xs) - 1, 0, -1):
            j = self.below(i + 1)
            xs[i], xs[j] = xs[j], xs[i]
        return xs


def run(cmd, cwd=None, timeout=None, env=None, input=None):
    t0 = time.time()
    try:
        p = subprocess.run(cmd, cwd=cwd, timeout=timeout, env=env, input=input,
                           stdout=subprocess.PIPE, stderr=subprocess.PIPE, text=True, errors="replace")
        return p.returncode, p.stdout, p.stderr, time.time() - t0
    except subprocess.TimeoutExpired as e:
        so = e.stdout if isinstance(e.stdout, str) else (e.stdout or b"").decode("utf8", "replace")
        se = e.stderr if isinstance(e.stderr, str) else (e.stderr or b"").decode("utf8", "replace")
        return 124, so, se + "\nTIMEOUT", time.time() - t0


class Lock:
    def __init__(self, name):
        os.makedirs(BUILD, exist_ok=True)
        self.path = os.path.join(BUILD, name)

    def __enter__(self):
        self.f = open(self.path, "w")
        fcntl.flock(self.f, fcntl.LOCK_EX)
        return self

    def __exit__(self, *a):
        fcntl.flock(self.f, fcntl.LOCK_UN)
        self.f.close()


# ------------------------------------------------------------------------------------------
# Coq side
FORBIDDEN_TOKENS = ["Admitted", "admit", "give_up", "Axiom", "Axioms", "Parameter", "Parameters", "Conjecture",
                    "Conjectures", "bypass_check"]
FORBIDDEN_PHRASES = [r"Admit\s+Obligations", r"Unset\s+Guard\s+Checking", r"Unset\s+Positivity\s+Checking",
                     r"Unset\s+Universe\s+Checking", r"-type-in-type", r"-impredicative-set", r"Local\s+Unset\s+Guard"]


def strip_coq_comments(s):
    out, depth, i, n = [], 0, 0, len(s)
    instr = False
    while i < n:
        if depth == 0 and s[i] == '"':
            instr = not instr
            out.append(s[i]); i += 1; continue
        if not instr and s.startswith("(*", i):
            depth += 1; i += 2; continue
        if not instr and depth > 0 and s.startswith("*)", i):
            depth -= 1; i += 2; continue
        if depth == 0:
            out.append(s[i])
        i += 1
    return "".join(out)


def coq_sources():
    files = []
    for d in ("theories", "gen"):
        p = os.path.join(COQ, d)
        if os.path.isdir(p):
            files += sorted(os.path.join(p, f) for f in os.listdir(p) if f.endswith(".v"))
    files.append(os.path.join(VERIF, "ocaml", "Extract.v"))
    return files


def gate():
    """Syntactic gate over the whole development. Returns list of complaints."""
    bad = []
    dev_ignore = [x for x in os.environ.get("VERIF_DEV_IGNORE", "").split(",") if x]  # development aid only
    for f in coq_sources() + [os.path.join(COQ, "_CoqProject")]:
        if not os.path.exists(f) or os.path.basename(f) in dev_ignore:
            continue
        s = strip_coq_comments(open(f).read())
        for ph in FORBIDDEN_PHRASES:
            if re.search(ph, s):
                bad.append(f"{f}: forbidden phrase {ph}")
        if f.endswith(".v"):
            for tok in FORBIDDEN_TOKENS:
                if re.search(r"(?<![A-Za-z0-9_'.])" + re.escape(tok) + r"(?![A-Za-z0-9_'])", s):
                    bad.append(f"{f}: forbidden token {tok}")
            # Variable/Hypothesis/Context outside a section
            depth = 0
            for m in re.finditer(r"(?m)^\s*(Section|End|Module|Variables?|Hypothes[ie]s|Context)\b", s):
                w = m.group(1)
                if w == "Section":
                    depth += 1
                elif w == "End":
                    depth = max(0, depth - 1)
                elif w == "Module":
                    depth += 1  # End closes modules too
                elif depth == 0:
                    bad.append(f"{f}: {w} outside a section")
    return bad


def write_coqproject():
    hdr = open(os.path.join(COQ, "_CoqProject")).read().rstrip("\n")
    files = []
    for d in ("theories", "gen"):
        p = os.path.join(COQ, d)
        os.makedirs(p, exist_ok=True)
        files += sorted(f"{d}/{f}" for f in os.listdir(p) if f.endswith(".v"))
    txt = hdr + "\n" + "\n".join(files) + "\n"
    full = os.path.join(COQ, "_CoqProject.full")
    old = open(full).read() if os.path.exists(full) else None
    if old != txt or not os.path.exists(os.path.join(COQ, "Makefile")):
        open(full, "w").write(txt)
        rc, so, se, _ = run(["coq_makefile", "-f", "_CoqProject.full", "-o", "Makefile"], cwd=COQ)
        if rc != 0:
            raise RuntimeError("coq_makefile failed: " + se)


def coq_make(targets, timeout=1500, keep_going=True):
    """Builds .vo targets (paths relative to coq/). Returns (ok, log)."""
    with Lock(".coq.lock"):
        write_coqproject()
        cmd = ["make", "-j", str(NPROC)] + (["-k"] if keep_going else []) + targets
        rc, so, se, dt = run(cmd, cwd=COQ, timeout=timeout)
        return rc == 0, so + se


def coq_check_properties(pid, timeout=600):
    """Compiles theories/Properties_<pid>.v directly (always, so that Print Assumptions output is
    available) after its dependencies were built. Returns dict with theorems, assumptions, ok."""
    src = f"theories/Properties_{pid}.v"
    res = {"file": src, "theorems": [], "ok": False, "log": "", "axioms": {}, "failed": []}
    txt = strip_coq_comments(open(os.path.join(COQ, src)).read())
    thms = re.findall(r"(?m)^\s*(?:Theorem|Corollary)\s+([A-Za-z0-9_']+)", txt)
    res["theorems"] = thms
    # dependencies
    deps = sorted(set(re.findall(r"From\s+(Tulz|TulzGen)\s+Require\s+(?:Import|Export)\s+([^.]+)\.", txt)))
    targets = []
    for lib, names in deps:
        for nm in names.split():
            targets.append(("theories/" if lib == "Tulz" else "gen/") + nm + ".vo")
    ok, log = coq_make(targets, timeout=timeout)
    res["log"] = log
    if not ok:
        res["failed"] = ["dependency build failed"] + re.findall(r"(?m)^(File .*|Error.*)$", log)[:10]
        return res
    outdir = os.path.join(BUILD, pid)
    os.makedirs(outdir, exist_ok=True)
    rc, so, se, dt = run(["coqc", "-Q", "theories", "Tulz", "-Q", "gen", "TulzGen", "-w", "-notation-overridden",
                          "-o", os.path.join(outdir, f"Properties_{pid}.vo"), src], cwd=COQ, timeout=timeout)
    res["log"] += so + se
    if rc != 0:
        res["failed"] = ["Properties file did not check"] + re.findall(r"(?m)^(File .*|Error.*)$", so + se)[:10]
        return res
    # parse Print Assumptions blocks: they appear in order, one per theorem
    blocks = re.split(r"(?m)^(?=Closed under the global context|Axioms:)", so)
    blocks = [b for b in blocks if b.startswith("Closed under") or b.startswith("Axioms:")]
    if len(blocks) != len(thms):
        res["failed"] = [f"{len(thms)} theorems but {len(blocks)} Print Assumptions outputs"]
        return res
    for t, b in zip(thms, blocks):
        if b.startswith("Closed under"):
            res["axioms"][t] = []
        else:
            names = re.findall(r"(?m)^([A-Za-z0-9_'.]+)\s*:", b[len("Axioms:"):])
            res["axioms"][t] = names
            for nm in names:
                if nm not in ALLOWED_AXIOMS and nm.split(".")[-1] not in ALLOWED_AXIOMS:
                    res["failed"].append(f"theorem {t} depends on disallowed axiom {nm}")
    res["ok"] = not res["failed"]
    return res


def coqchk_properties(pid, timeout=2400):
    """Thorough tier: re-check the compiled Properties module and everything it depends on with the independent
    checker; returns (ok, summary lines, wall seconds)."""
    outdir = os.path.join(BUILD, pid)
    rc, so, se, dt = run(["coqchk", "-silent", "-o", "-Q", "theories", "Tulz", "-Q", "gen", "TulzGen", "-R", outdir, "",
                          f"Properties_{pid}"], cwd=COQ, timeout=timeout)
    txt = so + se
    summary = [l.strip() for l in txt.splitlines() if l.strip().startswith("*")]
    ok = rc == 0 and any("Axioms: <none>" in l for l in summary) and \
        not any(("type-in-type" in l or "unsafe" in l or "positivity" in l) and "<none>" not in l for l in summary)
    return ok, (summary if summary else [txt[-400:]]), dt


def build_modelrun():
    """Extracts the model runners and builds build/modelrun when stale."""
    with Lock(".ocaml.lock"):
        exe = os.path.join(BUILD, "modelrun")
        srcs = [os.path.join(VERIF, "ocaml", f) for f in ("Extract.v", "driver.ml", "runners.ml")]
        if not os.path.exists(os.path.join(COQ, "gen", "LocaleTables.v")):
            import gen_locale
            gen_locale.run()
        if not os.path.exists(os.path.join(COQ, "gen", "Accesses.v")):
            import gen_accesses
            gen_accesses.run()
        if not os.path.exists(os.path.join(COQ, "gen", "LockTable.v")):
            import gen_locktable
            gen_locktable.run()
        txt = open(srcs[0]).read()
        mods = re.findall(r"From Tulz Require Import ([^.]+)\.", txt)
        names = [n for m in mods for n in m.split()]
        ok, log = coq_make([f"theories/{n}.vo" for n in names])
        if not ok:
            return False, log
        vos = [os.path.join(COQ, "theories", n + ".vo") for n in names]
        newest = max(os.path.getmtime(p) for p in srcs + vos)
        if os.path.exists(exe) and os.path.getmtime(exe) >= newest:
            return True, "up to date"
        od = os.path.join(VERIF, "ocaml")
        rc, so, se, _ = run(["coqc", "-Q", "../coq/theories", "Tulz", "-Q", "../coq/gen", "TulzGen", "Extract.v"], cwd=od, timeout=600)
        if rc != 0:
            return False, so + se
        rc, so, se, _ = run(["ocamlfind", "ocamlopt", "-O3", "-w", "-a", "model.mli", "model.ml", "runners.ml", "driver.ml",
                             "-o", exe + ".tmp"], cwd=od, timeout=600)
        if rc != 0:
            rc, so, se, _ = run(["ocamlfind", "ocamlopt", "-w", "-a", "model.mli", "model.ml", "runners.ml", "driver.ml",
                                 "-o", exe + ".tmp"], cwd=od, timeout=600)
        if rc != 0:
            return False, so + se
        os.replace(exe + ".tmp", exe)
        return True, "built"


# ------------------------------------------------------------------------------------------
# implementation side
CXX = os.environ.get("VERIF_CXX", "g++")
SAN_FLAGS = ["-std=c++20", "-O1", "-g", "-fsanitize=address,undefined", "-fno-sanitize-recover=all",
             "-fno-sanitize=vptr,nonnull-attribute", "-fno-omit-frame-pointer"]
HOOK_DEFINE = "-DTULZ_VERIF"


def build_harness(pid, name, sources, extra_flags=(), repo_sources=(), san=True, timeout=600):
    """Always rebuilds from /repo's current working tree. Returns (ok, exe, log)."""
    outdir = os.path.join(BUILD, pid)
    os.makedirs(outdir, exist_ok=True)
    exe = os.path.join(outdir, name)
    flags = (SAN_FLAGS if san else ["-std=c++20", "-O1", "-g"]) + [HOOK_DEFINE, f"-I{REPO}/include",
                                                                    f"-I{VERIF}/harness"] + list(extra_flags)
    srcs = [os.path.join(VERIF, "harness", s) for s in sources] + [os.path.join(REPO, s) for s in repo_sources]
    # compile translation units in parallel
    objs, procs = [], []
    for s in srcs:
        o = os.path.join(outdir, name + "_" + re.sub(r"[^A-Za-z0-9]", "_", os.path.relpath(s, "/")) + ".o")
        objs.append(o)
        procs.append(subprocess.Popen([CXX] + flags + ["-c", s, "-o", o], stdout=subprocess.PIPE,
                                      stderr=subprocess.STDOUT, text=True))
    log = ""
    ok = True
    for p in procs:
        try:
            out, _ = p.communicate(timeout=timeout)
        except subprocess.TimeoutExpired:
            p.kill(); out = "TIMEOUT"
        log += out
        ok = ok and p.returncode == 0
    if not ok:
        return False, exe, log
    rc, so, se, _ = run([CXX] + flags + objs + ["-o", exe, "-lpthread"], timeout=timeout)
    return rc == 0, exe, log + so + se


HARNESS_ENV = {
    "ASAN_OPTIONS": "exitcode=77:detect_leaks=1:abort_on_error=0:detect_stack_use_after_return=1:"
                    "malloc_fill_byte=190:max_malloc_fill_size=65536:allocator_may_return_null=1",
    "UBSAN_OPTIONS": "print_stacktrace=1:halt_on_error=1:exitcode=78",
    "LSAN_OPTIONS": "exitcode=0",
}


def run_harness(exe, cases_text, timeout=900, env_extra=None, args=()):
    env = dict(os.environ)
    env.update(HARNESS_ENV)
    if env_extra:
        env.update(env_extra)
    # harnesses that need scratch files create them below their own build directory
    rc, so, se, dt = run([exe] + list(args), input=cases_text, timeout=timeout, env=env, cwd=os.path.dirname(exe))
    return rc, so, se


def run_model(cases_text, timeout=900):
    # the extracted model is given at most 12 GiB of address space (a generator mistake must not take the machine down) and an
    # unlimited stack (list functions extracted from Coq are not tail-recursive; megabyte files are million-element lists)
    rc, so, se, dt = run(["bash", "-c", "ulimit -v 12582912; ulimit -s unlimited 2>/dev/null; exec \"$0\"", os.path.join(BUILD, "modelrun")], input=cases_text, timeout=timeout)
    return rc, so, se


def split_cases(text):
    """'# ...' blocks -> list of (header, [lines])"""
    cases = []
    for ln in text.splitlines():
        if ln.startswith("#"):
            cases.append((ln, []))
        elif cases:
            cases[-1][1].append(ln.rstrip())
    return cases


def case_text(hdr, lines):
    return hdr + "\n" + "".join(l + "\n" for l in lines)


class Comparison:
    def __init__(self):
        self.n = 0
        self.diverging = []   # (header, first differing line index, model line, impl line)
        self.oracle = []      # (header, [messages])
        self.crashes = []     # (header, message)


def compare(cases_text, model_out, impl_out):
    """Aligns model and implementation outputs case by case."""
    cmpr = Comparison()
    ins = split_cases(cases_text)
    mo = {h: l for h, l in split_cases(model_out)}
    io = {h: l for h, l in split_cases(impl_out)}
    cmpr.n = len(ins)
    for h, _ in ins:
        ml = [x.strip() for x in mo.get(h, ["<no model output>"])]
        raw = io.get(h, ["<no implementation output>"])
        il = [x.strip() for x in raw if not x.startswith("!")]
        msgs = [x for x in raw if x.startswith("!")]
        ora = [x for x in msgs if x.startswith("!ORACLE")]
        cr = [x for x in msgs if x.startswith("!CRASH")]
        if ora:
            cmpr.oracle.append((h, ora))
        if cr:
            cmpr.crashes.append((h, cr))
        if ml != il:
            k = 0
            while k < min(len(ml), len(il)) and ml[k] == il[k]:
                k += 1
            cmpr.diverging.append((h, k, ml[k] if k < len(ml) else "<end>", il[k] if k < len(il) else "<end>"))
    return cmpr


# ------------------------------------------------------------------------------------------
# known findings, violations, evidence
def known_findings():
    path = os.path.join(VERIF, "KNOWN_FINDINGS.txt")
    known, fixed = [], []
    if os.path.exists(path):
        for ln in open(path):
            ln = ln.strip()
            if not ln or ln.startswith("#"):
                continue
            m = re.match(r"known:\s+property=(\S+)\s+match=/(.*?)/\s+(.*)$", ln)
            if m:
                known.append({"property": m.group(1), "regex": m.group(2), "what": m.group(3)})
                continue
            m = re.match(r"fixed:\s+property=(\S+)\s+(\S+)\s+(.*)$", ln)
            if m:
                fixed.append({"property": m.group(1), "commit": m.group(2), "what": m.group(3)})
    return known, fixed


class Reporter:
    """Collects violations; prints VIOLATION / KNOWN-FINDING lines; decides the exit code."""

    def __init__(self, pid):
        self.pid = pid
        self.violations = []
        self.known_hits = []
        self.known, self.fixed = known_findings()
        os.makedirs(os.path.join(VERIF, "replays"), exist_ok=True)

    def violation(self, signature, replay_obj, found_input=True):
        """signature: stable one-line description of what fails (used for known-finding matching)."""
        for k in self.known:
            if k["property"] == self.pid and re.search(k["regex"], signature):
                if k not in self.known_hits:
                    self.known_hits.append(k)
                    print(f"KNOWN-FINDING: property={self.pid} {k['what']}")
                return
        h = hashlib.sha1((signature + json.dumps(replay_obj, sort_keys=True, default=str)).encode()).hexdigest()[:10]
        path = os.path.join(VERIF, "replays", f"{self.pid}-{h}.json")
        replay_obj = dict(replay_obj)
        replay_obj.update({"property": self.pid, "signature": signature, "failing_input_found": found_input,
                           "replay_cmd": f"./check {self.pid} --replay {path}"})
        with open(path, "w") as f:
            json.dump(replay_obj, f, indent=1, default=str)
        self.violations.append(path)
        tail = "" if found_input else " no-failing-input-found"
        print(f"VIOLATION property={self.pid} replay={path}{tail}")
        sys.stdout.flush()

    def exit_code(self):
        return 1 if self.violations else 0


def write_evidence(pid, tier, seed, coverage, assumptions, wall_s, violations):
    ev = {"property_id": pid, "tier": tier, "seed": seed, "level": "proof", "coverage": coverage,
          "assumptions": assumptions, "wall_s": round(wall_s, 2), "violations": violations}
    evdir = os.environ.get("VERIF_EVIDENCE_DIR", os.path.join(VERIF, "evidence"))
    os.makedirs(evdir, exist_ok=True)
    tmp = os.path.join(evdir, f".{pid}.json.tmp")
    with open(tmp, "w") as f:
        json.dump(ev, f, indent=1, default=str)
    os.replace(tmp, os.path.join(evdir, f"{pid}.json"))
