#!/usr/bin/env python3
"""Regenerates /verif/MANIFEST.json from lib/registry.py (run after adding a property)."""
import json, os, sys
sys.path.insert(0, os.path.dirname(os.path.abspath(__file__)))
import registry
from vcommon import VERIF

props = [json.loads(l) for l in open(os.path.join(VERIF, "properties.jsonl"))]
checks, na = [], []
for p in props:
    pid = p["id"]
    if pid in registry.SPECS and pid not in registry.IN_PROGRESS:
        s = registry.SPECS[pid]
        checks.append({
            "property_id": pid,
            "quick_cmd": f"./check {pid} --tier quick",
            "thorough_cmd": f"./check {pid} --tier thorough",
            "evidence_file": f"/verif/evidence/{pid}.json",
            "replay_cmd_template": f"./check {pid} --replay {{path}}",
            "engine": "coq-proof+correspondence",
            "level_claimed": {"category": "proof", "text": s.level_text, "design_ref": s.design_ref},
            "level_note": s.level_note,
            "technique": s.technique,
        })
    else:
        na.append({"property_id": pid, "reason": registry.NOT_CLAIMED.get(pid, "check not built yet; the property is not claimed in this state of /verif")})
m = {
    "version": 1,
    "setup_cmd": "./setup.sh",
    "hooks": {
        "guard": "TULZ_VERIF",
        "enable": "harness-side only: the checks compile /repo's sources into their own drivers with -DTULZ_VERIF "
                  "(and, for schedule properties, -include /verif/harness/vsched.h); no guarded lines exist in /repo",
        "baseline_off_cmd": "cmake --build /repo/_build && ctest --test-dir /repo/_build -j8 --timeout 900",
        "source_commits": [],
        "add_only": True,
    },
    "engines": [{"name": "coq-proof+correspondence", "path": "/verif/check",
                 "serves_properties": [c["property_id"] for c in checks],
                 "kind_free_text": "Coq 8.16 theorems about hand-written Gallina models (coq/theories), kernel-checked on every run with a "
                                   "Print Assumptions audit; models extracted to OCaml and run against the real C++ (built from /repo's "
                                   "working tree under ASan/UBSan) on the same generated cases; model-independent oracles search for a "
                                   "failing input when an obligation or the correspondence breaks"}],
    "checks": checks,
    "not_applicable": na,
    "notes": "See DESIGN.md. KNOWN_FINDINGS.txt lists repaired defects (fix: commits in /repo) and recorded findings.",
}
json.dump(m, open(os.path.join(VERIF, "MANIFEST.json"), "w"), indent=1)
print("checks:", [c["property_id"] for c in checks], "not claimed:", [n["property_id"] for n in na])
