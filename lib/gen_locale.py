"""Translator: src/LocaleInfo.cpp -> coq/gen/LocaleTables.v (the two { "name", "code" } tables as byte lists).
A lexical scan of the two array initialisers; fails loudly when the source no longer has that shape."""
import os, re
from vcommon import REPO, COQ


def parse_tables(src):
    def table(name):
        m = re.search(r"LocaleInfo::%s\[\]\s*=\s*\{(.*?)\n\};" % name, src, re.S)
        if not m:
            raise RuntimeError(f"cannot find the initialiser of LocaleInfo::{name}[]")
        body = m.group(1)
        rows = re.findall(r'\{\s*"((?:[^"\\]|\\.)*)"\s*,\s*"((?:[^"\\]|\\.)*)"\s*\}', body)
        nbraces = len(re.findall(r"\{", body))
        if not rows or nbraces != len(rows):
            raise RuntimeError(f"LocaleInfo::{name}[]: {nbraces} initialisers but {len(rows)} recognised rows")
        out = []
        for a, b in rows:
            if "\\" in a or "\\" in b:
                raise RuntimeError(f"escape sequence in table row {a!r}: not supported by the translator")
            out.append((list(a.encode("utf8")), list(b.encode("utf8"))))
        return out
    return table("languageInfo"), table("countryInfo")


def run():
    src = open(os.path.join(REPO, "src", "LocaleInfo.cpp"), encoding="utf8").read()
    langs, countries = parse_tables(src)

    def coq_list(rows):
        return "[" + ";\n   ".join("([%s], [%s])" % ("; ".join(map(str, a)), "; ".join(map(str, b))) for a, b in rows) + "]"
    txt = ("(* generated from /repo/src/LocaleInfo.cpp by lib/gen_locale.py on every run; do not edit *)\n"
           "From Coq Require Import List ZArith.\nImport ListNotations.\nLocal Open Scope Z_scope.\n"
           f"Definition lang_table : list (list Z * list Z) :=\n  {coq_list(langs)}.\n"
           f"Definition country_table : list (list Z * list Z) :=\n  {coq_list(countries)}.\n")
    path = os.path.join(COQ, "gen", "LocaleTables.v")
    os.makedirs(os.path.dirname(path), exist_ok=True)
    old = open(path).read() if os.path.exists(path) else None
    if old != txt:                      # atomic: checks of several properties may run side by side
        tmp = f"{path}.{os.getpid()}.tmp"
        open(tmp, "w").write(txt)
        os.replace(tmp, path)
    return f"LocaleTables.v: {len(langs)} language rows, {len(countries)} country rows"


run.__name__ = "gen_locale"
