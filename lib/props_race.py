"""C15: data-race freedom of the threading components. The proof obligations are the lockset theorem, the check of the
access table and the comparison of the table with what lib/gen_accesses.py extracts from the current source. The
implementation side is a set of free-running stress programs built with -fsanitize=thread (harness/race.cpp): a report that
names tulz code is a concrete failing execution (the replay)."""
import os, re, subprocess, time
from engine import Spec
import gen_accesses
from vcommon import BUILD, REPO, VERIF, CXX, run

TSAN_SOURCES = ["src/threading/rwp/Resource.cpp", "src/threading/ThreadPool.cpp", "src/threading/Thread.cpp",
                "src/threading/Runnable.cpp", "src/observer/routing/SubjectRouter.cpp", "src/observer/routing/RoutingKey.cpp",
                "src/observer/routing/RoutingKeyBuilder.cpp", "src/observer/routing/RoutingLevelView.cpp"]
PROGRAMS = {1: "rwp::Resource with guards", 2: "ThreadPool owner + expiring workers", 3: "ConcurrentSubjectRouter mixed operations",
            4: "tulz::Thread start / isFinished / join"}


def build_tsan(pid="C15"):
    outdir = os.path.join(BUILD, pid)
    os.makedirs(outdir, exist_ok=True)
    exe = os.path.join(outdir, "race_tsan")
    cmd = [CXX, "-std=c++20", "-O1", "-g", "-fsanitize=thread", f"-I{REPO}/include", os.path.join(VERIF, "harness", "race.cpp")] + \
          [os.path.join(REPO, s) for s in TSAN_SOURCES] + ["-lpthread", "-o", exe]
    rc, so, se, dt = run(cmd, timeout=600)
    return rc == 0, exe, so + se


def parse_reports(stderr, anywhere=False):
    """-> list of (signature, text) for data races whose accesses are in tulz code (anywhere = also in the program's own code:
    used by the hand-over program, where the racing accesses are the callable's and the owner's)"""
    out = []
    for blk in re.split(r"(?m)^={18}\n", stderr):
        if "WARNING: ThreadSanitizer: data race" not in blk:
            continue
        # the two accesses: the innermost frames of the 'Write/Read of size' and 'Previous write/read' stacks. The access itself is
        # often inside a libstdc++ template (std::set, std::forward_list, std::function) instantiated by tulz code: the report counts
        # when tulz code is among the innermost frames of an access, except for libstdc++'s own lazily filled locale / ctype caches
        # inside std::regex (not tulz data)
        stacks = re.findall(r"(?m)^\s+(?:Previous )?(?:[Aa]tomic )?(?:[Ww]rite|[Rr]ead) of size \d+ at [^\n]*\n((?:\s+#\d+ [^\n]*\n){1,6})", blk)
        tops = [re.search(r"#0 ([^\n]*)", st).group(1) for st in stacks if re.search(r"#0 ([^\n]*)", st)]
        if not tops:
            continue
        inner = " ".join(stacks)
        if re.search(r"std::ctype|std::locale|regex_traits|_M_transform|std::__detail::_(?:Scanner|Compiler|NFA)", inner):
            continue
        if not anywhere and not ("/repo/" in inner or "tulz::" in inner):
            continue
        locs = sorted({re.sub(r"\s*\([^)]*\+0x[0-9a-f]+\)", "", re.sub(r"0x[0-9a-f]+", "", t)).strip()[:110] for t in tops})
        out.append(("data race: " + " <-> ".join(locs), blk[:4000]))
    return out


class C15(Spec):
    pid = "C15"
    component = "race"
    harness_name = "race_plain"
    harness_sources = ("race.cpp",)
    repo_sources = tuple(TSAN_SOURCES)
    san = False
    translators = (gen_accesses.run,)
    quick_cases = 0
    thorough_cases = 0
    search_cases = 0
    design_ref = "DESIGN.md section 4, C15"
    rule = ("no generated model cases: the proof is about the access table; the implementation side runs the four stress programs of "
            "harness/race.cpp under ThreadSanitizer (Resource with guards and raw calls on 6 threads; ThreadPool with one owner calling "
            "start/clear/update/stop/restart and the getters while workers run tasks and expire after 1 ms; ConcurrentSubjectRouter "
            "with 5 threads mixing notify/subscribe/unsubscribe/shrink/exists/depth; tulz::Thread start/isFinished/join), several "
            "seeds each; evaluations = stress iterations executed; a run is non-trivial if it completed all its iterations")
    level_text = ("Kernel-checked: (1) the lock discipline (a lock held exclusively is held by nobody else) is an invariant of every "
                  "acquire/release execution; (2) for any access table that passes the boolean check table_ok, no two different threads "
                  "can ever be simultaneously at conflicting accesses (same field, one a write, not both atomic) unless both belong to "
                  "the single owner thread, are workers on their own per-thread objects, or are the one exempted pair; (3) the table of "
                  "the tree's Resource / ThreadPool / Thread / ConcurrentSubjectRouter code passes the check and equals, by evaluation, "
                  "the table the translator extracts from the current source; (4) the exempted pair (ThreadPool::start re-arming "
                  "m_isRunning) is discharged on the pool model: when the flag is found false no worker is alive. Kernel-checked "
                  "refutation of the upstream table (unlocked flag write in stop(), plain m_isFinished). Partial: SC-for-DRF is "
                  "assumed, the access summary is syntactic and trusted, Resource counts as a lock by C01.")
    level_note = ("Trusted: Coq kernel; the lexical access translator lib/gen_accesses.py (function list, guard recognition, read/write "
                  "classification, accessor and alias resolution); the role / per-thread / exemption annotations in AccessTable.v; "
                  "ThreadSanitizer for the implementation-side search. Modelled, not verified: the C++ memory model, std::mutex / "
                  "condition_variable / std::list / std::function internals, which thread executes which function.")
    technique = "Coq lockset-soundness proof over a translator-generated access table + ThreadSanitizer stress runs of the real code"
    assumptions = ("intended use as the property states it: one owner thread for ThreadPool (setExpiryTimeout / setMaxThreadCount not "
                   "called while workers run), callbacks do not call back into the router, a subscription handle is used by one thread at "
                   "a time; SC-for-DRF",)
    trusted_extra = ("coq/gen/Accesses.v regenerated from the threading sources by lib/gen_accesses.py on every run; "
                     "harness/race.cpp built with -fsanitize=thread",)

    def generate(self, rng, n, tier):
        return []

    def extra_impl_checks(self, engine, tier, seed):
        ok, exe, log = build_tsan()
        if not ok:
            raise RuntimeError("the ThreadSanitizer build of harness/race.cpp failed: " + " | ".join(re.findall(r"error: .*", log)[:3]))
        iters = {1: 4000, 2: 4000, 3: 1500, 4: 600} if tier == "quick" else {1: 60000, 2: 60000, 3: 20000, 4: 6000}
        seeds = [seed, seed + 1] if tier == "quick" else [seed + k for k in range(6)]
        env = dict(os.environ)
        env["TSAN_OPTIONS"] = "halt_on_error=0 exitcode=0 report_signal_unsafe=0 history_size=4"
        total, completed, reports, samples = 0, 0, 0, []
        t0 = time.time()
        jobs = [(p, sd) for p in sorted(PROGRAMS) for sd in seeds]
        procs = []
        for p, sd in jobs:
            procs.append((p, sd, subprocess.Popen([exe, str(p), str(iters[p]), str(sd)], stdout=subprocess.PIPE, stderr=subprocess.PIPE,
                                                   text=True, errors="replace", env=env)))
        for p, sd, pr in procs:
            try:
                so, se = pr.communicate(timeout=240 if tier == "quick" else 1500)
                hung = False
            except subprocess.TimeoutExpired:
                pr.kill(); so, se = pr.communicate(); hung = True
            total += iters[p]
            if hung:
                engine.rep.violation(f"C15: stress program {p} ({PROGRAMS[p]}) did not terminate",
                                     {"kind": "stress program hung under ThreadSanitizer", "cmd": f"{exe} {p} {iters[p]} {sd}"})
                continue
            if pr.returncode == 0 and so.strip():
                completed += 1
            elif pr.returncode != 0:
                engine.rep.violation(f"C15: stress program {p} ({PROGRAMS[p]}) crashed",
                                     {"kind": "stress program crashed under ThreadSanitizer", "cmd": f"{exe} {p} {iters[p]} {sd}",
                                      "exit": pr.returncode, "stderr_tail": se[-3000:]})
            for sig, text in parse_reports(se):
                reports += 1
                engine.rep.violation("C15: " + sig,
                                     {"kind": "ThreadSanitizer data race in tulz code", "program": PROGRAMS[p],
                                      "cmd": f"TSAN_OPTIONS='halt_on_error=0' {exe} {p} {iters[p]} {sd}", "report": text})
            if len(samples) < 4:
                samples.append({"program": PROGRAMS[p], "cmd": f"race_tsan {p} {iters[p]} {sd}", "stdout": so.strip()[:200]})
        return {"evaluations": total, "distinct_nontrivial": completed, "traces_validated_against_impl": completed, "tsan_runs": len(jobs), "tsan_reports_in_tulz_code": reports,
                "tsan_wall_s": round(time.time() - t0, 1), "samples": samples}
