"""C05 / C10: tulz::Subject. Histories of subscribe / unsubscribe (guarded, through the handle, and
unguarded, through the Subject) / mute / unmute / invalidate / handle moves / notify over one or
two Subjects; for C10 the observers run scripts that perform the same actions re-entrantly."""
from engine import Spec

SIGS = ["()", "(int)", "(const std::string&)", "(int, std::string)", "(std::string)"]


def gen_action(rng, nsubj, nh_guess, nscr, in_script):
    kind = rng.weighted([("sub", 4), ("unsub", 4), ("mute", 2), ("unmute", 2), ("inval", 2), ("self", 3 if in_script else 0),
                         ("notify", 2 if in_script else 6)])
    h = rng.below(max(1, nh_guess))
    if kind == "sub":
        return [0, rng.below(nsubj), rng.below(max(1, nscr + 1))]
    if kind == "unsub":
        return [1, h]
    if kind == "mute":
        return [2, h]
    if kind == "unmute":
        return [3, h]
    if kind == "inval":
        return [4, h]
    if kind == "self":
        return [5]
    return [6, rng.below(nsubj), rng.range(1, 99)]


def gen_case(rng, reentrant, maxops):
    nsubj = rng.weighted([(1, 3), (2, 2)])
    sig = rng.below(len(SIGS))
    scripts = []
    if reentrant:
        nscr = rng.range(1, 4)
        shaped = rng.chance(1, 3)     # at most one such script per case: every observer running it notifies again (nesting multiplies)
        for _ in range(nscr):
            if shaped:
                shaped = False
                # shapes in which something changes and the same Subject is notified again before the outer round goes on
                subj = rng.below(nsubj)
                first = rng.choice([[1, rng.below(6)], [5], [0, subj, rng.below(nscr + 1)], [2, rng.below(6)], [4, rng.below(6)]])
                acts = [first, [6, subj, rng.range(1, 99)]] + ([[3, rng.below(6)]] if rng.chance(1, 4) else [])
                if first != [5] and rng.chance(2, 3):
                    # the observer takes itself out first, so that the nested round does not run this script again (a script
                    # that notifies unconditionally nests until the fuel runs out and the case ends there)
                    acts = [[5]] + acts
            else:
                acts = [gen_action(rng, nsubj, 6, nscr, True) for _ in range(rng.weighted([(0, 1), (1, 4), (2, 3), (3, 1)]))]
            line = []
            for a in acts:
                line += [len(a)] + a
            scripts.append(line)
    nscr = len(scripts)
    ops = []
    nh = 0
    alive = [True] * nsubj
    # start with a few subscriptions so that handles exist; one case in twelve starts with a crowd on one Subject (delivery order,
    # snapshot sizes and id bookkeeping beyond small fixed-size buffers)
    crowd = (not reentrant) and rng.chance(1, 12)     # (re-entrant scripts on a crowd would nest notifies exponentially)
    for _ in range(rng.range(17, 40) if crowd else rng.range(1, 4)):
        ops.append([0, 0 if crowd else rng.below(nsubj), rng.below(nscr + 1)]); nh += 1
    if crowd:
        ops.append([6, 0, rng.range(1, 99)])
    for _ in range(rng.range(1, maxops)):
        k = rng.weighted([("act", 12), ("subj_unsub", 3), ("move", 2)])
        if k == "act":
            a = gen_action(rng, nsubj, nh + 1, nscr, False)
            if a[0] in (1, 2, 3, 4) and a[1] >= nh:
                a[1] = rng.below(nh)
            if a[0] == 0:
                nh += 1
            ops.append(a)
            if reentrant and a[0] == 6:
                nh += 2  # callbacks may have subscribed: handle indices up to here may exist (missing ones are skipped)
        elif k == "subj_unsub":
            ops.append([7, rng.below(nsubj), rng.below(nh)])
        else:
            ops.append([8, rng.below(nh), rng.below(nh)])
    if rng.chance(2, 3):
        for s in rng.shuffle(list(range(nsubj))):
            if rng.chance(2, 3):
                ops.append([10, s])
    # indices beyond the handles that really exist make the line a precondition violation on both sides; keep them rare
    return [[1, nsubj, nscr, sig]] + scripts + ops, sig


class SubjectSpec(Spec):
    component = "subject"
    harness_name = "subject"
    harness_sources = ("subject.cpp",)
    quick_cases = 2500
    thorough_cases = 60000
    search_cases = 8000
    reentrant = False
    assumptions = ("std::forward_list / std::set / std::unique_ptr / std::function modelled as lists and an explicit heap of observer "
                   "objects; SubscriptionId (uint32) modelled as unbounded Z; handle operations are only issued on handles for which "
                   "isValid() is true (DESIGN.md section 6), Subject::unsubscribe(handle) is issued on any handle; a Subject is not "
                   "destroyed while one of its notifications is in progress",)
    trusted_extra = ("SubjectModel.v is a hand transcription of Subject.h / Subscription.h / Observer.h / EternalObserver.h; "
                     "harness/subject.cpp (scripted observers, destruction tokens, reference simulation on plain records)",)

    def generate(self, rng, n, tier):
        out = []
        for i in range(n):
            lines, sig = gen_case(rng, self.reentrant, rng.choice([6, 12, 25, 40]))
            out.append((f"sig={SIGS[sig].replace(' ', '')} reentrant={int(self.reentrant)}", lines))
        return out

    def nontrivial(self, lines):
        ops = [l.split() for l in lines[1 + int(lines[0].split()[2]):] if l.split()]
        return any(o[0] == "6" for o in ops) and any(o[0] in ("1", "4", "7") for o in ops)

    def classify(self, lines):
        hd = lines[0].split()
        tags = {"sig:" + SIGS[int(hd[3])].replace(" ", ""), "subjects:" + hd[1], "scripts:" + hd[2]}
        names = {"0": "subscribe", "1": "handle.unsubscribe", "2": "mute", "3": "unmute", "4": "invalidate", "6": "notify",
                 "7": "subject.unsubscribe(handle)", "8": "handle move", "10": "destroy subject"}
        for l in lines[1 + int(hd[2]):]:
            if l.split():
                tags.add("op:" + names.get(l.split()[0], "?"))
        for l in lines[1:1 + int(hd[2])]:
            toks = l.split()
            i = 0
            while i < len(toks):
                n = int(toks[i]); a = toks[i + 1:i + 1 + n]; i += 1 + n
                if a:
                    tags.add("callback:" + {"0": "subscribe", "1": "unsubscribe", "2": "mute", "3": "unmute", "4": "invalidate",
                                            "5": "invalidate self", "6": "notify"}.get(a[0], "?"))
        return sorted(tags)

    def shrinkable_from(self):
        return 1


class C05(SubjectSpec):
    pid = "C05"
    reentrant = False
    design_ref = "DESIGN.md section 4, C05"
    rule = ("histories of 2-45 operations over 1-2 Subjects with plain observers (no re-entrancy): subscribe, guarded handle "
            "unsubscribe/mute/unmute/invalidate, Subject::unsubscribe(handle) on valid, stale and foreign handles, handle moves, notify, "
            "Subject destruction; five argument signatures; observers created through the lambda factory, the SelfView factory and "
            "raw pointers; non-trivial = at least one notify and one unsubscribe/invalidate; distinct = distinct case text")
    level_text = ("Kernel-checked refinement: for every history of operations the pointer-based Subject model (observer heap, forward_list "
                  "order, id set, handles with move = swap) never touches a destroyed observer and delivers exactly what the abstract "
                  "specification on plain subscription records delivers: notify invokes every subscribed, valid, unmuted observer exactly once, "
                  "in subscription order, with the passed value; unsubscribed or invalidated observers are never invoked again; handle "
                  "validity / mute state equal the records'; Subject::unsubscribe(handle) rejects stale and foreign handles leaving the state "
                  "unchanged; every observer object is destroyed exactly once. Tied to the source by running the extracted model and the real "
                  "headers (ASan/LSan) on the same histories.")
    level_note = ("Trusted: Coq kernel; extraction; hand transcription SubjectModel.v (validated differentially); g++/libstdc++/ASan. Modelled, "
                  "not verified: std containers as lists, unique_ptr/std::function lifetime as an explicit heap, template argument passing "
                  "(the argument is one abstract value; by-value / by-reference / multi-argument signatures are exercised only by the "
                  "correspondence run).")
    technique = "Coq refinement proof (heap-based Subject model -> subscription-record spec) + extracted-model vs C++ differential run"

    def oracle_relevant(self, msg):
        return True


class C10(SubjectSpec):
    pid = "C10"
    reentrant = True
    design_ref = "DESIGN.md section 4, C10"
    rule = ("as C05 but every observer runs one of 1-4 generated callback scripts of 0-3 actions (subscribe a new scripted observer, "
            "unsubscribe / mute / unmute / invalidate any handle including its own, invalidate itself, notify any Subject again), nesting "
            "bounded by the model's fuel (6); non-trivial / distinct as C05")
    level_text = ("Kernel-checked: for every set of scripted observers, every subscription order, every history and every fuel, the "
                  "pointer-based interpreter of notify (snapshot, id re-check, lazy removal, deferred destruction) never dereferences or "
                  "destroys an observer that is destroyed or executing (no UseAfterFree result is reachable), and refines the abstract "
                  "interpreter on plain records in which a subscription removed before its turn is skipped, a subscription added during a "
                  "round is not part of it, and every other member of the snapshot is invoked once in order; kernel-checked refutation of "
                  "the pinned upstream variant (self-unsubscribe). Tied to the source by scripted observers running against the real headers.")
    level_note = C05.level_note + " Nesting of notifications is bounded by explicit fuel; programs exceeding it are outside the theorem."
    technique = "Coq safety + refinement proof of a fuelled re-entrant interpreter + extracted-model vs C++ (ASan) differential run"
