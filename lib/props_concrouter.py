"""C11: tulz::ConcurrentSubjectRouter on 2-4 threads under the controlled scheduler: every thread runs a short program of
router operations; a schedule is a sequence of thread numbers (advance that thread to its next observable boundary)."""
from engine import Spec
import gen_locktable
import props_router


def gen_prog(rng, keys, nh_max):
    ops = []
    for _ in range(rng.range(1, 4)):
        k = rng.weighted([("sub", 5), ("unsub", 3), ("notify", 6), ("shrink", 1), ("exists", 1), ("depth", 1)])
        if k == "sub":
            key = props_router.rand_key(rng, keys)
            if not key: key = [rng.choice([1, 4, 8])]
            keys.append(key); ops.append([0] + key)
        elif k == "unsub":
            ops.append([1, rng.below(nh_max)])
        elif k == "notify":
            ops.append([6, rng.range(1, 99)] + props_router.rand_pattern(rng, keys, rng.choice([15, 40, 70])))
        elif k == "shrink":
            ops.append([11] + props_router.rand_pattern(rng, keys, 50))
        elif k == "exists":
            ops.append([12] + props_router.rand_pattern(rng, keys, 20))
        else:
            ops.append([13])
    line = []
    for i, o in enumerate(ops):
        if i: line.append(-1)
        line += o
    return line


def gen_case(rng):
    nt = rng.weighted([(2, 4), (3, 4), (4, 2)])
    ms = props_router.MS
    keys = []
    progs = []
    # thread 0 starts with a few subscriptions so that notifies have receivers
    first = []
    for _ in range(rng.range(1, 3)):
        key = props_router.rand_key(rng, keys) or [8, 6]
        keys.append(key)
        first += ([-1] if first else []) + [0] + key
    for t in range(nt):
        line = gen_prog(rng, keys, 6)
        if t == 0: line = first + [-1] + line
        progs.append(line)
    style = rng.below(3)
    labels = []
    if style == 2:
        labels += [[0]] * rng.range(2, 4)     # let thread 0 subscribe first
    for _ in range(rng.choice([10, 20, 40])):
        if style == 1 and labels and rng.chance(2, 3): labels.append(labels[-1])
        else: labels.append([rng.below(nt)])
    if rng.chance(1, 20): labels.append([nt + 1])
    return [[nt, len(ms)]] + [list(m) for m in ms] + progs + labels


class C11(Spec):
    pid = "C11"
    component = "concrouter"
    harness_name = "concrouter"
    harness_sources = ("concrouter.cpp",)
    repo_sources = ("src/observer/routing/SubjectRouter.cpp", "src/observer/routing/RoutingKey.cpp",
                    "src/observer/routing/RoutingKeyBuilder.cpp", "src/observer/routing/RoutingLevelView.cpp",
                    "src/threading/rwp/Resource.cpp")
    extra_flags = ("-include", "vsched.h")
    translators = (gen_locktable.run,)
    quick_cases = 1500
    free_quick = 300
    free_thorough = 10000
    thorough_cases = 40000
    search_cases = 4000
    case_chunk = 1500
    design_ref = "DESIGN.md section 4, C11"
    rule = ("2-4 threads, each with a program of 1-6 router operations (subscribe, unsubscribe through a handle, notify with concrete / "
            "regex / wildcard patterns, shrink, exists, depth; by-value int payload), and a schedule of 10-40 thread numbers (uniform, "
            "sticky, or with thread 0's subscriptions first); callbacks contain a scheduling point, so deliveries are interleaved with "
            "the other threads' lock requests; after the schedule everything is driven to completion; non-trivial = at least one "
            "notify and one mutating operation on different threads"
            "; plus free exploration on every run (no model; interval-based monitors; 300 programs quick, 10000 thorough)")
    level_text = ("Kernel-checked over the composition of the Resource model (tree's variant, with C01's invariant) and the router model, for "
                  "every lock table satisfying the boolean condition lock_table_ok (evaluated on the table regenerated from the source), "
                  "every number of threads, every program and every schedule: while a thread is inside a notify (between its grant and "
                  "its return) the router does not change; the callbacks of a notify are exactly the delivery computed from the router at "
                  "its grant; mutations only happen under the write lock, which excludes every other holder; after an unsubscribe has "
                  "returned no later callback of that observer occurs. Scope: callbacks do not call back into the router and do not "
                  "invalidate observers; mute/unmute/isMuted/isValid of a USubscription are unsynchronised in the source and outside the property.")
    level_note = ("Trusted: Coq kernel; extraction; lock-table translator lib/gen_locktable.py (lexical); hand transcriptions "
                  "ConcRouterModel.v / ResourceModel.v / RouterModel.v; vsched shim. Modelled, not verified: monitor semantics of "
                  "mutex / condition variable, the per-node Subject, template plumbing of USubscription / ConcurrentInvoker.")
    technique = "Coq proof over Resource model x router model (parametric in the translator-generated lock table) + schedule correspondence on the real code"
    assumptions = ("callbacks do not call back into the router and do not invalidate observers; every thread's program is finite; "
                   "scheduler fairness for the drive-to-completion phase (C02)",)
    trusted_extra = ("coq/gen/LockTable.v regenerated from ConcurrentSubjectRouter.h on every run; harness/concrouter.cpp monitors "
                     "(delivery intervals, callbacks after unsubscribe)",)

    def generate(self, rng, n, tier):
        if tier == "search":
            # free exploration of every scheduling point (the model is not involved): programs only, header carries a seed
            out = []
            for _ in range(n):
                if rng.chance(1, 3):
                    # structure race: one thread creates keys, lets them die and shrinks them away (each of these steps changes what
                    # exists() / depth() report) while the others keep delivering to a live observer through wildcard patterns
                    pool = [1, 2, 4, 5, 6, 7, 8, 9]
                    top = rng.choice(pool)
                    live = [top, rng.choice(pool)]
                    prog1, hid = [0] + live, 1
                    for _k in range(rng.range(1, 3)):
                        dead = [top if rng.chance(1, 2) else rng.choice(pool), rng.choice(pool)] + ([rng.choice(pool)] if rng.chance(1, 3) else [])
                        if dead == live: continue
                        pat = rng.choice([[2] * len(dead), [x for y in dead for x in (0, y)], [0, dead[0]] + [2] * (len(dead) - 1)])
                        prog1 += [-1, 0] + dead + [-1, 1, hid, -1, 11] + pat
                        hid += 1
                    nt = rng.choice([2, 3])
                    others = []
                    for _t in range(nt - 1):
                        line = []
                        for _k in range(rng.range(2, 5)):
                            line += ([-1] if line else []) + [6, rng.range(1, 99)] + rng.choice([[2, 2], [0, top, 2], [0, live[0], 0, live[1]]])
                        others.append(line)
                    ms = props_router.MS
                    out.append(("free structure-race", [[nt, len(ms), rng.range(1, 10 ** 9)]] + [list(m) for m in ms] + [prog1] + others))
                    continue
                lines = gen_case(rng)
                nt, nrx = lines[0]
                out.append(("free", [[nt, nrx, rng.range(1, 10 ** 9)]] + lines[1:1 + nrx + nt]))
            return out
        return [("mixed", gen_case(rng)) for _ in range(n)]

    def nontrivial(self, lines):
        hd = lines[0].split()
        nt, nrx = int(hd[0]), int(hd[1])
        progs = lines[1 + nrx:1 + nrx + nt]
        has_notify = [(" 6 " in " " + p + " ") or p.startswith("6 ") or " -1 6 " in p for p in progs]
        has_mut = [p.startswith("0 ") or " -1 0 " in p or " -1 1 " in p or p.startswith("1 ") or " -1 11" in p for p in progs]
        return any(has_notify) and any(has_mut)

    def classify(self, lines):
        hd = lines[0].split()
        return ["threads:" + hd[0], "labels:%d" % (10 * ((len(lines) - 1 - int(hd[1]) - int(hd[0])) // 10))]

    def shrinkable_from(self):
        return 10 ** 6   # programs and labels depend on each other: do not delete lines
