"""Runs every translator (coq/gen/*.v regenerated from /repo). Used by setup.sh."""
import registry


def run_all():
    done = set()
    for pid, cls in registry.SPECS.items():
        for tr in cls.translators:
            if tr not in done:
                done.add(tr)
                try:
                    tr()
                except Exception as e:
                    print("translator", getattr(tr, "__name__", tr), "failed:", e)
