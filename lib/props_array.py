"""C14: Array value semantics. Histories over up to three Array variables, class (lifetime
tracked) and non-class (int64) element types, lengths 0..12, every construction path."""
from engine import Spec


def gen_array_case(rng, cls, maxops):
    present = [False] * 3
    size = [0] * 3
    unspec = [False] * 3      # may hold unspecified values (non-class Array(size) / resize(size))
    ops = []
    nv = [100 + rng.below(7)]

    def val():
        # mostly fresh distinct values; sometimes the special ones (0 is the type's default / -0.0 for doubles)
        if rng.chance(1, 8):
            return rng.choice([0, 0, -1, 1])
        nv[0] += 1 + rng.below(3)
        return nv[0]

    def construct(b):
        k = rng.weighted([("size", 2), ("fill", 2), ("list", 2), ("ptr", 4), ("adopt", 1)])
        if k == "size":
            n = rng.choice([0, 0, 1, 2, 3, 5, 8, 12])
            ops.append([0, b, n]); size[b] = n; unspec[b] = not cls
        elif k == "fill":
            n = rng.choice([0, 1, 2, 4, 7, 12])
            ops.append([1, b, n, val()]); size[b] = n
        elif k == "list":
            n = rng.range(0, 5)
            ops.append([2, b] + [val() for _ in range(n)]); size[b] = n
        elif k == "adopt":
            n = rng.choice([0, 1, 2, 5, 9])
            ops.append([16, b] + [val() for _ in range(n)]); size[b] = n
        else:
            n = rng.choice([0, 1, 2, 3, 6, 12])
            ops.append([3, b] + [val() for _ in range(n)]); size[b] = n
        if k != "size": unspec[b] = False
        present[b] = True
    construct(rng.below(3))
    for _ in range(rng.range(1, maxops)):
        live = [b for b in range(3) if present[b]]
        absent = [b for b in range(3) if not present[b]]
        kind = rng.weighted([("new", 3), ("cc", 2), ("ca", 2), ("mc", 1), ("ma", 1), ("swap", 1), ("rs", 4), ("rsf", 4),
                             ("wr", 5), ("del", 2), ("rd", 2), ("fb", 1)])
        if kind == "new" and absent:
            construct(rng.choice(absent))
        elif kind == "cc" and absent and live:
            b, c = rng.choice(absent), rng.choice(live)
            ops.append([4, b, c]); present[b] = True; size[b] = size[c]; unspec[b] = unspec[c]
        elif kind == "ca" and live:
            b, c = rng.choice(live), rng.choice(live)
            ops.append([5, b, c]); size[b] = size[c]; unspec[b] = unspec[c]
        elif kind == "mc" and absent and live:
            b, c = rng.choice(absent), rng.choice(live)
            ops.append([6, b, c]); present[b] = True; size[b] = size[c]; size[c] = 0; unspec[b] = unspec[c]
        elif kind in ("ma", "swap") and len(live) >= 2:
            b, c = rng.choice(live), rng.choice(live)
            if b == c:
                continue
            ops.append([7 if kind == "ma" else 8, b, c]); size[b], size[c] = size[c], size[b]; unspec[b], unspec[c] = unspec[c], unspec[b]
        elif kind == "rs" and live:
            b = rng.choice(live)
            n = max(0, rng.choice([0, size[b] - 1, size[b], size[b] + 1, size[b] + 3, size[b] // 2, rng.range(0, 12)]))
            if n > size[b] and not cls: unspec[b] = True
            ops.append([9, b, n]); size[b] = n
        elif kind == "rsf" and live:
            b = rng.choice(live)
            n = max(0, rng.choice([0, size[b] - 1, size[b], size[b] + 1, size[b] + 3, size[b] // 2, rng.range(0, 12)]))
            if size[b] > 0 and not unspec[b] and rng.chance(1, 3):
                # the fill value is a reference to an own element (first, last or any)
                ops.append([15, b, n, rng.choice([0, size[b] - 1, rng.below(size[b])])]); size[b] = n
                continue
            ops.append([10, b, n, val()]); size[b] = n
        elif kind == "wr" and live:
            b = rng.choice(live)
            if size[b] == 0:
                continue
            ops.append([11, b, rng.below(size[b]), val()])
        elif kind == "del" and len(live) >= 2:
            b = rng.choice(live)
            ops.append([12, b]); present[b] = False; size[b] = 0
        elif kind == "rd" and live:
            b = rng.choice(live)
            if size[b] == 0:
                continue
            ops.append([13, b, rng.below(size[b])])
        elif kind == "fb" and live:
            b = rng.choice(live)
            if size[b] == 0:
                continue
            ops.append([14, b])
    for b in range(3):
        if present[b]:
            ops.append([12, b])
    return ops


class C14(Spec):
    pid = "C14"
    component = "array"
    harness_name = "array"
    harness_sources = ("array.cpp",)
    quick_cases = 2500
    thorough_cases = 90000
    search_cases = 6000
    design_ref = "DESIGN.md section 4, C14"
    rule = ("operation histories over up to three Array variables (class type with observable lifetime and int64; lengths 0-12; "
            "pointer+length, initializer-list, size and size+value constructors; copy/move/assign/swap/resize/write/destroy), "
            "generated from one SplitMix64 state; non-trivial = contains a copy, assignment, resize or element write; distinct = distinct case text")
    assumptions = ("element types are bitwise relocatable (realloc); machine integers as unbounded Z; malloc/realloc/memcpy modelled as "
                   "slot relocation; the unspecified values of non-class elements left by Array(size)/resize(size) are compared only as 'unspecified'",)
    trusted_extra = ("ArrayModel.v is a hand transcription of Array.h; oracle in harness/array.cpp is an independent std::vector replay, "
                     "the lifetime registry (harness/tracked.h) and LeakSanitizer",)
    level_text = ("Kernel-checked refinement theorem: for every history of operation lines over three Array variables (any lengths, valid "
                  "or not, class and non-class element types) the Array model has exactly the contents of a plain list of values after "
                  "every step, copies are independent, constructed/destroyed values are exactly those the value-semantics specification "
                  "prescribes, no access leaves the allocation (C14_refines_values, C14_step_lifetimes, C14_conservation). Tied to the "
                  "source by running the extracted model and the real template on the same generated histories (events included).")
    level_note = ("Trusted: Coq kernel; extraction (ExtrOcamlBasic) and OCaml driver; the hand transcription ArrayModel.v, validated only "
                  "differentially; g++/libstdc++/ASan/LSan; lifetime registry. Modelled, not verified: malloc/realloc/memcpy, "
                  "std::is_class_v dispatch (a boolean), machine integers as Z.")
    technique = "Coq refinement proof (array model -> list-of-values spec, lifetime events) + extracted-model vs C++ differential run"

    def generate(self, rng, n, tier):
        out = []
        for i in range(n):
            cls = rng.below(2)
            ops = gen_array_case(rng, cls, rng.choice([5, 10, 20, 30]))
            dbl = 0 if cls else rng.below(2)
            out.append((f"elem={'tracked' if cls else ('double' if dbl else 'int')}", [[cls, 1, dbl]] + ops))
        return out

    def nontrivial(self, lines):
        return any(l.split()[0] in ("4", "5", "9", "10", "11", "15") for l in lines[1:])

    def classify(self, lines):
        names = {"0": "ctor_size", "1": "ctor_fill", "2": "ctor_list", "3": "ctor_ptr", "4": "copy_ctor", "5": "copy_assign",
                 "6": "move_ctor", "7": "move_assign", "8": "swap", "9": "resize", "10": "resize_fill", "11": "write",
                 "12": "destroy", "13": "read", "14": "front_back", "15": "resize_fill_alias", "16": "ctor_adopt"}
        tags = {"op:" + names.get(l.split()[0], "?") for l in lines[1:]}
        hd = lines[0].split()
        tags.add("elem:tracked" if hd[0] == "1" else ("elem:double" if len(hd) > 2 and hd[2] == "1" else "elem:int"))
        if any(l.split()[0] in ("0", "1", "9", "10") and l.split()[2] == "0" for l in lines[1:]):
            tags.add("length0")
        return sorted(tags)
