"""C20: tulz::Thread under the controlled scheduler: every interleaving of the starter (start, reuse the
stack, join) with the new thread (enter the callable, finish), for four kinds of callables."""
from engine import Spec
import vcommon

KINDS = ["small closure", "256-byte closure", "function pointer", "Runnable"]


def gen_case(rng):
    kind = rng.below(4)
    n = rng.range(2, 12)
    style = rng.below(3)
    labels = []
    for _ in range(n):
        if style == 0: labels.append([rng.below(2)])
        elif style == 1: labels.append([0] if rng.chance(4, 5) else [1])      # starter far ahead: the thread runs late
        else: labels.append([1] if rng.chance(2, 3) else [0])
    return [[1, kind]] + labels


import os, subprocess, time
import props_race


class C20(Spec):
    pid = "C20"
    component = "thread"
    harness_name = "thread"
    harness_sources = ("thread.cpp",)
    repo_sources = ("src/threading/Thread.cpp", "src/threading/Runnable.cpp")
    extra_flags = ("-include", "vsched.h")
    quick_cases = 1500
    thorough_cases = 20000
    search_cases = 1500
    case_chunk = 1500
    design_ref = "DESIGN.md section 4, C20"
    rule = ("schedules of 2-12 labels (starter step / new-thread step; three styles: uniform, starter far ahead so that the new thread "
            "first runs after start() returned and the starter reused its stack, new thread eager) for four callable kinds (8-byte "
            "closure, 256-byte closure, function pointer, Runnable) with an lvalue argument; all 2^k interleavings of the few steps are "
            "reached many times over; non-trivial = every case")
    level_text = ("Kernel-checked over every interleaving of the starter (enter start(), return from it, reuse the stack, join) with the "
                  "new thread (invoke, finish): with the callable captured by copy the new thread never dereferences an object whose "
                  "lifetime has ended, however late it runs; the callable / run() is invoked at most once and exactly once when join() "
                  "has returned; isFinished() is true only after the callable has returned; join() returns only after that; a Runnable is "
                  "run once and then deleted once. Kernel-checked refutation of the pinned upstream capture ([&]: the by-value parameter "
                  "of start() is dead when a late thread runs). Partial: C++ lifetime and capture semantics are modelled; the tie is the "
                  "canary / ASan run under the controlled scheduler.")
    level_note = ("Trusted: Coq kernel; extraction; hand transcription ThreadModel.v; vsched shim (the std::thread inside tulz::Thread is the "
                  "controlled one); canary callables and ASan (detect_stack_use_after_return). Modelled, not verified: C++ object lifetime "
                  "and lambda capture semantics; the std::thread constructor of the shim is a scheduling point, so the window in which the new thread runs while the "
                  "starter is still inside start() is exercised too.")
    technique = "Coq proof over a lifetime model of Thread::start + schedule correspondence with canary callables on the real code"
    assumptions = ("arguments passed to start() are caller-owned lvalues that outlive join() (the property's quantifier); the callable terminates",)
    trusted_extra = ("ThreadModel.v is a hand transcription of Thread.h / Thread.cpp; harness/thread.cpp (canaries, stack clobbering)",)

    def generate(self, rng, n, tier):
        out = []
        for i in range(n):
            lines = gen_case(rng)
            out.append((f"callable={KINDS[lines[0][1]].replace(' ', '-')}", lines))
        return out

    def nontrivial(self, lines):
        return len(lines) > 2

    def classify(self, lines):
        ls = [l.split()[0] for l in lines[1:] if l.split()]
        tags = {"callable:" + KINDS[int(lines[0].split()[1])]}
        # does the new thread first run after the starter's second step (start returned + stack reused)?
        first1 = ls.index("1") if "1" in ls else len(ls)
        tags.add("thread first runs after %d starter step(s)" % min(3, ls[:first1].count("0")))
        return sorted(tags)

    def extra_impl_checks(self, engine, tier, seed):
        """the memory-ordering half of "isFinished() becomes true only after the callable has returned": the hand-over program of
        harness/race.cpp (the owner reads plain data the callable wrote as soon as isFinished() is true) under ThreadSanitizer"""
        ok, exe, log = props_race.build_tsan("C20")
        if not ok:
            raise RuntimeError("the ThreadSanitizer build of harness/race.cpp failed")
        iters = 1500 if tier == "quick" else 40000
        seeds = [seed, seed + 1] if tier == "quick" else [seed + k for k in range(4)]
        env = dict(os.environ)
        env["TSAN_OPTIONS"] = "halt_on_error=0 exitcode=0 report_signal_unsafe=0 history_size=4"
        procs = [(sd, subprocess.Popen([exe, "5", str(iters), str(sd)], stdout=subprocess.PIPE, stderr=subprocess.PIPE, text=True,
                                       errors="replace", env=env)) for sd in seeds]
        done, reports = 0, 0
        t0 = time.time()
        for sd, pr in procs:
            cmd = f"TSAN_OPTIONS='halt_on_error=0' {exe} 5 {iters} {sd}"
            try:
                so, se = pr.communicate(timeout=300 if tier == "quick" else 1500)
            except subprocess.TimeoutExpired:
                pr.kill(); so, se = pr.communicate()
                engine.rep.violation("C20: the hand-over program did not terminate (isFinished() never became true)",
                                     {"kind": "stress program hung", "cmd": cmd})
                continue
            if pr.returncode == 3:
                engine.rep.violation("C20: isFinished() was true but the data written by the callable was not visible",
                                     {"kind": "hand-over through isFinished() lost data", "cmd": cmd, "stdout": so[-500:]})
            elif pr.returncode != 0:
                engine.rep.violation("C20: the hand-over program crashed", {"kind": "stress program crashed", "cmd": cmd, "stderr_tail": se[-3000:]})
            else:
                done += 1
            for sig, text in props_race.parse_reports(se, anywhere=True):
                reports += 1
                engine.rep.violation("C20: isFinished() reported completion without ordering the callable's writes: " + sig,
                                     {"kind": "ThreadSanitizer data race between the callable's writes and the owner's reads after isFinished()",
                                      "cmd": cmd, "report": text})
        return {"evaluations": iters * len(seeds), "handover_runs_completed": done, "handover_tsan_reports": reports,
                "handover_wall_s": round(time.time() - t0, 1)}
