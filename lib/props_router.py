"""C06 / C13: tulz::SubjectRouter and ConcurrentSubjectRouter (one thread). Histories of subscribe under
concrete keys, unsubscribe / mute / unmute / invalidate through the subscription handles, notify / shrink /
exists with concrete, regex and wildcard patterns of depth 0-5, depth()."""
import re
from engine import Spec

NAMES = ["", "a", "ab", "abc", "b", "ba", "bar", "baz", "foo", "qux", "x1", "zz", "zz\0", "zz\0y"]   # the last two contain a NUL byte; ids follow the byte-wise order
REGEXES = [".*", "a.*", "ba[rz]", "b.*", "(foo|qux)", ".", "ab?c?", "[a-f].*", ".+z", "x1|zz|a", "b", "q", "zz", "zz.y", "zz."]
SIGS = ["()", "(int)", "(std::string)", "(const std::string&)", "(int, std::string)"]


def match_sets():
    return [[i for i in range(0, len(NAMES)) if re.fullmatch(rx, NAMES[i])] for rx in REGEXES]   # name 0 is the empty string


def rand_key(rng, keys):
    """a concrete key: often an existing key, a prefix or an extension of one (prefix/extension cross-talk)"""
    pool = [0, 1, 8, 0, 4] if rng.chance(1, 10) else [1, 2, 4, 5, 6, 7, 8, 9] if rng.chance(3, 4) else ([11, 12, 13, 1, 13, 11] if rng.chance(1, 3) else list(range(1, len(NAMES))))
    if keys and rng.chance(1, 2):
        k = list(rng.choice(keys))
        r = rng.below(4)
        if r == 0 and k: k = k[:-1]
        elif r == 1 and len(k) < 4: k = k + [rng.choice(pool)]
        elif r == 2 and k: k[-1] = rng.choice(pool)
        return k
    return [rng.choice(pool) for _ in range(rng.weighted([(0, 1), (1, 5), (2, 8), (3, 5), (4, 2)]))]


def rand_pattern(rng, keys, wild):
    k = rand_key(rng, keys)
    if rng.chance(1, 6):
        k = k + [rng.choice([1, 4, 8])]
    out = []
    for n in k:
        r = rng.below(100)
        if r < wild:
            out += [2]
        elif r < wild + 25:
            cands = [i for i, ms in enumerate(MS) if n in ms]
            out += [1, rng.choice(cands) if cands and rng.chance(4, 5) else rng.below(len(REGEXES))]
        else:
            out += [0, n]
    return out


MS = match_sets()


def gen_fanout_case(rng):
    """wide trees (several siblings per level, several observers per key) notified through two or three
    wildcard / regex levels, mostly with by-value class-type arguments: the per-child argument passing of the
    regex branch is only visible when several children at several levels receive the same pack"""
    sig = rng.choice([2, 4, 2, 4, 1, 3, 0])
    kind = rng.below(2)
    lines = [[1, len(REGEXES), sig, kind]] + [list(ms) for ms in MS]
    pool = [1, 2, 4, 5, 6, 7, 8, 9]
    firsts = rng.shuffle(pool)[:rng.range(2, 4)]
    keys = []
    for f in firsts:
        for sname in rng.shuffle(pool)[:rng.range(1, 3)]:
            if rng.chance(1, 4):
                for t in rng.shuffle(pool)[:rng.range(1, 2)]:
                    keys.append([f, sname, t])
            else:
                keys.append([f, sname])
    for k in rng.shuffle(keys):
        for _ in range(rng.weighted([(1, 3), (2, 1)])):
            lines.append([0] + k)
    nh = len(lines) - 1 - len(REGEXES)
    for _ in range(rng.range(2, 6)):
        d = rng.choice([2, 2, 3])
        pat = []
        for i in range(d):
            r = rng.below(10)
            if r < 6: pat += [2]
            elif r < 8: pat += [1, rng.choice([1, 3, 7])]
            else: pat += [0, rng.choice(firsts if i == 0 else pool)]
        lines.append([6, rng.range(1, 99)] + pat)
        if rng.chance(1, 3):
            lines.append([rng.choice([1, 2, 4]), rng.below(nh)])
    return lines


def gen_case(rng, maxops, flavour):
    if flavour == "notify" and rng.chance(1, 4):
        return gen_fanout_case(rng)
    sig = rng.below(len(SIGS))
    kind = rng.below(2)
    lines = [[1, len(REGEXES), sig, kind]] + [list(ms) for ms in MS]
    keys = []
    nh = 0
    w = {"sub": 10, "unsub": 4, "mute": 1, "unmute": 1, "inval": 2, "notify": 10, "shrink": 2, "exists": 2, "depth": 1}
    if flavour == "shrink":
        w.update({"shrink": 8, "exists": 6, "depth": 3, "unsub": 8, "inval": 4, "notify": 6})
    for _ in range(rng.range(1, 3)):
        k = rand_key(rng, keys); keys.append(k); lines.append([0] + k); nh += 1
    for _ in range(rng.range(1, maxops)):
        op = rng.weighted(list(w.items()))
        if op == "sub":
            k = rand_key(rng, keys); keys.append(k); lines.append([0] + k); nh += 1
        elif op in ("unsub", "mute", "unmute", "inval"):
            lines.append([{"unsub": 1, "mute": 2, "unmute": 3, "inval": 4}[op], rng.below(nh)])
        elif op == "notify":
            lines.append([6, rng.range(1, 99)] + rand_pattern(rng, keys, rng.choice([5, 15, 40])))
        elif op == "shrink":
            lines.append([11] + rand_pattern(rng, keys, rng.choice([10, 50, 100])))
        elif op == "exists":
            lines.append([12] + rand_pattern(rng, keys, rng.choice([0, 10, 30])))
        else:
            lines.append([13])
    if flavour == "shrink":
        # probes: every key ever used, its prefixes, and wildcard notifies
        seen = set()
        for k in keys:
            for n in range(len(k) + 1):
                if tuple(k[:n]) not in seen and len(seen) < 12:
                    seen.add(tuple(k[:n]))
                    lines.append([12] + [x for y in k[:n] for x in (0, y)])
        for d in range(1, 4):
            lines.append([6, 77] + [2] * d)
        lines.append([13])
    return lines


class RouterSpec(Spec):
    component = "router"
    harness_name = "router"
    harness_sources = ("router.cpp",)
    repo_sources = ("src/observer/routing/SubjectRouter.cpp", "src/observer/routing/RoutingKey.cpp",
                    "src/observer/routing/RoutingKeyBuilder.cpp", "src/observer/routing/RoutingLevelView.cpp",
                    "src/threading/rwp/Resource.cpp")
    quick_cases = 2500
    thorough_cases = 60000
    search_cases = 8000
    flavour = "notify"
    tag = ""
    assumptions = ("std::map as a name-sorted child list, std::regex_match as the set of names a regex fully matches (cross-checked "
                   "against an independent regex engine on the name table), the Subject of a node as its C05 specification, template "
                   "argument deduction as a signature tag; all subscriptions and notifications of one router use one signature (the "
                   "documented precondition); observers do not re-enter the router; handles are not used after their key was shrunk away",)
    trusted_extra = ("RouterModel.v is a hand transcription of SubjectRouter.h/.cpp; harness/router.cpp (brute-force matcher over the "
                     "recorded subscriptions as oracle)",)

    def generate(self, rng, n, tier):
        out = []
        for i in range(n):
            lines = gen_case(rng, rng.choice([6, 12, 25, 40]), self.flavour)
            hd = lines[0]
            out.append((f"sig={SIGS[hd[2]].replace(' ', '')} router={'concurrent' if hd[3] else 'plain'}", lines))
        return out

    def _ops(self, lines):
        n = int(lines[0].split()[1])
        return [l.split() for l in lines[1 + n:] if l.split()]

    def nontrivial(self, lines):
        ops = self._ops(lines)
        return any(o[0] == "6" for o in ops) and sum(1 for o in ops if o[0] == "0") >= 2

    def classify(self, lines):
        hd = lines[0].split()
        names = {"0": "subscribe", "1": "unsubscribe", "2": "mute", "3": "unmute", "4": "invalidate", "6": "notify", "11": "shrink",
                 "12": "exists", "13": "depth"}
        tags = {"sig:" + SIGS[int(hd[2])].replace(" ", ""), "router:" + ("concurrent" if hd[3] == "1" else "plain")}
        for o in self._ops(lines):
            tags.add("op:" + names.get(o[0], "?"))
            if o[0] in ("6", "11", "12"):
                toks = o[2:] if o[0] == "6" else o[1:]
                if "1" in toks[0::1] or "2" in toks:
                    tags.add(names[o[0]] + ":regex-or-wildcard")
        return sorted(tags)

    def shrinkable_from(self):
        return 1 + len(REGEXES)

    def oracle_relevant(self, msg):
        if msg.startswith("!CRASH"):
            return True
        m = [t for t in ("C06:", "C13:") if t in msg]
        return (not m) or (self.tag in m)


class C06(RouterSpec):
    pid = "C06"; tag = "C06:"; flavour = "notify"
    design_ref = "DESIGN.md section 4, C06"
    rule = ("histories of 2-45 operations on SubjectRouter / ConcurrentSubjectRouter (one thread): subscribe under concrete keys of depth "
            "0-5 over 11 names (prefixes, extensions and equal names on different levels favoured), unsubscribe/mute/unmute/invalidate, "
            "notify with concrete / regex (15 regexes; two of the 13 level names contain a NUL byte) / wildcard levels, shrink, exists, depth; five argument signatures incl. by-value "
            "int and std::string through regex levels; non-trivial = at least two subscriptions and one notify; distinct = distinct case text")
    level_text = ("Kernel-checked: for every tree reachable by subscribe/unsubscribe/flag/notify/shrink histories and every pattern, notify "
                  "returns no signature mismatch (undefined behaviour) and invokes exactly the valid unmuted subscriptions of the keys "
                  "that have the pattern's length and match it level by level, in key order, each once, each with the passed value; the "
                  "result is the number of matched keys holding a Subject; keys of other lengths receive nothing (refinement of the tree "
                  "to a flat key map). Kernel-checked refutation of the pinned upstream regex branch (by-value packs re-deduced as "
                  "references). Tied to the source by running the extracted model and both router classes on the same histories.")
    level_note = ("Trusted: Coq kernel; extraction; hand transcription RouterModel.v; g++/libstdc++/ASan. Modelled, not verified: C++ "
                  "template argument deduction and value categories (a signature tag), std::regex (match sets), std::map (sorted list), "
                  "the per-node Subject (its C05 specification).")
    technique = "Coq refinement proof (router tree -> flat key map) + extracted-model vs C++ differential run"


class C13(RouterSpec):
    pid = "C13"; tag = "C13:"; flavour = "shrink"
    design_ref = "DESIGN.md section 4, C13"
    rule = ("as C06 but shrink-heavy (concrete, regex and all-wildcard patterns of depth 0-5 next to live siblings, shrink followed by "
            "re-subscribe), followed by a probe set: exists on every key ever used and its prefixes, wildcard notifies of depth 1-3, depth()")
    level_text = ("Kernel-checked: shrink(pattern) leaves the flat map of live subscriptions unchanged, hence every later notify history "
                  "delivers the same calls with or without it; it removes only keys without a subscription at or below them whose parent "
                  "matches a prefix of the pattern, and an all-wildcard pattern at least as deep as the tree removes every such key; "
                  "exists(pattern) holds iff some stored node path has the pattern's length and matches it; stored paths are prefix-closed; "
                  "depth() is one more than the longest stored path.")
    level_note = C06.level_note
    technique = "Coq invariance/refinement proof over the router tree + extracted-model vs C++ differential run with probe set"
