"""Generic check engine: proof obligations + differential correspondence + failing-input search."""
import json, os, re, sys, time
from vcommon import *


class Spec:
    """What a property's check consists of. Fields are filled by the props_* modules."""
    pid = None
    component = None            # runner name in ocaml/runners.ml and in the '# <component>' header
    harness_name = None         # executable name under build/<pid>/
    harness_sources = ()        # files under /verif/harness
    repo_sources = ()           # files under /repo compiled into the harness
    extra_flags = ()
    harness_env = None
    san = True
    translators = ()            # callables writing coq/gen/*.v from /repo; raise on failure
    design_ref = ""
    level_text = ""
    level_note = ""
    technique = "Coq proof over an executable Gallina model + differential correspondence against the C++"
    trusted_extra = ()
    assumptions = ()
    rule = ""
    quick_cases = 1500
    thorough_cases = 30000
    thorough_seeds = 3
    search_cases = 6000
    harness_timeout = 900
    case_chunk = 4000

    def generate(self, rng, n, tier):
        """-> list of (header_suffix, [op lines as lists of ints]) ; header is built by the engine"""
        raise NotImplementedError

    def nontrivial(self, lines):
        return len(lines) > 2

    def classify(self, lines):
        """-> list of short tags describing the case (for the distribution in the evidence)"""
        return []

    def oracle_relevant(self, msg):
        """is this '!ORACLE'/'!CRASH' line a violation of *this* property?"""
        return True

    def shrinkable_from(self):
        return 1  # index of the first op line that may be deleted when shrinking

    # free exploration (model-independent monitors only; generate(..., "search")) run on every check, not only after a
    # broken obligation: number of cases per tier (0 = the component has no such mode)
    free_quick = 0
    free_thorough = 0

    def extra_impl_checks(self, engine, tier, seed):
        """property-specific additional runs (e.g. free exploration); returns dict merged into coverage"""
        n = self.free_quick if tier == "quick" else self.free_thorough
        if n <= 0:
            return {}
        return engine.free_exploration(n, seed)


def fmt_case(component, idx, suffix, lines):
    hdr = f"# {component} {idx} {suffix}".rstrip()
    return hdr, [" ".join(str(x) for x in l) for l in lines]


def sig_of(msg):
    m = re.sub(r"^!(ORACLE|CRASH)\s*", "", msg)
    m = re.sub(r"op=\d+\s*", "", m)
    m = re.sub(r"#?-?\d+", "N", m)
    m = re.sub(r"(N[ ,]*)+", "N ", m)
    m = re.sub(r"(N ?\(N ?\) ?)+", "N(N)* ", m)
    return m.strip()[:200]


def crash_detail(line, stderr):
    m = re.search(r"ERROR: AddressSanitizer: ([A-Za-z-]+)", stderr)
    if m:
        fr = re.search(r"#\d+ 0x[0-9a-f]+ in ([^\n]*?/repo/[^\n]*)", stderr)
        return "AddressSanitizer " + m.group(1) + (" in " + re.sub(r"0x[0-9a-f]+", "", fr.group(1)).strip()[:120] if fr else "")
    m = re.search(r"([^\s:]+:\d+):\d+: runtime error: ([^\n]*)", stderr)
    if m:
        return "UBSan " + m.group(1) + " " + re.sub(r"0x[0-9a-f]+", "ADDR", m.group(2))[:140]
    m = re.search(r"Assertion `([^']*)' failed", stderr)
    if m:
        return "assertion failed: " + m.group(1)
    if "timeout" in line:
        return "timeout (no progress)"
    return re.sub(r"\d+", "N", line.replace("!CRASH", "").strip())


def corpus_cases(pid):
    d = os.path.join(VERIF, "corpus", pid)
    out = []
    if os.path.isdir(d):
        for f in sorted(os.listdir(d)):
            if f.endswith(".txt"):
                for h, l in split_cases(open(os.path.join(d, f)).read()):
                    out.append((h + f" corpus:{f}", l))
    return out


def san_summary(stderr):
    lines = [l for l in stderr.splitlines() if "ERROR: AddressSanitizer" in l or "runtime error:" in l
             or "SUMMARY:" in l or "Assertion" in l or "ERROR: LeakSanitizer" in l]
    return lines[:6]


class Engine:
    def __init__(self, spec, tier, seed):
        self.spec, self.tier, self.seed = spec, tier, seed
        self.rep = Reporter(spec.pid)
        self.t0 = time.time()
        self.exe = None
        self.notes = []

    # -------------------------------------------------------------------------------------
    def run_pair(self, text):
        rc_m, mo, me = run_model(text)
        rc_i, io, ie = run_harness(self.exe, text, timeout=self.spec.harness_timeout, env_extra=self.spec.harness_env)
        return compare(text, mo, io), mo, io, ie

    def single_sigs(self, hdr, lines):
        """Runs one case alone; returns (set of signatures the implementation's own oracle / a crash
        produces, stderr). A crash is described by what the sanitizer / assert reported."""
        text = case_text(hdr, lines)
        rc_i, io, ie = run_harness(self.exe, text, timeout=120, env_extra=self.spec.harness_env)
        sigs = set()
        for ln in io.splitlines():
            if ln.startswith("!CRASH"):
                sigs.add("crash: " + crash_detail(ln, ie))
            elif ln.startswith("!") and self.spec.oracle_relevant(ln):
                sigs.add(sig_of(ln))
        return sigs, ie

    def impl_fails(self, hdr, lines, want_sig):
        """Does the implementation's own oracle (or a crash) report want_sig on this single case,
        and does the model consider the case valid (no precondition marker)?"""
        rc_m, mo, me = run_model(case_text(hdr, lines))
        if str(-555555) in mo:
            return False
        return want_sig in self.single_sigs(hdr, lines)[0]

    def shrink(self, hdr, lines, want_sig, budget=250):
        lo = self.spec.shrinkable_from()
        cur = list(lines)
        changed = True
        t_end = time.time() + 90          # shrinking is a convenience: bounded in time as well (some cases are expensive to re-run)
        while changed and budget > 0 and time.time() < t_end:
            changed = False
            i = len(cur) - 1
            while i >= lo and budget > 0 and time.time() < t_end:
                cand = cur[:i] + cur[i + 1:]
                budget -= 1
                if self.impl_fails(hdr, cand, want_sig):
                    cur = cand
                    changed = True
                i -= 1
        return cur

    # -------------------------------------------------------------------------------------
    def report_from(self, cmpr, texts, impl_err, context):
        """Turns oracle failures / crashes of a comparison into violations. Returns number reported."""
        bycase = {h: l for h, l in split_cases(texts)}
        seen = getattr(self, "_seen_sigs", set())
        self._seen_sigs = seen
        n = 0
        tried = 0
        for h, msgs in cmpr.oracle + cmpr.crashes:
            msgs = [m for m in msgs if self.spec.oracle_relevant(m)]
            if not msgs or tried >= 12:
                continue
            lines = bycase.get(h, [])
            quick = {("crash" if m.startswith("!CRASH") else sig_of(m)) for m in msgs}
            if quick <= seen:
                continue
            tried += 1
            sigs, ie = self.single_sigs(h, lines)
            before = set(seen)
            seen |= quick
            if not sigs and not getattr(self, "_tried_history", False):
                # not reproducible alone: the failure may depend on state the process carries over from the cases before it
                # (statics, thread-locals, caches): replay the case together with its predecessors of the batch, once per run
                self._tried_history = True
                hdrs = [hh for hh, _ in split_cases(texts)]
                upto = hdrs.index(h) + 1 if h in hdrs else 0
                prefix = "".join(case_text(hh, bycase[hh]) for hh in hdrs[max(0, upto - 40):upto])
                rc_h, io_h, ie_h = run_harness(self.exe, prefix, timeout=300, env_extra=self.spec.harness_env)
                last = split_cases(io_h)[-1][1] if split_cases(io_h) else []
                hist = {("crash: " + crash_detail(ln, ie_h)) if ln.startswith("!CRASH") else sig_of(ln)
                        for ln in last if ln.startswith("!") and (ln.startswith("!CRASH") or self.spec.oracle_relevant(ln))}
                for sg in sorted(hist):
                    if sg in before: continue
                    seen.add(sg)
                    self.rep.violation(
                        f"{self.spec.pid}: {sg}",
                        {"kind": "implementation violates the property's oracle (only after the preceding cases ran in the same process)",
                         "context": context, "component": self.spec.component, "case": prefix, "failing_case": case_text(h, lines),
                         "oracle_messages": msgs, "sanitizer": san_summary(ie_h)})
                    n += 1
                continue
            for sg in sorted(sigs):
                if sg in before:
                    continue
                seen.add(sg)
                small = self.shrink(h, lines, sg) if len(lines) > 3 else lines
                _, ie2 = self.single_sigs(h, small)
                self.rep.violation(
                    f"{self.spec.pid}: {sg}",
                    {"kind": "implementation violates the property's oracle", "context": context,
                     "component": self.spec.component, "case": case_text(h, small), "original_case": case_text(h, lines),
                     "oracle_messages": msgs, "sanitizer": san_summary(ie2)})
                n += 1
        return n

    def free_exploration(self, n, seed):
        """failing-input search that needs no broken obligation: the implementation alone, every scheduling point a
        seeded random choice, judged by the harness's model-independent monitors"""
        spec = self.spec
        rng = Rng((seed * 7919) ^ 0xF4EE)
        gen = spec.generate(rng, n, "search")
        cases = [fmt_case(spec.component, f"free{seed}.{i}", sfx, l) for i, (sfx, l) in enumerate(gen)]
        evals, clean = 0, 0
        for k in range(0, len(cases), spec.case_chunk):
            text = "".join(case_text(h, l) for h, l in cases[k:k + spec.case_chunk])
            rc_i, io, ie = run_harness(self.exe, text, timeout=spec.harness_timeout, env_extra=spec.harness_env)
            cmpr = compare(text, io, io)
            evals += cmpr.n
            cmpr.oracle = [(h, [m for m in ms if spec.oracle_relevant(m)]) for h, ms in cmpr.oracle]
            cmpr.oracle = [(h, ms) for h, ms in cmpr.oracle if ms]
            clean += cmpr.n - len({h for h, _ in cmpr.oracle} | {h for h, _ in cmpr.crashes})
            self.report_from(cmpr, text, ie, "free exploration of every scheduling point (no model involved)")
        return {"evaluations": evals, "free_exploration_cases": evals, "free_exploration_clean": clean}

    # -------------------------------------------------------------------------------------
    def main(self):
        spec, tier, seed = self.spec, self.tier, self.seed
        cov = {"obligations": 0, "discharged": 0, "checker_cmd": "", "trusted_base": [], "samples": []}
        broken = []          # names of obligations / correspondences that no longer check

        # 0. translators
        gen_notes = []
        for tr in spec.translators:
            try:
                gen_notes.append(tr())
            except Exception as e:  # a translator that cannot read the source is a broken obligation
                broken.append(f"translator {getattr(tr, '__name__', tr)} failed: {e}")
        # 1. proofs
        bad = gate()
        if bad:
            broken += ["gate: " + b for b in bad]
        proof = coq_check_properties(spec.pid)
        cov["obligations"] = len(proof["theorems"]) + len(spec.translators)
        cov["checker_cmd"] = (f"make -C coq (cone of Properties_{spec.pid}.vo) && coqc -Q theories Tulz -Q gen TulzGen "
                              f"theories/Properties_{spec.pid}.v  [Print Assumptions per theorem; syntactic gate]")
        if proof["ok"] and not bad:
            cov["discharged"] = len(proof["theorems"]) + (len(spec.translators) - len([b for b in broken if b.startswith("translator")]))
        else:
            good = [t for t in proof["theorems"] if t in proof["axioms"] and not any(t in f for f in proof["failed"])]
            cov["discharged"] = len(good) if proof["axioms"] else 0
            broken += [f"proof: {x}" for x in proof["failed"]]
            open(os.path.join(BUILD, spec.pid, "proof.log") if os.path.isdir(os.path.join(BUILD, spec.pid))
                 else os.path.join(BUILD, f"{spec.pid}.proof.log"), "w").write(proof["log"])
        cov["theorems"] = proof["theorems"]
        axioms_used = sorted({a for l in proof["axioms"].values() for a in l})
        cov["axioms_reported_by_Print_Assumptions"] = axioms_used if axioms_used else ["none: every theorem is closed under the global context"]
        cov["trusted_base"] = TRUSTED_BASE_COMMON + list(spec.trusted_extra) + (
            ["library axioms: " + ", ".join(axioms_used)] if axioms_used else [])
        cov["translators"] = gen_notes
        if tier == "thorough" and proof["ok"]:
            okc, summary, dtc = coqchk_properties(spec.pid)
            cov["coqchk"] = {"cmd": f"coqchk -silent -o -Q theories Tulz -Q gen TulzGen -R build/{spec.pid} '' Properties_{spec.pid}",
                             "ok": okc, "summary": summary, "wall_s": round(dtc, 1)}
            if not okc:
                broken.append("coqchk does not accept the compiled Properties module: " + " ".join(summary)[:300])

        # 2. correspondence
        okm, logm = build_modelrun()
        if not okm:
            broken.append("model runner did not build: " + logm[-400:])
        okh, self.exe, logh = build_harness(spec.pid, spec.harness_name, spec.harness_sources, spec.extra_flags,
                                            spec.repo_sources, san=spec.san)
        if not okh:
            broken.append("harness does not compile against the current sources: " +
                          " | ".join(re.findall(r"error: .*", logh)[:3]))
            open(os.path.join(BUILD, spec.pid, "harness_build.log"), "w").write(logh)
        evaluations = 0
        distinct = set()
        dist = {}
        traces_ok = 0
        found_failing = 0
        divergences = []
        if okm and okh:
            seeds = [seed] if tier == "quick" else [seed + k for k in range(spec.thorough_seeds)]
            per_seed = spec.quick_cases if tier == "quick" else max(1, spec.thorough_cases // len(seeds))
            first = True
            for sd in seeds:
                rng = Rng(sd)
                cases = []
                if first:
                    cases += corpus_cases(spec.pid)
                gen = spec.generate(rng, per_seed, tier)
                for i, (suffix, lines) in enumerate(gen):
                    cases.append(fmt_case(spec.component, f"s{sd}.{i}", suffix, lines))
                first = False
                for k in range(0, len(cases), spec.case_chunk):
                    chunk = cases[k:k + spec.case_chunk]
                    text = "".join(case_text(h, l) for h, l in chunk)
                    cmpr, mo, io, ie = self.run_pair(text)
                    evaluations += cmpr.n
                    for h, l in chunk:
                        key = "\n".join(l)
                        if spec.nontrivial(l):
                            distinct.add(hash(key))
                        for tag in spec.classify(l):
                            dist[tag] = dist.get(tag, 0) + 1
                    cmpr.oracle = [(h, [m for m in ms if spec.oracle_relevant(m)]) for h, ms in cmpr.oracle]
                    cmpr.oracle = [(h, ms) for h, ms in cmpr.oracle if ms]
                    badh = {h for h, *_ in cmpr.diverging} | {h for h, _ in cmpr.oracle} | {h for h, _ in cmpr.crashes}
                    traces_ok += cmpr.n - len(badh)
                    if len(cov["samples"]) < 3 and chunk:
                        h, l = chunk[min(len(chunk) - 1, 7)]
                        cov["samples"].append({"case": case_text(h, l)})
                    found_failing += self.report_from(cmpr, text, ie, "generated batch")
                    orah = {h for h, _ in cmpr.oracle} | {h for h, _ in cmpr.crashes}
                    for d in cmpr.diverging:
                        if d[0] not in orah:
                            divergences.append((d, dict(split_cases(text)).get(d[0], [])))
        # property-specific extra exploration (model-independent monitors etc.)
        if okh:
            try:
                extra = spec.extra_impl_checks(self, tier, seed)
                if extra:
                    evaluations += extra.pop("evaluations", 0)
                    self._extra_distinct = extra.pop("distinct_nontrivial", 0)
                    traces_ok += extra.pop("traces_validated_against_impl", 0)
                    if extra.get("samples") and not cov["samples"]:
                        cov["samples"] = extra.pop("samples")
                    cov.update(extra)
            except Exception as e:
                broken.append(f"extra implementation checks failed to run: {e}")

        # 3. decide
        if divergences:
            d, lines = divergences[0]
            broken.append(f"correspondence: model and implementation differ on {len(divergences)} case(s); first: {d[0]} "
                          f"line {d[1]}: model `{d[2][:160]}` vs implementation `{d[3][:160]}`")
        if broken and not self.rep.violations and not self.rep.known_hits and okh and okm:
            # search for a concrete failing input with the implementation's own oracle
            rng = Rng(seed ^ 0x5EA4C4)
            gen = spec.generate(rng, spec.search_cases, "search")
            cases = [fmt_case(spec.component, f"search.{i}", sfx, l) for i, (sfx, l) in enumerate(gen)]
            for k in range(0, len(cases), spec.case_chunk):
                text = "".join(case_text(h, l) for h, l in cases[k:k + spec.case_chunk])
                rc_i, io, ie = run_harness(self.exe, text, timeout=spec.harness_timeout, env_extra=spec.harness_env)
                cmpr = compare(text, io, io)
                evaluations += cmpr.n
                found_failing += self.report_from(cmpr, text, ie, "failing-input search after a broken obligation")
                if self.rep.violations:
                    break
        if broken and not self.rep.violations and not self.rep.known_hits:
            obj = {"kind": "obligation no longer checks; no failing input found", "broken": broken}
            if divergences:
                d, lines = divergences[0]
                obj["diverging_case"] = case_text(d[0], lines)
                obj["model_line"], obj["impl_line"], obj["line_index"] = d[2], d[3], d[1]
            self.rep.violation(f"{spec.pid}: " + broken[0][:150], obj, found_input=False)
        elif broken:
            self.notes.append("broken obligations (reported together with the concrete violation above): " + "; ".join(broken)[:600])

        # 4. evidence
        cov.update({"evaluations": evaluations, "distinct_nontrivial": len(distinct) + getattr(self, "_extra_distinct", 0),
                    "rule": spec.rule, "traces_validated_against_impl": traces_ok,
                    "input_distribution": dict(sorted(dist.items())),
                    "broken_obligations": broken, "notes": self.notes,
                    "known_findings_hit": [k["what"] for k in self.rep.known_hits]})
        write_evidence(spec.pid, tier if tier in ("quick", "thorough") else "quick", seed, cov,
                       list(spec.assumptions), time.time() - self.t0, len(self.rep.violations))
        status = "OK" if not self.rep.violations else "FAILED"
        print(f"[{spec.pid}] {status}: theorems {cov['discharged']}/{cov['obligations']} discharged, "
              f"{evaluations} cases ({len(distinct) + getattr(self, '_extra_distinct', 0)} distinct non-trivial), {traces_ok} agreed with the implementation, "
              f"{time.time() - self.t0:.1f}s")
        return self.rep.exit_code()

    # -------------------------------------------------------------------------------------
    def replay(self, path):
        obj = json.load(open(path))
        okm, _ = build_modelrun()
        okh, self.exe, logh = build_harness(self.spec.pid, self.spec.harness_name, self.spec.harness_sources,
                                            self.spec.extra_flags, self.spec.repo_sources, san=self.spec.san)
        text = obj.get("case") or obj.get("diverging_case")
        if not text:
            print("replay file names a broken obligation, not an input:", obj.get("broken"))
            return 1
        rc_m, mo, me = run_model(text)
        rc_i, io, ie = run_harness(self.exe, text, timeout=300, env_extra=self.spec.harness_env)
        print("--- case\n" + text + "--- model\n" + mo + "--- implementation\n" + io)
        if ie.strip():
            print("--- implementation stderr (tail)\n" + ie[-3000:])
        cmpr = compare(text, mo, io)
        failed = bool(cmpr.oracle or cmpr.crashes or cmpr.diverging)
        print("REPLAY:", "still fails" if failed else "passes")
        return 1 if failed else 0
