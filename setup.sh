#!/bin/sh
# Builds the framework from files on disk only (offline): the whole Coq development (full .vo
# build, never -vos), the extracted model runner. Harnesses are rebuilt by every check from
# /repo's current working tree.
set -e
cd "$(dirname "$0")"
mkdir -p build coq/gen replays evidence
python3 - <<'PY'
import sys, os
sys.path.insert(0, "lib")
import vcommon, gen_all
gen_all.run_all()
vcommon.write_coqproject()
PY
timeout 3000 make -C coq -j16 -k || echo "setup: some Coq files did not build (the affected checks will report it)"
python3 - <<'PY'
import sys
sys.path.insert(0, "lib")
import vcommon
ok, log = vcommon.build_modelrun()
print("modelrun:", "ok" if ok else "FAILED\n" + log[-2000:])
sys.exit(0 if ok else 1)
PY
