(* Extract.v — one extraction of every model runner to model.ml (compiled with cwd = /verif/ocaml).
   Only ExtrOcamlBasic is used: nat, positive, N, Z stay the extracted inductive types;
   there is no Extract Constant / Extract Inductive directive besides those of ExtrOcamlBasic
   (bool, option, unit, list, prod, sumbool, sumor -> the OCaml types of the same name). *)
Require Extraction.
Require Import ExtrOcamlBasic.
From Tulz Require Import Common RingModel ArrayModel ResourceModel SubjectModel SubjectSpec ObservableModel RouterModel RouterSpec LocaleModel LocaleInst PathModel FileModel PoolModel ThreadModel ConcRouterModel ConcRouterInst.
Extraction Language OCaml.
Extraction "model.ml" ring_run ring_spec_run arr_run arr_spec_run res_run subj_run subj_c_run subj_a_run obs_run router_run router_flat_run router_spec_run locale_run locale_spec_run path_run file_run pool_run thread_run conc_run.
