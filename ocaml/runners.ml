(* component name -> extracted runner *)
let table : (string * (Model.z list list -> Model.z list list)) list = [
  "ring", Model.ring_run;
  "ringspec", Model.ring_spec_run;
  "array", Model.arr_run;
  "arrayspec", Model.arr_spec_run;
  "resource", Model.res_run;
  "subject", Model.subj_run;
  "subjectc", Model.subj_c_run;
  "subjecta", Model.subj_a_run;
  "observable", Model.obs_run;
  "router", Model.router_run;
  "routerflat", Model.router_flat_run;
  "routerspec", Model.router_spec_run;
  "locale", Model.locale_run;
  "path", Model.path_run;
  "file", Model.file_run;
  "pool", Model.pool_run;
  "thread", Model.thread_run;
  "concrouter", Model.conc_run;
  "localespec", Model.locale_spec_run;
]
