(* driver.ml — generic runner for the extracted models.
   Input (stdin): blocks "# <component> <free text>" followed by lines of decimal integers.
   Output: the "#" line echoed, then one line of integers per line returned by the model. *)
open Model

let rec pos_of_int n = if n = 1 then XH else if n land 1 = 0 then XO (pos_of_int (n lsr 1)) else XI (pos_of_int (n lsr 1))
let z_of_int n = if n = 0 then Z0 else if n > 0 then Zpos (pos_of_int n) else Zneg (pos_of_int (-n))
let rec int_of_pos = function XH -> 1 | XO p -> 2 * int_of_pos p | XI p -> 2 * int_of_pos p + 1
let int_of_z = function Z0 -> 0 | Zpos p -> int_of_pos p | Zneg p -> - (int_of_pos p)

let runners : (string * (z list list -> z list list)) list = Runners.table

let parse_line l =
  String.split_on_char ' ' l |> List.filter (fun s -> s <> "") |> List.map (fun s -> z_of_int (int_of_string s))

let flush_case hdr lines =
  match hdr with
  | None -> ()
  | Some h ->
    print_endline h;
    let comp = match String.split_on_char ' ' h with _ :: c :: _ -> c | _ -> "" in
    let f = try List.assoc comp runners with Not_found -> (fun _ -> []) in
    let out = f (List.rev lines) in
    List.iter (fun l -> print_endline (String.concat " " (List.map (fun z -> string_of_int (int_of_z z)) l))) out

let () =
  let hdr = ref None and lines = ref [] in
  (try
    while true do
      let l = input_line stdin in
      if String.length l > 0 && l.[0] = '#' then begin
        flush_case !hdr !lines; hdr := Some l; lines := []
      end else lines := parse_line l :: !lines
    done
  with End_of_file -> ());
  flush_case !hdr !lines
