(* Properties_C06.v — SubjectRouter reaches exactly the observers whose key matches the pattern.
   Only statements, each closed by [exact <lemma of RouterProofsA>], and Print Assumptions.
   RouterModel.v transcribes the tree (Node::notify / subscribe / shrink / exists / depth with
   the template-pack tag); RouterSpec.v is the flat specification: the keys that have
   subscriptions, in key order, each with its subscriptions in subscription order. *)
From Coq Require Import List ZArith Bool Lia Sorted.
From Tulz Require Import Common RouterModel RouterSpec RouterProofsA.
Import ListNotations.
Local Open Scope Z_scope.

(* THE property: for every history of subscribe / unsubscribe / mute / unmute / invalidate /
   notify / shrink / exists / depth operations (one argument signature per router, the
   documented precondition; any set of by-value packs), the tree never reaches undefined
   behaviour (no Subject is ever reinterpreted with another signature) and every operation
   makes exactly the calls of the flat specification: notify(pattern, arg) invokes, for the
   keys of the pattern's length that match it level by level, in key order, the valid unmuted
   subscriptions in subscription order, each once, each with arg — keys of other lengths
   (prefixes, extensions) and non-matching keys receive nothing (f_notify). *)
Theorem C06_refines_flat : forall byval s ops,
  exists r, rrun true byval s router0 ops = Some r /\
            rtrace true byval s router0 ops = f_trace frouter0 ops /\
            abs_router r = fold_left (fun fr o => fst (f_step fr o)) ops frouter0.
Proof. exact router_refines_flat. Qed.
Print Assumptions C06_refines_flat.

(* the same, for one notification in any reachable router, with the returned count: the number
   of stored node paths that match the pattern and hold a Subject *)
Theorem C06_notify_exact : forall byval s ops r pat arg,
  rrun true byval s router0 ops = Some r ->
  exists r' k,
    rstep true byval s r (RNotify pat arg) = Some (r', [k], fst (f_notify (flat (root r)) pat arg)) /\
    flat (root r') = snd (f_notify (flat (root r)) pat arg) /\
    k = Zlen (filter (fun p => key_matches pat p &&
                               match node_at (root r) p with Some (Node _ (Some _) _) => true | _ => false end)
                     (paths (root r))).
Proof. exact notify_exact. Qed.
Print Assumptions C06_notify_exact.

(* "key order", "each exactly once": the flat view lists every key once, in strictly increasing
   lexicographic order, and never lists a key without subscriptions *)
Theorem C06_flat_sorted : forall byval s ops r,
  rrun true byval s router0 ops = Some r ->
  StronglySorted (fun a b => key_ltb (fst a) (fst b) = true) (flat (root r)) /\
  Forall (fun e => snd e <> []) (flat (root r)).
Proof. exact flat_sorted. Qed.
Print Assumptions C06_flat_sorted.

(* The pinned upstream regex branch (the pack re-deduced from lvalues) is refuted: a by-value
   int subscription notified through a regex level reinterprets the Subject with another
   signature. *)
Theorem C06_upstream_refuted : exists ops, rrun false harness_byval (SVal 1) router0 ops = None.
Proof. exact upstream_regex_refuted. Qed.
Print Assumptions C06_upstream_refuted.

Example C06_nonvacuous :
  rtrace true harness_byval (SVal 2) router0
    [RSubscribe [8; 6]; RSubscribe [8; 7]; RSubscribe [8]; RSubscribe [8; 7; 9]; RSubscribe [8; 6];
     RNotify [LStr 8; LRx [6; 7]] 5; RNotify [LStr 8] 6; RNotify [LRx [8]; LRx [7]; LRx [9]] 7; RMute 0; RInval 4;
     RNotify [LRx [1; 8]; LStr 6] 8; RNotify [LStr 8; LStr 6] 9]
  = [[]; []; []; []; []; [(0%nat, 5); (4%nat, 5); (1%nat, 5)]; [(2%nat, 6)]; [(3%nat, 7)]; []; []; []; []].
Proof. vm_compute. reflexivity. Qed.
