From Coq Require Import ZArith.
From Tulz Require Import RouterModel.
Theorem placeholder_C06 : 1 = 1. Proof. reflexivity. Qed.
Print Assumptions placeholder_C06.
