(* RingLemmasJ.v — per-opcode step lemmas for opcodes 9..15 (whole-buffer operations) and the
   dispatch lemma step_all. *)
From Coq Require Import List ZArith Bool Lia ZifyBool Permutation.
From Tulz Require Import Common RingModel RingInv RingLemmasA RingLemmasB RingLemmasC RingLemmasD
  RingLemmasE RingLemmasF RingLemmasG RingLemmasH RingLemmasI.
Import ListNotations.
Local Open Scope Z_scope.

Lemma step_op9 ow e b c : wf_env e -> step_ok ow e [9; b; c].
Proof.
  intros W. unfold step_ok, ring_step, deque_step. rewrite !env_get_abs, Zlen_abs_env.
  destruct (env_get e b) as [dst|] eqn:Gb; cbn [option_map]; [apply step_none; auto|].
  destruct (env_get e c) as [src|] eqn:Gc; cbn [option_map]; [|apply step_none; auto].
  destruct ((0 <=? b) && (b <? Zlen e)) eqn:Hg; [|apply step_none; auto].
  unfold copy_construct.
  destruct (copy_assign fixed_variant empty_ring src) as [r' evs] eqn:CA.
  pose proof (env_get_wf0 e c src W Gc) as Ws.
  destruct (copy_assign_spec empty_ring src r' evs (or_intror eq_refl) Ws CA)
    as (W' & Hi & Hcap & EF).
  rewrite items_empty in EF.
  apply (step_set1 e b None _ _ _ _ _ _ (items src) []);
    [exact W | lia | exact Gb | exact W' | | reflexivity | exact EF | ].
  - unfold abs. rewrite Hi, Hcap. reflexivity.
  - cbn [oitems app]. rewrite Hi, app_nil_r. apply Permutation_refl.
Qed.

Lemma step_op10 ow e b c : wf_env e -> step_ok ow e [10; b; c].
Proof.
  intros W. unfold step_ok, ring_step, deque_step. rewrite !env_get_abs.
  destruct (env_get e b) as [dst|] eqn:Gb; cbn [option_map]; [|apply step_none; auto].
  destruct (env_get e c) as [src|] eqn:Gc; cbn [option_map]; [|apply step_none; auto].
  destruct (b =? c) eqn:Hbc; [apply step_same; auto|].
  destruct (copy_assign fixed_variant dst src) as [r' evs] eqn:CA.
  pose proof (env_get_wf0 e c src W Gc) as Ws.
  pose proof (env_get_wf0 e b dst W Gb) as Wd.
  pose proof (env_get_range e b dst Gb) as Hb.
  destruct (copy_assign_spec dst src r' evs Wd Ws CA) as (W' & Hi & Hcap & EF).
  cbn [abs ditems].
  apply (step_set1 e b (Some dst) _ _ _ _ _ _ (items src) []);
    [exact W | lia | exact Gb | exact W' | | reflexivity | exact EF | ].
  - unfold abs. rewrite Hi, Hcap. reflexivity.
  - cbn [oitems app]. rewrite Hi. apply Permutation_app_comm.
Qed.

Lemma step_set2 e b c o1 o2 ret ret' :
  wf_env e -> 0 <= b < Zlen e -> 0 <= c < Zlen e -> owf o1 -> owf o2 -> ret = ret' ->
  Permutation (oitems (env_get e b) ++ oitems (env_get (env_set e b o1) c)) (oitems o1 ++ oitems o2) ->
  step_ok' e (env_set (env_set e b o1) c o2, Some (ret, []))
             (denv_set (denv_set (abs_env e) b (option_map abs o1)) c (option_map abs o2),
              Some (ret', [])).
Proof.
  intros W Hb Hc W1 W2 -> P.
  split; [apply wf_env_set; auto; apply wf_env_set; auto|].
  split; [cbn [fst]; rewrite !abs_env_set; reflexivity|].
  cbn [fst snd step_rel]. split; auto. split; auto. split; auto.
  cbn [constructed removed moved_out flat_map app].
  pose proof (live_items_set e b o1 Hb) as P1.
  assert (Hc' : 0 <= c < Zlen (env_set e b o1)) by (rewrite Zlen_env_set; exact Hc).
  pose proof (live_items_set (env_set e b o1) c o2 Hc') as P2.
  perm_solve.
Qed.

Lemma step_op11 ow e b c : wf_env e -> step_ok ow e [11; b; c].
Proof.
  intros W. unfold step_ok, ring_step, deque_step. rewrite !env_get_abs, Zlen_abs_env.
  destruct (env_get e b) as [dst|] eqn:Gb; cbn [option_map]; [apply step_none; auto|].
  destruct (env_get e c) as [src|] eqn:Gc; cbn [option_map]; [|apply step_none; auto].
  destruct ((0 <=? b) && (b <? Zlen e)) eqn:Hg; [|apply step_none; auto].
  pose proof (env_get_wf0 e c src W Gc) as Ws.
  pose proof (env_get_range e c src Gc) as Hc.
  assert (Hne : b <> c) by (intros ->; congruence).
  apply (step_set2 e b c (Some src) (Some empty_ring)); auto; try lia.
  - right; reflexivity.
  - rewrite env_get_set_other by exact Hne. rewrite Gb, Gc. cbn [oitems app].
    rewrite items_empty, app_nil_r. apply Permutation_refl.
Qed.

Lemma step_op12 ow e b c : wf_env e -> step_ok ow e [12; b; c].
Proof.
  intros W. unfold step_ok, ring_step, deque_step. rewrite !env_get_abs.
  destruct (env_get e b) as [dst|] eqn:Gb; cbn [option_map]; [|apply step_none; auto].
  destruct (env_get e c) as [src|] eqn:Gc; cbn [option_map]; [|apply step_none; auto].
  pose proof (env_get_wf0 e c src W Gc) as Ws.
  pose proof (env_get_wf0 e b dst W Gb) as Wd.
  pose proof (env_get_range e c src Gc) as Hc.
  pose proof (env_get_range e b dst Gb) as Hb.
  apply (step_set2 e b c (Some src) (Some dst)); auto.
  destruct (Z.eq_dec b c) as [E|Hne].
  - subst c. rewrite env_get_set_same by exact Hb. rewrite Gb. cbn [oitems].
    apply Permutation_app_comm.
  - rewrite env_get_set_other by exact Hne. rewrite Gb, Gc. cbn [oitems].
    apply Permutation_app_comm.
Qed.

Lemma step_op13 ow e b : wf_env e -> step_ok ow e [13; b].
Proof.
  intros W. unfold step_ok, ring_step, deque_step. rewrite !env_get_abs.
  destruct (env_get e b) as [r|] eqn:Gb; cbn [option_map]; [|apply step_none; auto].
  pose proof (env_get_wf0 e b r W Gb) as Wr.
  pose proof (env_get_range e b r Gb) as Hb.
  cbn [abs ditems].
  apply (step_unset e b (Some r) _ _ _ _ [] []);
    [exact W | lia | exact Gb | reflexivity | apply destroy_spec; exact Wr | ].
  cbn [oitems app]. rewrite app_nil_r. apply Permutation_refl.
Qed.

Lemma step_op14 ow e b c : wf_env e -> step_ok ow e [14; b; c].
Proof.
  intros W. unfold step_ok, ring_step, deque_step. rewrite !env_get_abs.
  destruct (env_get e b) as [x|] eqn:Gb; cbn [option_map]; [|apply step_none; auto].
  destruct (env_get e c) as [y|] eqn:Gc; cbn [option_map]; [|apply step_none; auto].
  pose proof (env_get_wf0 e c y W Gc) as Wy.
  pose proof (env_get_wf0 e b x W Gb) as Wx.
  cbn [abs ditems]. rewrite (ring_eqb_spec x y Wx Wy).
  apply step_same; auto.
Qed.

Lemma step_op15 ow e b c vals : wf_env e -> step_ok ow e (15 :: b :: c :: vals).
Proof.
  intros W. unfold step_ok, ring_step, deque_step. rewrite !env_get_abs, Zlen_abs_env.
  destruct (env_get e b) as [r|] eqn:Gb; cbn [option_map]; [apply step_none; auto|].
  destruct (((c =? -1) && (1 <=? Zlen vals) || (Zlen vals <=? c) && (1 <=? c))
             && (0 <=? b) && (b <? Zlen e)) eqn:Hg; [|apply step_none; auto].
  destruct (init_list vals c) as [r' evs] eqn:IL.
  assert (Hg1 : ((c =? -1) && (1 <=? Zlen vals) || (Zlen vals <=? c) && (1 <=? c)) = true).
  { destruct ((c =? -1) && (1 <=? Zlen vals) || (Zlen vals <=? c) && (1 <=? c)); auto. }
  assert (Hb : 0 <= b < Zlen e).
  { apply andb_prop in Hg. destruct Hg as [Hg Hg3]. apply andb_prop in Hg. destruct Hg as [_ Hg2]. lia. }
  destruct (init_list_spec vals c r' evs Hg1 IL) as (W' & Hi & Hcap & EF).
  apply (step_set1 e b None _ _ _ _ _ _ vals []);
    [exact W | exact Hb | exact Gb | left; exact W' | | reflexivity | exact EF | ].
  - unfold abs. rewrite Hi, Hcap. reflexivity.
  - cbn [oitems app]. rewrite Hi, app_nil_r. apply Permutation_refl.
Qed.

(* ---- dispatch ----------------------------------------------------------------------------- *)

Ltac step_fin W :=
  first [ exact (step_none _ W)
        | apply step_op0; exact W | apply step_op1; exact W | apply step_op2; exact W
        | apply step_op3; exact W | apply step_op4; exact W | apply step_op5; exact W
        | apply step_op6; exact W | apply step_op7; exact W | apply step_op8; exact W
        | apply step_op9; exact W | apply step_op10; exact W | apply step_op11; exact W
        | apply step_op12; exact W | apply step_op13; exact W | apply step_op14; exact W
        | apply step_op15; exact W ].

Ltac step_go t W :=
  first [ step_fin W
        | let x := fresh "x" in let t' := fresh "t" in
          destruct t as [|x t']; [ step_fin W | step_go t' W ] ].

Lemma step_all ow e op : wf_env e -> step_ok ow e op.
Proof.
  intros W. destruct op as [|h t]; [exact (step_none _ W)|].
  destruct h as [|p|p]; [step_go t W | | exact (step_none _ W)].
  destruct p as [p|p|]; [ | | step_go t W].
  - destruct p as [p|p|]; [ | | step_go t W].
    + destruct p as [p|p|]; [ | | step_go t W].
      * destruct p as [p|p|]; step_go t W.
      * destruct p as [p|p|]; step_go t W.
    + destruct p as [p|p|]; [ | | step_go t W].
      * destruct p as [p|p|]; step_go t W.
      * destruct p as [p|p|]; step_go t W.
  - destruct p as [p|p|]; [ | | step_go t W].
    + destruct p as [p|p|]; [ | | step_go t W].
      * destruct p as [p|p|]; step_go t W.
      * destruct p as [p|p|]; step_go t W.
    + destruct p as [p|p|]; [ | | step_go t W].
      * destruct p as [p|p|]; step_go t W.
      * destruct p as [p|p|]; step_go t W.
Qed.
