(* PathModel.v — executable model of src/Path.cpp and src/DirectoryVisitor.cpp (definitions only).

   String part: paths are byte lists; std::string::find_last_of / erase / npos arithmetic is
   made explicit (positions are Z, npos is -1 after the "+ 1" wrap-around has been accounted
   for, erase with a position beyond the size is the error the real erase would throw).
   Filesystem part: a tree of directories and regular files; exists / isFile / isDirectory /
   listChildren / size are recursions over path look-ups that mirror Path.cpp (size of a
   directory recurses through join(this, child)); opendir / readdir / fopen / chdir are
   modelled by the tree (POSIX: fopen(path, "r") succeeds on directories). *)
From Coq Require Import List ZArith Bool Lia Arith.
From Tulz Require Import Common.
Import ListNotations.
Local Open Scope Z_scope.

Definition SLASH : Z := 47.
Definition BSLASH : Z := 92.
Definition is_sep (c : Z) : bool := (c =? SLASH) || (c =? BSLASH).

(* s.find_last_of(separators, pos): index of the last separator at an index <= pos; None = npos.
   [pos] is a size_t: the caller passes size()-2 etc. after wrap-around as "no bound" (None). *)
Fixpoint last_sep_upto (s : list Z) (i : Z) (bound : option Z) (acc : option Z) : option Z :=
  match s with
  | [] => acc
  | c :: s' =>
      let inb := match bound with Some b => i <=? b | None => true end in
      last_sep_upto s' (i + 1) bound (if is_sep c && inb then Some i else acc)
  end.
Definition find_last_of (s : list Z) (bound : option Z) : option Z := last_sep_upto s 0 bound None.

(* size() - k as a size_t: Some value, or None when it wraps around (a huge position) *)
Definition size_minus (s : list Z) (k : Z) : option Z := if k <=? Zlen s then Some (Zlen s - k) else None.

(* s.erase(pos, npos-or-large): keep the first pos bytes; pos > size() throws *)
Definition erase_from (s : list Z) (pos : Z) : option (list Z) :=
  if (0 <=? pos) && (pos <=? Zlen s) then Some (firstn (Z.to_nat pos) s) else None.
(* s.erase(0, n): drop the first n bytes (n beyond the size drops everything) *)
Definition erase_front (s : list Z) (n : Z) : list Z := skipn (Z.to_nat n) s.

Definition is_absolute (s : list Z) : bool := match s with c :: _ => c =? SLASH | [] => false end.

(* Path::join(string, string) on Linux (Separator = SystemSeparator = '/') *)
Definition join (p1 p2 : list Z) : list Z :=
  match p1 with
  | [] => p2
  | _ => if is_absolute p2 then p2
         else if negb (last p1 0 =? SLASH) then p1 ++ [SLASH] ++ p2 else p1 ++ p2
  end.

(* Path::getPathName *)
Definition get_path_name (s : list Z) : list Z :=
  let index := find_last_of s None in
  (* index == m_path.size() - 1, both as size_t (npos == size()-1 when the path is empty) *)
  let at_end := match index, size_minus s 1 with
                | Some i, Some e => i =? e
                | None, None => true
                | _, _ => false
                end in
  let index := if at_end then find_last_of s (size_minus s 2) else index in
  erase_front s (match index with Some i => i + 1 | None => 0 end).

(* Path::getParentDirectory; None = std::out_of_range from erase *)
Definition get_parent (s : list Z) : option (list Z) :=
  let sep := find_last_of s None in
  let strip := match sep, size_minus s 1 with Some i, Some e => i =? e | _, _ => false end in
  let path := if strip then match sep with Some i => erase_from s i | None => Some s end else Some s in
  match path with
  | None => None
  | Some path =>
      let sep := if strip then find_last_of path None else sep in
      match sep with
      | None => Some []
      | Some i => erase_from path i
      end
  end.

(* "d without one trailing separator" *)
Definition strip_trailing (d : list Z) : list Z :=
  if last d 0 =? SLASH then removelast d else d.
Definition sep_free (n : list Z) : bool := negb (existsb is_sep n).

(* ---- filesystem ------------------------------------------------------------------------------ *)

Inductive fsnode := FFile (size : Z) | FDir (entries : list (Z * fsnode)).     (* entries sorted by name *)

Inductive perr := NotFile | NotDirectory | NotFound.

Fixpoint lookup (n : fsnode) (p : list Z) : option fsnode :=
  match p with
  | [] => Some n
  | k :: p' =>
      match n with
      | FDir es => match find (fun e => fst e =? k) es with
                   | Some (_, c) => lookup c p'
                   | None => None
                   end
      | FFile _ => None
      end
  end.

Definition p_exists (fs : fsnode) (p : list Z) : bool := match lookup fs p with Some _ => true | None => false end.
Definition p_is_dir (fs : fsnode) (p : list Z) : bool := match lookup fs p with Some (FDir _) => true | _ => false end.
Definition p_is_file (fs : fsnode) (p : list Z) : bool := p_exists fs p && negb (p_is_dir fs p).

(* readdir yields ".", ".." (names -1 and -2 here) and the entries; listChildren filters them *)
Definition DOTNAME : Z := -1.
Definition DOTDOT : Z := -2.
Definition readdir (es : list (Z * fsnode)) : list Z := DOTNAME :: DOTDOT :: map fst es.
Definition list_children (fs : fsnode) (p : list Z) : perr + list Z :=
  match lookup fs p with
  | None => inl NotFound
  | Some (FFile _) => inl NotDirectory
  | Some (FDir es) => inr (filter (fun n => negb ((n =? DOTNAME) || (n =? DOTDOT))) (readdir es))
  end.

(* Path::size(): recursion through join(this, child) and fresh look-ups; fuel bounds the depth *)
Fixpoint p_size (fuel : nat) (fs : fsnode) (p : list Z) : option (perr + Z) :=
  match fuel with
  | O => None
  | S f =>
      if negb (p_exists fs p) then Some (inl NotFound)
      else if p_is_file fs p then
        match lookup fs p with Some (FFile sz) => Some (inr sz) | _ => Some (inl NotFound) end
      else
        match list_children fs p with
        | inl e => Some (inl e)
        | inr names =>
            fold_left (fun acc nm =>
                         match acc with
                         | Some (inr total) =>
                             match p_size f fs (p ++ [nm]) with
                             | Some (inr sz) => Some (inr (total + sz))
                             | other => other
                             end
                         | other => other
                         end) names (Some (inr 0))
        end
  end.

(* the specification: total size of the regular files beneath a node; height of a node *)
Fixpoint total_size (n : fsnode) : Z :=
  match n with
  | FFile sz => sz
  | FDir es => fold_right Z.add 0 (map (fun e => total_size (snd e)) es)
  end.
Fixpoint height (n : fsnode) : nat :=
  match n with
  | FFile _ => 1%nat
  | FDir es => S (fold_right Nat.max 0%nat (map (fun e => height (snd e)) es))
  end.

(* entries strictly sorted by name (hence unique), recursively *)
Fixpoint fs_wf (n : fsnode) : Prop :=
  match n with
  | FFile sz => 0 <= sz
  | FDir es =>
      (fix go (l : list (Z * fsnode)) : Prop :=
         match l with
         | [] => True
         | e :: l' => 0 <= fst e /\ match l' with [] => True | d :: _ => fst e < fst d end /\ fs_wf (snd e) /\ go l'
         end) es
  end.

(* creating entries (the harness builds the same tree on disk) *)
Fixpoint insert_entry (es : list (Z * fsnode)) (k : Z) (c : fsnode) : list (Z * fsnode) :=
  match es with
  | [] => [(k, c)]
  | e :: es' => if k <? fst e then (k, c) :: es else e :: insert_entry es' k c
  end.
Fixpoint create (n : fsnode) (p : list Z) (c : fsnode) : option fsnode :=
  match p with
  | [] => None
  | [k] => match n with
           | FDir es => if existsb (fun e => fst e =? k) es then None else Some (FDir (insert_entry es k c))
           | FFile _ => None
           end
  | k :: p' =>
      match n with
      | FDir es =>
          match find (fun e => fst e =? k) es with
          | Some (_, d) => match create d p' c with
                           | Some d' => Some (FDir (map (fun e => if fst e =? k then (k, d') else e) es))
                           | None => None
                           end
          | None => None
          end
      | FFile _ => None
      end
  end.

(* removing an entry: a regular file or an empty directory (the harness removes the same entry on disk); the working
   directory and its ancestors are never removed *)
Fixpoint remove_entry (n : fsnode) (p : list Z) : option fsnode :=
  match p with
  | [] => None
  | [k] => match n with
           | FDir es =>
               match find (fun e => fst e =? k) es with
               | Some (_, FFile _) | Some (_, FDir []) => Some (FDir (filter (fun e => negb (fst e =? k)) es))
               | _ => None
               end
           | FFile _ => None
           end
  | k :: p' =>
      match n with
      | FDir es =>
          match find (fun e => fst e =? k) es with
          | Some (_, d) => match remove_entry d p' with
                           | Some d' => Some (FDir (map (fun e => if fst e =? k then (k, d') else e) es))
                           | None => None
                           end
          | None => None
          end
      | FFile _ => None
      end
  end.
Fixpoint is_prefix (a b : list Z) : bool :=
  match a, b with
  | [], _ => true
  | x :: a', y :: b' => (x =? y) && is_prefix a' b'
  | _, [] => false
  end.

(* DirectoryVisitor: cwd is a path below the scratch root; chdir to something that is not a
   directory fails and leaves cwd unchanged *)
Definition chdir (fs : fsnode) (cwd p : list Z) : list Z := if p_is_dir fs p then p else cwd.
Definition visit_and_restore (fs : fsnode) (cwd p : list Z) : list Z * list Z :=
  let old := cwd in
  let during := chdir fs cwd p in
  (during, chdir fs during old).

(* ---- runner for the correspondence check ------------------------------------------------------ *)
Definition enc_s (s : list Z) : list Z := Zlen s :: s.
Definition take_s (l : list Z) : list Z * list Z := take_chunk l.
Definition perr_z (e : perr) : Z := match e with NotFile => -10 | NotDirectory => -11 | NotFound => -12 end.
Definition THROW : Z := -777005.

Definition bytes_ok (s : list Z) : bool := forallb (fun c => (1 <=? c) && (c <=? 255)) s.

Definition path_step (st : fsnode * list Z) (l : list Z) : (fsnode * list Z) * list Z :=
  let '(fs, cwd) := st in
  match l with
  | 20 :: rest => let '(a, r) := take_s rest in let '(b, _) := take_s r in
                  if bytes_ok a && bytes_ok b then (st, enc_s (join a b)) else (st, [PRE])
  | 21 :: rest => let '(a, _) := take_s rest in if bytes_ok a then (st, enc_s (get_path_name a)) else (st, [PRE])
  | 22 :: rest => let '(a, _) := take_s rest in
                  if bytes_ok a then (st, match get_parent a with Some p => enc_s p | None => [THROW] end) else (st, [PRE])
  | 23 :: rest => let '(a, _) := take_s rest in if bytes_ok a then (st, [b2z (is_absolute a)]) else (st, [PRE])
  | 40 :: p => if forallb (fun k => 0 <=? k) p then
                 match create fs p (FDir []) with Some fs' => ((fs', cwd), [1]) | None => (st, [PRE]) end
               else (st, [PRE])
  | 41 :: sz :: p => if forallb (fun k => 0 <=? k) p && (0 <=? sz) then
                       match create fs p (FFile sz) with Some fs' => ((fs', cwd), [1]) | None => (st, [PRE]) end
                     else (st, [PRE])
  | 43 :: k :: p =>
      (* fill the directory p with k one-byte files named 1000, 1001, ... *)
      if (1 <=? k) && (k <=? 5000) && p_is_dir fs p && negb (p_exists fs (p ++ [1000])) then
        match fold_left (fun acc i => match acc with
                                      | Some f => create f (p ++ [1000 + Z.of_nat i]) (FFile 1)
                                      | None => None end) (seq 0 (Z.to_nat k)) (Some fs) with
        | Some fs' => ((fs', cwd), [1])
        | None => (st, [PRE])
        end
      else (st, [PRE])
  | 42 :: p => if forallb (fun k => 0 <=? k) p && negb (is_prefix p cwd) then
                 match remove_entry fs p with Some fs' => ((fs', cwd), [1]) | None => (st, [PRE]) end
               else (st, [PRE])
  | 50 :: p => (st, [b2z (p_exists fs p); b2z (p_is_file fs p); b2z (p_is_dir fs p)])
  | 51 :: p => (st, match p_size 64 fs p with
                    | Some (inr sz) => [sz]
                    | Some (inl e) => [perr_z e]
                    | None => [PRE] end)
  | 52 :: p => (st, match list_children fs p with inr names => Zlen names :: names | inl e => [perr_z e] end)
  (* the same three queries on the path spelled with a trailing separator: for a regular file such a path does not
     exist (ENOTDIR), for a directory or a missing entry nothing changes *)
  | 60 :: p => (st, if p_is_file fs p then [0; 0; 0] else [b2z (p_exists fs p); b2z (p_is_file fs p); b2z (p_is_dir fs p)])
  | 61 :: p => (st, if p_is_file fs p then [perr_z NotFound] else
                    match p_size 64 fs p with
                    | Some (inr sz) => [sz]
                    | Some (inl e) => [perr_z e]
                    | None => [PRE] end)
  | 62 :: p => (st, if p_is_file fs p then [perr_z NotFound] else
                    match list_children fs p with inr names => Zlen names :: names | inl e => [perr_z e] end)
  (* one DirectoryVisitor object used twice: set / visit / restore, the caller moves elsewhere, set / visit again, destroyed:
     each round restores the directory it found (the harness moves back afterwards: the working directory is unchanged) *)
  | 55 :: n :: rest => if (0 <=? n) && (n <=? Zlen rest) then (st, [1; 1]) else (st, [PRE])
  | 53 :: p => let '(during, after) := visit_and_restore fs cwd p in
               ((fs, after), [if list_eq_dec Z.eq_dec during cwd then 1 else 0; if list_eq_dec Z.eq_dec after cwd then 1 else 0])
  | 54 :: n :: rest =>
      if (0 <=? n) && (n <=? Zlen rest) then
        let p := firstn (Z.to_nat n) rest in
        let q := skipn (Z.to_nat n) rest in
        let in1 := chdir fs cwd p in
        let '(_, after_inner) := visit_and_restore fs in1 q in
        let final := chdir fs after_inner cwd in
        ((fs, final), [if list_eq_dec Z.eq_dec in1 cwd then 1 else 0; if list_eq_dec Z.eq_dec after_inner in1 then 1 else 0;
                       if list_eq_dec Z.eq_dec final cwd then 1 else 0])
      else (st, [PRE])
  | _ => (st, [PRE])
  end.

Fixpoint path_run_lines (st : fsnode * list Z) (ls : list (list Z)) : list (list Z) :=
  match ls with
  | [] => []
  | l :: rest => let '(st', out) := path_step st l in out :: path_run_lines st' rest
  end.

Definition path_run (case : list (list Z)) : list (list Z) :=
  match case with
  | [_] :: ls => [] :: path_run_lines (FDir [], []) ls
  | _ => [[PRE]]
  end.
