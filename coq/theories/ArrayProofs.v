(* ArrayProofs.v — the Array runner refines the value-semantics specification step by step;
   the lemmas closed in Properties_C14.v. *)
From Coq Require Import List ZArith Bool Lia ZifyBool Permutation.
From Tulz Require Import Common RingModel RingInv ArrayModel ArrayInv
  ArrayLemmasA ArrayLemmasB ArrayLemmasC ArrayLemmasD.
Import ListNotations.
Local Open Scope Z_scope.

(* ---- every operation line ------------------------------------------------------------------ *)

Ltac step_fin W :=
  lazymatch goal with
  | |- astep_ok _ _ [0; _; _] => apply step_op0; exact W
  | |- astep_ok _ _ [1; _; _; _] => apply step_op1; exact W
  | |- astep_ok _ _ (2 :: _ :: _) => apply step_op2; exact W
  | |- astep_ok _ _ (3 :: _ :: _) => apply step_op3; exact W
  | |- astep_ok _ _ [4; _; _] => apply step_op4; exact W
  | |- astep_ok _ _ [5; _; _] => apply step_op5; exact W
  | |- astep_ok _ _ [6; _; _] => apply step_op6; exact W
  | |- astep_ok _ _ [7; _; _] => apply step_op7; exact W
  | |- astep_ok _ _ [8; _; _] => apply step_op8; exact W
  | |- astep_ok _ _ [9; _; _] => apply step_op9; exact W
  | |- astep_ok _ _ [10; _; _; _] => apply step_op10; exact W
  | |- astep_ok _ _ [11; _; _; _] => apply step_op11; exact W
  | |- astep_ok _ _ [12; _] => apply step_op12; exact W
  | |- astep_ok _ _ [13; _; _] => apply step_op13; exact W
  | |- astep_ok _ _ [14; _] => apply step_op14; exact W
  | |- _ => cbv beta iota zeta delta [astep_ok arr_step spec_step]; apply astep_none; exact W
  end.

Lemma astep_all cls e op : awf_env cls e -> astep_ok cls e op.
Proof.
  intros W.
  destruct op as [|o rest]; [step_fin W|].
  destruct rest as [|x1 [|x2 [|x3 [|x4 rest]]]];
    (destruct o as [|p|p];
     [ step_fin W
     | destruct p as [[[[p|p|]|[p|p|]|]|[[p|p|]|[p|p|]|]|]|[[[p|p|]|[p|p|]|]|[[p|p|]|[p|p|]|]|]|];
       step_fin W
     | step_fin W ]).
Qed.

(* ---- histories ----------------------------------------------------------------------------- *)

Lemma abs_aenv0 : abs_aenv aenv0 = senv0.
Proof. reflexivity. Qed.

Lemma awf_aenv0 cls : awf_env cls aenv0.
Proof. split; [reflexivity|]. repeat constructor. Qed.

Lemma refines_gen cls ops : forall e, awf_env cls e ->
  map view_arr (arr_trace afixed cls e ops) = map view_sarr (spec_trace cls (abs_aenv e) ops).
Proof.
  induction ops as [|op rest IH]; intros e W; [reflexivity|].
  cbn [arr_trace spec_trace].
  pose proof (astep_all cls e op W) as S. unfold astep_ok in S.
  destruct (arr_step afixed cls e op) as [e' o].
  destruct (spec_step cls (abs_aenv e) op) as [s' o'].
  destruct S as (W' & Es & R). cbn [fst snd] in W', Es, R. subst s'.
  cbn [map]. rewrite (IH e' W'). f_equal.
  unfold view_arr, view_sarr. cbn [fst snd]. rewrite (dump_aenv_abs cls e' W'). f_equal.
  destruct o as [[ret evs]|]; destruct o' as [[[ret' ct] rem]|]; cbn [astep_rel] in R;
    try contradiction; cbn [option_map fst].
  - destruct R as [-> _]. reflexivity.
  - reflexivity.
Qed.

Lemma arr_refines_values : forall cls ops,
  map view_arr (arr_trace afixed cls aenv0 ops) = map view_sarr (spec_trace cls senv0 ops).
Proof.
  intros cls ops. rewrite <- abs_aenv0. apply refines_gen. apply awf_aenv0.
Qed.

Lemma lifetimes_gen cls ops : forall e, awf_env cls e ->
  Forall2 a_step_lifetimes_ok (arr_trace afixed cls e ops) (spec_trace cls (abs_aenv e) ops).
Proof.
  induction ops as [|op rest IH]; intros e W; [constructor|].
  cbn [arr_trace spec_trace].
  pose proof (astep_all cls e op W) as S. unfold astep_ok in S.
  destruct (arr_step afixed cls e op) as [e' o].
  destruct (spec_step cls (abs_aenv e) op) as [s' o'].
  destruct S as (W' & Es & R). cbn [fst snd] in W', Es, R. subst s'.
  constructor; [|apply IH; exact W'].
  unfold a_step_lifetimes_ok. cbn [fst].
  destruct o as [[ret evs]|]; destruct o' as [[[ret' ct] rem]|]; cbn [astep_rel] in R;
    try contradiction.
  - destruct R as (_ & R1 & R2 & R3 & R4 & _). repeat split; assumption.
  - exact I.
Qed.

Lemma arr_step_lifetimes : forall cls ops,
  Forall2 a_step_lifetimes_ok (arr_trace afixed cls aenv0 ops) (spec_trace cls senv0 ops).
Proof.
  intros cls ops. rewrite <- abs_aenv0. apply lifetimes_gen. apply awf_aenv0.
Qed.

Lemma wf_gen cls ops : forall e, awf_env cls e ->
  awf_env cls (fold_left (fun e op => fst (arr_step afixed cls e op)) ops e).
Proof.
  induction ops as [|op rest IH]; intros e W; [exact W|].
  cbn [fold_left]. apply IH.
  pose proof (astep_all cls e op W) as S. unfold astep_ok in S.
  destruct S as (W' & _). exact W'.
Qed.

Lemma arr_wf_reachable : forall cls ops,
  awf_env cls (fold_left (fun e op => fst (arr_step afixed cls e op)) ops aenv0).
Proof. intros cls ops. apply wf_gen. apply awf_aenv0. Qed.

Lemma constructed_app (a b : list (event Z)) : constructed (a ++ b) = constructed a ++ constructed b.
Proof. unfold constructed. apply flat_map_app. Qed.
Lemma removed_app (a b : list (event Z)) : removed (a ++ b) = removed a ++ removed b.
Proof. unfold removed. apply flat_map_app. Qed.
Lemma assigned_app (a b : list (event Z)) : assigned (a ++ b) = assigned a ++ assigned b.
Proof. unfold assigned. apply flat_map_app. Qed.

Lemma conservation_gen ops : forall e, awf_env true e ->
  Permutation
    (constructed (a_all_events (arr_trace afixed true e ops)) ++
     assigned (a_all_events (arr_trace afixed true e ops)) ++ alive_items e)
    (removed (a_all_events (arr_trace afixed true e ops)) ++
     alive_items (fold_left (fun e op => fst (arr_step afixed true e op)) ops e)).
Proof.
  induction ops as [|op rest IH]; intros e W.
  - cbn [arr_trace a_all_events flat_map constructed assigned removed fold_left app].
    apply Permutation_refl.
  - cbn [arr_trace fold_left].
    pose proof (astep_all true e op W) as S. unfold astep_ok in S.
    destruct (arr_step afixed true e op) as [e' o].
    destruct (spec_step true (abs_aenv e) op) as [s' o'].
    destruct S as (W' & Es & R). cbn [fst snd] in W', Es, R. subst s'.
    cbn [fst]. specialize (IH e' W').
    unfold a_all_events in *. cbn [flat_map fst].
    destruct o as [[ret evs]|]; destruct o' as [[[ret' ct] rem]|]; cbn [astep_rel] in R;
      try contradiction.
    + destruct R as (_ & _ & _ & _ & _ & P). specialize (P eq_refl).
      rewrite constructed_app, removed_app, assigned_app. perm_solve.
    + subst e'. cbn [app]. exact IH.
Qed.

Lemma arr_conservation : forall ops e',
  fold_left (fun e op => fst (arr_step afixed true e op)) ops aenv0 = e' ->
  let evs := a_all_events (arr_trace afixed true aenv0 ops) in
  Permutation (constructed evs ++ assigned evs) (removed evs ++ alive_items e').
Proof.
  intros ops e' <-. cbv zeta.
  pose proof (conservation_gen ops aenv0 (awf_aenv0 true)) as P.
  change (alive_items aenv0) with (@nil Z) in P. rewrite app_nil_r in P. exact P.
Qed.

(* ---- the pinned upstream pointer+length constructor ------------------------------------------ *)

Lemma upstream_ptr_ctor_refuted :
  exists ops, existsb (fun e => negb (ev_ok e)) (a_all_events (arr_trace aupstream true aenv0 ops)) = true.
Proof. exists [[3; 0; 7]; [13; 0; 0]]. vm_compute. reflexivity. Qed.
