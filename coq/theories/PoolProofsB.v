(* PoolProofsB.v — ThreadPool::stop(): deadlock freedom, variant, post-state, restart, thread bound. *)
From Coq Require Import List ZArith Bool Lia Arith.
From Tulz Require Import Common PoolModel PoolInv PoolLemmasB.
Import ListNotations.

Lemma in_plabels_LW s w : w < length (ws s) -> In (LW w) (plabels s).
Proof.
  intros H. unfold plabels. right. apply in_flat_map. exists w. split.
  - apply in_seq. lia.
  - simpl. auto.
Qed.

Lemma can_step_intro s l : In l (plabels s) -> pstep true s l <> None -> can_step true s = true.
Proof.
  intros Hin Hs. unfold can_step. apply existsb_exists. exists l. split; auto.
  destruct (pstep true s l); auto; congruence.
Qed.

Lemma can_step_owner s : step_owner true s None <> None -> can_step true s = true.
Proof. intros H. apply (can_step_intro s (LO None)); auto. left. reflexivity. Qed.

Lemma can_step_worker s w x :
  nth_error (ws s) w = Some x -> step_worker s w <> None -> can_step true s = true.
Proof.
  intros E H. apply (can_step_intro s (LW w)); auto. apply in_plabels_LW. eapply nth_some_lt; eauto.
Qed.

Lemma stop_no_deadlock_inv s : SInv s -> in_stop s = true -> can_step true s = true.
Proof.
  intros (HA & HB & _ & _). destruct HA as [A1 A2 A3 A4 A5]. destruct HB as [B1 B2 B3].
  unfold live, stopping, joining in *. rewrite mutex_free_eq in *.
  destruct s as [q r p l o pg nt mw ev]. unfold in_stop. simpl in *.
  destruct o; try discriminate; intros _.
  - (* OP_flag *)
    destruct (forallb notpre l) eqn:M.
    + apply can_step_owner. unfold step_owner; simpl. rewrite mutex_free_eq; simpl. rewrite M. discriminate.
    + destruct (mf_false _ M) as [w Hw].
      eapply can_step_worker; simpl; eauto. unfold step_worker; simpl. rewrite Hw. discriminate.
  - (* OP_notify *)
    apply can_step_owner. unfold step_owner; simpl. destruct p; discriminate.
  - (* OP_join *)
    pose proof (B1 (B2 eq_refl)) as M. pose proof (B2 eq_refl) as R. subst r.
    destruct (A4 _ eq_refl) as [Hne [done Hd]].
    destruct rest as [|w rest]; [congruence|].
    assert (Hw : w < length l). { apply A2. rewrite Hd. apply in_app_iff. right. left. reflexivity. }
    destruct (nth_lt_some _ _ Hw) as [x Hx].
    assert (Hmf : mutex_free (mkP q false p l (OP_join (w :: rest)) pg nt mw ev) = true)
      by (rewrite mutex_free_eq; exact M).
    destruct x as [| | |n|k|k| |].
    + eapply can_step_worker; simpl; eauto. unfold step_worker; simpl. rewrite Hx. discriminate.
    + eapply can_step_worker; simpl; eauto. unfold step_worker. rewrite Hmf. simpl. rewrite Hx. discriminate.
    + exfalso. eapply mf_nopre; eauto.
    + destruct n.
      * eapply can_step_worker; simpl; eauto. unfold step_worker. rewrite Hmf. simpl. rewrite Hx. discriminate.
      * exfalso. eapply B3; eauto.
    + eapply can_step_worker; simpl; eauto. unfold step_worker; simpl. rewrite Hx. discriminate.
    + eapply can_step_worker; simpl; eauto. unfold step_worker; simpl. rewrite Hx. discriminate.
    + apply can_step_owner. unfold step_owner; simpl. rewrite Hx. destruct rest; discriminate.
    + exfalso. apply (A3 w Hw) in Hx. apply Hx. left. reflexivity.
  - (* OP_clear *)
    pose proof (B1 (B2 eq_refl)) as M.
    apply can_step_owner. unfold step_owner; simpl. rewrite mutex_free_eq; simpl. rewrite M. discriminate.
Qed.

Lemma stop_no_deadlock : forall maxw pr ls,
  let s := prun true (pinit maxw pr) ls in
  in_stop s = true -> can_step true s = true.
Proof.
  intros mx pr ls s. apply stop_no_deadlock_inv. apply SInv_prun.
Qed.

Lemma stop_variant : forall maxw pr ls l s',
  let s := prun true (pinit maxw pr) ls in
  in_stop s = true -> is_spur l = false -> pstep true s l = Some s' ->
  (0 <= pmeasure s' < pmeasure s)%Z.
Proof.
  intros mx pr ls l s' s. apply step_variant.
Qed.

(* ---- stop_post ---------------------------------------------------------------------------------- *)
Lemma filter_none {A} (f : A -> bool) l : (forall x, In x l -> f x = false) -> filter f l = [].
Proof.
  induction l; simpl; intros H; auto. rewrite (H a) by auto. apply IHl. intros x Hx. apply H. auto.
Qed.

Lemma filter_rev_length {A} (f : A -> bool) l : length (filter f (rev l)) = length (filter f l).
Proof.
  induction l; simpl; auto. rewrite filter_app, app_length, IHl. simpl.
  destruct (f a); simpl; lia.
Qed.

Lemma count_delete_queue k q :
  NoDup q -> In k q -> length (filter (is_delete k) (map EvDelete q)) = 1.
Proof.
  induction q as [|a q IH]; simpl; intros Hn Hin; [tauto|].
  inversion Hn; subst.
  destruct (Nat.eqb k a) eqn:E.
  - apply Nat.eqb_eq in E. subst a. simpl. f_equal.
    rewrite filter_none; auto. intros x Hx. apply in_map_iff in Hx. destruct Hx as [y [<- Hy]].
    simpl. apply Nat.eqb_neq. intros ->. auto.
  - apply Nat.eqb_neq in E. destruct Hin as [Hin|Hin]; [congruence|]. auto.
Qed.

Lemma stop_post_inv s s' : SInv s ->
  own s = OP_clear -> pstep true s (LO None) = Some s' ->
  pool s' = [] /\ queue s' = [] /\ all_gone s' /\ own s' = OIdle /\ running s' = false /\
  (forall k, In k (queue s) -> count_ev (is_delete k) (evs s') = 1%nat).
Proof.
  intros (HA & HB & _ & HD). destruct HA as [A1 A2 A3 A4 A5]. destruct HB as [B1 B2 B3].
  destruct HD as [D1 D2 D3 D4 D5].
  unfold live, stopping, joining in *.
  destruct s as [q r p l o pg nt mw ev]. simpl in *. intros ->.
  pose proof (B2 eq_refl) as R. pose proof (A5 eq_refl) as P. subst r p.
  unfold step_owner; simpl. destruct (mutex_free _); [|discriminate].
  intros H; inversion H; subst; clear H. unfold all_gone. simpl.
  repeat split.
  - apply all_gone_forall. intros w Hw. apply (A3 w Hw). intros [].
  - intros k Hk. unfold count_ev. simpl. rewrite filter_app, app_length, filter_rev_length.
    rewrite (count_delete_queue k q D1 Hk).
    rewrite filter_none; auto.
    intros e He. destruct e; simpl; auto. apply Nat.eqb_neq. intros ->.
    destruct (D4 _ He) as [_ Hn]. auto.
Qed.

Lemma stop_post : forall maxw pr ls s',
  let s := prun true (pinit maxw pr) ls in
  own s = OP_clear -> pstep true s (LO None) = Some s' ->
  pool s' = [] /\ queue s' = [] /\ all_gone s' /\ own s' = OIdle /\ running s' = false /\
  (forall k, In k (queue s) -> count_ev (is_delete k) (evs s') = 1%nat).
Proof.
  intros mx pr ls s' s. apply stop_post_inv. apply SInv_prun.
Qed.

(* ---- restart ------------------------------------------------------------------------------------ *)
Lemma restart_inv s s1 s2 s3 s4 : SInv s ->
  (maxw s <> 0)%Z -> all_gone s -> own s = OIdle -> queue s = [] -> prog s = OStart :: prog s2 ->
  pstep true s (LO None) = Some s1 -> pstep true s1 (LO None) = Some s2 ->
  pstep true s2 (LW (length (ws s))) = Some s3 -> pstep true s3 (LW (length (ws s))) = Some s4 ->
  pool s2 = [length (ws s)] /\ nth_error (ws s4) (length (ws s)) = Some (WRun (next_task s)).
Proof.
  intros (HA & _). destruct HA as [A1 A2 A3 A4 A5]. unfold live, all_gone in *.
  destruct s as [q r p l o pg nt mw ev]. simpl in *. intros Hmw Hg -> ->.
  generalize (prog s2). intros pg2 Hpg.
  assert (P : p = []).
  { destruct p as [|w p]; auto. exfalso.
    assert (Hw : w < length l) by (apply A2; left; reflexivity).
    apply (A3 w Hw); [apply all_gone_nth; auto|left; reflexivity]. }
  subst p.
  pose proof (all_gone_mf _ Hg) as M.
  unfold step_owner at 1; simpl. rewrite Hpg.
  intros H; inversion H; subst s1; clear H.
  unfold step_owner; simpl. rewrite mutex_free_eq; simpl. rewrite M.
  assert (C : ((Zlen (@nil nat) <? mw)%Z || (mw <? 0)%Z) = true).
  { unfold Zlen; simpl. apply orb_true_iff. destruct (Z.ltb_spec 0 mw); auto.
    right. apply Z.ltb_lt. lia. }
  rewrite C. simpl.
  intros H; inversion H; subst s2; clear H. simpl.
  unfold step_worker at 1; simpl. rewrite nth_error_app2, Nat.sub_diag by lia. simpl.
  intros H; inversion H; subst s3; clear H.
  unfold set_w; simpl. rewrite ls_snoc.
  unfold step_worker; simpl.
  rewrite nth_error_app2, Nat.sub_diag by lia. simpl.
  rewrite mutex_free_eq; simpl. rewrite forallb_app, M. simpl.
  unfold eval_pred; simpl.
  intros H; inversion H; subst s4; clear H. simpl.
  split; auto. apply ls_nth_eq. rewrite app_length; simpl; lia.
Qed.

Lemma restart_works : forall maxw pr ls s1 s2 s3 s4,
  let s := prun true (pinit maxw pr) ls in
  (maxw <> 0)%Z -> all_gone s -> own s = OIdle -> queue s = [] -> prog s = OStart :: prog s2 ->
  pstep true s (LO None) = Some s1 -> pstep true s1 (LO None) = Some s2 ->
  pstep true s2 (LW (length (ws s))) = Some s3 -> pstep true s3 (LW (length (ws s))) = Some s4 ->
  pool s2 = [length (ws s)] /\ nth_error (ws s4) (length (ws s)) = Some (WRun (next_task s)).
Proof.
  intros mx pr ls s1 s2 s3 s4 s Hm. destruct (SInv_prun mx pr ls) as [HI Hmx]. fold s in HI, Hmx.
  apply restart_inv; auto. rewrite Hmx. auto.
Qed.

Lemma pool_bounded : forall maxw pr ls,
  (0 <= maxw)%Z -> (Zlen (pool (prun true (pinit maxw pr) ls)) <= maxw)%Z.
Proof.
  intros mx pr ls Hm. destruct (SInv_prun mx pr ls) as [(_ & _ & HC & _) Hmx].
  unfold InvC in HC. rewrite Hmx in HC. auto.
Qed.

Lemma upstream_stop_deadlock : exists pr ls s,
  pexec false (pinit 1 pr) ls = Some s /\ in_stop s = true /\ can_step false s = false.
Proof.
  exists [OStart; OStop], [LO None; LO None; LO None; LW 0; LW 0; LW 0; LW 0; LW 0; LO None; LO None; LW 0].
  eexists. vm_compute. repeat split; reflexivity.
Qed.
