(* PoolLemmasA.v — invariants of the thread-pool micro-step model used by PoolProofsA. *)
From Coq Require Import List ZArith Bool Lia Arith Sorted.
From Tulz Require Import Common PoolModel PoolInv.
Import ListNotations.

(* ---- counting ---------------------------------------------------------------------------- *)
Definition cnt {A} (f : A -> bool) (l : list A) : nat := length (filter f l).
Definition b2n (b : bool) : nat := if b then 1 else 0.

Lemma count_ev_cnt : forall f l, count_ev f l = cnt f l.
Proof. reflexivity. Qed.

Lemma cnt_nil : forall A (f : A -> bool), cnt f [] = 0.
Proof. reflexivity. Qed.

Lemma cnt_cons : forall A (f : A -> bool) x l, cnt f (x :: l) = b2n (f x) + cnt f l.
Proof. intros. unfold cnt. simpl. destruct (f x); reflexivity. Qed.

Lemma cnt_app : forall A (f : A -> bool) l1 l2, cnt f (l1 ++ l2) = cnt f l1 + cnt f l2.
Proof. intros. unfold cnt. rewrite filter_app, app_length. reflexivity. Qed.

Lemma cnt_rev : forall A (f : A -> bool) l, cnt f (rev l) = cnt f l.
Proof.
  intros. induction l as [|x l IH]; [reflexivity|]. cbn [rev].
  rewrite cnt_app, !cnt_cons, cnt_nil, IH. lia.
Qed.

Lemma cnt_list_set : forall A (f : A -> bool) (l : list A) w x old,
  nth_error l w = Some old -> cnt f (list_set l w x) + b2n (f old) = cnt f l + b2n (f x).
Proof.
  intros A f l. induction l as [|h t IH]; intros w x old H.
  - destruct w; discriminate.
  - destruct w as [|w]; simpl in *.
    + injection H as ->. rewrite !cnt_cons. lia.
    + rewrite !cnt_cons. specialize (IH _ x _ H). lia.
Qed.

Lemma cnt_map_same : forall A (f : A -> bool) (g : A -> A) l,
  (forall x, f (g x) = f x) -> cnt f (map g l) = cnt f l.
Proof.
  intros. induction l as [|x l IH]; [reflexivity|]. cbn [map]. rewrite !cnt_cons, IH, H. reflexivity.
Qed.

Lemma cnt_pos_in : forall A (f : A -> bool) l, 0 < cnt f l -> exists x, In x l /\ f x = true.
Proof.
  intros A f l. induction l as [|x l IH]; intros H.
  - rewrite cnt_nil in H. lia.
  - rewrite cnt_cons in H. destruct (f x) eqn:E.
    + exists x. split; [left; reflexivity | assumption].
    + simpl in H. destruct (IH H) as [y [Hy Hf]]. exists y. split; [right; assumption | assumption].
Qed.

Lemma in_cnt_pos : forall A (f : A -> bool) l x, In x l -> f x = true -> 0 < cnt f l.
Proof.
  intros A f l. induction l as [|y l IH]; intros x Hin Hf; [destruct Hin|].
  rewrite cnt_cons. destruct Hin as [->|Hin].
  - rewrite Hf. simpl. lia.
  - specialize (IH _ Hin Hf). lia.
Qed.

Lemma cnt_del_map : forall k q, cnt (is_delete k) (map EvDelete q) = cnt (Nat.eqb k) q.
Proof. intros. induction q as [|x q IH]; [reflexivity|]. cbn [map]. rewrite !cnt_cons, IH. reflexivity. Qed.

Lemma cnt_beg_map : forall k q, cnt (is_begin k) (map EvDelete q) = 0.
Proof. intros. induction q as [|x q IH]; [reflexivity|]. cbn [map]. rewrite !cnt_cons, IH. reflexivity. Qed.

Lemma cnt_end_map : forall k q, cnt (is_end k) (map EvDelete q) = 0.
Proof. intros. induction q as [|x q IH]; [reflexivity|]. cbn [map]. rewrite !cnt_cons, IH. reflexivity. Qed.

(* ---- the task ledger ------------------------------------------------------------------------ *)
Definition isrun (k : nat) (x : wst) : bool := match x with WRun k' => Nat.eqb k k' | _ => false end.
Definition isend (k : nat) (x : wst) : bool := match x with WEnd k' => Nat.eqb k k' | _ => false end.
Definition pend (s : pstate) : list nat := match own s with OS_push k => [k] | _ => [] end.
Definition wake (x : wst) : wst := match x with WWait _ => WWait true | _ => x end.

Lemma isrun_wake : forall k x, isrun k (wake x) = isrun k x.
Proof. intros k [| | |[|]| | | |]; reflexivity. Qed.
Lemma isend_wake : forall k x, isend k (wake x) = isend k x.
Proof. intros k [| | |[|]| | | |]; reflexivity. Qed.

Definition TI (s : pstate) (k : nat) : Prop :=
  cnt (Nat.eqb k) (pend s) + cnt (Nat.eqb k) (queue s) + cnt (isrun k) (ws s) + cnt (isend k) (ws s)
    + cnt (is_delete k) (evs s) = b2n (k <? next_task s)
  /\ cnt (is_begin k) (evs s) = cnt (is_end k) (evs s) + cnt (isrun k) (ws s)
  /\ cnt (is_begin k) (evs s) + cnt (Nat.eqb k) (queue s) + cnt (Nat.eqb k) (pend s) <= b2n (k <? next_task s).

Definition TInv (s : pstate) : Prop := forall k, TI s k.

Ltac brk :=
  repeat match goal with
  | |- context [match ?x with _ => _ end] => destruct x eqn:?
  end.

Ltac step_split St :=
  revert St; unfold pstep, step_worker, step_owner, eval_pred; cbv zeta; brk;
  intros St; try discriminate St; injection St as <-.

Ltac projs :=
  cbn [queue running pool ws own prog next_task maxw evs set_w add_ev set_own delete_all pend] in *.

Ltac own_rw :=
  try match goal with H : own ?s = _ |- _ => rewrite H in * end.

Ltac queue_rw :=
  try match goal with H : queue ?s = _ |- _ => rewrite H in * end.

Ltac ls_facts k :=
  try match goal with
  | Hw : nth_error ?l ?w = Some ?old |- context [list_set ?l ?w ?x] =>
      pose proof (cnt_list_set _ (isrun k) l w x old Hw);
      pose proof (cnt_list_set _ (isend k) l w x old Hw)
  end.

Lemma TInv_init : forall mx pr, TInv (pinit mx pr).
Proof. intros mx pr k. unfold TI, pinit, pend. simpl. rewrite !cnt_nil. simpl. lia. Qed.

Lemma TInv_step : forall b s l s', TInv s -> pstep b s l = Some s' -> TInv s'.
Proof.
  intros b s l s' H St k. specialize (H k). unfold TI in *.
  destruct l as [w|w|pick]; step_split St; unfold pend in *; projs; own_rw; queue_rw; projs; ls_facts k;
    fold wake;
    repeat (rewrite ?cnt_app, ?cnt_rev, ?cnt_cons, ?cnt_nil, ?cnt_del_map, ?cnt_beg_map, ?cnt_end_map,
            ?(cnt_map_same _ (isrun k) wake), ?(cnt_map_same _ (isend k) wake) in *;
            try (intros; apply isrun_wake); try (intros; apply isend_wake));
    cbn [isrun isend is_begin is_end is_delete b2n] in *;
    try lia;
    try (destruct (Nat.ltb_spec k (S (next_task s))), (Nat.ltb_spec k (next_task s)),
           (Nat.eqb_spec k (next_task s)); cbn [b2n] in *; lia).
Qed.

Lemma prun_inv : forall (P : pstate -> Prop) b,
  (forall s l s', P s -> pstep b s l = Some s' -> P s') ->
  forall ls s, P s -> P (prun b s ls).
Proof.
  intros P b H ls; induction ls as [|l ls IH]; intros s Hs; simpl; auto.
  destruct (pstep b s l) eqn:E; eauto.
Qed.

Lemma TInv_run : forall b mx pr ls, TInv (prun b (pinit mx pr) ls).
Proof.
  intros. apply prun_inv with (P := TInv).
  - intros; eapply TInv_step; eauto.
  - apply TInv_init.
Qed.

(* ---- submission order -------------------------------------------------------------------- *)
Definition evb (e : pevent) : list nat := match e with EvBegin k _ => [k] | _ => [] end.

Lemma begins_cons : forall e l, begins (e :: l) = begins l ++ evb e.
Proof. intros. unfold begins. cbn [rev]. rewrite flat_map_app. cbn [flat_map]. rewrite app_nil_r. reflexivity. Qed.

Lemma begins_app : forall l1 l2, begins (l1 ++ l2) = begins l2 ++ begins l1.
Proof. intros. unfold begins. rewrite rev_app_distr, flat_map_app. reflexivity. Qed.

Lemma begins_del : forall q, begins (rev (map EvDelete q)) = [].
Proof.
  intros. unfold begins. rewrite rev_involutive. induction q as [|x q IH]; [reflexivity|].
  cbn [map flat_map]. rewrite IH. reflexivity.
Qed.

Lemma SS_snoc : forall l n, StronglySorted lt l -> Forall (fun k => k < n) l -> StronglySorted lt (l ++ [n]).
Proof.
  induction l as [|a l IH]; intros n Hs Hf; cbn [app].
  - constructor; constructor.
  - inversion Hs; subst. inversion Hf; subst. constructor.
    + apply IH; assumption.
    + apply Forall_app. split; [assumption|]. constructor; [assumption|constructor].
Qed.

Lemma SS_app_l : forall (l1 l2 : list nat), StronglySorted lt (l1 ++ l2) -> StronglySorted lt l1.
Proof.
  induction l1 as [|a l1 IH]; intros l2 H; [constructor|].
  cbn [app] in H. inversion H; subst. constructor.
  - eapply IH; eassumption.
  - apply Forall_app in H3. tauto.
Qed.

Definition SL (s : pstate) : list nat := begins (evs s) ++ queue s ++ pend s.
Definition SInv (s : pstate) : Prop :=
  StronglySorted lt (SL s) /\ Forall (fun k => k < next_task s) (SL s).

Lemma SInv_init : forall mx pr, SInv (pinit mx pr).
Proof. intros. unfold SInv, SL, pinit, pend. simpl. split; constructor. Qed.

Lemma SInv_step : forall b s l s', SInv s -> pstep b s l = Some s' -> SInv s'.
Proof.
  intros b s l s' H St. unfold SInv, SL in *.
  destruct l as [w|w|pick]; step_split St; unfold pend in *; projs; own_rw; queue_rw; projs;
    rewrite ?begins_cons, ?begins_app, ?begins_del in *; cbn [evb] in *;
    rewrite ?app_nil_r in *; rewrite <- ?app_assoc in *; cbn [app] in *;
    try assumption.
  - destruct H as [H1 H2]. rewrite app_assoc. split.
    + apply SS_snoc; assumption.
    + apply Forall_app. split.
      * eapply Forall_impl; [|exact H2]. cbv beta. intros; lia.
      * constructor; [lia|constructor].
  - destruct H as [H1 H2]. split; [eapply SS_app_l; eassumption|]. apply Forall_app in H2. tauto.
  - destruct H as [H1 H2]. split; [eapply SS_app_l; eassumption|]. apply Forall_app in H2. tauto.
Qed.

Lemma SInv_run : forall b mx pr ls, SInv (prun b (pinit mx pr) ls).
Proof.
  intros. apply prun_inv with (P := SInv).
  - intros; eapply SInv_step; eauto.
  - apply SInv_init.
Qed.

(* ---- a task is destroyed only after its run() returned, and never begins afterwards ---------- *)
Definition DL (l : list pevent) : Prop :=
  forall k post pre, l = post ++ EvDelete k :: pre ->
    cnt (is_begin k) pre = cnt (is_end k) pre /\ cnt (is_begin k) post = 0.

Lemma split_app : forall A (l1 l2 post pre : list A) e,
  l1 ++ l2 = post ++ e :: pre ->
  (exists post', l2 = post' ++ e :: pre /\ post = l1 ++ post') \/
  (exists mid, l1 = post ++ e :: mid /\ pre = mid ++ l2).
Proof.
  intros A l1. induction l1 as [|a l1 IH]; intros l2 post pre e H.
  - left. exists post. split; [exact H|reflexivity].
  - destruct post as [|b post]; cbn [app] in H.
    + injection H as -> H. right. exists l1. split; [reflexivity|]. symmetry; exact H.
    + injection H as -> H. destruct (IH _ _ _ _ H) as [[post' [E1 E2]]|[mid [E1 E2]]].
      * left. exists post'. split; [exact E1|]. cbn [app]. rewrite E2. reflexivity.
      * right. exists mid. split; [|exact E2]. cbn [app]. rewrite E1. reflexivity.
Qed.

Lemma DL_prepend : forall new old, DL old ->
  (forall k, 0 < cnt (is_delete k) old -> cnt (is_begin k) new = 0) ->
  (forall k post mid, new = post ++ EvDelete k :: mid ->
     cnt (is_begin k) post = 0 /\ cnt (is_begin k) (mid ++ old) = cnt (is_end k) (mid ++ old)) ->
  DL (new ++ old).
Proof.
  intros new old Hold H1 H2 k post pre E.
  destruct (split_app _ _ _ _ _ _ E) as [[post' [E1 E2]]|[mid [E1 E2]]].
  - destruct (Hold _ _ _ E1) as [Ha Hb]. split; [exact Ha|].
    subst post. rewrite cnt_app, Hb. rewrite H1; [reflexivity|].
    rewrite E1, cnt_app, cnt_cons. cbn [is_delete]. rewrite Nat.eqb_refl. cbn [b2n]. lia.
  - destruct (H2 _ _ _ E1) as [Ha Hb]. subst pre. split; assumption.
Qed.

Lemma single_split : forall A (e e' : A) post mid, [e] = post ++ e' :: mid -> e = e' /\ post = [] /\ mid = [].
Proof.
  intros A e e' post mid H. destruct post as [|a post]; cbn [app] in H.
  - injection H as -> <-. auto.
  - injection H as _ H. destruct post; discriminate H.
Qed.

Lemma DL_cons_other : forall e old, DL old -> (forall k, is_begin k e = false) ->
  (forall k, e <> EvDelete k) -> DL (e :: old).
Proof.
  intros e old H Hb Hd. change (DL ([e] ++ old)). apply DL_prepend; [exact H| |].
  - intros k _. rewrite cnt_cons, cnt_nil, Hb. reflexivity.
  - intros k post mid E. apply single_split in E. destruct E as [E _]. exfalso. eapply Hd; eassumption.
Qed.

Lemma DL_cons_begin : forall n w old, DL old -> cnt (is_delete n) old = 0 -> DL (EvBegin n w :: old).
Proof.
  intros n w old H Hn. change (DL ([EvBegin n w] ++ old)). apply DL_prepend; [exact H| |].
  - intros k Hk. rewrite cnt_cons, cnt_nil. cbn [is_begin]. destruct (Nat.eqb_spec k n); [subst; lia|reflexivity].
  - intros k post mid E. apply single_split in E. destruct E as [E _]. discriminate E.
Qed.

Lemma DL_cons_delete : forall k0 old, DL old -> cnt (is_begin k0) old = cnt (is_end k0) old ->
  DL (EvDelete k0 :: old).
Proof.
  intros k0 old H Hk. change (DL ([EvDelete k0] ++ old)). apply DL_prepend; [exact H| |].
  - intros k _. reflexivity.
  - intros k post mid E. apply single_split in E. destruct E as [E [-> ->]]. injection E as <-.
    split; [reflexivity|]. exact Hk.
Qed.

Lemma DL_delall : forall q old, DL old ->
  (forall k, 0 < cnt (Nat.eqb k) q -> cnt (is_begin k) old = 0 /\ cnt (is_end k) old = 0) ->
  DL (rev (map EvDelete q) ++ old).
Proof.
  intros q old H Hq. apply DL_prepend; [exact H| |].
  - intros k _. rewrite cnt_rev. apply cnt_beg_map.
  - intros k post mid E.
    pose proof (f_equal (cnt (is_begin k)) E) as Eb.
    pose proof (f_equal (cnt (is_end k)) E) as Ee.
    pose proof (f_equal (cnt (is_delete k)) E) as Ed.
    rewrite cnt_rev, cnt_app, cnt_cons in Eb, Ee, Ed.
    rewrite cnt_beg_map in Eb. rewrite cnt_end_map in Ee. rewrite cnt_del_map in Ed.
    cbn [is_delete] in Ed. rewrite Nat.eqb_refl in Ed. cbn [b2n] in Ed.
    destruct (Hq k) as [Hb He]; [lia|].
    rewrite !cnt_app. lia.
Qed.

Lemma TI_queued : forall s k, TInv s -> 0 < cnt (Nat.eqb k) (queue s) ->
  cnt (is_begin k) (evs s) = 0 /\ cnt (is_end k) (evs s) = 0 /\ cnt (is_delete k) (evs s) = 0.
Proof.
  intros s k H Hq. destruct (H k) as [H1 [H2 H3]].
  destruct (k <? next_task s); cbn [b2n] in *; lia.
Qed.

Lemma TI_ended : forall s k w, TInv s -> nth_error (ws s) w = Some (WEnd k) ->
  cnt (is_begin k) (evs s) = cnt (is_end k) (evs s).
Proof.
  intros s k w H Hw. destruct (H k) as [H1 [H2 H3]].
  assert (0 < cnt (isend k) (ws s)).
  { eapply in_cnt_pos; [eapply nth_error_In; exact Hw|]. cbn [isend]. apply Nat.eqb_refl. }
  destruct (k <? next_task s); cbn [b2n] in *; lia.
Qed.

Definition DInv (s : pstate) : Prop := DL (evs s).

Lemma DInv_step : forall b s l s', TInv s -> DInv s -> pstep b s l = Some s' -> DInv s'.
Proof.
  intros b s l s' HT H St. unfold DInv in *.
  assert (Hda : DL (rev (map EvDelete (queue s)) ++ evs s)).
  { apply DL_delall; [exact H|]. intros k Hk. destruct (TI_queued _ _ HT Hk) as [? [? ?]]. auto. }
  destruct l as [w|w|pick]; step_split St; projs; try assumption;
    try (apply DL_cons_other; [assumption| intros; reflexivity | intros; discriminate]).
  - apply DL_cons_begin; [assumption|]. apply (TI_queued s n HT).
    rewrite Heql, cnt_cons, Nat.eqb_refl. cbn [b2n]. lia.
  - apply DL_cons_begin; [assumption|]. apply (TI_queued s n HT).
    rewrite Heql, cnt_cons, Nat.eqb_refl. cbn [b2n]. lia.
  - apply DL_cons_delete; [assumption|]. eapply TI_ended; eassumption.
Qed.

Lemma DInv_run : forall b mx pr ls, DInv (prun b (pinit mx pr) ls).
Proof.
  intros. 
  assert (H : TInv (prun b (pinit mx pr) ls) /\ DInv (prun b (pinit mx pr) ls)); [|tauto].
  apply prun_inv with (P := fun s => TInv s /\ DInv s).
  - intros s l s' [H1 H2] St. split; [eapply TInv_step|eapply DInv_step]; eauto.
  - split; [apply TInv_init|]. intros k post pre E. cbn in E. destruct post; discriminate E.
Qed.

(* ---- the owner's program and the phases of stop() -------------------------------------------- *)
Fixpoint ends_stop (p : list oop) : Prop :=
  match p with
  | [] => True
  | x :: t => match t with [] => x = OStop | _ => ends_stop t end
  end.

Lemma ends_stop_tail : forall x p, ends_stop (x :: p) -> ends_stop p.
Proof. intros x p H. destruct p; [exact I|exact H]. Qed.

Lemma ends_stop_single : forall x, ends_stop [x] -> x = OStop.
Proof. intros x H. exact H. Qed.

Lemma ends_stop_app : forall pr, ends_stop (pr ++ [OStop]).
Proof.
  induction pr as [|x pr IH]; [reflexivity|].
  cbn [app]. cbn [ends_stop]. destruct (pr ++ [OStop]) eqn:E.
  - destruct pr; discriminate E.
  - exact IH.
Qed.

Definition PA (s : pstate) : Prop :=
  ends_stop (prog s) /\ (prog s = [] -> own s = OIdle \/ in_stop s = true).

Lemma PA_step : forall b s l s', PA s -> pstep b s l = Some s' -> PA s'.
Proof.
  intros b s l s' [H1 H2] St. unfold PA in *.
  destruct l as [w|w|pick]; step_split St; unfold in_stop in *; projs; own_rw; projs;
    try (split; assumption);
    try (split; [assumption | intros Hp; specialize (H2 Hp); destruct H2; first [discriminate | auto]]).
  all: split; [eapply ends_stop_tail; eassumption | intros ->; cbn in H1; first [discriminate H1 | auto]].
Qed.

Lemma PA_run : forall b mx pr ls, PA (prun b (pinit mx (pr ++ [OStop])) ls).
Proof.
  intros. apply prun_inv with (P := PA).
  - intros; eapply PA_step; eauto.
  - split; [apply ends_stop_app|]. intros _. left. reflexivity.
Qed.

(* ---- workers that are not gone are in the pool; stop() joins them all ---------------------- *)
Lemma nth_list_set_inv : forall A (l : list A) w x w' y,
  nth_error (list_set l w x) w' = Some y -> (w' = w /\ y = x) \/ (w' <> w /\ nth_error l w' = Some y).
Proof.
  intros A l. induction l as [|h t IH]; intros w x w' y H.
  - destruct w, w'; discriminate H.
  - destruct w as [|w]; destruct w' as [|w']; cbn in H.
    + injection H as <-. left; auto.
    + right. split; [discriminate|exact H].
    + right. split; [discriminate|exact H].
    + destruct (IH _ _ _ _ H) as [[-> ->]|[Hn Hy]]; [left; auto|right; split; [congruence|exact Hy]].
Qed.

Lemma nth_snoc_inv : forall A (l : list A) a w y,
  nth_error (l ++ [a]) w = Some y -> nth_error l w = Some y \/ (w = length l /\ y = a).
Proof.
  intros A l a w y H. destruct (Nat.lt_ge_cases w (length l)) as [Hlt|Hge].
  - left. rewrite nth_error_app1 in H; assumption.
  - right. rewrite nth_error_app2 in H by assumption.
    destruct (w - length l) as [|d] eqn:E; cbn in H.
    + injection H as <-. split; [lia|reflexivity].
    + destruct d; discriminate H.
Qed.

Lemma nth_wake_inv : forall l w y,
  nth_error (map wake l) w = Some y -> exists y0, nth_error l w = Some y0 /\ y = wake y0.
Proof.
  intros l w y H. rewrite nth_error_map in H. destruct (nth_error l w) as [y0|]; [|discriminate H].
  injection H as <-. exists y0. auto.
Qed.

Lemma wake_gone : forall x, wake x <> WGone -> x <> WGone.
Proof. intros x H ->. apply H. reflexivity. Qed.

Ltac nth_inv :=
  repeat match goal with
  | H : nth_error (list_set _ _ _) _ = Some _ |- _ =>
      apply nth_list_set_inv in H; destruct H as [[? ?]|[? H]]; subst
  | H : nth_error (_ ++ [_]) _ = Some _ |- _ =>
      apply nth_snoc_inv in H; destruct H as [H|[? ?]]; subst
  | H : nth_error (map wake _) _ = Some _ |- _ =>
      apply nth_wake_inv in H; destruct H as [? [H ?]]; subst
  end.

Definition NG (s : pstate) (L : list nat) : Prop :=
  forall w x, nth_error (ws s) w = Some x -> x <> WGone -> In w L.
Definition wl (s : pstate) : list nat :=
  match own s with OP_join rest => rest | OP_clear => [] | _ => pool s end.
Definition PW (s : pstate) : Prop := NG s (pool s) /\ NG s (wl s).

Ltac use_ng H :=
  match goal with Hn : nth_error (ws _) ?w = Some ?x |- _ =>
    let Hi := fresh "Hi" in
    assert (Hi : In w _) by (apply (H w x Hn); first [assumption | discriminate | apply wake_gone; assumption])
  end.

Lemma PW_step : forall b s l s', PW s -> pstep b s l = Some s' -> PW s'.
Proof.
  intros b s l s' [H1 H2] St. unfold PW, NG in *.
  destruct l as [w|w|pick]; step_split St; unfold wl in *; projs; own_rw; projs; fold wake; try (split; assumption);
    (split; intros w' x' Hn Hx; nth_inv; try congruence;
     try (use_ng H1); try (use_ng H2); cbn [In] in *;
     try assumption; try (apply in_or_app; cbn [In]); try tauto; try (intuition congruence)).
Qed.

Definition PF (s : pstate) : Prop :=
  prog s = [] -> own s = OIdle -> queue s = [] /\ NG s [].

Lemma PF_step : forall b s l s', PA s -> PW s -> PF s -> pstep b s l = Some s' -> PF s'.
Proof.
  intros b s l s' [_ HA] [_ HW] HF St. unfold PF, NG in *.
  destruct l as [w|w|pick]; step_split St; unfold wl, in_stop in *; projs; own_rw; projs;
    intros Hp Ho'; try discriminate Ho';
    try (destruct (HA Hp) as [X|X]; discriminate X);
    try (exfalso; destruct (HF Hp Ho') as [_ Hng]; use_ng Hng; assumption);
    try (exfalso; destruct (HF Hp eq_refl) as [_ Hng]; use_ng Hng; assumption).
  split; [reflexivity|exact HW].
Qed.

Definition PAll (s : pstate) : Prop := PA s /\ PW s /\ PF s.

Lemma PAll_run : forall b mx pr ls, PAll (prun b (pinit mx (pr ++ [OStop])) ls).
Proof.
  intros. apply prun_inv with (P := PAll).
  - intros s l s' [H1 [H2 H3]] St. split; [|split].
    + eapply PA_step; eauto.
    + eapply PW_step; eauto.
    + eapply PF_step; eauto.
  - split; [|split].
    + split; [apply ends_stop_app|]. intros _. left. reflexivity.
    + split; intros w x Hn; destruct w; discriminate Hn.
    + intros Hp. cbn in Hp. destruct pr; discriminate Hp.
Qed.

Lemma NG_nil_cnt : forall s (f : wst -> bool), f WGone = false -> NG s [] -> cnt f (ws s) = 0.
Proof.
  intros s f Hf H. destruct (cnt f (ws s)) eqn:E; [reflexivity|]. exfalso.
  destruct (cnt_pos_in _ f (ws s)) as [x [Hin Hx]]; [lia|].
  apply In_nth_error in Hin. destruct Hin as [n0 Hn].
  apply (H n0 x Hn). intros ->. congruence.
Qed.
