(* RingLemmasB.v — well-formedness in physical form, contents lemmas, and the element-level
   operations (push / pop) of the RingBuffer model. *)
From Coq Require Import List ZArith Bool Lia ZifyBool Permutation.
From Tulz Require Import Common RingModel RingInv RingLemmasA.
Import ListNotations.
Local Open Scope Z_scope.

Lemma modCap_idem_l a b c : 0 < c -> modCap (modCap a c + b) c = modCap (a + b) c.
Proof. intros H. rewrite !modCap_is_mod by lia. apply Zplus_mod_idemp_l. Qed.

Lemma modCap_off_neq a k c : 0 < c -> 0 < k < c -> modCap (a + k) c <> modCap a c.
Proof.
  intros Hc Hk. rewrite !modCap_is_mod by lia. intros E.
  pose proof (Z.div_mod (a + k) c ltac:(lia)) as H1.
  pose proof (Z.div_mod a c ltac:(lia)) as H2.
  rewrite E in H1.
  assert (H3 : k = c * ((a + k) / c - a / c)) by lia.
  remember ((a + k) / c - a / c) as m.
  destruct (Z_le_gt_dec m 0); nia.
Qed.

Lemma my_firstn_seq n : forall s len, firstn n (seq s len) = seq s (Nat.min n len).
Proof.
  induction n as [|n IH]; intros s len; [reflexivity|].
  destruct len as [|len]; [reflexivity|]. cbn [seq firstn Nat.min]. f_equal. apply IH.
Qed.

Section B.
Context {V : Type}.
Implicit Types (d : list (slot V)) (r : ring V).

(* events facts bundle *)
Definition evfacts (evs : list (event V)) (rem con mo : list V) : Prop :=
  forallb ev_ok evs = true /\ removed evs = rem /\ constructed evs = con /\ moved_out evs = mo.

(* ---- wf in physical form -------------------------------------------------------------- *)

Definition phys_live (p s c : Z) d : Prop :=
  forall j, 0 <= j < c -> (is_live (rd d j) = true <-> (p <= j < p + s \/ j < p + s - c)).

Lemma wf_intro p s c d :
  1 <= c -> 0 <= p < c -> 0 <= s <= c -> Zlen d = c -> phys_live p s c d ->
  wf (mkRing p s c d).
Proof.
  intros Hc Hp Hs Hl Hph. constructor; cbn [pos size cap data]; auto.
  - intros i Hi. unfold dataIndex; cbn [pos size cap data].
    mc_split (p + i) c; [lia| |]; mc; apply Hph; lia.
  - intros j Hj Hno. destruct (is_live (rd d j)) eqn:E; auto. exfalso.
    apply Hph in E; auto. unfold dataIndex in Hno; cbn [pos size cap data] in Hno.
    destruct E as [E|E].
    + apply (Hno (j - p)); [lia|]. mc. lia.
    + apply (Hno (j - p + c)); [lia|]. mc. lia.
Qed.

Lemma wf_elim p s c d :
  wf (mkRing p s c d) ->
  1 <= c /\ 0 <= p < c /\ 0 <= s <= c /\ Zlen d = c /\ phys_live p s c d.
Proof.
  intros [Hc Hp Hs Hl Hlive Hdead]; cbn [pos size cap data] in *.
  repeat split; try lia.
  - intros E. destruct (Z_lt_le_dec j p).
    + destruct (Z_lt_le_dec j (p + s - c)); [lia|]. exfalso.
      rewrite Hdead in E; [discriminate|lia|].
      intros i Hi. unfold dataIndex; cbn [pos size cap data].
      mc_split (p + i) c; [lia| |]; mc; lia.
    + destruct (Z_lt_le_dec j (p + s)); [lia|]. exfalso.
      rewrite Hdead in E; [discriminate|lia|].
      intros i Hi. unfold dataIndex; cbn [pos size cap data].
      mc_split (p + i) c; [lia| |]; mc; lia.
  - intros [E|E].
    + specialize (Hlive (j - p) ltac:(lia)). unfold dataIndex in Hlive; cbn [pos size cap data] in Hlive.
      mc. replace (p + (j - p)) with j in Hlive by lia. auto.
    + specialize (Hlive (j - p + c) ltac:(lia)). unfold dataIndex in Hlive; cbn [pos size cap data] in Hlive.
      mc. replace (p + (j - p + c) - c) with j in Hlive by lia. auto.
Qed.

(* ---- contents: structural lemmas (no wf needed) --------------------------------------- *)

Lemma contents_snoc p s c d : 0 <= s ->
  contents (mkRing p (s + 1) c d) = contents (mkRing p s c d) ++ [rd d (modCap (p + s) c)].
Proof.
  intros Hs. unfold contents, dataIndex; cbn [pos size cap data].
  replace (Z.to_nat (s + 1)) with (Z.to_nat s + 1)%nat by lia.
  rewrite seq_app, map_app. cbn [seq map]. rewrite Nat.add_0_l. rewrite Z2Nat.id by lia. reflexivity.
Qed.

Lemma contents_cons p s c d : 0 <= s -> 0 < c ->
  contents (mkRing p (s + 1) c d) =
  rd d (modCap p c) :: contents (mkRing (modCap (p + 1) c) s c d).
Proof.
  intros Hs Hc. unfold contents, dataIndex; cbn [pos size cap data].
  replace (Z.to_nat (s + 1)) with (S (Z.to_nat s)) by lia.
  cbn [seq map]. f_equal.
  - f_equal. f_equal. lia.
  - rewrite <- seq_shift, map_map. apply map_ext. intros k.
    rewrite modCap_idem_l by lia. f_equal. f_equal. lia.
Qed.

Lemma contents_data_ext p s c d d' :
  (forall k, 0 <= k < s -> rd d (modCap (p + k) c) = rd d' (modCap (p + k) c)) ->
  contents (mkRing p s c d) = contents (mkRing p s c d').
Proof.
  intros H. unfold contents, dataIndex; cbn [pos size cap data].
  apply map_ext_in. intros k Hk. apply in_seq in Hk. apply H. lia.
Qed.

Lemma contents_pos_ext p p' s c d : p = p' -> contents (mkRing p s c d) = contents (mkRing p' s c d).
Proof. intros ->. reflexivity. Qed.

Lemma contents_skipn (k : nat) : forall p s c d, 0 < c -> Z.of_nat k <= s ->
  skipn k (contents (mkRing p s c d)) = contents (mkRing (modCap (p + Z.of_nat k) c) (s - Z.of_nat k) c d).
Proof.
  induction k as [|k IH]; intros p s c d Hc Hk.
  - cbn [skipn]. unfold contents, dataIndex; cbn [pos size cap data].
    replace (s - Z.of_nat 0) with s by lia.
    apply map_ext. intros i. rewrite modCap_idem_l by lia. f_equal. f_equal. lia.
  - replace s with ((s - 1) + 1) at 1 by lia.
    rewrite contents_cons by lia. cbn [skipn]. rewrite IH by lia.
    replace (s - 1 - Z.of_nat k) with (s - Z.of_nat (S k)) by lia.
    apply contents_pos_ext. rewrite modCap_idem_l by lia. f_equal. lia.
Qed.

Lemma contents_firstn (k : nat) p s c d : Z.of_nat k <= s ->
  firstn k (contents (mkRing p s c d)) = contents (mkRing p (Z.of_nat k) c d).
Proof.
  intros Hk. unfold contents, dataIndex; cbn [pos size cap data].
  rewrite firstn_map, my_firstn_seq. rewrite Nat2Z.id. rewrite Nat.min_l by lia. reflexivity.
Qed.

Lemma contents_zero p s c d : s <= 0 -> contents (mkRing p s c d) = [].
Proof.
  intros H. unfold contents; cbn [size]. replace (Z.to_nat s) with 0%nat by lia. reflexivity.
Qed.

(* ---- contents vs items under wf -------------------------------------------------------- *)

Lemma wf_contents r : wf r -> contents r = map Live (items r) /\ Zlen (items r) = size r.
Proof.
  intros W. assert (E : contents r = map Live (items r)).
  { unfold items. apply all_live_map. intros k Hk.
    pose proof (wf_size r W) as Hs.
    rewrite Zlen_contents in Hk by lia. rewrite contents_nth by lia. apply (wf_live r W). lia. }
  split; auto.
  pose proof (contents_length r) as HL. rewrite E, map_length in HL.
  pose proof (wf_size r W). unfold Zlen. lia.
Qed.

Lemma items_empty : items (@empty_ring V) = [].
Proof. reflexivity. Qed.

Lemma wf0_contents r : wf0 r -> contents r = map Live (items r) /\ Zlen (items r) = size r.
Proof. intros [W| ->]; [apply wf_contents; auto|]. split; reflexivity. Qed.

Lemma wf0_wf r : wf0 r -> 1 <= cap r -> wf r.
Proof. intros [W| ->]; auto. cbn. lia. Qed.

Lemma nth_map_Live (l : list V) k : (k < length l)%nat -> is_live (nth k (map (@Live V) l) Raw) = true.
Proof. revert k; induction l; intros [|k] H; simpl in *; try lia; auto. apply IHl; lia. Qed.

(* a freshly built array: the elements followed by raw storage *)
Lemma fresh_wf (l : list V) c s D :
  s = Zlen l -> D = map Live l -> 1 <= c -> s <= c ->
  wf (mkRing 0 s c (D ++ repeat Raw (Z.to_nat (c - s)))) /\
  items (mkRing 0 s c (D ++ repeat Raw (Z.to_nat (c - s)))) = l.
Proof.
  intros -> -> Hc Hs.
  assert (HlenD : Zlen (map (@Live V) l) = Zlen l) by (unfold Zlen; rewrite map_length; auto).
  assert (Hlen0 : 0 <= Zlen l) by (unfold Zlen; lia).
  split.
  - apply wf_intro; try lia.
    + unfold Zlen in *. rewrite app_length, repeat_length, map_length. lia.
    + intros j Hj. destruct (Z_lt_le_dec j (Zlen l)).
      * rewrite rd_app1 by lia. rewrite rd_in by lia.
        rewrite nth_map_Live by (unfold Zlen in *; lia). lia.
      * rewrite rd_app2 by lia. rewrite rd_repeat_Raw. cbn [is_live]. lia.
  - unfold items. transitivity (slot_vals (map (@Live V) l)); [|apply slot_vals_map_Live]. f_equal.
    apply contents_ext; cbn [pos size cap data]; auto.
    intros k Hk. unfold dataIndex; cbn [pos size cap data]. mc.
    rewrite rd_app1 by lia. rewrite rd_in by lia. f_equal; lia.
Qed.

End B.
