(* RingLemmasH.v — one step of the runner refines one step of the bounded-deque runner. *)
From Coq Require Import List ZArith Bool Lia ZifyBool Permutation.
From Tulz Require Import Common RingModel RingInv RingLemmasA RingLemmasB RingLemmasC RingLemmasD
  RingLemmasE RingLemmasF RingLemmasG.
Import ListNotations.
Local Open Scope Z_scope.

Lemma items_nil_of_size0 (r : ring Z) : wf r -> size r = 0 -> items r = [].
Proof.
  intros W H. destruct (wf_contents r W) as [_ HZ]. rewrite H in HZ.
  destruct (items r); auto. unfold Zlen in HZ. simpl in HZ. lia.
Qed.

Lemma step_op0 ow e b c : wf_env e -> step_ok ow e [0; b; c].
Proof.
  intros W. unfold step_ok, ring_step, deque_step. rewrite env_get_abs, Zlen_abs_env.
  destruct (env_get e b) as [r|] eqn:G; cbn [option_map]; [apply step_none; auto|].
  destruct ((1 <=? c) && (0 <=? b) && (b <? Zlen e)) eqn:Hg; [|apply step_none; auto].
  destruct (@new_ring_spec Z c ltac:(lia)) as [Wn In].
  apply (step_set1 e b None _ _ _ _ _ _ [] []);
    [exact W | lia | exact G | left; exact Wn | | reflexivity | repeat split | ].
  - unfold abs. rewrite In. reflexivity.
  - rewrite In. constructor.
Qed.

Lemma step_op1 ow e b v : wf_env e -> step_ok ow e [1; b; v].
Proof.
  intros W. unfold step_ok, ring_step, deque_step. rewrite env_get_u_abs.
  destruct (env_get_u e b) as [r|] eqn:G; cbn [option_map]; [|apply step_none; auto].
  destruct (env_get_u_some e b r W G) as (G' & Wr & Hb).
  pose proof (emplace_back_spec ow r v Wr) as S.
  destruct (wf_contents r Wr) as [_ HZ].
  unfold d_push_back; cbn [abs ditems dcap]. rewrite HZ.
  destruct (emplace_back ow r v) as [[r' evs]|].
  - destruct S as (Hg & W' & Hcap & Hat & S). rewrite Hat. cbn [slot_z].
    destruct (size r <? cap r) eqn:Hlt.
    + destruct S as [Hi EF].
      apply (step_set1 e b (Some r) _ _ _ _ _ _ [v] []);
        [exact W | lia | exact G' | left; exact W' | | reflexivity | exact EF | ].
      * unfold abs. rewrite Hi, Hcap. reflexivity.
      * cbn [oitems app]. rewrite Hi. perm_solve.
    + rewrite orb_false_r in Hg. subst ow. destruct S as (x & t & Hi & Hi' & EF).
      rewrite Hi. cbn [tl firstn].
      apply (step_set1 e b (Some r) _ _ _ _ _ _ [v] []);
        [exact W | lia | exact G' | left; exact W' | | reflexivity | exact EF | ].
      * unfold abs. rewrite Hi', Hcap. reflexivity.
      * cbn [oitems app]. rewrite Hi, Hi'. perm_solve.
  - apply orb_false_elim in S. destruct S as [-> ->]. apply step_none; auto.
Qed.
