(* PoolProofsC.v — when the owner is between operations and m_isRunning is false, no worker thread
   is alive (every worker ever created has been joined and deleted). *)
From Coq Require Import List ZArith Bool Lia Arith.
From Tulz Require Import Common PoolModel PoolInv PoolLemmasB.
Import ListNotations.

(* the flag is true throughout start(); with the flag false and the owner idle (or in clear())
   the pool list is empty *)
Definition RI (s : pstate) : Prop :=
  (forall k, own s = OS_push k \/ own s = OS_notify k -> running s = true) /\
  (running s = false -> own s = OIdle \/ own s = OC_clear -> pool s = []).

Lemma RI_init mx pr : RI (pinit mx pr).
Proof.
  unfold RI, pinit; simpl. split.
  - intros k [H|H]; discriminate.
  - auto.
Qed.

Lemma RI_wupd s w old x s' : wupd s w old x s' -> RI s -> RI s'.
Proof.
  intros (_ & _ & _ & _ & Hp & Hown & _ & Hr & _) [H1 H2].
  unfold RI. rewrite Hp, Hown, Hr. split; auto.
Qed.

Lemma RI_owner s pick s' : InvA s -> RI s -> step_owner true s pick = Some s' -> RI s'.
Proof.
  destruct s as [q r p l o pg nt mw ev]. intros HA [H1 H2]. pose proof (a_clear _ HA) as H5.
  unfold RI. simpl in *. unfold step_owner; simpl.
  destruct o.
  - (* OIdle *)
    destruct pg as [|[| |] pg]; try discriminate;
      intros H; inversion H; subst; clear H; simpl; split.
    + auto.
    + discriminate.
    + intros k [Hk|Hk]; discriminate.
    + intros Hr _. apply H2; auto.
    + intros k [Hk|Hk]; discriminate.
    + intros _ [Hk|Hk]; discriminate.
  - (* OS_push *)
    destruct (mutex_free _); [|discriminate].
    assert (Hr : r = true) by (apply (H1 k); auto).
    destruct (_ && _); intros H; inversion H; subst; clear H; simpl; split; auto;
      intros _ [Hk|Hk]; discriminate.
  - (* OS_notify *)
    assert (Hr : r = true) by (apply (H1 k); auto).
    destruct pick as [w|].
    + destruct (nth_error l w) as [y|] eqn:E; [|discriminate].
      destruct y as [| | |n|k0|k0| |]; try discriminate. destruct n; [discriminate|].
      intros H; inversion H; subst; clear H; simpl; split.
      * intros k' [Hk|Hk]; discriminate.
      * discriminate.
    + destruct (existsb _ _); [discriminate|].
      intros H; inversion H; subst; clear H; simpl; split.
      * intros k' [Hk|Hk]; discriminate.
      * discriminate.
  - (* OC_clear *)
    destruct (mutex_free _); [|discriminate].
    intros H; inversion H; subst; clear H; simpl; split.
    + intros k' [Hk|Hk]; discriminate.
    + intros Hr _. apply H2; auto.
  - (* OP_flag *)
    destruct (mutex_free _); [|discriminate].
    intros H; inversion H; subst; clear H; simpl; split.
    + intros k' [Hk|Hk]; discriminate.
    + intros _ [Hk|Hk]; discriminate.
  - (* OP_notify *)
    destruct p as [|n p]; intros H; inversion H; subst; clear H; simpl; split;
      try (intros k' [Hk|Hk]; discriminate); intros _ [Hk|Hk]; discriminate.
  - (* OP_join *)
    destruct rest as [|w rest]; [discriminate|].
    destruct (nth_error l w) as [y|] eqn:E; [|discriminate].
    destruct y; try discriminate.
    destruct rest as [|n rest]; intros H; inversion H; subst; clear H; simpl; split;
      try (intros k' [Hk|Hk]; discriminate); intros _ [Hk|Hk]; discriminate.
  - (* OP_clear *)
    destruct (mutex_free _); [|discriminate].
    intros H; inversion H; subst; clear H; simpl; split.
    + intros k' [Hk|Hk]; discriminate.
    + intros _ _. apply H5. reflexivity.
Qed.

Lemma RI_step s l s' : SInv s -> RI s -> pstep true s l = Some s' -> RI s'.
Proof.
  intros (HA & _) HR Hs. destruct l as [w|w|pick].
  - simpl in Hs. destruct (worker_wupd _ _ _ Hs) as (old & x & Hw). eapply RI_wupd; eauto.
  - pose proof (spur_wupd _ _ _ Hs) as Hw. eapply RI_wupd; eauto.
  - simpl in Hs. eapply RI_owner; eauto.
Qed.

Lemma RI_prun_from s ls : SInv s -> RI s -> SInv (prun true s ls) /\ RI (prun true s ls).
Proof.
  revert s; induction ls as [|l ls IH]; intros s H HR; simpl; auto.
  destruct (pstep true s l) as [s'|] eqn:E; auto.
  apply IH.
  - exact (proj1 (SInv_step _ _ _ H E)).
  - eapply RI_step; eauto.
Qed.

Lemma rearm_has_no_reader : forall maxw pr ls,
  let s := prun true (pinit maxw pr) ls in
  own s = OIdle -> running s = false -> all_gone s.
Proof.
  intros mx pr ls s Ho Hr.
  destruct (RI_prun_from (pinit mx pr) ls (SInv_init mx pr) (RI_init mx pr)) as [(HA & _) [_ H2]].
  fold s in HA, H2.
  assert (Hp : pool s = []) by (apply H2; auto).
  unfold all_gone. apply all_gone_forall. intros w Hlt.
  apply (a_gone _ HA w Hlt). unfold live. rewrite Ho, Hp. intros [].
Qed.
