(* ResourceInv.v — the predicates the rwp::Resource theorems are stated with (definitions only).

   RInv is the batch-counting invariant of the lock (DESIGN.md section 4): with
     H = threads holding the lock, A = parked threads whose ticket is below the bound
     (admitted, possibly still asleep), U = parked threads whose ticket is not yet admitted,
   the holder count is |H| + |A|, all members of H and A have the active kind, a writer is
   alone, the queue entries partition the outstanding tickets [bound, idCounter) into
   consecutive non-empty ranges each owned by exactly the U threads of the entry's kind,
   and an admitted sleeper that was not notified yet always has a notifier on its way. *)
From Coq Require Import List ZArith Bool Lia.
From Tulz Require Import Common ResourceModel.
Import ListNotations.
Local Open Scope Z_scope.

Definition is_holding (t : tstate) : bool := match t with Holding _ => true | _ => false end.
Definition is_parked (t : tstate) : bool := match t with Parked _ _ _ _ => true | _ => false end.
Definition is_admitted (ub : Z) (t : tstate) : bool :=
  match t with Parked _ id _ _ => id <? ub | _ => false end.
(* parked, not admitted, ticket below x *)
Definition is_waiting_below (ub x : Z) (t : tstate) : bool :=
  match t with Parked _ id _ _ => (ub <=? id) && (id <? x) | _ => false end.
Definition countb {A} (f : A -> bool) (l : list A) : Z := Zlen (filter f l).

Definition top (t : tstate) : option optype :=
  match t with Parked op _ _ _ => Some op | Holding op => Some op | _ => None end.
Definition wants_write (t : tstate) : bool :=
  match t with Parked Wr _ _ _ => true | Holding Wr => true | _ => false end.

(* queue bounds strictly increase from the current bound and end at the ticket counter *)
Fixpoint chain (lo : Z) (q : list (optype * Z)) (hi : Z) : Prop :=
  match q with
  | [] => lo = hi
  | (_, b) :: q' => lo < b /\ chain b q' hi
  end.
(* kind of the entry that covers ticket [id] *)
Fixpoint entry_type (q : list (optype * Z)) (id : Z) : option optype :=
  match q with
  | [] => None
  | (ty, b) :: q' => if id <? b then Some ty else entry_type q' id
  end.
(* a write entry covers exactly one ticket; two read entries are never adjacent *)
Fixpoint shape_ok (lo : Z) (q : list (optype * Z)) : Prop :=
  match q with
  | [] => True
  | (Wr, b) :: q' => b = lo + 1 /\ shape_ok b q'
  | (Rd, b) :: q' => match q' with (Rd, _) :: _ => False | _ => True end /\ shape_ok b q'
  end.

Record RInv (s : state) : Prop := {
  I_count : activeCount (rs s) =
            countb is_holding (thr s) + countb (is_admitted (ubound (rs s))) (thr s);
  I_op : forall t st, nth_error (thr s) t = Some st ->
           is_holding st || is_admitted (ubound (rs s)) st = true ->
           option_map aop_of (top st) = Some (activeOp (rs s));
  I_wr : activeOp (rs s) = AWr -> activeCount (rs s) = 1;
  I_none : activeCount (rs s) = 0 <-> activeOp (rs s) = ANone;
  I_idle : activeCount (rs s) = 0 -> rs s = r0;
  I_ids : 0 <= ubound (rs s) <= idCounter (rs s);
  I_chain : chain (ubound (rs s)) (queue (rs s)) (idCounter (rs s));
  I_parked : forall t op id nt a, nth_error (thr s) t = Some (Parked op id nt a) ->
           0 <= id < idCounter (rs s) /\
           (ubound (rs s) <= id -> entry_type (queue (rs s)) id = Some op);
  I_cnt : forall x, ubound (rs s) <= x <= idCounter (rs s) ->
           countb (is_waiting_below (ubound (rs s)) x) (thr s) = x - ubound (rs s);
  I_shape : shape_ok (ubound (rs s)) (queue (rs s));
  I_notif : (exists t op id a, nth_error (thr s) t = Some (Parked op id false a) /\ id < ubound (rs s)) ->
            exists t', nth_error (thr s) t' = Some Notifying;
  I_head : forall b q', queue (rs s) = (Rd, b) :: q' -> activeOp (rs s) = AWr;
  I_assert : assert_failed s = false
}.

(* ---- FIFO fairness over the ghost history (newest first) -------------------------------

   Requests are numbered in the order their lock*() calls were issued (HIssue), a request
   that did not take the fast path logs HPark in the same step, and HGrant is logged when its
   lock*() call returns. [fifo_ok h]: whenever request b is granted, every request a that
   parked before b was issued (a < b, HPark a before the grant) and has not been granted yet
   is a read, b is a read, and no write request that ever parked lies between them. *)
Definition fifo_ok (h : list hev) : Prop :=
  forall post pre tb b, h = post ++ HGrant tb b :: pre ->
  forall ta a, In (HPark ta a) pre -> (a < b)%nat -> ~ In (HGrant ta a) pre ->
    In (HIssue ta a Rd) pre /\ In (HIssue tb b Rd) pre /\
    forall tw w, (a < w < b)%nat -> In (HPark tw w) pre -> ~ In (HIssue tw w Wr) pre.

(* all threads idle *)
Definition all_idle (s : state) : Prop := Forall (fun t => t = Idle) (thr s).

(* no thread holds or waits for the write lock *)
Definition no_writer (s : state) : Prop := forall t st, nth_error (thr s) t = Some st -> wants_write st = false.
