(* Properties_C08.v — ThreadPool::stop() always terminates and leaves a quiescent, restartable pool.
   Only statements, each closed by [exact <lemma of PoolProofsB>], and Print Assumptions.
   Liveness = deadlock freedom + a strictly decreasing variant; fairness of the scheduler (an
   enabled step is eventually taken, no infinite run of spurious wake-ups) is assumed. *)
From Coq Require Import List ZArith Bool Lia.
From Tulz Require Import RaceModel AtomicSections.
From TulzGen Require Import Accesses.
From Tulz Require Import Common PoolModel PoolInv PoolProofsB.
Import ListNotations.

(* while the owner is inside stop() some step is always enabled — in particular a worker that
   evaluated its wait predicate but has not yet blocked cannot miss the shutdown *)
Theorem C08_stop_no_deadlock : forall maxw pr ls,
  let s := prun true (pinit maxw pr) ls in
  in_stop s = true -> can_step true s = true.
Proof. exact stop_no_deadlock. Qed.
Print Assumptions C08_stop_no_deadlock.

(* every non-spurious step taken while the owner is inside stop() strictly decreases a
   non-negative measure: stop() returns after finitely many steps *)
Theorem C08_stop_variant : forall maxw pr ls l s',
  let s := prun true (pinit maxw pr) ls in
  in_stop s = true -> is_spur l = false -> pstep true s l = Some s' ->
  (0 <= pmeasure s' < pmeasure s)%Z.
Proof. exact stop_variant. Qed.
Print Assumptions C08_stop_variant.

(* when stop() returns: no worker thread is left (getThreadCount() = 0), nothing runs, the
   queue is empty and every task that was still queued has been destroyed *)
Theorem C08_stop_post : forall maxw pr ls s',
  let s := prun true (pinit maxw pr) ls in
  own s = OP_clear -> pstep true s (LO None) = Some s' ->
  pool s' = [] /\ queue s' = [] /\ all_gone s' /\ own s' = OIdle /\ running s' = false /\
  (forall k, In k (queue s) -> count_ev (is_delete k) (evs s') = 1%nat).
Proof. exact stop_post. Qed.
Print Assumptions C08_stop_post.

(* a later start() works again: it spawns a new worker, which then takes the task *)
Theorem C08_restart : forall maxw pr ls s1 s2 s3 s4,
  let s := prun true (pinit maxw pr) ls in
  (maxw <> 0)%Z -> all_gone s -> own s = OIdle -> queue s = [] -> prog s = OStart :: prog s2 ->
  pstep true s (LO None) = Some s1 -> pstep true s1 (LO None) = Some s2 ->
  pstep true s2 (LW (length (ws s))) = Some s3 -> pstep true s3 (LW (length (ws s))) = Some s4 ->
  pool s2 = [length (ws s)] /\ nth_error (ws s4) (length (ws s)) = Some (WRun (next_task s)).
Proof. exact restart_works. Qed.
Print Assumptions C08_restart.

(* the number of worker threads never exceeds the configured maximum *)
Theorem C08_pool_bounded : forall maxw pr ls,
  (0 <= maxw)%Z -> (Zlen (pool (prun true (pinit maxw pr) ls)) <= maxw)%Z.
Proof. exact pool_bounded. Qed.
Print Assumptions C08_pool_bounded.

(* The pinned upstream stop() (flag written without the queue mutex) is refuted: a reachable
   state inside stop() in which no step is enabled — the worker sleeps forever, join never returns *)
Theorem C08_upstream_refuted : exists pr ls s,
  pexec false (pinit 1 pr) ls = Some s /\ in_stop s = true /\ can_step false s = false.
Proof. exact upstream_stop_deadlock. Qed.
Print Assumptions C08_upstream_refuted.

Example C08_nonvacuous :
  let s := prun true (pinit 2 [OStart; OStop]) [LO None; LO None; LO None; LW 0; LW 0; LW 0; LW 0; LW 0; LO None; LW 0] in
  (in_stop s, map wst_z (ws s), can_step true s, pmeasure s) = (true, [3%Z], true, 4 + 2 + 1 + 5)%Z.
Proof. vm_compute. reflexivity. Qed.

(* A premise of the micro-step model (a worker's look at the queue and its removal of the front task are one step, as
   are the owner's push and clear), checked on the access rows the translator extracted from the CURRENT source
   (TulzGen.Accesses, regenerated on every run): every access to the task queue is made holding m_queueMutex, hence
   no two threads ever touch the queue at the same time (AtomicSections.v). *)
Theorem C08_queue_sections : forall n os t1 t2 a1 a2,
  t1 <> t2 -> In a1 extracted_accesses -> In a2 extracted_accesses ->
  RaceModel.a_comp a1 = pool_component -> RaceModel.a_comp a2 = pool_component ->
  RaceModel.a_field a1 = pool_queue -> RaceModel.a_field a2 = pool_queue ->
  RaceModel.can_perform (RaceModel.lrun (RaceModel.linit n) os) t1 a1 ->
  RaceModel.can_perform (RaceModel.lrun (RaceModel.linit n) os) t2 a2 -> False.
Proof. apply (AtomicSections.field_exclusive pool_component pool_queue pool_queue_mutex). vm_compute. reflexivity. Qed.
Print Assumptions C08_queue_sections.
