(* PoolModel.v — executable model of src/threading/ThreadPool.cpp with non-expiring workers
   (definitions only).

   Threads: one owner executing a program of start / clear / stop calls, and the worker threads
   the pool spawns. Every step is one critical section or one condition-variable event:

   worker  WStart  thread created, not yet running
           WWant   about to take m_queueMutex (first time, or after finishing a task)
           WPre    evaluated the wait predicate (false) and is about to block: it still HOLDS
                   m_queueMutex and is not yet in the wait set — the window of a lost wake-up
           WWait n blocked in m_condition.wait (n = notified)
           WRun k  inside run() of task k; WEnd k: run() returned, task not yet deleted
           WFin    left PooledRunnable::run (m_isFinished set); WGone: joined and deleted
   owner   OStart: [push under m_queueMutex + spawn under m_poolMutex] ; notify_one
           OClear: delete the queued tasks under m_queueMutex
           OStop:  write m_isRunning ; notify_all ; join + delete every worker ; clear()
   m_queueMutex is held across steps only by a worker in WPre, so "needs the mutex" = "no worker
   is in WPre". m_poolMutex is only ever taken by the owner.

   [locked] selects the variant: true = the tree's code (stop() writes m_isRunning under
   m_queueMutex), false = the pinned upstream code (plain write before notify_all). *)
From Coq Require Import List ZArith Bool Lia Arith.
From Tulz Require Import Common.
Import ListNotations.

Inductive wst := WStart | WWant | WPre | WWait (notified : bool) | WRun (k : nat) | WEnd (k : nat) | WFin | WGone.

Inductive oop := OStart | OClear | OStop.

Inductive opc :=
| OIdle
| OS_push (k : nat)            (* start(): about to take m_queueMutex to enqueue task k *)
| OS_notify (k : nat)          (* start(): about to notify_one *)
| OC_clear                     (* clear(): about to take m_queueMutex *)
| OP_flag                      (* stop(): about to take m_queueMutex to write the flag (locked variant) *)
| OP_notify                    (* stop(): about to notify_all *)
| OP_join (rest : list nat)    (* stop(): about to join the head of rest *)
| OP_clear.                    (* stop(): about to take m_queueMutex for the final clear() *)

Inductive pevent :=
| EvBegin (k w : nat)          (* worker w entered run() of task k *)
| EvEnd (k w : nat)            (* it returned *)
| EvDelete (k : nat)           (* task k was destroyed *)
| EvSpawn (w : nat)
| EvStopReturned.

Record pstate := mkP {
  queue : list nat;            (* m_queue: task ids, front first *)
  running : bool;              (* m_isRunning *)
  pool : list nat;             (* m_pool: worker ids *)
  ws : list wst;               (* every worker ever created *)
  own : opc;
  prog : list oop;             (* the owner's remaining program *)
  next_task : nat;
  maxw : Z;                    (* m_maxThreadCount (negative = unlimited) *)
  evs : list pevent            (* newest first *)
}.

Definition pinit (maxw : Z) (prog : list oop) : pstate := mkP [] true [] [] OIdle prog 0 maxw [].

Inductive plabel :=
| LW (w : nat)                 (* worker w takes its next step *)
| LSpur (w : nat)              (* spurious wake-up of a blocked worker *)
| LO (pick : option nat).      (* the owner takes its next step; at notify_one, the waiter it wakes *)

Definition mutex_free (s : pstate) : bool :=
  forallb (fun x => match x with WPre => false | _ => true end) (ws s).

Definition set_w (s : pstate) (w : nat) (x : wst) : pstate :=
  mkP (queue s) (running s) (pool s) (list_set (ws s) w x) (own s) (prog s) (next_task s) (maxw s) (evs s).
Definition add_ev (s : pstate) (e : pevent) : pstate :=
  mkP (queue s) (running s) (pool s) (ws s) (own s) (prog s) (next_task s) (maxw s) (e :: evs s).
Definition set_own (s : pstate) (o : opc) : pstate :=
  mkP (queue s) (running s) (pool s) (ws s) o (prog s) (next_task s) (maxw s) (evs s).

(* the wait predicate and the two ifs after it, evaluated under m_queueMutex *)
Definition eval_pred (s : pstate) (w : nat) : pstate :=
  if negb (running s) then set_w s w WFin
  else match queue s with
       | k :: q => add_ev (mkP q (running s) (pool s) (list_set (ws s) w (WRun k)) (own s) (prog s) (next_task s) (maxw s) (evs s))
                          (EvBegin k w)
       | [] => set_w s w WPre
       end.

Definition step_worker (s : pstate) (w : nat) : option pstate :=
  match nth_error (ws s) w with
  | Some WStart => Some (set_w s w WWant)
  | Some WWant => if mutex_free s then Some (eval_pred s w) else None
  | Some WPre => Some (set_w s w (WWait false))
  | Some (WWait true) => if mutex_free s then Some (eval_pred s w) else None
  | Some (WRun k) => Some (add_ev (set_w s w (WEnd k)) (EvEnd k w))
  | Some (WEnd k) => Some (add_ev (set_w s w WWant) (EvDelete k))
  | _ => None
  end.

Definition is_waiting_unnotified (x : wst) : bool := match x with WWait false => true | _ => false end.

Definition delete_all (s : pstate) : pstate :=
  mkP [] (running s) (pool s) (ws s) (own s) (prog s) (next_task s) (maxw s) (rev (map EvDelete (queue s)) ++ evs s).

Definition step_owner (locked : bool) (s : pstate) (pick : option nat) : option pstate :=
  match own s with
  | OIdle =>
      match prog s with
      | [] => None
      | OStart :: p =>
          Some (mkP (queue s) true (pool s) (ws s) (OS_push (next_task s)) p (S (next_task s)) (maxw s) (evs s))
      | OClear :: p => Some (mkP (queue s) (running s) (pool s) (ws s) OC_clear p (next_task s) (maxw s) (evs s))
      | OStop :: p =>
          if locked then Some (mkP (queue s) (running s) (pool s) (ws s) OP_flag p (next_task s) (maxw s) (evs s))
          else Some (mkP (queue s) false (pool s) (ws s) OP_notify p (next_task s) (maxw s) (evs s))
      end
  | OS_push k =>
      if mutex_free s then
        let q := queue s ++ [k] in
        let all_running := forallb (fun w => match nth_error (ws s) w with Some WFin => false | _ => true end) (pool s) in
        if ((Zlen (pool s) <? maxw s) || (maxw s <? 0))%Z && all_running then
          let w := length (ws s) in
          Some (mkP q (running s) (pool s ++ [w]) (ws s ++ [WStart]) (OS_notify k) (prog s) (next_task s) (maxw s) (EvSpawn w :: evs s))
        else Some (mkP q (running s) (pool s) (ws s) (OS_notify k) (prog s) (next_task s) (maxw s) (evs s))
      else None
  | OS_notify k =>
      match pick with
      | Some w => match nth_error (ws s) w with
                  | Some (WWait false) => Some (set_own (set_w s w (WWait true)) OIdle)
                  | _ => None
                  end
      | None => if existsb is_waiting_unnotified (ws s) then None else Some (set_own s OIdle)
      end
  | OC_clear => if mutex_free s then Some (set_own (delete_all s) OIdle) else None
  | OP_flag =>
      if mutex_free s then Some (mkP (queue s) false (pool s) (ws s) OP_notify (prog s) (next_task s) (maxw s) (evs s))
      else None
  | OP_notify =>
      let ws' := map (fun x => match x with WWait _ => WWait true | _ => x end) (ws s) in
      match pool s with
      | [] => Some (mkP (queue s) (running s) [] ws' OP_clear (prog s) (next_task s) (maxw s) (evs s))
      | _ => Some (mkP (queue s) (running s) (pool s) ws' (OP_join (pool s)) (prog s) (next_task s) (maxw s) (evs s))
      end
  | OP_join (w :: rest) =>
      match nth_error (ws s) w with
      | Some WFin =>
          match rest with
          | [] => Some (mkP (queue s) (running s) [] (list_set (ws s) w WGone) OP_clear (prog s) (next_task s) (maxw s) (evs s))
          | _ => Some (set_own (set_w s w WGone) (OP_join rest))
          end
      | _ => None
      end
  | OP_join [] => None
  | OP_clear => if mutex_free s then Some (add_ev (set_own (delete_all s) OIdle) EvStopReturned) else None
  end.

Definition pstep (locked : bool) (s : pstate) (l : plabel) : option pstate :=
  match l with
  | LW w => step_worker s w
  | LSpur w => match nth_error (ws s) w with
               | Some (WWait false) => Some (set_w s w (WWait true))
               | _ => None
               end
  | LO pick => step_owner locked s pick
  end.

(* labels that are not enabled are skipped *)
Fixpoint prun (locked : bool) (s : pstate) (ls : list plabel) : pstate :=
  match ls with
  | [] => s
  | l :: rest => match pstep locked s l with Some s' => prun locked s' rest | None => prun locked s rest end
  end.
Fixpoint pexec (locked : bool) (s : pstate) (ls : list plabel) : option pstate :=
  match ls with
  | [] => Some s
  | l :: rest => match pstep locked s l with Some s' => pexec locked s' rest | None => None end
  end.

(* all labels over the existing workers (the notify pick ranges over workers too) *)
Definition plabels (s : pstate) : list plabel :=
  LO None :: flat_map (fun w => [LW w; LO (Some w)]) (seq 0 (length (ws s))).
Definition can_step (locked : bool) (s : pstate) : bool :=
  existsb (fun l => match pstep locked s l with Some _ => true | None => false end) (plabels s).

(* ---- runner for the correspondence check ------------------------------------------------------ *)
Local Open Scope Z_scope.

Definition wst_z (x : wst) : Z :=
  match x with
  | WStart => 0 | WWant => 1 | WPre => 2 | WWait false => 3 | WWait true => 4
  | WRun k => 100 + Z.of_nat k | WEnd k => 200 + Z.of_nat k | WFin => 5 | WGone => 6
  end.
Definition opc_z (o : opc) : Z :=
  match o with
  | OIdle => 0 | OS_push _ => 1 | OS_notify _ => 2 | OC_clear => 3 | OP_flag => 4 | OP_notify => 5
  | OP_join _ => 6 | OP_clear => 7
  end.
Definition pevent_z (e : pevent) : list Z :=
  match e with
  | EvBegin k w => [1; Z.of_nat k; Z.of_nat w]
  | EvEnd k w => [2; Z.of_nat k; Z.of_nat w]
  | EvDelete k => [3; Z.of_nat k]
  | EvSpawn w => [4; Z.of_nat w]
  | EvStopReturned => [5]
  end.

Definition plabel_of (l : list Z) : option plabel :=
  match l with
  | [0; w] => if 0 <=? w then Some (LW (Z.to_nat w)) else None
  | [1; w] => if 0 <=? w then Some (LSpur (Z.to_nat w)) else None
  | [2] => Some (LO None)
  | [2; w] => if 0 <=? w then Some (LO (Some (Z.to_nat w))) else None
  | _ => None
  end.

Definition oop_of (z : Z) : option oop :=
  match z with 0 => Some OStart | 1 => Some OClear | 2 => Some OStop | _ => None end.

Fixpoint somes {A} (l : list (option A)) : list A :=
  match l with [] => [] | Some x :: t => x :: somes t | None :: t => somes t end.

(* after every label: enabled flag, owner state, worker states, queue, the new events (oldest first) *)
Fixpoint pool_run_lines (locked : bool) (s : pstate) (ls : list (list Z)) : list (list Z) :=
  match ls with
  | [] => []
  | l :: rest =>
      match plabel_of l with
      | None => [PRE] :: pool_run_lines locked s rest
      | Some lab =>
          match pstep locked s lab with
          | Some s' =>
              ([1; opc_z (own s'); b2z (running s')] ++ [SEP] ++ map wst_z (ws s') ++ [SEP] ++ map Z.of_nat (queue s') ++ [SEP] ++
               flat_map pevent_z (rev (firstn (length (evs s') - length (evs s)) (evs s'))))
              :: pool_run_lines locked s' rest
          | None =>
              ([0; opc_z (own s); b2z (running s)] ++ [SEP] ++ map wst_z (ws s) ++ [SEP] ++ map Z.of_nat (queue s) ++ [SEP])
              :: pool_run_lines locked s rest
          end
      end
  end.

(* case: header [variant; maxThreadCount], the owner's program as one line, then labels *)
Definition pool_run (case : list (list Z)) : list (list Z) :=
  match case with
  | [v; mx] :: pr :: ls => [] :: [] :: pool_run_lines (negb (v =? 0)) (pinit mx (somes (map oop_of pr))) ls
  | _ => [[PRE]]
  end.
