(* ArrayInv.v — the predicates the Array theorems are stated with (definitions only). *)
From Coq Require Import List ZArith Bool Lia.
From Tulz Require Import Common RingModel RingInv ArrayModel.
Import ListNotations.
Local Open Scope Z_scope.

(* well-formed array: the allocation has exactly m_size slots; for class types every slot
   holds an element *)
Definition awf (cls : bool) (a : arr Z) : Prop :=
  0 <= asize a /\ Zlen (adata a) = asize a /\
  (cls = true -> forallb is_live (adata a) = true) /\
  Forall (fun s => s <> Shell) (adata a).

Definition abs_slot (s : slot Z) : option Z := match s with Live v => Some v | _ => None end.
Definition abs_arr (a : arr Z) : sarr := map abs_slot (adata a).
Definition abs_aenv (e : aenv) : senv := map (option_map abs_arr) e.
Definition awf_env (cls : bool) (e : aenv) : Prop :=
  length e = 3%nat /\ Forall (fun o => match o with Some a => awf cls a | None => True end) e.

Definition alive_items (e : aenv) : list Z :=
  flat_map (fun o => match o with Some a => slot_vals (adata a) | None => [] end) e.

(* values written into an existing element by copy assignment (a[i] = v) *)
Definition assigned (evs : list (event Z)) : list Z :=
  flat_map (fun e => match e with EAssign _ v => [v] | _ => [] end) evs.

Definition a_all_events (t : list (aoutcome * list Z)) : list (event Z) :=
  flat_map (fun x => match fst x with Some (_, evs) => evs | None => [] end) t.

Definition view_arr (x : aoutcome * list Z) : option (list Z) * list Z := (option_map fst (fst x), snd x).
Definition view_sarr (x : soutcome * list Z) : option (list Z) * list Z :=
  (option_map (fun y => fst (fst y)) (fst x), snd x).

Definition a_step_lifetimes_ok (x : aoutcome * list Z) (y : soutcome * list Z) : Prop :=
  match fst x, fst y with
  | Some (_, evs), Some (_, ctor, rem) =>
      forallb ev_ok evs = true /\ constructed evs = ctor /\ removed evs = rem /\ moved_out evs = []
  | None, None => True
  | _, _ => False
  end.
