From Coq Require Import List ZArith Bool Lia Arith.
From Tulz Require Import Common SubjectModel SubjectSpec.
Import ListNotations.
Local Open Scope Z_scope.

(* ---- generic helpers --------------------------------------------------------------------- *)

Lemma a_notify_S : forall scripts f w k arg,
  a_notify scripts (S f) w k arg = a_notify_body scripts (a_notify scripts f) w k arg.
Proof. reflexivity. Qed.

Lemma Forall_list_set : forall {A} (P : A -> Prop) (l : list A) k x,
  Forall P l -> P x -> Forall P (list_set l k x).
Proof.
  intros A P l. induction l as [|h t IH]; intros k x Hl Hx.
  - destruct k; cbn [list_set]; constructor.
  - inversion Hl as [|h' t' Hh Ht]; subst. destruct k; cbn [list_set].
    + constructor; assumption.
    + constructor; [assumption | apply IH; assumption].
Qed.

Lemma Forall_nth_error : forall {A} (P : A -> Prop) (l : list A) k x,
  Forall P l -> nth_error l k = Some x -> P x.
Proof.
  intros A P l k x HF Hn. apply nth_error_In in Hn.
  exact (proj1 (Forall_forall P l) HF x Hn).
Qed.

Lemma Forall_of_nth_error : forall {A} (P : A -> Prop) (l : list A),
  (forall k x, nth_error l k = Some x -> P x) -> Forall P l.
Proof.
  intros A P l H. apply Forall_forall. intros x Hin.
  apply In_nth_error in Hin. destruct Hin as [k Hk]. exact (H k x Hk).
Qed.

Lemma Forall_filter_keep : forall {A} (P : A -> Prop) (f : A -> bool) (l : list A),
  Forall P l -> Forall P (filter f l).
Proof.
  intros A P f l HF. apply Forall_forall. intros x Hin.
  apply filter_In in Hin. destruct Hin as [Hin _].
  exact (proj1 (Forall_forall P l) HF x Hin).
Qed.

Lemma aget_some : forall w k s, aget w k = Some s -> nth_error (asubjects w) k = Some s.
Proof.
  intros w k s H. unfold aget in H.
  destruct (nth_error (asubjects w) k) as [s0|] eqn:Hn; [|discriminate].
  destruct (acounter s0 <? 0); [discriminate|]. inversion H; subst; reflexivity.
Qed.

Lemma bind_ok : forall {A B} (r : res A) (f : A -> res B) b,
  bind r f = Ok b -> exists a, r = Ok a /\ f a = Ok b.
Proof.
  intros A B r f b H. destruct r as [a|e]; cbn [bind] in H; [|discriminate].
  exists a; split; [reflexivity | assumption].
Qed.

(* ---- spec_never_again ---------------------------------------------------------------------- *)

Section NeverAgain.
  Variable o : nat.

  Definition na_rec (r : arec) : Prop := a_obs r = o -> a_valid r = false.
  Definition na_subj (s : asubj) : Prop := Forall na_rec (subs s).
  Definition NA_P (aw : aworld) : Prop := (o < anext aw)%nat /\ Forall na_subj (asubjects aw).
  Definition NA_ext (aw aw' : aworld) : Prop :=
    exists new, acalls aw' = new ++ acalls aw /\ forall arg, ~ In (o, arg) new.
  Definition NA_good (aw aw' : aworld) : Prop := NA_P aw -> NA_P aw' /\ NA_ext aw aw'.

  Lemma NA_ext_same : forall aw aw', acalls aw' = acalls aw -> NA_ext aw aw'.
  Proof. intros aw aw' H. exists []. split; [rewrite H; reflexivity | intros arg []]. Qed.

  Lemma NA_ext_trans : forall a b c, NA_ext a b -> NA_ext b c -> NA_ext a c.
  Proof.
    intros a b c [n1 [E1 N1]] [n2 [E2 N2]]. exists (n2 ++ n1). split.
    - rewrite E2, E1. apply app_assoc.
    - intros arg Hin. apply in_app_or in Hin. destruct Hin as [Hin|Hin].
      + exact (N2 arg Hin).
      + exact (N1 arg Hin).
  Qed.

  Lemma NA_good_refl : forall aw, NA_good aw aw.
  Proof. intros aw HP. split; [assumption | apply NA_ext_same; reflexivity]. Qed.

  Lemma NA_good_trans : forall a b c, NA_good a b -> NA_good b c -> NA_good a c.
  Proof.
    intros a b c Hab Hbc HP. destruct (Hab HP) as [HPb Eab]. destruct (Hbc HPb) as [HPc Ebc].
    split; [assumption | eapply NA_ext_trans; eassumption].
  Qed.

  Lemma na_subj_remove : forall s sid, na_subj s -> na_subj (aremove s sid).
  Proof. intros s sid H. unfold na_subj, aremove; cbn [subs]. apply Forall_filter_keep; exact H. Qed.

  Lemma na_subj_update : forall s sid f,
    (forall r, a_obs (f r) = a_obs r) ->
    (forall r, a_valid r = false -> a_valid (f r) = false) ->
    na_subj s -> na_subj (aupdate s sid f).
  Proof.
    intros s sid f Hobs Hval H. unfold na_subj, aupdate in *; cbn [subs].
    apply Forall_forall. intros r Hin. apply in_map_iff in Hin. destruct Hin as [r0 [Heq Hin0]].
    pose proof (proj1 (Forall_forall _ _) H r0 Hin0) as Hr0. unfold na_rec in *.
    subst r. destruct (a_sid r0 =? sid).
    - rewrite Hobs. intro Ho. apply Hval. apply Hr0. exact Ho.
    - exact Hr0.
  Qed.

  (* a world that differs from aw by replacing subject k, keeping next id and calls *)
  Lemma NA_good_set : forall aw k s' hs,
    (NA_P aw -> na_subj s') ->
    NA_good aw (mkAW (list_set (asubjects aw) k s') hs (anext aw) (acalls aw)).
  Proof.
    intros aw k s' hs Hs HP. pose proof (Hs HP) as Hs'. destruct HP as [Hlt HF]. split.
    - split; cbn [anext asubjects]; [exact Hlt | apply Forall_list_set; assumption].
    - apply NA_ext_same; reflexivity.
  Qed.

  Lemma NA_good_remove : forall aw k s sid hs,
    nth_error (asubjects aw) k = Some s ->
    NA_good aw (mkAW (list_set (asubjects aw) k (aremove s sid)) hs (anext aw) (acalls aw)).
  Proof.
    intros aw k s sid hs Hn. apply NA_good_set. intros [_ HF].
    apply na_subj_remove. exact (Forall_nth_error _ _ _ _ HF Hn).
  Qed.

  Lemma NA_good_update : forall aw k s sid f,
    nth_error (asubjects aw) k = Some s ->
    (forall r, a_obs (f r) = a_obs r) ->
    (forall r, a_valid r = false -> a_valid (f r) = false) ->
    NA_good aw (aset aw k (aupdate s sid f)).
  Proof.
    intros aw k s sid f Hn Hobs Hval. unfold aset. apply NA_good_set. intros [_ HF].
    apply na_subj_update; [assumption | assumption |]. exact (Forall_nth_error _ _ _ _ HF Hn).
  Qed.

  Lemma NA_good_unsubscribe : forall aw k sid h, NA_good aw (a_unsubscribe aw k sid h).
  Proof.
    intros aw k sid h. unfold a_unsubscribe.
    destruct (nth_error (asubjects aw) k) as [s|] eqn:Hn.
    - apply NA_good_remove; assumption.
    - apply NA_good_refl.
  Qed.

  Section WithRec.
    Variable scripts : list (list action).
    Variable rec : aworld -> nat -> Z -> res aworld.
    Hypothesis Hrec : forall aw k arg aw', rec aw k arg = Ok aw' -> NA_good aw aw'.

    Lemma NA_do_action : forall self w a w',
      a_do_action rec self w a = Ok w' -> NA_good w w'.
    Proof.
      intros self w a w' H. destruct a; cbn [a_do_action] in H.
      - (* ASub *)
        destruct (aget w k) as [s|] eqn:Hg.
        + inversion H; subst w'; clear H. apply aget_some in Hg. intros [Hlt HF]. split.
          * split; cbn [anext asubjects]; [lia|]. apply Forall_list_set; [assumption|].
            unfold na_subj; cbn [subs]. apply Forall_app. split.
            -- exact (Forall_nth_error _ _ _ _ HF Hg).
            -- constructor; [|constructor]. unfold na_rec; cbn [a_obs a_valid]. intro; lia.
          * apply NA_ext_same; reflexivity.
        + inversion H; subst; apply NA_good_refl.
      - (* AUnsub *)
        destruct (ahandle_target w h) as [[[k sid] r]|].
        + inversion H; subst; apply NA_good_unsubscribe.
        + inversion H; subst; apply NA_good_refl.
      - (* AMute *)
        destruct (ahandle_target w h) as [[[k sid] r]|]; [|inversion H; subst; apply NA_good_refl].
        destruct (nth_error (asubjects w) k) as [s|] eqn:Hn; [|inversion H; subst; apply NA_good_refl].
        inversion H; subst; clear H. apply NA_good_update; [assumption | reflexivity | intros r0 Hr0; exact Hr0].
      - (* AUnmute *)
        destruct (ahandle_target w h) as [[[k sid] r]|]; [|inversion H; subst; apply NA_good_refl].
        destruct (nth_error (asubjects w) k) as [s|] eqn:Hn; [|inversion H; subst; apply NA_good_refl].
        inversion H; subst; clear H. apply NA_good_update; [assumption | reflexivity | intros r0 Hr0; exact Hr0].
      - (* AInval *)
        destruct (ahandle_target w h) as [[[k sid] r]|]; [|inversion H; subst; apply NA_good_refl].
        destruct (nth_error (asubjects w) k) as [s|] eqn:Hn; [|inversion H; subst; apply NA_good_refl].
        inversion H; subst; clear H. apply NA_good_update; [assumption | reflexivity | reflexivity].
      - (* AInvalSelf *)
        destruct self as [o'|]; [|inversion H; subst; apply NA_good_refl].
        inversion H; subst; clear H. intros [Hlt HF]. split.
        + split; cbn [anext asubjects]; [exact Hlt|].
          apply Forall_map. eapply Forall_impl; [|exact HF].
          intros s Hs. unfold na_subj in *; cbn [subs].
          apply Forall_map. eapply Forall_impl; [|exact Hs].
          intros r Hr. unfold na_rec in *. destruct (Nat.eqb (a_obs r) o'); [reflexivity | exact Hr].
        + apply NA_ext_same; reflexivity.
      - (* ANotify *)
        destruct (aget w k) as [s|].
        + eapply Hrec; eassumption.
        + inversion H; subst; apply NA_good_refl.
    Qed.

    Lemma NA_run_script : forall self acts w w',
      a_run_script rec self w acts = Ok w' -> NA_good w w'.
    Proof.
      intros self acts. induction acts as [|a rest IH]; intros w w' H; cbn [a_run_script] in H.
      - inversion H; subst; apply NA_good_refl.
      - apply bind_ok in H. destruct H as [w1 [H1 H2]].
        eapply NA_good_trans; [eapply NA_do_action; eassumption | apply IH; assumption].
    Qed.

    Lemma NA_good_call : forall w k s sid r arg,
      nth_error (asubjects w) k = Some s -> afind s sid = Some r -> a_valid r = true ->
      NA_good w (mkAW (asubjects w) (ahandles w) (anext w) ((a_obs r, arg) :: acalls w)).
    Proof.
      intros w k s sid r arg Hn Hf Hv HP. split.
      - destruct HP as [Hlt HF]. split; cbn [anext asubjects]; assumption.
      - exists [(a_obs r, arg)]. split; [reflexivity|].
        intros arg' [Heq|[]]. inversion Heq as [[Ho Ha]].
        destruct HP as [_ HF]. pose proof (Forall_nth_error _ _ _ _ HF Hn) as Hs.
        unfold afind in Hf. apply find_some in Hf. destruct Hf as [Hin _].
        pose proof (proj1 (Forall_forall _ _) Hs r Hin) as Hr. unfold na_rec in Hr.
        rewrite (Hr Ho) in Hv. discriminate.
    Qed.

    Lemma NA_round : forall k arg snap w w',
      a_round scripts rec w k arg snap = Ok w' -> NA_good w w'.
    Proof.
      intros k arg snap. induction snap as [|sid rest IH]; intros w w' H; cbn [a_round] in H.
      - inversion H; subst; apply NA_good_refl.
      - destruct (nth_error (asubjects w) k) as [s|] eqn:Hn; [|discriminate].
        destruct (afind s sid) as [r|] eqn:Hf; [|apply IH; assumption].
        apply bind_ok in H. destruct H as [w1 [H1 H2]].
        assert (Hw1 : NA_good w w1).
        { destruct (a_valid r) eqn:Hv; cbn [andb] in H1.
          - destruct (negb (a_muted r)).
            + eapply NA_good_trans; [eapply NA_good_call with (arg := arg); eassumption|].
              eapply NA_run_script; eassumption.
            + inversion H1; subst; apply NA_good_refl.
          - inversion H1; subst; apply NA_good_refl. }
        eapply NA_good_trans; [exact Hw1|]. clear Hw1 H1.
        destruct (nth_error (asubjects w1) k) as [s1|] eqn:Hn1; [|discriminate].
        destruct (afind s1 sid) as [r1|]; [|apply IH; assumption].
        destruct (a_valid r1); [apply IH; assumption|].
        eapply NA_good_trans; [|apply IH; eassumption].
        unfold aset. apply NA_good_remove; assumption.
    Qed.

    Lemma NA_notify_body : forall w k arg w',
      a_notify_body scripts rec w k arg = Ok w' -> NA_good w w'.
    Proof.
      intros w k arg w' H. unfold a_notify_body in H.
      destruct (nth_error (asubjects w) k) as [s|]; [|discriminate].
      eapply NA_round; eassumption.
    Qed.
  End WithRec.

  Lemma NA_notify : forall scripts fuel w k arg w',
    a_notify scripts fuel w k arg = Ok w' -> NA_good w w'.
  Proof.
    intros scripts fuel. induction fuel as [|f IH]; intros w k arg w' H.
    - discriminate.
    - rewrite a_notify_S in H. eapply NA_notify_body; [exact IH | exact H].
  Qed.

  Lemma NA_step : forall scripts fuel w op w' ret,
    a_step scripts fuel w op = Ok (w', ret) -> NA_good w w'.
  Proof.
    intros scripts fuel w op w' ret H. destruct op as [a|k h|d s|k]; cbn [a_step] in H.
    - apply bind_ok in H. destruct H as [w1 [H1 H2]]. inversion H2; subst.
      eapply NA_do_action; [apply NA_notify | exact H1].
    - destruct (ahandle_target w h) as [[[k' sid] r]|].
      + destruct (Nat.eqb k k'); inversion H; subst; [apply NA_good_unsubscribe | apply NA_good_refl].
      + inversion H; subst; apply NA_good_refl.
    - destruct (nth_error (ahandles w) d) as [hd|]; [|discriminate].
      destruct (nth_error (ahandles w) s) as [hs|]; [|discriminate].
      destruct (Nat.eqb d s); inversion H; subst; [apply NA_good_refl|].
      intros HP. split; [exact HP | apply NA_ext_same; reflexivity].
    - destruct (nth_error (asubjects w) k) as [s|]; [|discriminate].
      inversion H; subst. unfold aset. apply NA_good_set. intros _. constructor.
  Qed.

  Lemma NA_exec : forall scripts fuel ops w w',
    a_exec scripts fuel w ops = Some w' -> NA_good w w'.
  Proof.
    intros scripts fuel ops. induction ops as [|op rest IH]; intros w w' H; cbn [a_exec] in H.
    - inversion H; subst; apply NA_good_refl.
    - destruct (negb (a_refs_ok w op)); [apply IH; assumption|].
      destruct (a_step scripts fuel w op) as [[w1 ret]|e] eqn:Hs; [|discriminate].
      eapply NA_good_trans; [eapply NA_step; eassumption | apply IH; assumption].
  Qed.
End NeverAgain.

Lemma spec_never_again : forall scripts fuel nsubj ops1 ops2 w1 w2 o,
  a_exec scripts fuel (aworld0 nsubj) ops1 = Some w1 ->
  a_exec scripts fuel w1 ops2 = Some w2 ->
  (o < anext w1)%nat ->
  (forall k s r, nth_error (asubjects w1) k = Some s -> In r (subs s) -> a_obs r = o -> a_valid r = false) ->
  exists new, acalls w2 = new ++ acalls w1 /\ forall arg, ~ In (o, arg) new.
Proof.
  intros scripts fuel nsubj ops1 ops2 w1 w2 o _ H2 Hlt Hinv.
  assert (HP : NA_P o w1).
  { split; [exact Hlt|]. apply Forall_of_nth_error. intros k s Hn.
    unfold na_subj. apply Forall_forall. intros r Hin Ho. exact (Hinv k s r Hn Hin Ho). }
  destruct (NA_exec o scripts fuel ops2 w1 w2 H2 HP) as [_ Hext]. exact Hext.
Qed.

(* ---- spec_notify_delivers ------------------------------------------------------------------ *)

Lemma list_set_length : forall {A} (l : list A) k x, length (list_set l k x) = length l.
Proof.
  intros A l. induction l as [|h t IH]; intros k x; destruct k; cbn [list_set length]; auto.
Qed.

Lemma nth_error_list_set_eq : forall {A} (l : list A) k x y,
  nth_error l k = Some y -> nth_error (list_set l k x) k = Some x.
Proof.
  intros A l. induction l as [|h t IH]; intros k x y H; destruct k; cbn [list_set nth_error] in *;
    try discriminate.
  - reflexivity.
  - eapply IH; eassumption.
Qed.

Lemma list_set_twice : forall {A} (l : list A) k x y, list_set (list_set l k x) k y = list_set l k y.
Proof.
  intros A l. induction l as [|h t IH]; intros k x y; destruct k; cbn [list_set]; try reflexivity.
  f_equal. apply IH.
Qed.

Lemma list_set_same : forall {A} (l : list A) k x, nth_error l k = Some x -> list_set l k x = l.
Proof.
  intros A l. induction l as [|h t IH]; intros k x H; destruct k; cbn [list_set nth_error] in *;
    try discriminate.
  - inversion H; subst; reflexivity.
  - f_equal. apply IH; assumption.
Qed.

Definition swf (s : asubj) : Prop :=
  NoDup (map a_sid (subs s)) /\ forall r, In r (subs s) -> a_sid r < acounter s.
Definition awf (aw : aworld) : Prop := Forall swf (asubjects aw).

Lemma NoDup_map_filter : forall {A B} (g : A -> B) (f : A -> bool) (l : list A),
  NoDup (map g l) -> NoDup (map g (filter f l)).
Proof.
  intros A B g f l. induction l as [|h t IH]; intros H; cbn [filter map] in *.
  - constructor.
  - inversion H as [|x xs Hnin Hnd]; subst. destruct (f h); cbn [map].
    + constructor; [|apply IH; assumption].
      intro Hin. apply Hnin. apply in_map_iff in Hin. destruct Hin as [y [Hy Hiny]].
      apply filter_In in Hiny. destruct Hiny as [Hiny _]. apply in_map_iff. exists y; auto.
    + apply IH; assumption.
Qed.

Lemma swf_remove : forall s sid, swf s -> swf (aremove s sid).
Proof.
  intros s sid [Hnd Hlt]. unfold swf, aremove; cbn [subs acounter]. split.
  - apply NoDup_map_filter; assumption.
  - intros r Hin. apply filter_In in Hin. destruct Hin as [Hin _]. apply Hlt; assumption.
Qed.

Lemma map_sid_cond : forall (c : arec -> bool) (f : arec -> arec) (l : list arec),
  (forall r, a_sid (f r) = a_sid r) ->
  map a_sid (map (fun r => if c r then f r else r) l) = map a_sid l.
Proof.
  intros c f l Hf. rewrite map_map. apply map_ext. intros r. destruct (c r); [apply Hf | reflexivity].
Qed.

Lemma swf_cond_map : forall (c : arec -> bool) (f : arec -> arec) l cnt,
  (forall r, a_sid (f r) = a_sid r) ->
  swf (mkAS l cnt) -> swf (mkAS (map (fun r => if c r then f r else r) l) cnt).
Proof.
  intros c f l cnt Hf [Hnd Hlt]. unfold swf in *; cbn [subs acounter] in *. split.
  - rewrite map_sid_cond; assumption.
  - intros r Hin. apply in_map_iff in Hin. destruct Hin as [r0 [Heq Hin0]]. subst r.
    destruct (c r0); [rewrite Hf|]; apply Hlt; assumption.
Qed.

Lemma swf_update : forall s sid f, (forall r, a_sid (f r) = a_sid r) -> swf s -> swf (aupdate s sid f).
Proof.
  intros s sid f Hf H. unfold aupdate. destruct s as [l cnt]; cbn [subs acounter].
  apply (swf_cond_map (fun r => a_sid r =? sid)); assumption.
Qed.

Lemma NoDup_snoc : forall {A} (l : list A) x, NoDup l -> ~ In x l -> NoDup (l ++ [x]).
Proof.
  intros A l x. induction l as [|h t IH]; intros Hnd Hnin; cbn [app].
  - constructor; [intros [] | constructor].
  - inversion Hnd as [|y ys Hh Ht]; subst. constructor.
    + intro Hin. apply in_app_or in Hin. destruct Hin as [Hin|[Heq|[]]].
      * exact (Hh Hin).
      * apply Hnin. left. symmetry; exact Heq.
    + apply IH; [assumption|]. intro Hin. apply Hnin. right; exact Hin.
Qed.

Lemma swf_sub : forall s r, a_sid r = acounter s -> swf s -> swf (mkAS (subs s ++ [r]) (acounter s + 1)).
Proof.
  intros s r Hr [Hnd Hlt]. unfold swf; cbn [subs acounter]. split.
  - rewrite map_app. cbn [map]. apply NoDup_snoc; [assumption|].
    intro Hin. apply in_map_iff in Hin. destruct Hin as [r0 [Heq Hin0]].
    pose proof (Hlt r0 Hin0). lia.
  - intros r0 Hin. apply in_app_or in Hin. destruct Hin as [Hin|[Heq|[]]].
    + pose proof (Hlt r0 Hin). lia.
    + subst r0. lia.
Qed.

Lemma awf_set : forall aw k s' hs n calls,
  awf aw -> swf s' -> awf (mkAW (list_set (asubjects aw) k s') hs n calls).
Proof.
  intros aw k s' hs n calls Hw Hs. unfold awf in *; cbn [asubjects]. apply Forall_list_set; assumption.
Qed.

Lemma awf_same : forall aw hs n calls, awf aw -> awf (mkAW (asubjects aw) hs n calls).
Proof. intros aw hs n calls H. exact H. Qed.

Lemma awf_nth : forall aw k s, awf aw -> nth_error (asubjects aw) k = Some s -> swf s.
Proof. intros aw k s Hw Hn. exact (Forall_nth_error _ _ _ _ Hw Hn). Qed.

Lemma awf_unsubscribe : forall aw k sid h, awf aw -> awf (a_unsubscribe aw k sid h).
Proof.
  intros aw k sid h Hw. unfold a_unsubscribe.
  destruct (nth_error (asubjects aw) k) as [s|] eqn:Hn; [|exact Hw].
  apply awf_set; [assumption|]. apply swf_remove. eapply awf_nth; eassumption.
Qed.

Lemma awf_update : forall aw k s sid f,
  (forall r, a_sid (f r) = a_sid r) -> nth_error (asubjects aw) k = Some s ->
  awf aw -> awf (aset aw k (aupdate s sid f)).
Proof.
  intros aw k s sid f Hf Hn Hw. unfold aset. apply awf_set; [assumption|].
  apply swf_update; [assumption|]. eapply awf_nth; eassumption.
Qed.

Section WfRec.
  Variable scripts : list (list action).
  Variable rec : aworld -> nat -> Z -> res aworld.
  Hypothesis Hrec : forall aw k arg aw', rec aw k arg = Ok aw' -> awf aw -> awf aw'.

  Lemma awf_do_action : forall self w a w',
    a_do_action rec self w a = Ok w' -> awf w -> awf w'.
  Proof.
    intros self w a w' H Hw. destruct a; cbn [a_do_action] in H.
    - destruct (aget w k) as [s|] eqn:Hg; [|inversion H; subst; exact Hw].
      inversion H; subst w'; clear H. apply aget_some in Hg.
      apply awf_set; [assumption|]. apply swf_sub; [reflexivity|]. eapply awf_nth; eassumption.
    - destruct (ahandle_target w h) as [[[k sid] r]|]; inversion H; subst; [|exact Hw].
      apply awf_unsubscribe; assumption.
    - destruct (ahandle_target w h) as [[[k sid] r]|]; [|inversion H; subst; exact Hw].
      destruct (nth_error (asubjects w) k) as [s|] eqn:Hn; [|inversion H; subst; exact Hw].
      inversion H; subst; clear H. apply awf_update; [reflexivity | assumption | assumption].
    - destruct (ahandle_target w h) as [[[k sid] r]|]; [|inversion H; subst; exact Hw].
      destruct (nth_error (asubjects w) k) as [s|] eqn:Hn; [|inversion H; subst; exact Hw].
      inversion H; subst; clear H. apply awf_update; [reflexivity | assumption | assumption].
    - destruct (ahandle_target w h) as [[[k sid] r]|]; [|inversion H; subst; exact Hw].
      destruct (nth_error (asubjects w) k) as [s|] eqn:Hn; [|inversion H; subst; exact Hw].
      inversion H; subst; clear H. apply awf_update; [reflexivity | assumption | assumption].
    - destruct self as [o'|]; [|inversion H; subst; exact Hw].
      inversion H; subst; clear H. unfold awf in *; cbn [asubjects].
      apply Forall_map. eapply Forall_impl; [|exact Hw].
      intros s Hs. destruct s as [l cnt]; cbn [subs acounter].
      apply (swf_cond_map (fun r => Nat.eqb (a_obs r) o')); [reflexivity | assumption].
    - destruct (aget w k) as [s|]; [|inversion H; subst; exact Hw].
      eapply Hrec; eassumption.
  Qed.

  Lemma awf_run_script : forall self acts w w',
    a_run_script rec self w acts = Ok w' -> awf w -> awf w'.
  Proof.
    intros self acts. induction acts as [|a rest IH]; intros w w' H Hw; cbn [a_run_script] in H.
    - inversion H; subst; exact Hw.
    - apply bind_ok in H. destruct H as [w1 [H1 H2]].
      eapply IH; [exact H2|]. eapply awf_do_action; eassumption.
  Qed.

  Lemma awf_round : forall k arg snap w w',
    a_round scripts rec w k arg snap = Ok w' -> awf w -> awf w'.
  Proof.
    intros k arg snap. induction snap as [|sid rest IH]; intros w w' H Hw; cbn [a_round] in H.
    - inversion H; subst; exact Hw.
    - destruct (nth_error (asubjects w) k) as [s|] eqn:Hn; [|discriminate].
      destruct (afind s sid) as [r|] eqn:Hf; [|eapply IH; eassumption].
      apply bind_ok in H. destruct H as [w1 [H1 H2]].
      assert (Hw1 : awf w1).
      { destruct (a_valid r && negb (a_muted r)).
        - eapply awf_run_script; [exact H1|]. apply awf_same; exact Hw.
        - inversion H1; subst; exact Hw. }
      clear H1.
      destruct (nth_error (asubjects w1) k) as [s1|] eqn:Hn1; [|discriminate].
      destruct (afind s1 sid) as [r1|]; [|eapply IH; eassumption].
      destruct (a_valid r1); [eapply IH; eassumption|].
      eapply IH; [exact H2|]. unfold aset. apply awf_set; [assumption|].
      apply swf_remove. eapply awf_nth; eassumption.
  Qed.

  Lemma awf_notify_body : forall w k arg w',
    a_notify_body scripts rec w k arg = Ok w' -> awf w -> awf w'.
  Proof.
    intros w k arg w' H Hw. unfold a_notify_body in H.
    destruct (nth_error (asubjects w) k) as [s|]; [|discriminate].
    eapply awf_round; eassumption.
  Qed.
End WfRec.

Lemma awf_notify : forall scripts fuel w k arg w',
  a_notify scripts fuel w k arg = Ok w' -> awf w -> awf w'.
Proof.
  intros scripts fuel. induction fuel as [|f IH]; intros w k arg w' H.
  - discriminate.
  - rewrite a_notify_S in H. eapply awf_notify_body; [exact IH | exact H].
Qed.

Lemma awf_step : forall scripts fuel w op w' ret,
  a_step scripts fuel w op = Ok (w', ret) -> awf w -> awf w'.
Proof.
  intros scripts fuel w op w' ret H Hw. destruct op as [a|k h|d s|k]; cbn [a_step] in H.
  - apply bind_ok in H. destruct H as [w1 [H1 H2]]. inversion H2; subst.
    eapply awf_do_action; [apply awf_notify | exact H1 | exact Hw].
  - destruct (ahandle_target w h) as [[[k' sid] r]|].
    + destruct (Nat.eqb k k'); inversion H; subst; [apply awf_unsubscribe; assumption | exact Hw].
    + inversion H; subst; exact Hw.
  - destruct (nth_error (ahandles w) d) as [hd|]; [|discriminate].
    destruct (nth_error (ahandles w) s) as [hs|]; [|discriminate].
    destruct (Nat.eqb d s); inversion H; subst; [exact Hw|]. apply awf_same; exact Hw.
  - destruct (nth_error (asubjects w) k) as [s|]; [|discriminate].
    inversion H; subst. unfold aset. apply awf_set; [assumption|].
    split; cbn [subs map]; [constructor | intros r []].
Qed.

Lemma awf_exec : forall scripts fuel ops w w',
  a_exec scripts fuel w ops = Some w' -> awf w -> awf w'.
Proof.
  intros scripts fuel ops. induction ops as [|op rest IH]; intros w w' H Hw; cbn [a_exec] in H.
  - inversion H; subst; exact Hw.
  - destruct (negb (a_refs_ok w op)); [eapply IH; eassumption|].
    destruct (a_step scripts fuel w op) as [[w1 ret]|e] eqn:Hs; [|discriminate].
    eapply IH; [exact H|]. eapply awf_step; eassumption.
Qed.

Lemma awf_world0 : forall n, awf (aworld0 n).
Proof.
  intros n. unfold awf, aworld0; cbn [asubjects]. apply Forall_forall. intros s Hin.
  apply repeat_spec in Hin. subst s. split; cbn [subs map]; [constructor | intros r []].
Qed.

(* the loop of one notification round over subscriptions whose scripts are empty *)

Lemma find_sid_app : forall (pre todo : list arec) r,
  ~ In (a_sid r) (map a_sid pre) ->
  find (fun x => a_sid x =? a_sid r) (pre ++ r :: todo) = Some r.
Proof.
  intros pre todo r. induction pre as [|h t IH]; intros Hnin; cbn [app find].
  - rewrite Z.eqb_refl. reflexivity.
  - cbn [map] in Hnin. destruct (a_sid h =? a_sid r) eqn:He.
    + apply Z.eqb_eq in He. exfalso. apply Hnin. left. exact He.
    + apply IH. intro Hin. apply Hnin. right. exact Hin.
Qed.

Lemma filter_sid_notin : forall (l : list arec) sid,
  ~ In sid (map a_sid l) -> filter (fun x => negb (a_sid x =? sid)) l = l.
Proof.
  intros l sid. induction l as [|h t IH]; intros Hnin; cbn [filter].
  - reflexivity.
  - cbn [map] in Hnin. destruct (a_sid h =? sid) eqn:He.
    + apply Z.eqb_eq in He. exfalso. apply Hnin. left. exact He.
    + cbn [negb]. f_equal. apply IH. intro Hin. apply Hnin. right. exact Hin.
Qed.

Lemma filter_sid_remove : forall (pre todo : list arec) r,
  ~ In (a_sid r) (map a_sid pre) -> ~ In (a_sid r) (map a_sid todo) ->
  filter (fun x => negb (a_sid x =? a_sid r)) (pre ++ r :: todo) = pre ++ todo.
Proof.
  intros pre todo r Hp Ht. rewrite filter_app. cbn [filter]. rewrite Z.eqb_refl. cbn [negb].
  rewrite (filter_sid_notin pre _ Hp), (filter_sid_notin todo _ Ht). reflexivity.
Qed.

Definition a_live (r : arec) : bool := a_valid r && negb (a_muted r).

Section Loop.
  Variable scripts : list (list action).
  Variable rec : aworld -> nat -> Z -> res aworld.
  Variable k : nat.
  Variable arg : Z.

  Lemma round_loop : forall todo pre subj hs n calls c,
    NoDup (map a_sid (pre ++ todo)) ->
    (forall r, In r todo -> nth (a_script r) scripts [] = []) ->
    nth_error subj k = Some (mkAS (pre ++ todo) c) ->
    a_round scripts rec (mkAW subj hs n calls) k arg (map a_sid todo) =
    Ok (mkAW (list_set subj k (mkAS (pre ++ filter a_valid todo) c)) hs n
             (rev (map (fun r => (a_obs r, arg)) (filter a_live todo)) ++ calls)).
  Proof.
    intros todo. induction todo as [|r todo IH]; intros pre subj hs n calls c Hnd Hscr Hn.
    - cbn [map a_round filter rev app]. rewrite list_set_same; [reflexivity | exact Hn].
    - cbn [map a_round asubjects]. rewrite Hn.
      assert (Hnin : ~ In (a_sid r) (map a_sid pre) /\ ~ In (a_sid r) (map a_sid todo)).
      { rewrite map_app in Hnd. cbn [map] in Hnd. apply NoDup_remove_2 in Hnd.
        split; intro Hin; apply Hnd; apply in_or_app; [left | right]; exact Hin. }
      destruct Hnin as [Hnp Hnt].
      assert (Hfind : afind (mkAS (pre ++ r :: todo) c) (a_sid r) = Some r).
      { unfold afind; cbn [subs]. apply find_sid_app; exact Hnp. }
      rewrite Hfind.
      assert (Hnd' : NoDup (map a_sid ((pre ++ [r]) ++ todo))).
      { rewrite <- app_assoc. exact Hnd. }
      assert (Hscr' : forall r0, In r0 todo -> nth (a_script r0) scripts [] = []).
      { intros r0 Hin. apply Hscr. right; exact Hin. }
      assert (Hn' : nth_error subj k = Some (mkAS ((pre ++ [r]) ++ todo) c)).
      { rewrite <- app_assoc. exact Hn. }
      cbn [filter]. change (a_live r) with (a_valid r && negb (a_muted r)).
      destruct (a_valid r) eqn:Hv; cbn [andb].
      + destruct (a_muted r) eqn:Hm; cbn [negb].
        * cbn [bind asubjects]. rewrite Hn, Hfind, Hv.
          rewrite (IH (pre ++ [r]) subj hs n calls c Hnd' Hscr' Hn').
          rewrite <- app_assoc. reflexivity.
        * rewrite (Hscr r (or_introl eq_refl)). cbn [a_run_script bind asubjects ahandles anext acalls].
          rewrite Hn, Hfind, Hv.
          rewrite (IH (pre ++ [r]) subj hs n ((a_obs r, arg) :: calls) c Hnd' Hscr' Hn').
          rewrite <- app_assoc. cbn [map rev app]. rewrite <- app_assoc. reflexivity.
      + cbn [bind asubjects]. rewrite Hn, Hfind, Hv.
        unfold aset, aremove; cbn [asubjects ahandles anext acalls subs acounter].
        rewrite (filter_sid_remove pre todo r Hnp Hnt).
        assert (Hnd2 : NoDup (map a_sid (pre ++ todo))).
        { rewrite map_app in *. cbn [map] in Hnd. eapply NoDup_remove_1; exact Hnd. }
        rewrite (IH pre (list_set subj k (mkAS (pre ++ todo) c)) hs n calls c Hnd2 Hscr').
        * rewrite list_set_twice. reflexivity.
        * eapply nth_error_list_set_eq; exact Hn.
  Qed.
End Loop.

Lemma spec_notify_delivers : forall scripts fuel fuel' nsubj ops w k s arg,
  a_exec scripts fuel (aworld0 nsubj) ops = Some w ->
  nth_error (asubjects w) k = Some s ->
  (forall r, In r (subs s) -> nth (a_script r) scripts [] = []) ->
  a_notify scripts (S fuel') w k arg =
    Ok (mkAW (list_set (asubjects w) k (mkAS (filter a_valid (subs s)) (acounter s))) (ahandles w) (anext w)
             (rev (map (fun r => (a_obs r, arg)) (filter (fun r => a_valid r && negb (a_muted r)) (subs s)))
              ++ acalls w)).
Proof.
  intros scripts fuel fuel' nsubj ops w k s arg Hex Hn Hscr.
  assert (Hw : awf w). { eapply awf_exec; [exact Hex | apply awf_world0]. }
  pose proof (awf_nth _ _ _ Hw Hn) as [Hnd _].
  rewrite a_notify_S. unfold a_notify_body. rewrite Hn.
  destruct w as [subj hs n calls]. destruct s as [l c]. cbn [asubjects ahandles anext acalls subs acounter] in *.
  exact (round_loop scripts (a_notify scripts fuel') k arg l [] subj hs n calls c Hnd Hscr Hn).
Qed.
