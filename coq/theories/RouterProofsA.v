(* RouterProofsA.v — the router tree refines its flat specification (C06) and shrink is
   invisible (C13, part A). Helper lemmas: RouterLemmasA1 (structure of flat, shrink, order),
   RouterLemmasA2 (notify), RouterLemmasA3 (subscribe, handles). *)
From Coq Require Import List ZArith Bool Lia Arith Sorted.
From Tulz Require Import Common RouterModel RouterSpec RouterLemmasA1 RouterLemmasA2 RouterLemmasA3.
Import ListNotations.
Local Open Scope Z_scope.

(* ---- invariant of reachable routers -------------------------------------------------------- *)

Definition RI (s : sig) (r : router) : Prop :=
  wf_node (root r) /\ sig_ok s (root r) /\ nname (root r) = ROOT.

Lemma RI0 s : RI s router0.
Proof. unfold RI, router0. cbn. tauto. Qed.

Lemma on_handle_ok s r h f : (forall o, f o [] = []) -> RI s r ->
  RI s (on_handle r h f) /\ abs_router (on_handle r h f) = f_on_handle (abs_router r) h f.
Proof.
  intros Hf (Hw & Hs & Hn). unfold on_handle, handle_live, f_on_handle, abs_router.
  cbn [fst_ fhandles fnext].
  destruct (nth_error (rhandles r) h) as [[key o]|]; [|unfold RI; auto].
  rewrite (find_at_present o key (root r) Hw).
  destruct (f_present (flat (root r)) key o); [|unfold RI; auto].
  destruct (update_at_spec s (f o) (Hf o) key (root r) Hw Hs) as (U1 & U2 & U3 & U4).
  unfold RI. cbn [root rhandles rnext]. rewrite U4. repeat split; auto. congruence.
Qed.

Lemma notify_root_ok byval s r pat arg : RI s r ->
  exists n', notify_node true byval arg (root r) (full pat) s =
               Some (cnt pat (root r), fst (f_notify (flat (root r)) pat arg), n') /\
             nname n' = ROOT /\ wf_node n' /\ sig_ok s n' /\
             flat n' = snd (f_notify (flat (root r)) pat arg).
Proof.
  intros (Hw & Hs & Hn).
  destruct (notify_node_ok byval arg s (root r) (LStr ROOT) pat Hw Hs) as (n' & E & N & W & S & F).
  assert (M : matches (LStr ROOT) (nname (root r)) = true) by (rewrite Hn; reflexivity).
  rewrite M in *. exists n'. unfold full. rewrite E, f_notify_eq. cbn [fst snd].
  repeat split; auto. congruence.
Qed.

Lemma rstep_ok byval s r o : RI s r ->
  exists r' ret, rstep true byval s r o = Some (r', ret, snd (f_step (abs_router r) o)) /\
                 RI s r' /\ abs_router r' = fst (f_step (abs_router r) o).
Proof.
  intros HR. pose proof HR as (Hw & Hs & Hn). destruct o as [key|h|h|h|h|pat arg|pat|pat|].
  - cbn [rstep f_step].
    destruct (subscribe_below_spec s (rnext r) key (root r) (S (length key))) as (n' & E & N & W & S & F); auto.
    rewrite E. do 2 eexists. split; [reflexivity|]. split.
    + unfold RI. cbn [root]. repeat split; auto. congruence.
    + unfold abs_router. cbn [root rhandles rnext fst fst_ fhandles fnext]. rewrite F. reflexivity.
  - cbn [rstep f_step]. do 2 eexists. split; [reflexivity|]. apply on_handle_ok; auto.
  - cbn [rstep f_step]. do 2 eexists. split; [reflexivity|]. apply on_handle_ok; auto.
  - cbn [rstep f_step]. do 2 eexists. split; [reflexivity|]. apply on_handle_ok; auto.
  - cbn [rstep f_step]. do 2 eexists. split; [reflexivity|]. apply on_handle_ok; auto.
  - cbn [rstep f_step]. destruct (notify_root_ok byval s r pat arg HR) as (n' & E & N & W & S & F).
    rewrite E. unfold abs_router. cbn [fst_ fhandles fnext root rhandles rnext].
    destruct (f_notify (flat (root r)) pat arg) as [calls st'] eqn:EN. cbn [fst snd] in *.
    do 2 eexists. split; [reflexivity|]. split.
    + unfold RI. cbn [root]. auto.
    + cbn [root rhandles rnext]. rewrite F. reflexivity.
  - cbn [rstep f_step]. do 2 eexists. split; [reflexivity|]. split.
    + unfold RI. cbn [root]. split; [apply shrink_wf; auto|]. split; [apply shrink_sig_ok; auto|].
      rewrite shrink_name; auto.
    + unfold abs_router. cbn [root rhandles rnext fst]. rewrite shrink_flat. reflexivity.
  - cbn [rstep f_step]. do 2 eexists. split; [reflexivity|]. split; auto.
  - cbn [rstep f_step]. do 2 eexists. split; [reflexivity|]. split; auto.
Qed.

Lemma run_ok byval s : forall ops r, RI s r ->
  exists r', rrun true byval s r ops = Some r' /\ RI s r' /\
             rtrace true byval s r ops = f_trace (abs_router r) ops /\
             abs_router r' = fold_left (fun fr o => fst (f_step fr o)) ops (abs_router r).
Proof.
  induction ops as [|o ops IH]; intros r HR.
  - exists r. cbn. auto.
  - destruct (rstep_ok byval s r o HR) as (r1 & ret & E & HR1 & A1).
    destruct (IH r1 HR1) as (r' & E' & HR' & T' & A').
    exists r'. cbn [rrun rtrace f_trace fold_left]. rewrite E.
    destruct (f_step (abs_router r) o) as [fr calls] eqn:EF. cbn [fst snd] in *.
    rewrite <- A1. split; [exact E'|]. split; [exact HR'|]. split; [|exact A']. rewrite T'. reflexivity.
Qed.

Lemma reach_RI byval s ops r : rrun true byval s router0 ops = Some r -> RI s r.
Proof.
  intros H. destruct (run_ok byval s ops router0 (RI0 s)) as (r' & E & HR & _). congruence.
Qed.

(* ---- the lemmas used by Properties_C06 / Properties_C13 --------------------------------------- *)

Lemma router_refines_flat : forall byval s ops,
  exists r, rrun true byval s router0 ops = Some r /\
            rtrace true byval s router0 ops = f_trace frouter0 ops /\
            abs_router r = fold_left (fun fr o => fst (f_step fr o)) ops frouter0.
Proof.
  intros byval s ops. destruct (run_ok byval s ops router0 (RI0 s)) as (r & E & _ & T & A).
  exists r. repeat split; auto.
Qed.

Lemma notify_exact : forall byval s ops r pat arg,
  rrun true byval s router0 ops = Some r ->
  exists r' k,
    rstep true byval s r (RNotify pat arg) = Some (r', [k], fst (f_notify (flat (root r)) pat arg)) /\
    flat (root r') = snd (f_notify (flat (root r)) pat arg) /\
    k = Zlen (filter (fun p => key_matches pat p &&
                               match node_at (root r) p with Some (Node _ (Some _) _) => true | _ => false end)
                     (paths (root r))).
Proof.
  intros byval s ops r pat arg H. apply reach_RI in H.
  destruct (notify_root_ok byval s r pat arg H) as (n' & E & N & W & S & F).
  exists (mkRt n' (rhandles r) (rnext r)), (cnt pat (root r)). cbn [rstep]. rewrite E.
  repeat split; auto.
Qed.

Lemma flat_sorted : forall byval s ops r,
  rrun true byval s router0 ops = Some r ->
  StronglySorted (fun a b => key_ltb (fst a) (fst b) = true) (flat (root r)) /\
  Forall (fun e => snd e <> []) (flat (root r)).
Proof.
  intros byval s ops r H. apply reach_RI in H. destruct H as (Hw & _). split.
  - exact (flat_sorted_wf (root r) Hw).
  - apply flat_nonempty.
Qed.

Lemma upstream_regex_refuted : exists ops, rrun false harness_byval (SVal 1) router0 ops = None.
Proof. exists [RSubscribe [1]; RNotify [LRx [1]] 5]. vm_compute. reflexivity. Qed.

Lemma shrink_flat : forall n lv, flat (shrink_node n lv) = flat n.
Proof. exact RouterLemmasA1.shrink_flat. Qed.

Lemma shrink_invisible : forall byval s ops0 r pat ops,
  rrun true byval s router0 ops0 = Some r ->
  rtrace true byval s (mkRt (shrink_node (root r) (full pat)) (rhandles r) (rnext r)) ops
  = rtrace true byval s r ops.
Proof.
  intros byval s ops0 r pat ops H. apply reach_RI in H. pose proof H as (Hw & Hs & Hn).
  assert (H2 : RI s (mkRt (shrink_node (root r) (full pat)) (rhandles r) (rnext r))).
  { unfold RI. cbn [root]. split; [apply shrink_wf; auto|]. split; [apply shrink_sig_ok; auto|].
    rewrite shrink_name; auto. }
  destruct (run_ok byval s ops _ H) as (_ & _ & _ & T1 & _).
  destruct (run_ok byval s ops _ H2) as (_ & _ & _ & T2 & _).
  rewrite T1, T2. f_equal. unfold abs_router. cbn [root rhandles rnext].
  rewrite RouterLemmasA1.shrink_flat. reflexivity.
Qed.
