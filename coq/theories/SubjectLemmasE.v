(* SubjectLemmasE.v — the two interpreters are in simulation (actions, scripts, rounds,
   notify), by induction on the fuel. *)
From Coq Require Import List ZArith Bool Lia Arith Permutation.
From Tulz Require Import Common SubjectModel SubjectSpec SubjectLemmasA SubjectLemmasB SubjectLemmasC SubjectLemmasD.
Import ListNotations.
Local Open Scope Z_scope.

Lemma rel_res_inv w rc ra :
  rel_res w rc ra ->
  (rc = Err OutOfFuel /\ ra = Err OutOfFuel) \/
  (exists w' aw', rc = Ok w' /\ ra = Ok aw' /\ R w' aw' /\ frame w w').
Proof. intros [|w' aw' H1 H2]; [left|right]; eauto 6. Qed.

Lemma owned_alive_in w k s o :
  Rmem w -> nth_error (subjects w) k = Some s -> In o (own s) ->
  exists ob, nth_error (heap w) o = Some ob /\ o_alive ob = true.
Proof. intros M Hs Hi. apply (r_owned_alive _ M). exists k, s. auto. Qed.

Lemma in_obs_own (s : subject) sid o : In (sid, o) (observers s) -> In o (own s).
Proof. intros H. unfold own. apply in_or_app. left. apply in_map_snd. eauto. Qed.

Lemma aset_same aw k a : nth_error (asubjects aw) k = Some a -> aset aw k a = aw.
Proof. intros H. unfold aset. rewrite (list_set_same _ _ _ H). destruct aw; reflexivity. Qed.

Lemma aremove_absent a sid : afind a sid = None -> aremove a sid = a.
Proof.
  intros H. unfold aremove. rewrite filter_all. destruct a; reflexivity.
  intros r Hr. unfold afind in H. pose proof (find_none _ _ H _ Hr) as X. cbn in X. rewrite X. reflexivity.
Qed.

Lemma with_obs_ok w o ob f :
  nth_error (heap w) o = Some ob -> o_alive ob = true ->
  with_obs w o f = Ok (set_heap w (list_set (heap w) o (f ob))).
Proof. intros H1 H2. unfold with_obs. rewrite H1, H2. reflexivity. Qed.

(* Subject::unsubscribe(handle) on a valid handle *)
Lemma subj_unsub_valid w aw h k sid o s a :
  R w aw -> nth_error (handles w) h = Some (mkH (Some sid) (Some k) (Some o)) ->
  nth_error (subjects w) k = Some s -> nth_error (asubjects aw) k = Some a ->
  memZ sid (active s) = true ->
  exists w3, subject_unsubscribe true w k h = Ok (w3, true) /\ R w3 (a_unsubscribe aw k sid h) /\ frame w w3.
Proof.
  intros HR Eh Hs Ha Hm. destruct (unsub_sim w aw k s a sid HR Hs Ha) as (w2 & E & HR2 & Hf2).
  exists (set_handle w2 h handle0). split; [|split].
  - unfold subject_unsubscribe. rewrite Eh. unfold handle_valid_in. cbn [h_subj h_id].
    rewrite Nat.eqb_refl, Hs, Hm. cbn [andb]. rewrite E. reflexivity.
  - unfold a_unsubscribe. rewrite Ha.
    apply (R_set_handle w2 (aset aw k (aremove a sid)) h handle0 None HR2). reflexivity.
  - eapply frame_trans; eauto. apply frame_set_handle.
Qed.

(* mute / unmute / invalidate through a handle *)
Lemma flags_sim w aw h (f : obs -> obs) (f' : arec -> arec) :
  R w aw -> (forall ob, o_alive (f ob) = o_alive ob) ->
  (forall ob sid o, f' (mkRec sid o (o_valid ob) (o_muted ob) (o_script ob)) =
                    mkRec sid o (o_valid (f ob)) (o_muted (f ob)) (o_script (f ob))) ->
  rel_res w
    (match nth_error (handles w) h with
     | None => Ok w
     | Some hd => if handle_valid w hd then
                    match h_obs hd with Some o => with_obs w o f | None => Err BadRef end
                  else Ok w
     end)
    (match ahandle_target aw h with
     | Some (k, sid, _) =>
         match nth_error (asubjects aw) k with
         | Some s => Ok (aset aw k (aupdate s sid f'))
         | None => Ok aw
         end
     | None => Ok aw
     end).
Proof.
  intros HR Hal Hf. pose proof HR as [H M]. unfold ahandle_target.
  destruct (nth_error (handles w) h) as [hd|] eqn:Eh.
  - destruct (handle_cases w aw h hd H Eh) as [E Eah|k sid o s a E Eah Hs Ha HRs Hn Hm Hfd|k sid o s a E Eah Hs Ha HRs Hi Hm Hfd];
      rewrite Eah; subst hd.
    + cbn. apply rel_res_refl; auto.
    + unfold handle_valid. cbn [h_subj h_id]. rewrite Hs, Hm, Ha, Hfd. apply rel_res_refl; auto.
    + unfold handle_valid. cbn [h_subj h_id h_obs]. rewrite Hs, Hm, Ha, Hfd. cbv beta iota. rewrite Ha.
      destruct (owned_alive_in w k s o M Hs (in_obs_own _ _ _ Hi)) as (ob & Eob & Aob).
      unfold with_obs. rewrite Eob, Aob. constructor.
      * split.
        -- eapply Rabs_flags_handle; eauto.
        -- eapply Rmem_flags; eauto.
      * apply frame_flags.
  - rewrite (Rabs_handle_none _ _ _ H Eh). apply rel_res_refl; auto.
Qed.

Section Sim.
  Variable scripts : list (list action).
  Variable rec : world -> nat -> Z -> res world.
  Variable arec : aworld -> nat -> Z -> res aworld.
  Hypothesis Hrec : forall w aw k arg s, R w aw -> nth_error (subjects w) k = Some s ->
                                         rel_res w (rec w k arg) (arec aw k arg).

  Lemma do_action_sim self w aw a :
    R w aw -> (forall o, self = Some o -> In o (stack w)) ->
    rel_res w (do_action true rec self w a) (a_do_action arec self aw a).
  Proof.
    intros HR Hself. pose proof HR as [H M]. destruct a as [k scr|h|h|h|h| |k arg].
    - (* ASub *)
      cbn [do_action a_do_action].
      destruct (get_subj_aget w aw k H) as [(E1 & E2)|(s & a & E1 & E2 & Hs & Ha & Hc & HRs)]; rewrite E1, E2.
      + apply rel_res_refl; auto.
      + destruct (R_sub w aw k s a scr HR Hs Ha Hc) as [HR' Hf]. constructor; [exact HR'|exact Hf].
    - (* AUnsub *)
      cbn [do_action a_do_action]. unfold ahandle_target.
      destruct (nth_error (handles w) h) as [hd|] eqn:Eh.
      + destruct (handle_cases w aw h hd H Eh) as [E Eah|k sid o s a E Eah Hs Ha HRs Hn Hm Hfd|k sid o s a E Eah Hs Ha HRs Hi Hm Hfd];
          rewrite Eah; subst hd.
        * cbn. apply rel_res_refl; auto.
        * unfold handle_valid. cbn [h_subj h_id]. rewrite Hs, Hm, Ha, Hfd. apply rel_res_refl; auto.
        * unfold handle_valid. cbn [h_subj h_id]. rewrite Hs, Hm, Ha, Hfd.
          destruct (subj_unsub_valid w aw h k sid o s a HR Eh Hs Ha Hm) as (w3 & E3 & HR3 & Hf3).
          rewrite E3. cbn [bind fst]. constructor; auto.
      + rewrite (Rabs_handle_none _ _ _ H Eh). apply rel_res_refl; auto.
    - (* AMute *)
      apply (flags_sim w aw h (fun ob => mkObs (o_alive ob) (o_valid ob) true (o_script ob))
               (fun r => mkRec (a_sid r) (a_obs r) (a_valid r) true (a_script r))); auto.
    - (* AUnmute *)
      apply (flags_sim w aw h (fun ob => mkObs (o_alive ob) (o_valid ob) false (o_script ob))
               (fun r => mkRec (a_sid r) (a_obs r) (a_valid r) false (a_script r))); auto.
    - (* AInval *)
      apply (flags_sim w aw h (fun ob => mkObs (o_alive ob) false (o_muted ob) (o_script ob))
               (fun r => mkRec (a_sid r) (a_obs r) false (a_muted r) (a_script r))); auto.
    - (* AInvalSelf *)
      cbn [do_action a_do_action]. destruct self as [o|].
      + destruct (r_stack _ M o (Hself o eq_refl)) as (k & s & Hs & Hin & _).
        destruct (owned_alive_in w k s o M Hs Hin) as (ob & Eob & Aob).
        rewrite (with_obs_ok w o ob _ Eob Aob). constructor.
        * split.
          -- exact (Rabs_inval_self w aw o ob H Eob).
          -- eapply Rmem_flags; eauto.
        * apply frame_flags.
      + apply rel_res_refl; auto.
    - (* ANotify *)
      cbn [do_action a_do_action].
      destruct (get_subj_aget w aw k H) as [(E1 & E2)|(s & a & E1 & E2 & Hs & Ha & Hc & HRs)]; rewrite E1, E2.
      + apply rel_res_refl; auto.
      + eapply Hrec; eauto.
  Qed.

  Lemma run_script_sim self acts : forall w aw,
    R w aw -> (forall o, self = Some o -> In o (stack w)) ->
    rel_res w (run_script true rec self w acts) (a_run_script arec self aw acts).
  Proof.
    induction acts as [|a rest IH]; intros w aw HR Hself.
    - apply rel_res_refl; auto.
    - cbn [run_script a_run_script]. apply rel_res_bind.
      + apply do_action_sim; auto.
      + intros w1 aw1 HR1 Hf1. apply IH; auto. intros o Ho. rewrite (f_stack _ _ Hf1). auto.
  Qed.

  Lemma call_sim w aw k s sid o arg :
    R w aw -> nth_error (subjects w) k = Some s -> In o (own s) -> (0 < depth s)%nat ->
    rel_res w (call_observer true scripts rec w o arg)
      (if a_valid (recof (heap w) (sid, o)) && negb (a_muted (recof (heap w) (sid, o)))
       then a_run_script arec (Some o)
              (mkAW (asubjects aw) (ahandles aw) (anext aw) ((o, arg) :: acalls aw))
              (nth (a_script (recof (heap w) (sid, o))) scripts [])
       else Ok aw).
  Proof.
    intros HR Hs Hin Hd. pose proof HR as [H M].
    destruct (owned_alive_in w k s o M Hs Hin) as (ob & Eob & Aob).
    unfold call_observer. rewrite Eob, Aob. cbn [negb]. rewrite (recof_nth_error _ _ _ _ Eob).
    cbn [a_valid a_muted a_script].
    destruct (o_muted ob), (o_valid ob); cbn [negb andb]; try (apply rel_res_refl; auto).
    pose proof (R_push w aw k s o arg HR Hs Hin Hd) as HR1.
    set (w1 := set_stack (add_log w (ECall o arg)) (o :: stack w)) in *.
    set (aw1 := mkAW (asubjects aw) (ahandles aw) (anext aw) ((o, arg) :: acalls aw)) in *.
    assert (X : rel_res w1 (run_script true rec (Some o) w1 (nth (o_script ob) scripts []))
                          (a_run_script arec (Some o) aw1 (nth (o_script ob) scripts []))).
    { apply run_script_sim; auto. intros o' Ho'. inversion Ho'; subst. cbn. auto. }
    apply rel_res_inv in X. destruct X as [(E1 & E2)|(w2 & aw2 & E1 & E2 & HR2 & Hf2)]; rewrite E1, E2.
    - constructor.
    - cbn [bind]. assert (Est : stack w2 = o :: stack w) by (rewrite (f_stack _ _ Hf2); reflexivity).
      rewrite Est. cbn [tl]. constructor.
      + apply R_set_stack; auto. intros x Hx. rewrite Est. right; auto.
      + eapply frame_push_pop; eauto.
  Qed.

  Definition snap_ok (w : world) (k : nat) (snap : list (Z * nat)) : Prop :=
    exists s, nth_error (subjects w) k = Some s /\ (0 < depth s)%nat /\
              forall sid o, In (sid, o) snap -> hok s sid o /\ In o (own s).

  Lemma snap_ok_frame w w' aw' k snap :
    R w' aw' -> frame w w' -> snap_ok w k snap -> snap_ok w' k snap.
  Proof.
    intros [H' M'] Hf (s & Hs & Hd & Hall).
    destruct (nth_error_same_length _ (subjects w') _ _ (eq_sym (f_slen _ _ Hf)) Hs) as [s' Hs'].
    pose proof (f_subj _ _ Hf _ _ _ Hs Hs') as Hsf.
    destruct (Rabs_subj_ex _ _ _ _ H' Hs') as (a' & Ha' & HRs').
    exists s'. split; auto. split. { rewrite (sf_depth _ _ _ Hsf). auto. }
    intros sid o Hi. destruct (Hall _ _ Hi) as [[Hk1 Hk2] Ho]. split.
    - destruct Hk2 as [Hlt|Hneg].
      + split.
        * intros o' Ho'. apply Hk1. eapply sf_old; eauto.
        * left. pose proof (sf_counter _ _ _ Hsf). lia.
      + pose proof (sf_tomb _ _ _ Hsf Hneg) as Hneg'. split.
        * intros o' Ho'. rewrite (rs_tomb _ _ _ HRs' Hneg') in Ho'. contradiction.
        * right. auto.
    - eapply sf_keep; eauto.
  Qed.

  Lemma snap_ok_tail w k p snap : snap_ok w k (p :: snap) -> snap_ok w k snap.
  Proof.
    intros (s & Hs & Hd & Hall). exists s. split; auto. split; auto.
    intros sid o Hi. apply Hall. right; auto.
  Qed.

  Lemma round_sim k arg : forall snap w aw,
    R w aw -> snap_ok w k snap ->
    rel_res w (round true scripts rec w k arg snap) (a_round scripts arec aw k arg (map fst snap)).
  Proof.
    induction snap as [|[sid o] rest IH]; intros w aw HR Hok.
    - apply rel_res_refl; auto.
    - cbn [round a_round map fst]. pose proof HR as [H M].
      pose proof Hok as (s & Hs & Hd & Hall).
      destruct (Rabs_subj_ex _ _ _ _ H Hs) as (a & Ha & HRs). rewrite Hs, Ha.
      destruct (Hall sid o (or_introl eq_refl)) as [Hk Hown].
      destruct (Rs_afind_cases _ _ _ sid HRs) as [(Hm & o' & Hi & Hfd)|(Hm & Hn & Hfd)]; rewrite Hm, Hfd.
      + assert (o' = o) by (apply (proj1 Hk); auto). subst o'.
        apply rel_res_bind.
        * apply (call_sim w aw k s sid o arg); auto.
        * intros w1 aw1 HR1 Hf1. pose proof HR1 as [H1 M1].
          pose proof (snap_ok_frame _ _ _ _ _ HR1 Hf1 Hok) as Hok1.
          pose proof Hok1 as (s1 & Hs1 & Hd1 & Hall1).
          destruct (Rabs_subj_ex _ _ _ _ H1 Hs1) as (a1 & Ha1 & HRs1).
          destruct (Hall1 sid o (or_introl eq_refl)) as [Hk1 Hown1].
          destruct (owned_alive_in w1 k s1 o M1 Hs1 Hown1) as (ob1 & Eob1 & Aob1).
          rewrite Eob1, Aob1, Ha1. cbn [negb].
          destruct (o_valid ob1) eqn:Ev.
          -- destruct (Rs_afind_cases _ _ _ sid HRs1) as [(Hm1 & o1 & Hi1 & Hfd1)|(Hm1 & Hn1 & Hfd1)]; rewrite Hfd1.
             ++ assert (o1 = o) by (apply (proj1 Hk1); auto). subst o1.
                rewrite (recof_nth_error _ _ _ _ Eob1). cbn [a_valid]. rewrite Ev.
                apply IH; auto. eapply snap_ok_tail; eauto.
             ++ apply IH; auto. eapply snap_ok_tail; eauto.
          -- destruct (unsub_sim w1 aw1 k s1 a1 sid HR1 Hs1 Ha1) as (w2 & E2 & HR2 & Hf2).
             rewrite E2. cbn [bind].
             assert (Hok2 : snap_ok w2 k rest).
             { eapply snap_ok_frame; eauto. eapply snap_ok_tail; eauto. }
             destruct (Rs_afind_cases _ _ _ sid HRs1) as [(Hm1 & o1 & Hi1 & Hfd1)|(Hm1 & Hn1 & Hfd1)]; rewrite Hfd1.
             ++ assert (o1 = o) by (apply (proj1 Hk1); auto). subst o1.
                rewrite (recof_nth_error _ _ _ _ Eob1). cbn [a_valid]. rewrite Ev.
                eapply rel_res_frame; eauto.
             ++ rewrite (aremove_absent _ _ Hfd1), (aset_same _ _ _ Ha1) in HR2.
                eapply rel_res_frame; eauto.
      + apply IH; auto. eapply snap_ok_tail; eauto.
  Qed.

  (* the world after notify's epilogue, seen from the world before notify *)
  Lemma frame_notify w k s w1 w2 s1 s2 :
    nth_error (subjects w) k = Some s ->
    frame (set_subj w k (mkSubj (observers s) (active s) (counter s) (S (depth s)) (graveyard s))) w1 ->
    nth_error (subjects w1) k = Some s1 ->
    subjects w2 = list_set (subjects w1) k s2 -> stack w2 = stack w1 ->
    (exists new, log w2 = new ++ log w1) -> (length (heap w1) <= length (heap w2))%nat ->
    depth s2 = depth s -> counter s2 = counter s1 -> observers s2 = observers s1 ->
    (forall o, In o (own s2) -> In o (own s1)) ->
    ((0 < depth s)%nat -> forall o, In o (own s1) -> In o (own s2)) ->
    frame w w2.
  Proof.
    intros Hs [a1 [n1 a2] a3 a4 a5] Hs1 Es Est [n2 El] Eh Ed Ec Eo Hsub Hsup. cbn in *.
    assert (Hs0 : nth_error (list_set (subjects w) k (mkSubj (observers s) (active s) (counter s) (S (depth s)) (graveyard s))) k
                  = Some (mkSubj (observers s) (active s) (counter s) (S (depth s)) (graveyard s))).
    { eapply nth_error_list_set_eq; eauto. }
    constructor.
    - congruence.
    - exists (n2 ++ n1). rewrite El, a2, app_assoc. reflexivity.
    - lia.
    - rewrite Es, length_list_set, a4, length_list_set. reflexivity.
    - intros j sj sj2 H1 H2. rewrite Es in H2. apply nth_error_list_set_inv in H2.
      destruct H2 as [(-> & -> & _)|(N & H2)].
      + rewrite Hs in H1. inversion H1; subst sj.
        destruct (a5 _ _ _ Hs0 Hs1) as [b1 b2 b3 b4 b5 b6]. cbn in *. constructor.
        * auto.
        * lia.
        * rewrite Ec. auto.
        * rewrite Eo. auto.
        * intros o Ho Hlt. apply b5; auto.
        * intros Hd o Ho. apply Hsup; auto; apply b6; auto; lia.
      + apply (a5 j); auto. rewrite nth_error_list_set_neq; auto.
  Qed.

  Lemma notify_body_sim w aw k arg s :
    R w aw -> nth_error (subjects w) k = Some s ->
    rel_res w (notify_body true scripts rec w k arg) (a_notify_body scripts arec aw k arg).
  Proof.
    intros HR Hs. pose proof HR as [H M].
    destruct (Rabs_subj_ex _ _ _ _ H Hs) as (a & Ha & HRs).
    unfold notify_body, a_notify_body. rewrite Hs, Ha.
    set (s0 := mkSubj (observers s) (active s) (counter s) (S (depth s)) (graveyard s)).
    set (w0 := set_subj w k s0).
    assert (HR0 : R w0 aw) by (apply R_set_depth; auto; lia).
    assert (Hs0 : nth_error (subjects w0) k = Some s0).
    { cbn. eapply nth_error_list_set_eq; eauto. }
    assert (Hok0 : snap_ok w0 k (rev (observers s))).
    { exists s0. split; auto. split. cbn; lia. intros sid o Hi. apply in_rev in Hi. split.
      - exact (Rs_hok _ _ _ _ _ HRs Hi).
      - exact (in_obs_own _ _ _ Hi). }
    assert (Esn : map a_sid (subs a) = map fst (rev (observers s))).
    { rewrite (Rs_sids _ _ _ HRs), map_rev. reflexivity. }
    rewrite Esn.
    pose proof (round_sim k arg _ _ _ HR0 Hok0) as X. apply rel_res_inv in X.
    destruct X as [(E1 & E2)|(w1 & aw1 & E1 & E2 & HR1 & Hf1)]; rewrite E1, E2.
    - constructor.
    - cbn [bind]. pose proof HR1 as [H1 M1].
      destruct (nth_error_same_length _ (subjects w1) _ _ (eq_sym (f_slen _ _ Hf1)) Hs0) as [s1 Hs1].
      pose proof (f_subj _ _ Hf1 _ _ _ Hs0 Hs1) as Hsf. rewrite Hs1.
      assert (Ed1 : depth s1 = S (depth s)) by (rewrite (sf_depth _ _ _ Hsf); reflexivity).
      rewrite Ed1. cbn [Nat.pred].
      destruct (Nat.eqb (depth s) 0) eqn:Ed.
      + apply Nat.eqb_eq in Ed. rewrite Ed.
        destruct (R_finish w1 aw1 k s1 HR1 Hs1) as (w2 & F1 & F2 & F3 & F4 & F5 & F6).
        { intros x Hx Hin. rewrite (f_stack _ _ Hf1) in Hx. cbn in Hx.
          destruct (r_stack _ M _ Hx) as (j & sj & Hj & Hinj & Hdj).
          destruct (owned_alive_in w j sj x M Hj Hinj) as (ob & Eob & _).
          assert (Hx0 : In x (own s)). { apply (sf_own_old _ _ _ Hsf x Hin). cbn. eapply nth_error_lt; eauto. }
          assert (j = k) by (apply (r_own_inj _ M j k sj s x); auto). subst j.
          rewrite Hs in Hj. inversion Hj; subst sj. lia. }
        rewrite F1. constructor; auto.
        apply (frame_notify w k s w1 w2 s1 (mkSubj (observers s1) (active s1) (counter s1) 0 [])
                 Hs Hf1 Hs1 F3 F4 F5); cbn; auto; try lia.
        unfold own. cbn. intros o Ho. rewrite app_nil_r in Ho. apply in_or_app. auto.
      + apply Nat.eqb_neq in Ed. constructor.
        * apply R_set_depth; auto. lia.
        * apply (frame_notify w k s w1
                   (set_subj w1 k (mkSubj (observers s1) (active s1) (counter s1) (depth s) (graveyard s1)))
                   s1 (mkSubj (observers s1) (active s1) (counter s1) (depth s) (graveyard s1))
                   Hs Hf1 Hs1 eq_refl eq_refl); cbn; auto; try lia.
          exists []. reflexivity.
  Qed.
End Sim.

Lemma notify_S d sc f : notify d sc (S f) = notify_body d sc (notify d sc f).
Proof. reflexivity. Qed.
Lemma a_notify_S sc f : a_notify sc (S f) = a_notify_body sc (a_notify sc f).
Proof. reflexivity. Qed.

Lemma notify_sim scripts fuel : forall w aw k arg s,
  R w aw -> nth_error (subjects w) k = Some s ->
  rel_res w (notify true scripts fuel w k arg) (a_notify scripts fuel aw k arg).
Proof.
  induction fuel as [|f IH]; intros w aw k arg s HR Hs.
  - constructor.
  - rewrite notify_S, a_notify_S. eapply notify_body_sim; eauto.
Qed.
