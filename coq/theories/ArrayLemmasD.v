(* ArrayLemmasD.v — one step of the Array runner refines one step of the value-semantics
   specification: one lemma per operation code. *)
From Coq Require Import List ZArith Bool Lia ZifyBool Permutation.
From Tulz Require Import Common RingModel RingInv ArrayModel ArrayInv ArrayLemmasA ArrayLemmasB ArrayLemmasC.
Import ListNotations.
Local Open Scope Z_scope.

Lemma astep_set1' cls e b o a' sa ret evs ret' ct rem asg ct' rem' :
  awf_env cls e -> 0 <= b < Zlen e -> aenv_get e b = o -> awf cls a' ->
  evsum evs ct rem asg ->
  sa = abs_arr a' -> ret = ret' -> ct' = ct -> rem' = rem ->
  (cls = true -> Permutation (ct ++ asg ++ oitems o) (rem ++ slot_vals (adata a'))) ->
  astep_ok' cls e (aenv_set e b (Some a'), Some (ret, evs))
                  (senv_set (abs_aenv e) b (Some sa), Some (ret', ct', rem')).
Proof.
  intros W Hb G Wa EF -> -> -> -> P. eapply astep_set1; eauto.
Qed.

Lemma astep_unset' cls e b o ret evs ret' ct rem asg ct' rem' :
  awf_env cls e -> 0 <= b < Zlen e -> aenv_get e b = o ->
  evsum evs ct rem asg -> ret = ret' -> ct' = ct -> rem' = rem ->
  (cls = true -> Permutation (ct ++ asg ++ oitems o) rem) ->
  astep_ok' cls e (aenv_set e b None, Some (ret, evs))
                  (senv_set (abs_aenv e) b None, Some (ret', ct', rem')).
Proof.
  intros W Hb G EF -> -> -> P. eapply astep_unset; eauto.
Qed.

Ltac step_start W :=
  intros W; cbv beta iota zeta delta [astep_ok arr_step spec_step];
  rewrite ?aenv_get_abs, ?slot_ok_abs.

Ltac step_none W := apply astep_none; exact W.

(* ---- constructors -------------------------------------------------------------------------- *)

Lemma step_op0 cls e b n : awf_env cls e -> astep_ok cls e [0; b; n].
Proof.
  step_start W.
  destruct (aenv_get e b) as [a|] eqn:G; cbn [option_map]; [step_none W|].
  destruct ((0 <=? n) && slot_ok b e) eqn:Hg; [|step_none W].
  unfold slot_ok in Hg.
  destruct cls.
  - rewrite ctor_size_true. cbv beta iota.
    eapply (astep_set1' true e b None);
      [exact W | lia | exact G | apply awf_live; unfold Zlen; rewrite repeat_length; lia
      | apply evsum_ctor | | reflexivity | | reflexivity | ].
    + unfold fresh, abs_arr; cbn [adata]. rewrite abs_map_live, map_repeat. reflexivity.
    + unfold fresh. apply somes_repeat_some.
    + intros _. cbn [oitems adata]. rewrite slot_vals_map_live. perm_solve.
  - rewrite ctor_size_false. cbv beta iota.
    eapply (astep_set1' false e b None);
      [exact W | lia | exact G | apply awf_raw; lia | apply evsum_nil
      | | reflexivity | reflexivity | reflexivity | discriminate].
    unfold fresh, abs_arr; cbn [adata]. rewrite abs_repeat_raw. reflexivity.
Qed.

Lemma evsum_ctor_if (cls : bool) (l : list Z) :
  evsum (if cls then map ECtor l else []) (if cls then l else []) [] [].
Proof. destruct cls; [apply evsum_ctor | apply evsum_nil]. Qed.

Lemma step_op1 cls e b n v : awf_env cls e -> astep_ok cls e [1; b; n; v].
Proof.
  step_start W.
  destruct (aenv_get e b) as [a|] eqn:G; cbn [option_map]; [step_none W|].
  destruct ((0 <=? n) && slot_ok b e) eqn:Hg; [|step_none W].
  unfold slot_ok in Hg. rewrite ctor_fill_eq. cbv beta iota.
  eapply (astep_set1' cls e b None);
    [exact W | lia | exact G | apply awf_live; unfold Zlen; rewrite repeat_length; lia
    | apply evsum_ctor_if | | reflexivity | reflexivity | reflexivity | ].
  - unfold abs_arr; cbn [adata]. rewrite abs_map_live, map_repeat. reflexivity.
  - intros ->. cbn [oitems adata]. rewrite slot_vals_map_live. perm_solve.
Qed.

Lemma step_op2 cls e b vals : awf_env cls e -> astep_ok cls e (2 :: b :: vals).
Proof.
  step_start W.
  destruct (aenv_get e b) as [a|] eqn:G; cbn [option_map]; [step_none W|].
  destruct (slot_ok b e) eqn:Hg; [|step_none W].
  unfold slot_ok in Hg. rewrite ctor_list_eq. cbv beta iota.
  eapply (astep_set1' cls e b None);
    [exact W | lia | exact G | apply awf_live; reflexivity
    | apply evsum_ctor_if | | reflexivity | reflexivity | reflexivity | ].
  - unfold abs_arr; cbn [adata]. rewrite abs_map_live. reflexivity.
  - intros ->. cbn [oitems adata]. rewrite slot_vals_map_live. perm_solve.
Qed.

Lemma step_op3 cls e b vals : awf_env cls e -> astep_ok cls e (3 :: b :: vals).
Proof.
  step_start W.
  destruct (aenv_get e b) as [a|] eqn:G; cbn [option_map]; [step_none W|].
  destruct (slot_ok b e) eqn:Hg; [|step_none W].
  unfold slot_ok in Hg. rewrite ctor_ptr_eq. cbv beta iota.
  rewrite (acontents_ub_wf cls) by (apply awf_live; reflexivity). rewrite app_nil_r.
  eapply (astep_set1' cls e b None);
    [exact W | lia | exact G | apply awf_live; reflexivity
    | apply evsum_ctor_if | | reflexivity | reflexivity | reflexivity | ].
  - unfold abs_arr; cbn [adata]. rewrite abs_map_live. reflexivity.
  - intros ->. cbn [oitems adata]. rewrite slot_vals_map_live. perm_solve.
Qed.

Lemma step_op4 cls e b c : awf_env cls e -> astep_ok cls e [4; b; c].
Proof.
  step_start W.
  destruct (aenv_get e b) as [a|] eqn:G; cbn [option_map]; [step_none W|].
  destruct (aenv_get e c) as [src|] eqn:Gc; cbn [option_map]; [|step_none W].
  destruct (slot_ok b e) eqn:Hg; [|step_none W].
  unfold slot_ok in Hg.
  pose proof (aenv_get_awf cls e c src W Gc) as Ws.
  rewrite (ctor_copy_eq cls src Ws). cbv beta iota.
  eapply (astep_set1' cls e b None);
    [exact W | lia | exact G | exact Ws
    | apply evsum_ctor_if | reflexivity | reflexivity | | reflexivity | ].
  - unfold abs_arr. rewrite somes_abs. reflexivity.
  - intros ->. cbn [oitems]. perm_solve.
Qed.

Lemma step_op5 cls e b c : awf_env cls e -> astep_ok cls e [5; b; c].
Proof.
  step_start W.
  destruct (aenv_get e b) as [dst|] eqn:G; cbn [option_map]; [|step_none W].
  destruct (aenv_get e c) as [src|] eqn:Gc; cbn [option_map]; [|step_none W].
  destruct (b =? c) eqn:Hbc; [apply astep_same; [exact W | reflexivity | apply evsum_nil]|].
  pose proof (aenv_get_awf cls e c src W Gc) as Ws.
  pose proof (aenv_get_awf cls e b dst W G) as Wd.
  pose proof (aenv_get_range e b dst G) as Hb.
  unfold assign_copy. rewrite (ctor_copy_eq cls src Ws). cbv beta iota.
  destruct cls.
  - eapply (astep_set1' true e b (Some dst));
      [exact W | lia | exact G | exact Ws
      | apply evsum_app; [apply evsum_ctor | apply evsum_dtor_true; exact Wd]
      | reflexivity | reflexivity | | | ].
    + rewrite app_nil_r. unfold abs_arr. apply somes_abs.
    + unfold abs_arr. apply somes_abs.
    + intros _. cbn [oitems]. perm_solve.
  - rewrite dtor_false. cbn [app].
    eapply (astep_set1' false e b (Some dst));
      [exact W | lia | exact G | exact Ws | apply evsum_free_nil
      | reflexivity | reflexivity | reflexivity | reflexivity | discriminate].
Qed.

(* ---- moves and swaps ----------------------------------------------------------------------- *)

Lemma step_op6 cls e b c : awf_env cls e -> astep_ok cls e [6; b; c].
Proof.
  step_start W.
  destruct (aenv_get e b) as [a|] eqn:G; cbn [option_map]; [step_none W|].
  destruct (aenv_get e c) as [src|] eqn:Gc; cbn [option_map]; [|step_none W].
  destruct (slot_ok b e) eqn:Hg; [|step_none W].
  unfold slot_ok in Hg.
  pose proof (aenv_get_awf cls e c src W Gc) as Ws.
  pose proof (aenv_get_range e c src Gc) as Hc.
  assert (Hbc : b <> c) by (intros ->; congruence).
  change (@nil (option Z)) with (abs_arr (@empty_arr Z)).
  apply (astep_set2 cls e b c src empty_arr []);
    [exact W | lia | exact Hc | exact Ws | apply awf_empty | ].
  rewrite aenv_get_set_other by exact Hbc. rewrite G, Gc. cbn [oitems empty_arr adata app].
  change (slot_vals (@nil (slot Z))) with (@nil Z). rewrite app_nil_r. apply Permutation_refl.
Qed.

Lemma step_swap cls e b c :
  awf_env cls e ->
  astep_ok' cls e
    match aenv_get e b, aenv_get e c with
    | Some x, Some y => (aenv_set (aenv_set e b (Some y)) c (Some x), Some ([], []))
    | _, _ => (e, None)
    end
    match option_map abs_arr (aenv_get e b), option_map abs_arr (aenv_get e c) with
    | Some x, Some y => (senv_set (senv_set (abs_aenv e) b (Some y)) c (Some x), Some ([], [], []))
    | _, _ => (abs_aenv e, None)
    end.
Proof.
  intros W.
  destruct (aenv_get e b) as [x|] eqn:G; cbn [option_map]; [|step_none W].
  destruct (aenv_get e c) as [y|] eqn:Gc; cbn [option_map]; [|step_none W].
  pose proof (aenv_get_awf cls e c y W Gc) as Wy.
  pose proof (aenv_get_awf cls e b x W G) as Wx.
  pose proof (aenv_get_range e c y Gc) as Hc.
  pose proof (aenv_get_range e b x G) as Hb.
  apply (astep_set2 cls e b c y x []); [exact W | exact Hb | exact Hc | exact Wy | exact Wx | ].
  assert (E : aenv_get (aenv_set e b (Some y)) c = Some y).
  { destruct (Z.eq_dec b c) as [->|Hne].
    - apply aenv_get_set_same. exact Hc.
    - rewrite aenv_get_set_other by exact Hne. exact Gc. }
  rewrite E, G. cbn [oitems]. apply Permutation_app_comm.
Qed.

Lemma step_op7 cls e b c : awf_env cls e -> astep_ok cls e [7; b; c].
Proof. step_start W. apply step_swap. exact W. Qed.

Lemma step_op8 cls e b c : awf_env cls e -> astep_ok cls e [8; b; c].
Proof. step_start W. apply step_swap. exact W. Qed.

(* ---- resize -------------------------------------------------------------------------------- *)

Lemma step_resize_shrink_true e b a n evs0 (fill : option Z) :
  awf_env true e -> aenv_get e b = Some a -> 0 <= n <= asize a ->
  evs0 = map (@EDtor Z) (skipn (Z.to_nat n) (adata a)) ++ [EFree (repeat Raw (length (adata a) - Z.to_nat n))] ->
  forall x : Z,
  astep_ok' true e
    (aenv_set e b (Some (mkArr n (firstn (Z.to_nat n) (adata a)))), Some ([], evs0))
    (senv_set (abs_aenv e) b (Some (sresize (abs_arr a) n fill)),
     Some ([], repeat x (Z.to_nat n - length (abs_arr a)), somes (skipn (Z.to_nat n) (abs_arr a)))).
Proof.
  intros W G H -> x.
  pose proof (aenv_get_awf true e b a W G) as Wa.
  pose proof (aenv_get_range e b a G) as Hb.
  pose proof Wa as (W0 & W1 & W2 & W3).
  eapply (astep_set1' true e b (Some a));
    [exact W | lia | exact G | apply awf_firstn; [exact Wa | exact H]
    | apply evsum_app; [apply evsum_dtor; apply alllive_skipn; apply W2; reflexivity | apply evsum_free_raw]
    | | reflexivity | | | ].
  - unfold abs_arr; cbn [adata]. apply sresize_shrink. lia.
  - rewrite length_abs_arr. replace (Z.to_nat n - length (adata a))%nat with 0%nat by (unfold Zlen in W1; lia).
    reflexivity.
  - rewrite app_nil_r. unfold abs_arr. apply skipn_abs.
  - intros _. cbn [oitems adata]. rewrite (slot_vals_split (Z.to_nat n) (adata a)). perm_solve.
Qed.

Lemma step_resize_grow cls e b a n v evs0 :
  awf_env cls e -> aenv_get e b = Some a -> asize a < n ->
  evs0 = [EFree []] ++ (if cls then map ECtor (repeat v (Z.to_nat n - length (adata a))) else []) ->
  astep_ok' cls e
    (aenv_set e b (Some (mkArr n (adata a ++ map Live (repeat v (Z.to_nat n - length (adata a)))))),
     Some ([], evs0))
    (senv_set (abs_aenv e) b (Some (sresize (abs_arr a) n (Some v))),
     Some ([], if cls then repeat v (Z.to_nat n - length (abs_arr a)) else [],
               if cls then somes (skipn (Z.to_nat n) (abs_arr a)) else [])).
Proof.
  intros W G H ->.
  pose proof (aenv_get_awf cls e b a W G) as Wa.
  pose proof (aenv_get_range e b a G) as Hb.
  pose proof Wa as (W0 & W1 & W2 & W3).
  eapply (astep_set1' cls e b (Some a));
    [exact W | lia | exact G
    | apply awf_grow_live; [exact Wa | unfold Zlen in *; rewrite repeat_length; lia]
    | apply evsum_app; [apply evsum_free_nil | apply evsum_ctor_if]
    | | reflexivity | | | ].
  - unfold abs_arr; cbn [adata]. apply sresize_grow. lia.
  - rewrite length_abs_arr. reflexivity.
  - rewrite skipn_all2 by (rewrite length_abs_arr; unfold Zlen in W1; lia).
    destruct cls; reflexivity.
  - intros ->. cbn [oitems adata]. rewrite slot_vals_app, slot_vals_map_live. perm_solve.
Qed.

Lemma step_resize_false e b a n evs0 (fill : option Z) :
  awf_env false e -> aenv_get e b = Some a -> 0 <= n ->
  evs0 = [@EFree Z []] ->
  sresize (abs_arr a) n fill = map abs_slot (realloc (adata a) n) ->
  astep_ok' false e
    (aenv_set e b (Some (mkArr n (realloc (adata a) n))), Some ([], evs0))
    (senv_set (abs_aenv e) b (Some (sresize (abs_arr a) n fill)), Some ([], [], [])).
Proof.
  intros W G H -> E.
  pose proof (aenv_get_awf false e b a W G) as Wa.
  pose proof (aenv_get_range e b a G) as Hb.
  eapply (astep_set1' false e b (Some a));
    [exact W | lia | exact G | apply awf_realloc; [exact Wa | exact H]
    | apply evsum_free_nil | exact E | reflexivity | reflexivity | reflexivity | discriminate].
Qed.

Lemma step_op9 cls e b n : awf_env cls e -> astep_ok cls e [9; b; n].
Proof.
  step_start W.
  destruct (aenv_get e b) as [a|] eqn:G; cbn [option_map]; [|step_none W].
  destruct (0 <=? n) eqn:Hn; [|step_none W].
  pose proof (aenv_get_awf cls e b a W G) as Wa.
  destruct cls.
  - destruct (Z_le_gt_dec n (asize a)) as [Hle|Hgt].
    + rewrite resize_default_shrink_true by (try exact Wa; lia). cbv beta iota.
      apply (step_resize_shrink_true e b a n _ (Some 0) W G); [lia | reflexivity].
    + rewrite resize_default_grow_true by (try exact Wa; lia). cbv beta iota.
      apply (step_resize_grow true e b a n 0 _ W G); [lia | reflexivity].
  - rewrite resize_default_false. cbv beta iota.
    apply (step_resize_false e b a n _ None W G); [lia | reflexivity | ].
    unfold abs_arr. apply sresize_realloc.
Qed.

Lemma step_op10 cls e b n v : awf_env cls e -> astep_ok cls e [10; b; n; v].
Proof.
  step_start W.
  destruct (aenv_get e b) as [a|] eqn:G; cbn [option_map]; [|step_none W].
  destruct (0 <=? n) eqn:Hn; [|step_none W].
  pose proof (aenv_get_awf cls e b a W G) as Wa.
  destruct (Z_le_gt_dec n (asize a)) as [Hle|Hgt].
  - destruct cls.
    + rewrite resize_fill_shrink_true by (try exact Wa; lia). cbv beta iota.
      apply (step_resize_shrink_true e b a n _ (Some v) W G); [lia | reflexivity].
    + rewrite resize_fill_shrink_false by lia. cbv beta iota.
      apply (step_resize_false e b a n _ (Some v) W G); [lia | reflexivity | ].
      destruct Wa as (W0 & W1 & _).
      rewrite realloc_shrink by lia. unfold abs_arr. apply sresize_shrink. lia.
  - rewrite (resize_fill_grow cls) by (try exact Wa; lia). cbv beta iota.
    apply (step_resize_grow cls e b a n v _ W G); [lia | reflexivity].
Qed.

(* ---- element access ------------------------------------------------------------------------ *)

Lemma list_set_map_mid {A B} (f : A -> B) pre x post y :
  list_set (map f (pre ++ x :: post)) (length pre) y = map f pre ++ y :: map f post.
Proof.
  rewrite map_app. cbn [map]. rewrite <- (map_length f pre). apply list_set_app.
Qed.

Lemma nth_map_mid {A B} (f : A -> B) pre x post d :
  nth (length pre) (map f (pre ++ x :: post)) d = f x.
Proof.
  rewrite map_app. cbn [map]. rewrite <- (map_length f pre). apply nth_middle.
Qed.

Lemma step_op11 cls e b i v : awf_env cls e -> astep_ok cls e [11; b; i; v].
Proof.
  step_start W.
  destruct (aenv_get e b) as [a|] eqn:G; cbn [option_map]; [|step_none W].
  pose proof (aenv_get_awf cls e b a W G) as Wa.
  pose proof (aenv_get_range e b a G) as Hb.
  pose proof Wa as (W0 & W1 & W2 & W3).
  unfold write. rewrite Zlen_abs_arr, W1.
  destruct ((0 <=? i) && (i <? asize a)) eqn:Hi; [|step_none W].
  destruct (split_at (adata a) i ltac:(lia)) as (pre & x & post & Ed & Ei).
  unfold abs_arr. rewrite Ed in *. subst i.
  rewrite wr_mid, ub_mid, rd_mid, to_nat_Zlen, list_set_map_mid, nth_map_mid. cbn [app].
  rewrite Zlen_app in W1.
  destruct cls.
  - specialize (W2 eq_refl). rewrite forallb_app in W2. apply andb_prop in W2. destruct W2 as [L1 L2].
    cbn [forallb] in L2. apply andb_prop in L2. destruct L2 as [L2 L3].
    destruct x as [|w|]; cbn in L2; try discriminate.
    eapply (astep_set1' true e b (Some a)) with (ct := []) (rem := [w]) (asg := [v]);
      [exact W | lia | exact G | | constructor; reflexivity | | reflexivity | reflexivity | reflexivity | ].
    + unfold awf; cbn [asize adata]. split; [exact W0|]. split; [rewrite Zlen_app; exact W1|].
      split; [intros _; rewrite forallb_app, L1; cbn [forallb is_live]; rewrite L3; reflexivity|].
      apply Forall_app in W3. destruct W3 as [N1 N2]. apply Forall_app. split; [exact N1|].
      inversion N2; subst. constructor; [congruence | assumption].
    + unfold abs_arr; cbn [adata]. rewrite map_app. reflexivity.
    + intros _. cbn [oitems adata]. rewrite Ed, !slot_vals_app.
      change (slot_vals (Live w :: post)) with (w :: slot_vals post).
      change (slot_vals (Live v :: post)) with (v :: slot_vals post). perm_solve.
  - cbv beta iota.
    eapply (astep_set1' false e b (Some a)) with (ct := []) (rem := []) (asg := []);
      [exact W | lia | exact G | | apply evsum_nil | | reflexivity | reflexivity | reflexivity | discriminate].
    + unfold awf; cbn [asize adata]. split; [exact W0|]. split; [rewrite Zlen_app; exact W1|].
      split; [discriminate|].
      apply Forall_app in W3. destruct W3 as [N1 N2]. apply Forall_app. split; [exact N1|].
      inversion N2; subst. constructor; [congruence | assumption].
    + unfold abs_arr; cbn [adata]. rewrite map_app. reflexivity.
Qed.

Lemma step_op12 cls e b : awf_env cls e -> astep_ok cls e [12; b].
Proof.
  step_start W.
  destruct (aenv_get e b) as [a|] eqn:G; cbn [option_map]; [|step_none W].
  pose proof (aenv_get_awf cls e b a W G) as Wa.
  pose proof (aenv_get_range e b a G) as Hb.
  destruct cls.
  - eapply (astep_unset' true e b (Some a));
      [exact W | lia | exact G | apply evsum_dtor_true; exact Wa | reflexivity | reflexivity | | ].
    + unfold abs_arr. apply somes_abs.
    + intros _. cbn [oitems app]. apply Permutation_refl.
  - rewrite dtor_false.
    eapply (astep_unset' false e b (Some a));
      [exact W | lia | exact G | apply evsum_free_nil | reflexivity | reflexivity | reflexivity | discriminate].
Qed.

Lemma rd_abs (d : list (slot Z)) i : Forall (fun s => s <> Shell) d -> 0 <= i < Zlen d ->
  slot_z (rd d i) = oz (nth (Z.to_nat i) (map abs_slot d) None).
Proof.
  intros N H. rewrite rd_in by exact H.
  change (@None Z) with (abs_slot Raw). rewrite map_nth.
  apply slot_z_abs. apply noshell_nth. exact N.
Qed.

Lemma step_op13 cls e b i : awf_env cls e -> astep_ok cls e [13; b; i].
Proof.
  step_start W.
  destruct (aenv_get e b) as [a|] eqn:G; cbn [option_map]; [|step_none W].
  pose proof (aenv_get_awf cls e b a W G) as (W0 & W1 & W2 & W3).
  unfold read. rewrite Zlen_abs_arr, W1.
  destruct ((0 <=? i) && (i <? asize a)) eqn:Hi; [|step_none W].
  rewrite ub_in by lia.
  apply astep_same; [exact W | | apply evsum_nil].
  unfold abs_arr. rewrite rd_abs by (try exact W3; lia). reflexivity.
Qed.

Lemma step_op14 cls e b : awf_env cls e -> astep_ok cls e [14; b].
Proof.
  step_start W.
  destruct (aenv_get e b) as [a|] eqn:G; cbn [option_map]; [|step_none W].
  pose proof (aenv_get_awf cls e b a W G) as (W0 & W1 & W2 & W3).
  rewrite Zlen_abs_arr, W1.
  destruct (1 <=? asize a) eqn:Hi; [|step_none W].
  rewrite !ub_in by lia. cbn [app].
  apply astep_same; [exact W | | apply evsum_nil].
  unfold abs_arr. rewrite !rd_abs by (try exact W3; lia).
  rewrite map_length. change (Z.to_nat 0) with 0%nat.
  replace (Z.to_nat (asize a - 1)) with (length (adata a) - 1)%nat by (unfold Zlen in W1; lia).
  reflexivity.
Qed.
