(* Properties_C14.v — Array has value semantics: contents, copies and element lifetimes are
   exact. Only statements, each closed by [exact <lemma of ArrayProofs>], and Print Assumptions. *)
From Coq Require Import List ZArith Bool Lia Permutation.
From Tulz Require Import Common RingModel RingInv ArrayModel ArrayInv ArrayProofs ArrayAliasProofs.
Import ListNotations.
Local Open Scope Z_scope.

(* THE property, contents part: for every history of operation lines over three Array
   variables — every construction path (pointer+length, initializer list, size, size+value),
   copy, move, copy/move assignment, swap, both resizes, element writes, reads, destruction;
   valid or not; class and non-class element types; every length including 0 — the model
   holds after every step exactly the list of values of the value-semantics specification
   (in which copies are independent lists by construction), returns the same values and
   rejects exactly the operations whose precondition fails. *)
Theorem C14_refines_values : forall cls ops,
  map view_arr (arr_trace afixed cls aenv0 ops) = map view_sarr (spec_trace cls senv0 ops).
Proof. exact arr_refines_values. Qed.
Print Assumptions C14_refines_values.

(* Lifetimes, per step of every history: no access outside the allocation, no destructor or
   assignment on raw storage, no array released while it holds an element; the values
   constructed are exactly those the specification creates (copied, filled, defaulted) and
   the values destroyed / assigned over exactly those it removes (cut by a shrinking resize,
   replaced by assignment or write, alive at destruction) — in order, each once. *)
Theorem C14_step_lifetimes : forall cls ops,
  Forall2 a_step_lifetimes_ok (arr_trace afixed cls aenv0 ops) (spec_trace cls senv0 ops).
Proof. exact arr_step_lifetimes. Qed.
Print Assumptions C14_step_lifetimes.

(* Conservation for class types over every history: every element ever constructed is either
   destroyed / assigned over exactly once or still held by a live array
   (element writes a[i] = v put the value v into an existing element). *)
Theorem C14_conservation : forall ops e',
  fold_left (fun e op => fst (arr_step afixed true e op)) ops aenv0 = e' ->
  let evs := a_all_events (arr_trace afixed true aenv0 ops) in
  Permutation (constructed evs ++ assigned evs) (removed evs ++ alive_items e').
Proof. exact arr_conservation. Qed.
Print Assumptions C14_conservation.

(* every reachable environment is well-formed: allocation length = size, class slots all hold
   elements (so no access within [0,size) ever leaves the allocation) *)
Theorem C14_wf_reachable : forall cls ops,
  awf_env cls (fold_left (fun e op => fst (arr_step afixed cls e op)) ops aenv0).
Proof. exact arr_wf_reachable. Qed.
Print Assumptions C14_wf_reachable.

(* The pinned upstream pointer+length constructor (allocation sized by the still-zero member)
   violates the property: kernel-checked witness, replayed on the implementation (corpus/C14). *)
Theorem C14_upstream_ptr_ctor_refuted :
  exists ops, existsb (fun e => negb (ev_ok e)) (a_all_events (arr_trace aupstream true aenv0 ops)) = true.
Proof. exact upstream_ptr_ctor_refuted. Qed.
Print Assumptions C14_upstream_ptr_ctor_refuted.

(* resize(n, a[i]) — the fill value refers to an element of the array itself. The tree's code performs exactly
   the ordinary resize (covered by the theorems above) with the value that element holds, around one construction
   and one destruction of a copy of it; the correspondence run exercises these calls on the real template. *)
Theorem C14_alias_resize : forall cls a n i a' evs,
  resize_fill_alias true cls a n i = Some (a', evs) ->
  exists v u, read a i = Some (Live v, u) /\ 0 <= n /\
    a' = fst (resize_fill cls a n v) /\
    evs = (if cls then [ECtor v] else []) ++ snd (resize_fill cls a n v) ++ (if cls then [EDtor (Live v)] else []).
Proof. exact alias_guarded_spec. Qed.
Print Assumptions C14_alias_resize.

(* The pinned upstream resize(size, value) used the reference after destroy()/realloc() had invalidated it
   whenever the array grew (D11): kernel-checked witness, replayed on the implementation (corpus/C14). *)
Theorem C14_upstream_alias_refuted :
  exists a n i a' evs, resize_fill_alias false true a n i = Some (a', evs) /\ In EUb evs.
Proof. exact upstream_alias_refuted. Qed.
Print Assumptions C14_upstream_alias_refuted.

(* Array(ptr, n, copy = false) adopts the caller's block: the state is the one the initializer-list constructor
   builds from the same values (no element is constructed by the library), so the theorems above apply to every
   history continuing from it. *)
Theorem C14_adopt_is_list_state : forall vals, adopt vals = fst (ctor_list vals).
Proof. exact adopt_is_list_state. Qed.
Print Assumptions C14_adopt_is_list_state.

(* Histories containing aliasing resizes and adoptions: with respect to returned values and contents they are the
   histories of ordinary operations obtained by replacing resize(n, a[i]) with resize(n, v) for the value v that element
   holds at that moment and the adopting constructor with the initializer-list constructor; so they refine the
   value-semantics specification as well. *)
Theorem C14_alias_histories : forall cls ops,
  map view_arr (arr_trace_d true afixed cls aenv0 ops) = map view_sarr (spec_trace cls senv0 (adesugar_all cls aenv0 ops)).
Proof. exact alias_refines_values. Qed.
Print Assumptions C14_alias_histories.

Example C14_nonvacuous :
  map view_arr (arr_trace afixed true aenv0 [[3;0;7;8;9];[4;1;0];[11;1;0;5];[9;0;1];[10;0;3;4];[12;0];[12;1]])
  = [(Some [], [3;7;8;9;-1;-1]); (Some [], [3;7;8;9;3;7;8;9;-1]); (Some [], [3;7;8;9;3;5;8;9;-1]);
     (Some [], [1;7;3;5;8;9;-1]); (Some [], [3;7;4;4;3;5;8;9;-1]); (Some [], [-1;3;5;8;9;-1]); (Some [], [-1;-1;-1])].
Proof. vm_compute. reflexivity. Qed.
