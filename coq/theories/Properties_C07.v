(* Properties_C07.v — ThreadPool runs every task at most once and owns it until destroyed once.
   Only statements, each closed by [exact <lemma of PoolProofsA>], and Print Assumptions.
   Every theorem quantifies over every maximum thread count, every owner program of
   start / clear / stop calls and every schedule (label sequence; labels that are not enabled
   are skipped, spurious wake-ups included). Workers do not expire. *)
From Coq Require Import List ZArith Bool Lia Sorted.
From Tulz Require Import RaceModel AtomicSections.
From TulzGen Require Import Accesses.
From Tulz Require Import Common PoolModel PoolInv PoolProofsA.
Import ListNotations.

(* run() of a task is entered at most once and the task is destroyed at most once *)
Theorem C07_at_most_once : forall maxw pr ls k,
  (count_ev (is_begin k) (evs (prun true (pinit maxw pr) ls)) <= 1)%nat /\
  (count_ev (is_delete k) (evs (prun true (pinit maxw pr) ls)) <= 1)%nat.
Proof. exact at_most_once. Qed.
Print Assumptions C07_at_most_once.

(* a task is never destroyed before or during its own execution: when it is destroyed, every
   run() of it that began has returned, and it never begins afterwards *)
Theorem C07_delete_after_run : forall maxw pr ls k post pre,
  evs (prun true (pinit maxw pr) ls) = post ++ EvDelete k :: pre ->
  count_ev (is_begin k) pre = count_ev (is_end k) pre /\ count_ev (is_begin k) post = 0%nat.
Proof. exact delete_after_run. Qed.
Print Assumptions C07_delete_after_run.

(* no task starts running after stop() has returned until the owner calls start() again: in a
   state where the owner is idle, the queue is empty and every worker has been joined, no
   worker step is enabled; and that is the state stop() leaves (Properties_C08, C08_stop_post) *)
Theorem C07_nothing_runs_when_stopped : forall s w,
  all_gone s -> step_worker s w = None.
Proof. exact nothing_runs_when_stopped. Qed.
Print Assumptions C07_nothing_runs_when_stopped.

(* when the owner's program, which ends with stop(), has completed, every task ever submitted
   has been destroyed exactly once, and every run() that began has returned (so a task that was
   not stopped or cleared first was executed exactly once: a task leaves the queue only into a
   worker's run() or through clear()/stop()) *)
Theorem C07_all_destroyed_at_the_end : forall maxw pr ls k,
  let s := prun true (pinit maxw (pr ++ [OStop])) ls in
  prog s = [] -> own s = OIdle -> (k < next_task s)%nat ->
  count_ev (is_delete k) (evs s) = 1%nat /\ count_ev (is_begin k) (evs s) = count_ev (is_end k) (evs s).
Proof. exact all_destroyed_at_the_end. Qed.
Print Assumptions C07_all_destroyed_at_the_end.

(* tasks are taken from the queue in submission order (with a single worker this is the order
   in which they run; with several workers run() entries of different workers may overlap, but
   no task is taken before an earlier one) *)
Theorem C07_submission_order : forall maxw pr ls,
  StronglySorted lt (begins (evs (prun true (pinit maxw pr) ls))).
Proof. exact submission_order. Qed.
Print Assumptions C07_submission_order.

Example C07_nonvacuous :
  let s := prun true (pinit 1 [OStart; OStart; OStop])
             [LO None; LO None; LO None; LW 0; LW 0; LO None; LO None; LO None; LW 0; LO None; LW 0; LO None; LW 0;
              LO None; LO None; LO None] in
  (rev (evs s), own s, prog s)
  = ([EvSpawn 0; EvBegin 0 0; EvEnd 0 0; EvDelete 0; EvDelete 1; EvStopReturned], OIdle, []).
Proof. vm_compute. reflexivity. Qed.

(* A premise of the micro-step model (a worker's look at the queue and its removal of the front task are one step, as
   are the owner's push and clear), checked on the access rows the translator extracted from the CURRENT source
   (TulzGen.Accesses, regenerated on every run): every access to the task queue is made holding m_queueMutex, hence
   no two threads ever touch the queue at the same time (AtomicSections.v). *)
Theorem C07_queue_sections : forall n os t1 t2 a1 a2,
  t1 <> t2 -> In a1 extracted_accesses -> In a2 extracted_accesses ->
  RaceModel.a_comp a1 = pool_component -> RaceModel.a_comp a2 = pool_component ->
  RaceModel.a_field a1 = pool_queue -> RaceModel.a_field a2 = pool_queue ->
  RaceModel.can_perform (RaceModel.lrun (RaceModel.linit n) os) t1 a1 ->
  RaceModel.can_perform (RaceModel.lrun (RaceModel.linit n) os) t2 a2 -> False.
Proof. apply (AtomicSections.field_exclusive pool_component pool_queue pool_queue_mutex). vm_compute. reflexivity. Qed.
Print Assumptions C07_queue_sections.
