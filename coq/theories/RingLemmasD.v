(* RingLemmasD.v — silentCopy, destructor loops, resize, destroy, copy, init_list, equality. *)
From Coq Require Import List ZArith Bool Lia ZifyBool Permutation.
From Tulz Require Import Common RingModel RingInv RingLemmasA RingLemmasB RingLemmasC.
Import ListNotations.
Local Open Scope Z_scope.

Section D.
Context {V : Type}.
Implicit Types (d : list (slot V)) (r : ring V).

Lemma length_slice d s n : 0 <= s -> 0 <= n -> s + n <= Zlen d -> length (slice d s n) = Z.to_nat n.
Proof. intros. unfold slice, Zlen in *. rewrite firstn_length, skipn_length. lia. Qed.

Lemma nth_slice d s n k : 0 <= s -> 0 <= k < n ->
  nth (Z.to_nat k) (slice d s n) Raw = nth (Z.to_nat (s + k)) d Raw.
Proof.
  intros. unfold slice. rewrite nth_firstn_lt by lia. rewrite nth_skipn. f_equal. lia.
Qed.

Lemma Zlen_clear d s n : 0 <= s -> 0 <= n -> s + n <= Zlen d -> Zlen (clear d s n) = Zlen d.
Proof.
  intros. unfold clear, Zlen in *. rewrite !app_length, firstn_length, repeat_length, skipn_length. lia.
Qed.

Lemma rd_clear d s n j : 0 <= s -> 0 <= n -> s + n <= Zlen d ->
  rd (clear d s n) j = if (s <=? j) && (j <? s + n) then Raw else rd d j.
Proof.
  intros Hs Hn Hl.
  assert (Hf : Zlen (firstn (Z.to_nat s) d) = s) by (unfold Zlen in *; rewrite firstn_length; lia).
  assert (Hr : Zlen (repeat (@Raw V) (Z.to_nat n)) = n) by (unfold Zlen in *; rewrite repeat_length; lia).
  destruct (Z_lt_le_dec j 0) as [Hj0|Hj0].
  { rewrite !rd_out by lia. destruct ((s <=? j) && (j <? s + n)); auto. }
  destruct (Z_lt_le_dec j (Zlen d)) as [Hjl|Hjl].
  2:{ rewrite !rd_out by (rewrite ?Zlen_clear by lia; lia). destruct ((s <=? j) && (j <? s + n)); auto. }
  unfold clear.
  destruct (Z_lt_le_dec j s).
  - replace ((s <=? j) && (j <? s + n)) with false by lia.
    rewrite rd_app1 by lia. rewrite !rd_in by lia. apply nth_firstn_lt. lia.
  - rewrite rd_app2 by lia. rewrite Hf. destruct (Z_lt_le_dec j (s + n)).
    + replace ((s <=? j) && (j <? s + n)) with true by lia.
      rewrite rd_app1 by lia. apply rd_repeat_Raw.
    + replace ((s <=? j) && (j <? s + n)) with false by lia.
      rewrite rd_app2 by lia. rewrite Hr.
      rewrite !rd_in by (unfold Zlen in *; try rewrite skipn_length; lia).
      rewrite nth_skipn. f_equal. lia.
Qed.

Lemma range_ub_ok d s n : 0 <= s -> s + n <= Zlen d -> range_ub d s n = [].
Proof.
  intros. unfold range_ub.
  replace ((n <=? 0) || (0 <=? s) && (s + n <=? Zlen d)) with true by lia. reflexivity.
Qed.

Lemma silentCopy_spec p s c d n copied d1 ev1 :
  1 <= c -> 0 <= p < c -> Zlen d = c -> 0 <= n <= c ->
  silentCopy (mkRing p s c d) n = (copied, d1, ev1) ->
  copied = contents (mkRing p n c d) /\ Zlen d1 = c /\ ev1 = [] /\
  (forall j, 0 <= j < c -> (p <= j < p + n \/ j < p + n - c) -> rd d1 j = Raw) /\
  (forall j, 0 <= j < c -> ~ (p <= j < p + n \/ j < p + n - c) -> rd d1 j = rd d j).
Proof.
  intros Hc Hp Hl Hn. unfold silentCopy; cbn [pos size cap data].
  set (n1 := Z.min n (c - p)). set (n2 := n - n1). set (s2 := modCap (p + n1) c).
  intros E. inversion E; subst copied d1 ev1; clear E.
  assert (Hs2 : 0 <= s2 < c) by (apply modCap_range; lia).
  assert (Hn1 : 0 <= n1 /\ p + n1 <= c) by lia.
  assert (Hn2 : 0 <= n2 /\ s2 + n2 <= c).
  { unfold s2, n2 in *. mcz. lia. }
  assert (Hcase : (n1 = n /\ n2 = 0) \/ (n1 = c - p /\ s2 = 0 /\ n2 = n - (c - p))).
  { unfold s2, n2 in *. mcz. lia. }
  assert (Hc1 : Zlen (clear d p n1) = c) by (rewrite Zlen_clear; lia).
  split; [|split; [|split; [|split]]].
  - symmetry. apply contents_ext; cbn [pos size cap data].
    + unfold Zlen. rewrite app_length, !length_slice by lia. lia.
    + intros k Hk. unfold dataIndex; cbn [pos size cap data].
      destruct (Z_lt_le_dec k n1).
      * rewrite app_nth1 by (rewrite length_slice by lia; lia).
        rewrite nth_slice by lia. rewrite rd_in by (mcz; lia). f_equal. mcz; lia.
      * rewrite app_nth2 by (rewrite length_slice by lia; lia).
        rewrite length_slice by lia.
        replace (Z.to_nat k - Z.to_nat n1)%nat with (Z.to_nat (k - n1)) by lia.
        rewrite nth_slice by lia. rewrite rd_in by (mcz; lia). f_equal. mcz; lia.
  - rewrite Zlen_clear; lia.
  - rewrite !range_ub_ok by lia. reflexivity.
  - intros j Hj HR. rewrite rd_clear by lia. rewrite rd_clear by lia.
    destruct ((s2 <=? j) && (j <? s2 + n2)) eqn:E1; auto.
    destruct ((p <=? j) && (j <? p + n1)) eqn:E2; auto. exfalso. lia.
  - intros j Hj HR. rewrite rd_clear by lia. rewrite rd_clear by lia.
    destruct ((s2 <=? j) && (j <? s2 + n2)) eqn:E1; [exfalso; lia|].
    destruct ((p <=? j) && (j <? p + n1)) eqn:E2; auto. exfalso. lia.
Qed.

Lemma dtor_loop_spec p c (cnt : nat) : forall d start d' ev,
  0 < c -> Zlen d = c -> Z.of_nat cnt <= c ->
  dtor_loop d (fun i => modCap (p + i) c) start cnt = (d', ev) ->
  Zlen d' = c /\
  (forall i, start <= i < start + Z.of_nat cnt -> rd d' (modCap (p + i) c) = Raw) /\
  (forall j, (forall i, start <= i < start + Z.of_nat cnt -> modCap (p + i) c <> j) -> rd d' j = rd d j) /\
  ev = map EDtor (contents (mkRing (modCap (p + start) c) (Z.of_nat cnt) c d)).
Proof.
  induction cnt as [|cnt IH]; intros d start d' ev Hc Hl Hcnt E.
  - cbn [dtor_loop] in E. inversion E; subst. split; auto. split; [intros; lia|]. split; auto.
  - cbn [dtor_loop] in E.
    destruct (dtor_loop (wr d (modCap (p + start) c) Raw) (fun i => modCap (p + i) c) (start + 1) cnt)
      as [d1 ev1] eqn:E1.
    inversion E; subst d' ev; clear E.
    assert (Hir : 0 <= modCap (p + start) c < c) by (apply modCap_range; lia).
    apply IH in E1; try lia; [|rewrite Zlen_wr; lia].
    destruct E1 as (HL & Ha & Hb & Hev).
    assert (Hneq : forall i, start + 1 <= i < start + 1 + Z.of_nat cnt ->
                             modCap (p + i) c <> modCap (p + start) c).
    { intros i Hi. replace (p + i) with (p + start + (i - start)) by lia.
      apply modCap_off_neq; lia. }
    split; auto. split; [|split].
    + intros i Hi. destruct (Z.eq_dec i start) as [->|Hne].
      * rewrite Hb by auto. apply rd_wr_same. lia.
      * apply Ha. lia.
    + intros j Hj. rewrite Hb by (intros i Hi; apply Hj; lia).
      apply rd_wr_other. apply Hj. lia.
    + rewrite ub_in by lia. cbn [app].
      replace (Z.of_nat (S cnt)) with (Z.of_nat cnt + 1) by lia.
      rewrite contents_cons by lia. cbn [map]. f_equal.
      * f_equal. f_equal. mcz; lia.
      * rewrite Hev. f_equal. rewrite modCap_idem_l by lia.
        replace (p + start + 1) with (p + (start + 1)) by lia.
        apply contents_data_ext. intros k Hk. apply rd_wr_other.
        rewrite modCap_idem_l by lia. intros E. symmetry in E. revert E.
        replace (p + (start + 1) + k) with (p + (start + 1 + k)) by lia.
        apply Hneq. lia.
Qed.

(* ---- events of a run of destructor calls followed by the release ----------------------- *)

Lemma evfacts_app (e1 e2 : list (event V)) (x1 c1 m1 x2 c2 m2 : list V) :
  evfacts e1 x1 c1 m1 -> evfacts e2 x2 c2 m2 -> evfacts (e1 ++ e2) (x1 ++ x2) (c1 ++ c2) (m1 ++ m2).
Proof.
  intros (A1 & A2 & A3 & A4) (B1 & B2 & B3 & B4). unfold evfacts, removed, constructed, moved_out in *.
  rewrite forallb_app, !flat_map_app, A1, A2, A3, A4, B1, B2, B3, B4. auto.
Qed.

Lemma evfacts_dtors (l : list V) : evfacts (map EDtor (map Live l)) l [] [].
Proof.
  induction l as [|x l IH]; [repeat split|].
  destruct IH as (A1 & A2 & A3 & A4). unfold evfacts, removed, constructed, moved_out in *.
  cbn [map forallb flat_map ev_ok app]. rewrite A1, A2, A3, A4. auto.
Qed.

Lemma evfacts_ctors (l : list V) : evfacts (map ECtor l) [] l [].
Proof.
  induction l as [|x l IH]; [repeat split|].
  destruct IH as (A1 & A2 & A3 & A4). unfold evfacts, removed, constructed, moved_out in *.
  cbn [map forallb flat_map ev_ok app]. rewrite A1, A2, A3, A4. auto.
Qed.

Lemma evfacts_free (d2 : list (slot V)) : existsb is_live d2 = false -> evfacts [EFree d2] [] [] [].
Proof. intros H. unfold evfacts. cbn. rewrite H. auto. Qed.

Lemma no_live_list (d2 : list (slot V)) :
  (forall j, 0 <= j < Zlen d2 -> is_live (rd d2 j) = false) -> existsb is_live d2 = false.
Proof.
  intros H. apply existsb_live_false. intros k Hk. rewrite <- rd_in by lia. auto.
Qed.

End D.
