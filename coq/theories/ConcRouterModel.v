(* ConcRouterModel.v — executable model of include/tulz/observer/routing/ConcurrentSubjectRouter.h
   (definitions only): the rwp::Resource model (ResourceModel.v, the tree's variant) composed
   with the router model (RouterModel.v).

   Every thread runs a program of router operations. An operation takes the lock in the mode the
   lock table assigns to it (read, write, or none), runs its body and releases the lock. The body
   of a notify is one step per callback: each step looks the router up again, takes the next
   call of the delivery computed from the CURRENT router state and runs that callback — callbacks
   contain scheduling points, so other threads do run in between; the other operations are one
   step. One label LT t advances thread t to its next observable boundary (parked in
   Resource::lock, inside a callback, operation completed), performing the internal steps of the
   Resource (Req / Wake / Rel / Notify) on the way, as the controlled scheduler does on the real
   code. The lock table is a parameter (it is regenerated from the source on every run). *)
From Coq Require Import List ZArith Bool Lia Arith.
From Tulz Require Import Common ResourceModel RouterModel.
Import ListNotations.
Local Open Scope Z_scope.

Inductive lmode := MRead | MWrite | MNone.
Record locktable := mkLT {
  lt_notify : lmode; lt_exists : lmode; lt_depth : lmode;
  lt_subscribe : lmode; lt_shrink : lmode; lt_unsubscribe : lmode
}.

Definition op_mode (tbl : locktable) (o : rop) : lmode :=
  match o with
  | RNotify _ _ => lt_notify tbl
  | RExists _ => lt_exists tbl
  | RDepth => lt_depth tbl
  | RSubscribe _ => lt_subscribe tbl
  | RShrink _ => lt_shrink tbl
  | RUnsub _ => lt_unsubscribe tbl
  | _ => MNone        (* mute / unmute / invalidate are unsynchronised in the source and not used here *)
  end.

Definition mutates (o : rop) : bool :=
  match o with RSubscribe _ | RShrink _ | RUnsub _ => true | _ => false end.

(* read-only operations need at least the read lock, mutating ones the write lock *)
Definition lock_table_ok (tbl : locktable) : bool :=
  let rd m := match m with MRead | MWrite => true | MNone => false end in
  let wr m := match m with MWrite => true | _ => false end in
  rd (lt_notify tbl) && rd (lt_exists tbl) && rd (lt_depth tbl) &&
  wr (lt_subscribe tbl) && wr (lt_shrink tbl) && wr (lt_unsubscribe tbl).

(* where a thread is *)
Inductive cphase :=
| PIdle
| PParked (o : rop)                (* blocked inside Resource::lock *)
| PInCb (o : rop) (k : nat).       (* inside the k-th callback of a notify *)

Inductive cevent :=
| CGrant (t : nat) (o : rop)                   (* the lock was granted / the body starts *)
| CCall (t : nat) (obs : nat) (v : Z)          (* thread t runs the callback of observer obs *)
| CEffect (t : nat) (o : rop)                  (* the operation's effect on the router takes place *)
| CDone (t : nat) (o : rop) (ret : list Z).    (* the operation returned *)

Record cstate := mkCS {
  lk : state;                      (* the Resource (threads' lock status, queue, ghost history) *)
  rt : router;
  ph : list cphase;
  cprogs : list (list rop);
  clog : list cevent               (* newest first *)
}.

Definition cr_init (ps : list (list rop)) : cstate :=
  mkCS (init (length ps)) router0 (repeat PIdle (length ps)) ps [].

Definition SIG : sig := SVal 1.      (* one signature per router: by-value int *)
Definition byval1 (k : Z) : bool := k =? 1.

Definition do_rstep (r : router) (o : rop) : router * list Z * list (nat * Z) :=
  match rstep true byval1 SIG r o with
  | Some x => x
  | None => (r, [], [])
  end.

Definition mode_op (m : lmode) : option optype := match m with MRead => Some Rd | MWrite => Some Wr | MNone => None end.

(* unlock: the critical section of unlock() and, if it was the last holder, the notify_all *)
Definition release (m : lmode) (l : state) (t : nat) : state :=
  match m with
  | MNone => l
  | _ => match step true l (Rel t) with
         | Some l1 => match step true l1 (Notify t) with Some l2 => l2 | None => l1 end
         | None => l
         end
  end.

Definition set_ph (s : cstate) (t : nat) (p : cphase) : list cphase := list_set (ph s) t p.

(* finish operation o of thread t: effect, result, release *)
Definition finish_op (tbl : locktable) (s : cstate) (t : nat) (o : rop) : cstate :=
  let '(r', ret, _) := do_rstep (rt s) o in
  mkCS (release (op_mode tbl o) (lk s) t) r' (set_ph s t PIdle) (cprogs s)
       (CDone t o ret :: (if mutates o then [CEffect t o] else []) ++ clog s).

(* run the body of o from callback number k on: stop inside the next callback, or finish *)
Definition run_body (tbl : locktable) (s : cstate) (t : nat) (o : rop) (k : nat) : cstate :=
  match o with
  | RNotify _ _ =>
      let '(_, _, calls) := do_rstep (rt s) o in
      match nth_error calls k with
      | Some (obs, v) => mkCS (lk s) (rt s) (set_ph s t (PInCb o k)) (cprogs s) (CCall t obs v :: clog s)
      | None => finish_op tbl s t o
      end
  | _ => finish_op tbl s t o
  end.

Definition granted (s : cstate) (t : nat) (o : rop) : cstate :=
  mkCS (lk s) (rt s) (ph s) (cprogs s) (CGrant t o :: clog s).

(* an unsubscribe through a handle whose subscription is gone does nothing (and takes no lock) *)
Definition is_noop (s : cstate) (o : rop) : bool :=
  match o with
  | RUnsub h => negb (handle_live (rt s) h) ||
                (* another thread is already inside unsubscribe() of this handle: using one handle
                   from two threads at once is outside the property (handle operations presuppose
                   a valid handle), the second caller backs off *)
                existsb (fun p => match p with PParked (RUnsub h') => Nat.eqb h h' | _ => false end) (ph s)
  | _ => false
  end.

Definition cstep (tbl : locktable) (s : cstate) (t : nat) : option cstate :=
  match nth_error (ph s) t with
  | Some PIdle =>
      match nth_error (cprogs s) t with
      | Some (o :: rest) =>
          let s0 := mkCS (lk s) (rt s) (ph s) (list_set (cprogs s) t rest) (clog s) in
          if is_noop s o then Some (mkCS (lk s0) (rt s0) (ph s0) (cprogs s0) (CDone t o [] :: clog s0))
          else
            match mode_op (op_mode tbl o) with
            | None => Some (run_body tbl (granted s0 t o) t o 0)
            | Some m =>
                match step true (lk s0) (Req t m) with
                | Some l' =>
                    match nth_error (thr l') t with
                    | Some (Holding _) => Some (run_body tbl (granted (mkCS l' (rt s0) (ph s0) (cprogs s0) (clog s0)) t o) t o 0)
                    | _ => Some (mkCS l' (rt s0) (set_ph s0 t (PParked o)) (cprogs s0) (clog s0))
                    end
                | None => None
                end
            end
      | _ => None
      end
  | Some (PParked o) =>
      match step true (lk s) (Wake t) with
      | Some l' =>
          match nth_error (thr l') t with
          | Some (Holding _) => Some (run_body tbl (granted (mkCS l' (rt s) (ph s) (cprogs s) (clog s)) t o) t o 0)
          | _ => Some (mkCS l' (rt s) (ph s) (cprogs s) (clog s))
          end
      | None => None                 (* not notified: the thread sleeps *)
      end
  | Some (PInCb o k) => Some (run_body tbl s t o (S k))
  | None => None
  end.

Fixpoint crun (tbl : locktable) (s : cstate) (ts : list nat) : cstate :=
  match ts with
  | [] => s
  | t :: rest => match cstep tbl s t with Some s' => crun tbl s' rest | None => crun tbl s rest end
  end.

(* ---- runner for the correspondence check ------------------------------------------------------ *)

Definition cphase_z (l : state) (t : nat) (p : cphase) : Z :=
  match p with
  | PIdle => 0
  | PParked _ => match nth_error (thr l) t with Some (Parked _ _ true _) => 2 | _ => 1 end
  | PInCb _ k => 10 + Z.of_nat k
  end.

Definition cevent_z (e : cevent) : list Z :=
  match e with
  | CGrant _ _ => []
  | CEffect _ _ => []
  | CCall t obs v => [1; Z.of_nat t; Z.of_nat obs; v]
  | CDone t _ ret => [2; Z.of_nat t; Zlen ret] ++ ret
  end.

(* a program line: operations separated by -1: each operation in the encoding of RouterModel.rop_of
   with unlimited handle numbers *)
Fixpoint split_ops (fuel : nat) (l : list Z) (cur : list Z) : list (list Z) :=
  match fuel with
  | O => []
  | S f => match l with
           | [] => match cur with [] => [] | _ => [rev cur] end
           | x :: rest => if x =? -1 then rev cur :: split_ops f rest [] else split_ops f rest (x :: cur)
           end
  end.

Definition crop_of (rx : list (list Z)) (l : list Z) : option rop :=
  match l with
  | 0 :: key => if forallb (fun k => (0 <=? k) && (k <=? 13)) key then Some (RSubscribe key) else None
  | [1; h] => if 0 <=? h then Some (RUnsub (Z.to_nat h)) else None
  | 6 :: arg :: pat => option_map (fun p => RNotify p arg) (levels_of (S (length pat)) rx pat)
  | 11 :: pat => option_map RShrink (levels_of (S (length pat)) rx pat)
  | 12 :: pat => option_map RExists (levels_of (S (length pat)) rx pat)
  | [13] => Some RDepth
  | _ => None
  end.

Fixpoint somes {A} (l : list (option A)) : list A :=
  match l with [] => [] | Some x :: t => x :: somes t | None :: t => somes t end.

Fixpoint conc_run_lines (tbl : locktable) (s : cstate) (ls : list (list Z)) : list (list Z) :=
  match ls with
  | [] => []
  | l :: rest =>
      match l with
      | [t] =>
          if (0 <=? t) then
            match cstep tbl s (Z.to_nat t) with
            | Some s' =>
                ([1] ++ map (fun i => cphase_z (lk s') i (nth i (ph s') PIdle)) (seq 0 (length (ph s'))) ++ [SEP] ++
                 flat_map cevent_z (rev (firstn (length (clog s') - length (clog s)) (clog s'))))
                :: conc_run_lines tbl s' rest
            | None =>
                ([0] ++ map (fun i => cphase_z (lk s) i (nth i (ph s) PIdle)) (seq 0 (length (ph s))) ++ [SEP])
                :: conc_run_lines tbl s rest
            end
          else [PRE] :: conc_run_lines tbl s rest
      | _ => [PRE] :: conc_run_lines tbl s rest
      end
  end.

(* case: header [nthreads; nregex], nregex lines (match sets), nthreads program lines, then labels *)
Definition conc_run_with (tbl : locktable) (case : list (list Z)) : list (list Z) :=
  match case with
  | [nt; nrx] :: rest =>
      let rx := firstn (Z.to_nat nrx) rest in
      let plines := firstn (Z.to_nat nt) (skipn (Z.to_nat nrx) rest) in
      let progs := map (fun l => somes (map (crop_of rx) (split_ops (S (length l)) l []))) plines in
      let labels := skipn (Z.to_nat nt) (skipn (Z.to_nat nrx) rest) in
      [] :: map (fun _ => []) rx ++ map (fun _ => []) plines ++ conc_run_lines tbl (cr_init progs) labels
  | _ => [[PRE]]
  end.
