(* Common.v — small helpers shared by every model: executable definitions only. *)
From Coq Require Import List ZArith Bool Lia.
Import ListNotations.
Local Open Scope Z_scope.

(* Separator used in observation lines (values in cases are kept far away from it). *)
Definition SEP : Z := -999999.
(* Marker printed by a model when an operation's documented precondition is violated
   (generators never produce such operations; the C++ code would hit an assert / UB). *)
Definition PRE : Z := -555555.

Definition Zlen {A} (l : list A) : Z := Z.of_nat (length l).

Definition b2z (b : bool) : Z := if b then 1 else 0.

Fixpoint list_set {A} (l : list A) (n : nat) (x : A) : list A :=
  match l, n with
  | [], _ => []
  | _ :: t, O => x :: t
  | h :: t, S n' => h :: list_set t n' x
  end.

Definition opt_default {A} (d : A) (o : option A) : A :=
  match o with Some x => x | None => d end.

Fixpoint zip {A B} (l : list A) (m : list B) : list (A * B) :=
  match l, m with
  | a :: l', b :: m' => (a, b) :: zip l' m'
  | _, _ => []
  end.

(* [take_n n l] splits an integer line into a length-prefixed chunk and the rest. *)
Definition take_chunk (l : list Z) : list Z * list Z :=
  match l with
  | [] => ([], [])
  | n :: t => (firstn (Z.to_nat n) t, skipn (Z.to_nat n) t)
  end.
