(* ObservableProofs.v — proofs about the Observable model (ObservableModel.v) used by
   Properties_C16.v.

   Reachable-state invariant: subscriber identities are pairwise distinct and below [onext].
   A delivery therefore reaches every live subscriber exactly once ([notified_once]); with an
   Eq that decides equality a recording subscriber that stays live always holds the current
   value ([recorder_current]). *)
From Coq Require Import List ZArith Bool Lia Arith.
From Tulz Require Import Common ObservableModel.
Import ListNotations.
Local Open Scope Z_scope.

(* ---- list facts ------------------------------------------------------------------------- *)

Section Lists.
  Context {A B : Type}.

  Lemma in_map_filter (f : A -> B) (p : A -> bool) l b :
    In b (map f (filter p l)) -> In b (map f l).
  Proof.
    intros H. apply in_map_iff in H. destruct H as [x [Hx Hin]].
    apply filter_In in Hin. apply in_map_iff. exists x. tauto.
  Qed.

  Lemma NoDup_map_filter (f : A -> B) (p : A -> bool) l :
    NoDup (map f l) -> NoDup (map f (filter p l)).
  Proof.
    induction l as [|a l IH]; simpl; intros H; auto.
    inversion H; subst.
    destruct (p a); simpl; auto.
    constructor; auto.
    intro Hin. apply H2. eapply in_map_filter; eauto.
  Qed.

  Lemma NoDup_snoc (l : list A) x : NoDup l -> ~ In x l -> NoDup (l ++ [x]).
  Proof.
    induction l as [|a l IH]; simpl; intros H Hn.
    - constructor; [simpl; tauto | constructor].
    - inversion H; subst. constructor.
      + rewrite in_app_iff; simpl. intros [?|[?|[]]]; [tauto | subst; tauto].
      + apply IH; tauto.
  Qed.

  Lemma hd_app (d : A) l2 l1 : hd d (l2 ++ l1) = hd (hd d l1) l2.
  Proof. destruct l2; reflexivity. Qed.
End Lists.

(* ---- the invariant ---------------------------------------------------------------------- *)

Definition oinv {T} (s : ostate T) : Prop :=
  NoDup (map s_id (osubs s)) /\ forall i, In i (map s_id (osubs s)) -> (i < onext s)%nat.

Lemma upd_ids (id : nat) (g : osub -> osub) l :
  (forall r, s_id (g r) = s_id r) ->
  map s_id (map (fun r => if Nat.eqb (s_id r) id then g r else r) l) = map s_id l.
Proof.
  intros Hg. rewrite map_map. apply map_ext. intros r.
  destruct (Nat.eqb (s_id r) id); auto.
Qed.

Section Inv.
  Variable T : Type.
  Variable eq : T -> T -> bool.

  Lemma oinv_deliver (s : ostate T) : oinv s -> oinv (deliver s).
  Proof.
    unfold oinv, deliver; simpl. intros [Hn Hb]. split.
    - apply NoDup_map_filter; auto.
    - intros i Hi. apply Hb. eapply in_map_filter; eauto.
  Qed.

  Lemma oinv_upd (s : ostate T) id g :
    (forall r, s_id (g r) = s_id r) -> oinv s -> oinv (upd T s id g).
  Proof.
    unfold oinv, upd; simpl. intros Hg H. rewrite upd_ids; auto.
  Qed.

  Lemma oinv_step (s : ostate T) o : oinv s -> oinv (fst (ostep eq s o)).
  Proof.
    intros H. destruct o; simpl.
    - destruct (eq (oval s) v); simpl; auto.
      apply (oinv_deliver (mkO v (osubs s) (onext s) (olog s))). exact H.
    - destruct (eq (oval s) (f (oval s))); simpl.
      + exact H.
      + apply (oinv_deliver (mkO (f (oval s)) (osubs s) (onext s) (olog s))). exact H.
    - apply (oinv_deliver (mkO (f (oval s)) (osubs s) (onext s) (olog s))). exact H.
    - apply (oinv_deliver (mkO (f (oval s)) (osubs s) (onext s) (olog s))). exact H.
    - destruct H as [Hn Hb]. unfold oinv; simpl. rewrite map_app; simpl. split.
      + apply NoDup_snoc; auto. intros Hin. apply Hb in Hin. lia.
      + intros i Hi. apply in_app_iff in Hi. destruct Hi as [Hi|[Hi|[]]].
        * apply Hb in Hi. lia.
        * lia.
    - destruct H as [Hn Hb]. unfold oinv; simpl. split.
      + apply NoDup_map_filter; auto.
      + intros i Hi. apply Hb. eapply in_map_filter; eauto.
    - apply oinv_upd; auto.
    - apply oinv_upd; auto.
    - apply oinv_upd; auto.
  Qed.

  Lemma oinv_run ops : forall s : ostate T, oinv s -> oinv (orun eq s ops).
  Proof.
    unfold orun. induction ops as [|o ops IH]; simpl; intros s H; auto.
    apply IH. apply oinv_step; auto.
  Qed.

  Lemma oinv_init (v0 : T) : oinv (oinit v0).
  Proof. unfold oinv; simpl. split; [constructor | intros i []]. Qed.

  Lemma oinv_reach v0 ops : oinv (orun eq (oinit v0) ops).
  Proof. apply oinv_run, oinv_init. Qed.

  (* ---- a delivery notifies every live subscriber exactly once ---------------------------- *)

  Lemma deliver_notified (s : ostate T) v :
    NoDup (map s_id (osubs s)) ->
    notified_once s (deliver (mkO v (osubs s) (onext s) (olog s))) v.
  Proof.
    intros H. unfold notified_once, deliver, live; simpl.
    eexists; split; [reflexivity|].
    split; [|split].
    - rewrite rev_involutive, map_map. reflexivity.
    - apply Forall_forall. intros c Hc. apply in_rev in Hc.
      apply in_map_iff in Hc. destruct Hc as [r [<- _]]. reflexivity.
    - rewrite map_rev, map_map. apply NoDup_rev. simpl.
      apply NoDup_map_filter. exact H.
  Qed.
End Inv.

(* ---- the statements used by Properties_C16 ---------------------------------------------- *)

Lemma assign_spec : forall (T : Type) (eq : T -> T -> bool) v0 ops v,
  let s := orun eq (oinit v0) ops in
  let s' := fst (ostep eq s (OAssign v)) in
  snd (ostep eq s (OAssign v)) = None /\
  (eq (oval s) v = true -> s' = s) /\
  (eq (oval s) v = false -> oval s' = v /\ notified_once s s' v).
Proof.
  intros T eq v0 ops v s s'.
  assert (Hinv : oinv s) by apply oinv_reach.
  subst s'. simpl. split; [|split].
  - destruct (eq (oval s) v); reflexivity.
  - intros ->. reflexivity.
  - intros ->. simpl. split; [reflexivity|].
    apply deliver_notified. apply Hinv.
Qed.

Lemma apply_spec : forall (T : Type) (eq : T -> T -> bool) v0 ops f,
  let s := orun eq (oinit v0) ops in
  let s' := fst (ostep eq s (OApply f)) in
  oval s' = f (oval s) /\
  (eq (oval s) (f (oval s)) = true -> olog s' = olog s /\ osubs s' = osubs s) /\
  (eq (oval s) (f (oval s)) = false -> notified_once s s' (f (oval s))).
Proof.
  intros T eq v0 ops f s s'.
  assert (Hinv : oinv s) by apply oinv_reach.
  subst s'. simpl. split; [|split].
  - destruct (eq (oval s) (f (oval s))); reflexivity.
  - intros ->. simpl. split; reflexivity.
  - intros ->. simpl. apply deliver_notified. apply Hinv.
Qed.

Lemma step_spec : forall (T : Type) (eq : T -> T -> bool) v0 ops f,
  let s := orun eq (oinit v0) ops in
  (let r := ostep eq s (OStepPost f) in
   oval (fst r) = f (oval s) /\ snd r = Some (oval s) /\ notified_once s (fst r) (f (oval s))) /\
  (let r := ostep eq s (OStepPre f) in
   oval (fst r) = f (oval s) /\ snd r = Some (f (oval s)) /\ notified_once s (fst r) (f (oval s))).
Proof.
  intros T eq v0 ops f s.
  assert (Hinv : oinv s) by apply oinv_reach.
  simpl. repeat split; apply deliver_notified; apply Hinv.
Qed.

Lemma quiet_spec : forall (T : Type) (eq : T -> T -> bool) (s : ostate T) o,
  match o with OAssign _ | OApply _ | OStepPost _ | OStepPre _ => False | _ => True end ->
  olog (fst (ostep eq s o)) = olog s /\ oval (fst (ostep eq s o)) = oval s.
Proof.
  intros T eq s o H. destruct o; try contradiction; simpl; split; reflexivity.
Qed.

(* ---- the recording subscriber ----------------------------------------------------------- *)

Section Recorder.
  Variable T : Type.
  Variable eq : T -> T -> bool.
  Hypothesis eq_dec : forall a b, eq a b = true <-> a = b.

  Lemma live_iff (s : ostate T) id :
    In id (live s) <->
    exists r, In r (osubs s) /\ s_id r = id /\ s_valid r = true /\ s_muted r = false.
  Proof.
    unfold live. rewrite in_map_iff. split.
    - intros [r [Hid Hin]]. apply filter_In in Hin. destruct Hin as [Hin Hp].
      apply andb_true_iff in Hp. destruct Hp as [Hv Hm].
      apply negb_true_iff in Hm. exists r. tauto.
    - intros [r [Hin [Hid [Hv Hm]]]]. exists r. split; auto.
      apply filter_In. split; auto. rewrite Hv, Hm. reflexivity.
  Qed.

  Lemma recorded_app init new2 new1 id :
    recorded T init (new2 ++ new1) id = recorded T (recorded T init new1 id) new2 id.
  Proof.
    unfold recorded. rewrite filter_app, map_app. apply hd_app.
  Qed.

  Lemma recorded_all init (l : list (nat * T)) id v :
    Forall (fun c => snd c = v) l -> In id (map fst l) -> recorded T init l id = v.
  Proof.
    unfold recorded. induction l as [|c l IH]; simpl; intros Hf Hin; [contradiction|].
    inversion Hf; subst.
    destruct (Nat.eqb (fst c) id) eqn:E; simpl.
    - reflexivity.
    - apply IH; auto. destruct Hin as [Hin|Hin]; auto.
      apply Nat.eqb_neq in E. contradiction.
  Qed.

  (* the notifications of a delivery, seen by a live recorder *)
  Lemma recorded_deliver init (subs : list osub) id v :
    In id (map s_id (filter (fun r => s_valid r && negb (s_muted r)) subs)) ->
    recorded T init
      (rev (map (fun r => (s_id r, v)) (filter (fun r => s_valid r && negb (s_muted r)) subs))) id = v.
  Proof.
    intros Hin. apply recorded_all.
    - apply Forall_forall. intros c Hc. apply in_rev in Hc.
      apply in_map_iff in Hc. destruct Hc as [r [<- _]]. reflexivity.
    - rewrite map_rev, map_map. apply -> in_rev. exact Hin.
  Qed.

  Lemma live_deliver (s : ostate T) id : In id (live s) -> In id (live (deliver s)).
  Proof.
    rewrite !live_iff. intros [r [Hin [Hid [Hv Hm]]]]. exists r.
    unfold deliver; simpl. repeat split; auto. apply filter_In. auto.
  Qed.

  Lemma live_upd (s : ostate T) id i g :
    i <> id -> In id (live s) -> In id (live (upd T s i g)).
  Proof.
    intros Hne. rewrite !live_iff. intros [r [Hin [Hid [Hv Hm]]]]. exists r.
    unfold upd; simpl. repeat split; auto.
    apply in_map_iff. exists r. split; auto.
    destruct (Nat.eqb (s_id r) i) eqn:E; auto.
    apply Nat.eqb_eq in E. congruence.
  Qed.

  Lemma recorder_step (s : ostate T) o id :
    In id (live s) -> touches T id o = false ->
    In id (live (fst (ostep eq s o))) /\
    exists new, olog (fst (ostep eq s o)) = new ++ olog s /\
                recorded T (oval s) new id = oval (fst (ostep eq s o)).
  Proof.
    intros Hl Ht.
    assert (Hd : forall v,
      let s1 := deliver (mkO v (osubs s) (onext s) (olog s)) in
      In id (live s1) /\
      exists new, olog s1 = new ++ olog s /\ recorded T (oval s) new id = oval s1).
    { intros v s1. split.
      - apply (live_deliver (mkO v (osubs s) (onext s) (olog s))). exact Hl.
      - subst s1. unfold deliver; simpl. eexists; split; [reflexivity|].
        apply recorded_deliver. exact Hl. }
    destruct o; simpl in *.
    - destruct (eq (oval s) v); simpl.
      + split; auto. exists []. split; reflexivity.
      + apply Hd.
    - destruct (eq (oval s) (f (oval s))) eqn:E; simpl.
      + split; [exact Hl|]. exists []. split; [reflexivity|].
        apply eq_dec in E. exact E.
      + apply Hd.
    - apply Hd.
    - apply Hd.
    - split.
      + apply live_iff in Hl. apply live_iff. simpl.
        destruct Hl as [r [Hin H]]. exists r. split; auto.
        apply in_app_iff. auto.
      + exists []. split; reflexivity.
    - split.
      + apply live_iff in Hl. apply live_iff. simpl.
        destruct Hl as [r [Hin [Hid H]]]. exists r. split; auto.
        apply filter_In. split; auto.
        apply negb_true_iff. apply Nat.eqb_neq. apply Nat.eqb_neq in Ht. congruence.
      + exists []. split; reflexivity.
    - split.
      + apply live_upd; auto. apply Nat.eqb_neq; auto.
      + exists []. split; reflexivity.
    - split.
      + apply live_upd; auto. apply Nat.eqb_neq; auto.
      + exists []. split; reflexivity.
    - split.
      + apply live_upd; auto. apply Nat.eqb_neq; auto.
      + exists []. split; reflexivity.
  Qed.

  Lemma recorder_run ops id : forall s : ostate T,
    In id (live s) ->
    Forall (fun o => touches T id o = false) ops ->
    exists new, olog (orun eq s ops) = new ++ olog s /\
                recorded T (oval s) new id = oval (orun eq s ops).
  Proof.
    unfold orun. induction ops as [|o ops IH]; simpl; intros s Hl Hf.
    - exists []. split; reflexivity.
    - inversion Hf; subst.
      destruct (recorder_step s o id Hl H1) as [Hl1 [new1 [Hlog1 Hrec1]]].
      destruct (IH _ Hl1 H2) as [new2 [Hlog2 Hrec2]].
      exists (new2 ++ new1). split.
      + rewrite Hlog2, Hlog1. apply app_assoc.
      + rewrite recorded_app, Hrec1. exact Hrec2.
  Qed.
End Recorder.

Lemma recorder_current : forall (T : Type) (eq : T -> T -> bool),
  (forall a b, eq a b = true <-> a = b) ->
  forall v0 ops0 ops id,
  let s := orun eq (oinit v0) ops0 in
  In id (live s) ->
  Forall (fun o => touches T id o = false) ops ->
  let s' := orun eq s ops in
  exists new, olog s' = new ++ olog s /\ recorded T (oval s) new id = oval s'.
Proof.
  intros T eq Heq v0 ops0 ops id s Hl Hf s'.
  apply recorder_run; auto.
Qed.
