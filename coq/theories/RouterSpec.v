(* RouterSpec.v — the flat specification of SubjectRouter and the notions its theorems are
   stated with (definitions only).

   The specification state is a list of (key, subscriptions) pairs: the keys below the root
   that currently have at least one subscription, in key order (lexicographic on the level
   names, the order in which the tree visits them), each with its subscriptions in
   subscription order. Nodes without subscriptions (prefixes, emptied Subjects) do not exist in
   it: that shrink — which only removes such nodes — is invisible is then the statement that
   the tree's flat view is unchanged. *)
From Coq Require Import List ZArith Bool Lia Arith.
From Tulz Require Import Common RouterModel.
Import ListNotations.
Local Open Scope Z_scope.

(* ---- views of the tree -------------------------------------------------------------------- *)

(* all node paths below (and including, as []) a node: names of the nodes under it *)
Fixpoint paths (n : node) : list (list Z) :=
  match n with
  | Node _ _ ch => [] :: flat_map (fun c => map (cons (nname c)) (paths c)) ch
  end.

Definition live_subs (sj : option rsubject) : list orec :=
  match sj with Some s => s_subs s | None => [] end.

(* the keys that have a subscription, with their subscriptions, in visiting order *)
Fixpoint flat (n : node) : list (list Z * list orec) :=
  match n with
  | Node _ sj ch =>
      (match live_subs sj with [] => [] | subs => [([], subs)] end) ++
      flat_map (fun c => map (fun e => (nname c :: fst e, snd e)) (flat c)) ch
  end.

(* a node is dead if nothing at or below it has a subscription *)
Definition dead (n : node) : Prop := flat n = [].

(* the sub-node at a path *)
Fixpoint node_at (n : node) (path : list Z) : option node :=
  match path with
  | [] => Some n
  | k :: rest => match find (fun c => nname c =? k) (nchildren n) with
                 | Some c => node_at c rest
                 | None => None
                 end
  end.

(* level-by-level match of a key (names below the root) against a pattern (levels below the root) *)
Fixpoint key_matches (pat : list level) (key : list Z) : bool :=
  match pat, key with
  | [], [] => true
  | l :: pat', k :: key' => matches l k && key_matches pat' key'
  | _, _ => false
  end.

(* lexicographic order on keys *)
Fixpoint key_ltb (a b : list Z) : bool :=
  match a, b with
  | [], [] => false
  | [], _ :: _ => true
  | _ :: _, [] => false
  | x :: a', y :: b' => (x <? y) || ((x =? y) && key_ltb a' b')
  end.
Fixpoint key_eqb (a b : list Z) : bool :=
  match a, b with
  | [], [] => true
  | x :: a', y :: b' => (x =? y) && key_eqb a' b'
  | _, _ => false
  end.

(* children strictly sorted by name (std::map), recursively *)
Fixpoint wf_node (n : node) : Prop :=
  match n with
  | Node _ _ ch =>
      (fix sorted (cs : list node) : Prop :=
         match cs with
         | [] => True
         | c :: cs' => match cs' with [] => True | d :: _ => nname c < nname d end /\ wf_node c /\ sorted cs'
         end) ch
  end.

(* every Subject in the tree was created with signature s *)
Fixpoint sig_ok (s : sig) (n : node) : Prop :=
  match n with
  | Node _ sj ch =>
      match sj with Some sb => s_sig sb = s | None => True end /\
      (fix all (cs : list node) : Prop := match cs with [] => True | c :: cs' => sig_ok s c /\ all cs' end) ch
  end.

(* ---- the flat specification ---------------------------------------------------------------- *)

Definition fstate := list (list Z * list orec).

(* insert a new subscription at [key]: appended to the key's subscriptions, or a new entry at
   the key's place in key order *)
Fixpoint f_insert (st : fstate) (key : list Z) (o : nat) : fstate :=
  match st with
  | [] => [(key, [mkOR o true false])]
  | (k, subs) :: st' =>
      if key_eqb k key then (k, subs ++ [mkOR o true false]) :: st'
      else if key_ltb key k then (key, [mkOR o true false]) :: st
      else (k, subs) :: f_insert st' key o
  end.

(* apply f to the subscriptions at [key]; entries that become empty disappear *)
Definition f_update (st : fstate) (key : list Z) (f : list orec -> list orec) : fstate :=
  filter (fun e => match snd e with [] => false | _ => true end)
         (map (fun e => if key_eqb (fst e) key then (fst e, f (snd e)) else e) st).

Definition f_present (st : fstate) (key : list Z) (o : nat) : bool :=
  existsb (fun e => key_eqb (fst e) key && existsb (fun x => Nat.eqb (r_obs x) o) (snd e)) st.

(* notify: the matched keys deliver, in order; their invalid subscriptions disappear *)
Definition f_notify (st : fstate) (pat : list level) (arg : Z) : list (nat * Z) * fstate :=
  (flat_map (fun e => if key_matches pat (fst e) then fst (deliver_subs (snd e) arg) else []) st,
   filter (fun e => match snd e with [] => false | _ => true end)
          (map (fun e => if key_matches pat (fst e) then (fst e, snd (deliver_subs (snd e) arg)) else e) st)).

Record frouter := mkFR { fst_ : fstate; fhandles : list (list Z * nat); fnext : nat }.
Definition frouter0 : frouter := mkFR [] [] 0.

Definition f_on_handle (r : frouter) (h : nat) (f : nat -> list orec -> list orec) : frouter :=
  match nth_error (fhandles r) h with
  | Some (key, o) => if f_present (fst_ r) key o then mkFR (f_update (fst_ r) key (f o)) (fhandles r) (fnext r) else r
  | None => r
  end.

(* one operation of the specification: new state and the calls made (results of exists /
   depth and the count returned by notify depend on which dead nodes are still stored and are
   not part of this specification) *)
Definition f_step (r : frouter) (o : rop) : frouter * list (nat * Z) :=
  match o with
  | RSubscribe key => (mkFR (f_insert (fst_ r) key (fnext r)) (fhandles r ++ [(key, fnext r)]) (S (fnext r)), [])
  | RUnsub h => (f_on_handle r h (fun o l => filter (fun x => negb (Nat.eqb (r_obs x) o)) l), [])
  | RMute h => (f_on_handle r h (set_flag (fun x => mkOR (r_obs x) (r_valid x) true)), [])
  | RUnmute h => (f_on_handle r h (set_flag (fun x => mkOR (r_obs x) (r_valid x) false)), [])
  | RInval h => (f_on_handle r h (set_flag (fun x => mkOR (r_obs x) false (r_muted x))), [])
  | RNotify pat arg => let '(calls, st') := f_notify (fst_ r) pat arg in (mkFR st' (fhandles r) (fnext r), calls)
  | RShrink _ | RExists _ | RDepth => (r, [])
  end.

Fixpoint f_trace (r : frouter) (ops : list rop) : list (list (nat * Z)) :=
  match ops with
  | [] => []
  | o :: rest => let '(r', calls) := f_step r o in calls :: f_trace r' rest
  end.

(* ---- executions of the tree model ------------------------------------------------------------ *)

(* run a program; None = undefined behaviour was reached *)
Fixpoint rrun (fwd : bool) (byval : Z -> bool) (s : sig) (r : router) (ops : list rop) : option router :=
  match ops with
  | [] => Some r
  | o :: rest => match rstep fwd byval s r o with
                 | Some (r', _, _) => rrun fwd byval s r' rest
                 | None => None
                 end
  end.

(* the calls of each operation; a step with undefined behaviour ends the trace *)
Fixpoint rtrace (fwd : bool) (byval : Z -> bool) (s : sig) (r : router) (ops : list rop) : list (list (nat * Z)) :=
  match ops with
  | [] => []
  | o :: rest => match rstep fwd byval s r o with
                 | Some (r', _, calls) => calls :: rtrace fwd byval s r' rest
                 | None => []
                 end
  end.

Definition abs_router (r : router) : frouter := mkFR (flat (root r)) (rhandles r) (rnext r).

(* a pattern all of whose levels match every name *)
Definition all_wildcard (pat : list level) : Prop := forall l name, In l pat -> matches l name = true.

(* ---- runners used to test the statements ------------------------------------------------------ *)
Definition dump_flat (st : fstate) : list Z :=
  flat_map (fun e => [Zlen (fst e)] ++ fst e ++ [Zlen (snd e)] ++
                     flat_map (fun x => [Z.of_nat (r_obs x); b2z (r_valid x); b2z (r_muted x)]) (snd e)) st.

Fixpoint router_flat_lines (s : sig) (rx : list (list Z)) (r : router) (ls : list (list Z)) : list (list Z) :=
  match ls with
  | [] => []
  | l :: rest =>
      match rop_of rx r l with
      | None => [PRE] :: router_flat_lines s rx r rest
      | Some o =>
          match rstep true harness_byval s r o with
          | Some (r', _, calls) =>
              (flat_map (fun c => [Z.of_nat (fst c); snd c]) calls ++ [SEP] ++ dump_flat (flat (root r')))
              :: router_flat_lines s rx r' rest
          | None => [[UB]]
          end
      end
  end.

Fixpoint router_spec_lines (rx : list (list Z)) (r : router) (fr : frouter) (ls : list (list Z)) : list (list Z) :=
  match ls with
  | [] => []
  | l :: rest =>
      (* the tree model is only used to decode the line (handle bounds) *)
      match rop_of rx (mkRt (Node ROOT None []) (fhandles fr) (fnext fr)) l with
      | None => [PRE] :: router_spec_lines rx r fr rest
      | Some o =>
          let '(fr', calls) := f_step fr o in
          (flat_map (fun c => [Z.of_nat (fst c); snd c]) calls ++ [SEP] ++ dump_flat (fst_ fr'))
          :: router_spec_lines rx r fr' rest
      end
  end.

Definition router_prep (case : list (list Z)) : option (sig * list (list Z) * list (list Z)) :=
  match case with
  | [v; nrx; sg; _] :: rest =>
      let rx := firstn (Z.to_nat nrx) rest in
      let ops := map (fun l => match l with
                               | 6 :: arg :: pat => if sg =? 0 then 6 :: 0 :: pat else l
                               | _ => l end) (skipn (Z.to_nat nrx) rest) in
      Some (SVal sg, rx, ops)
  | _ => None
  end.
Definition router_flat_run (case : list (list Z)) : list (list Z) :=
  match router_prep case with
  | Some (s, rx, ops) => [] :: map (fun _ => []) rx ++ router_flat_lines s rx router0 ops
  | None => [[PRE]]
  end.
Definition router_spec_run (case : list (list Z)) : list (list Z) :=
  match router_prep case with
  | Some (s, rx, ops) => [] :: map (fun _ => []) rx ++ router_spec_lines rx router0 frouter0 ops
  | None => [[PRE]]
  end.
