(* RingProofs.v — the lemmas the RingBuffer property files (Properties_C04.v, Properties_C09.v)
   are closed with. Helper lemmas live in RingLemmasA..J. *)
From Coq Require Import List ZArith Bool Lia ZifyBool Permutation.
From Tulz Require Import Common RingModel RingInv.
From Tulz Require Export RingLemmasA RingLemmasB RingLemmasC RingLemmasD
  RingLemmasE RingLemmasF RingLemmasG RingLemmasH RingLemmasI RingLemmasJ.
Import ListNotations.
Local Open Scope Z_scope.

(* modCap_is_mod is RingLemmasA.modCap_is_mod (re-exported). *)

(* ---- per-operation refinement, arbitrary element type -------------------------------------- *)

Lemma emplace_back_refines : forall (V : Type) ow (r : ring V) v,
  wf r ->
  match emplace_back ow r v with
  | Some (r', _) => wf r' /\ d_push_back ow (abs r) v = Some (abs r') /\ at_ r' (size r' - 1) = Live v
  | None => d_push_back ow (abs r) v = None
  end.
Proof. exact @emplace_back_refines0. Qed.

Lemma emplace_front_refines : forall (V : Type) ow (r : ring V) v,
  wf r ->
  match emplace_front ow r v with
  | Some (r', _) => wf r' /\ d_push_front ow (abs r) v = Some (abs r') /\ at_ r' 0 = Live v
  | None => d_push_front ow (abs r) v = None
  end.
Proof. exact @emplace_front_refines0. Qed.

Lemma pop_back_refines : forall (V : Type) (r : ring V),
  wf r ->
  match pop_back r with
  | Some (r', s, _) => exists x, s = Live x /\ wf r' /\ d_pop_back (abs r) = Some (abs r', x)
  | None => d_pop_back (abs r) = None
  end.
Proof. exact @pop_back_refines0. Qed.

Lemma pop_front_refines : forall (V : Type) (r : ring V),
  wf r ->
  match pop_front r with
  | Some (r', s, _) => exists x, s = Live x /\ wf r' /\ d_pop_front (abs r) = Some (abs r', x)
  | None => d_pop_front (abs r) = None
  end.
Proof. exact @pop_front_refines0. Qed.

Lemma resize_refines : forall (V : Type) (r : ring V) n,
  wf r ->
  match resize fixed_variant r n with
  | Some (r', _) => wf r' /\ d_resize (abs r) n = Some (abs r')
  | None => d_resize (abs r) n = None
  end.
Proof.
  intros V r n W. pose proof (resize_spec r n W) as S.
  unfold d_resize; cbn [abs ditems dcap].
  destruct (resize fixed_variant r n) as [[r' evs]|].
  - destruct S as (Hn & W' & Hcap & Hi & _). split; [exact W'|].
    replace (n <=? 0) with false by lia. unfold abs. rewrite Hi, Hcap. reflexivity.
  - replace (n <=? 0) with true by lia. reflexivity.
Qed.

Lemma contents_are_items : forall (V : Type) (r : ring V),
  wf r -> contents r = map Live (items r) /\ Zlen (items r) = size r.
Proof. exact @wf_contents. Qed.

Lemma copy_refines : forall (V : Type) (dst src : ring V),
  wf0 dst -> wf0 src ->
  let r' := fst (copy_assign fixed_variant dst src) in
  wf0 r' /\ abs r' = abs src.
Proof.
  intros V dst src Wd Ws.
  destruct (copy_assign fixed_variant dst src) as [r' evs] eqn:CA. cbn [fst].
  destruct (copy_assign_spec dst src r' evs Wd Ws CA) as (W' & Hi & Hcap & _).
  split; [exact W'|]. unfold abs. rewrite Hi, Hcap. reflexivity.
Qed.

(* ---- per-operation lifetime statements ------------------------------------------------------ *)

Lemma resize_events : forall (V : Type) (r : ring V) n r' evs,
  wf r -> resize fixed_variant r n = Some (r', evs) ->
  forallb ev_ok evs = true /\ removed evs = d_resize_removed (abs r) n /\
  constructed evs = [] /\ moved_out evs = [].
Proof.
  intros V r n r' evs W E. pose proof (resize_spec r n W) as S. rewrite E in S.
  destruct S as (_ & _ & _ & _ & EF). exact EF.
Qed.

Lemma copy_assign_events : forall (V : Type) (dst src : ring V) r' evs,
  wf0 dst -> wf0 src -> copy_assign fixed_variant dst src = (r', evs) ->
  forallb ev_ok evs = true /\ removed evs = items dst /\ constructed evs = items src /\ moved_out evs = [].
Proof.
  intros V dst src r' evs Wd Ws CA.
  destruct (copy_assign_spec dst src r' evs Wd Ws CA) as (_ & _ & _ & EF). exact EF.
Qed.

Lemma destroy_events : forall (V : Type) (r : ring V),
  wf0 r -> forallb ev_ok (destroy r) = true /\ removed (destroy r) = items r.
Proof.
  intros V r W. destruct (destroy_spec r W) as (E1 & E2 & _). split; assumption.
Qed.

(* ---- trace theorems ---------------------------------------------------------------------------- *)

Lemma wf_env0 : wf_env env0.
Proof. split; [reflexivity|]. repeat constructor. Qed.

Lemma abs_env0 : abs_env env0 = denv0.
Proof. reflexivity. Qed.

Lemma ring_refines_deque_gen ow ops : forall e, wf_env e ->
  map view_ring (ring_trace fixed_variant ow e ops) = map view_deque (deque_trace ow (abs_env e) ops).
Proof.
  induction ops as [|op rest IH]; intros e W; [reflexivity|].
  cbn [ring_trace deque_trace].
  pose proof (step_all ow e op W) as S. unfold step_ok in S.
  destruct (ring_step fixed_variant ow e op) as [e' o].
  destruct (deque_step ow (abs_env e) op) as [de' o'].
  destruct S as (W' & Hde & R). cbn [fst snd] in W', Hde, R. subst de'.
  cbn [map]. f_equal; [|apply IH; exact W'].
  unfold view_ring, view_deque. cbn [fst snd]. f_equal.
  - destruct o as [[ret evs]|], o' as [[ret' rem]|]; cbn [step_rel] in R; try contradiction.
    + destruct R as (-> & _). reflexivity.
    + reflexivity.
  - apply dump_env_abs. exact W'.
Qed.

Lemma ring_refines_deque : forall ow ops,
  map view_ring (ring_trace fixed_variant ow env0 ops) = map view_deque (deque_trace ow denv0 ops).
Proof. intros ow ops. rewrite <- abs_env0. apply ring_refines_deque_gen. exact wf_env0. Qed.

Lemma ring_step_lifetimes_gen ow ops : forall e, wf_env e ->
  Forall2 step_lifetimes_ok (ring_trace fixed_variant ow e ops) (deque_trace ow (abs_env e) ops).
Proof.
  induction ops as [|op rest IH]; intros e W; [constructor|].
  cbn [ring_trace deque_trace].
  pose proof (step_all ow e op W) as S. unfold step_ok in S.
  destruct (ring_step fixed_variant ow e op) as [e' o].
  destruct (deque_step ow (abs_env e) op) as [de' o'].
  destruct S as (W' & Hde & R). cbn [fst snd] in W', Hde, R. subst de'.
  constructor; [|apply IH; exact W'].
  unfold step_lifetimes_ok. cbn [fst snd].
  destruct o as [[ret evs]|], o' as [[ret' rem]|]; cbn [step_rel] in R; try contradiction.
  - destruct R as (_ & E1 & E2 & _). split; assumption.
  - exact I.
Qed.

Lemma ring_step_lifetimes : forall ow ops,
  Forall2 step_lifetimes_ok (ring_trace fixed_variant ow env0 ops) (deque_trace ow denv0 ops).
Proof. intros ow ops. rewrite <- abs_env0. apply ring_step_lifetimes_gen. exact wf_env0. Qed.

Lemma constructed_app (a b : list (event Z)) : constructed (a ++ b) = constructed a ++ constructed b.
Proof. apply flat_map_app. Qed.
Lemma removed_app (a b : list (event Z)) : removed (a ++ b) = removed a ++ removed b.
Proof. apply flat_map_app. Qed.
Lemma moved_out_app (a b : list (event Z)) : moved_out (a ++ b) = moved_out a ++ moved_out b.
Proof. apply flat_map_app. Qed.

Lemma ring_conservation_gen ow ops : forall e, wf_env e ->
  let evs := all_events (ring_trace fixed_variant ow e ops) in
  Permutation (constructed evs ++ live_items e)
    (removed evs ++ moved_out evs ++
     live_items (fold_left (fun e op => fst (ring_step fixed_variant ow e op)) ops e)).
Proof.
  induction ops as [|op rest IH]; intros e W.
  - cbn. apply Permutation_refl.
  - cbn [ring_trace fold_left].
    pose proof (step_all ow e op W) as S. unfold step_ok in S.
    destruct (ring_step fixed_variant ow e op) as [e' o].
    destruct (deque_step ow (abs_env e) op) as [de' o'].
    destruct S as (W' & Hde & R). cbn [fst snd] in W', Hde, R.
    specialize (IH e' W'). cbn zeta in IH. cbn zeta.
    unfold all_events. cbn [flat_map fst]. fold (all_events (ring_trace fixed_variant ow e' rest)).
    set (evr := all_events (ring_trace fixed_variant ow e' rest)) in *.
    set (ef := fold_left (fun e op => fst (ring_step fixed_variant ow e op)) rest e') in *.
    destruct o as [[ret evs]|], o' as [[ret' rem]|]; cbn [step_rel] in R; try contradiction.
    + destruct R as (_ & _ & _ & P).
      rewrite constructed_app, removed_app, moved_out_app. perm_solve.
    + subst e'. cbn [app]. exact IH.
Qed.

Lemma ring_conservation : forall ow ops e',
  fold_left (fun e op => fst (ring_step fixed_variant ow e op)) ops env0 = e' ->
  let evs := all_events (ring_trace fixed_variant ow env0 ops) in
  Permutation (constructed evs) (removed evs ++ moved_out evs ++ live_items e').
Proof.
  intros ow ops e' <-. pose proof (ring_conservation_gen ow ops env0 wf_env0) as P.
  cbn zeta in *. change (live_items env0) with (@nil Z) in P. rewrite app_nil_r in P. exact P.
Qed.

(* ---- the pinned upstream variant violates the property ------------------------------------------ *)

Lemma upstream_resize_refuted :
  exists ops, existsb (fun e => negb (ev_ok e)) (all_events (ring_trace upstream_variant false env0 ops)) = true.
Proof.
  exists [[0;0;5];[1;0;1];[1;0;2];[1;0;3];[4;0];[4;0];[4;0];[1;0;4];[1;0;5];[1;0;6];[1;0;7];[5;0;2]].
  vm_compute. reflexivity.
Qed.

Lemma upstream_assign_refuted :
  exists ops, existsb (fun e => negb (ev_ok e)) (all_events (ring_trace upstream_variant false env0 ops)) = true
              /\ forall op, In op ops -> hd 0 op <> 5.
Proof.
  exists [[0;0;2];[0;1;2];[1;0;1];[1;1;2];[10;0;1]].
  split; [vm_compute; reflexivity|].
  intros op H. cbn [In] in H.
  repeat (destruct H as [<-|H]; [cbn [hd]; lia|]). contradiction.
Qed.
