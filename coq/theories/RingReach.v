(* RingReach.v — every reachable RingBuffer state is well-formed (C04).
   [ring_run] is the environment a history leaves behind; the trace of [RingModel.ring_trace]
   dumps exactly these environments ([ring_trace_last]).  Proved from the per-operation lemma
   [step_all] of RingLemmasA..J. *)
From Coq Require Import List ZArith Bool Lia.
From Tulz Require Import Common RingModel RingInv RingProofs.
Import ListNotations.
Local Open Scope Z_scope.

Definition ring_run (vr : variant) (ow : bool) (e : env) (ops : list (list Z)) : env :=
  fold_left (fun e op => fst (ring_step vr ow e op)) ops e.

Lemma last_cons_default {A} (l : list A) : forall d x y, last (d :: l) x = last (d :: l) y.
Proof.
  induction l as [|a l IH]; intros d x y; [reflexivity|].
  change (last (d :: a :: l) x) with (last (a :: l) x).
  change (last (d :: a :: l) y) with (last (a :: l) y). apply IH.
Qed.

Lemma ring_trace_last vr ow ops : forall e,
  last (map snd (ring_trace vr ow e ops)) (dump_env e) = dump_env (ring_run vr ow e ops).
Proof.
  induction ops as [|op rest IH]; intros e; [reflexivity|].
  unfold ring_run. cbn [ring_trace fold_left].
  destruct (ring_step vr ow e op) as [e' o] eqn:S. cbn [fst map snd].
  specialize (IH e'). unfold ring_run in IH. rewrite <- IH.
  destruct (map snd (ring_trace vr ow e' rest)) as [|d ds] eqn:M; [reflexivity|].
  change (last (dump_env e' :: d :: ds) (dump_env e)) with (last (d :: ds) (dump_env e)).
  apply last_cons_default.
Qed.

Lemma ring_run_wf ow ops : forall e, wf_env e -> wf_env (ring_run fixed_variant ow e ops).
Proof.
  induction ops as [|op rest IH]; intros e W; [exact W|].
  unfold ring_run. cbn [fold_left]. apply IH.
  pose proof (step_all ow e op W) as S. unfold step_ok, step_ok' in S.
  destruct S as (W' & _). exact W'.
Qed.

Lemma ring_wf_reachable : forall ow ops, wf_env (ring_run fixed_variant ow env0 ops).
Proof. intros ow ops. apply ring_run_wf. exact wf_env0. Qed.

Lemma ring_reachable_bounds : forall ow ops b r,
  env_get (ring_run fixed_variant ow env0 ops) b = Some r ->
  0 <= size r <= cap r /\ Zlen (items r) = size r /\ contents r = map (@Live Z) (items r).
Proof.
  intros ow ops b r G.
  pose proof (env_get_wf0 _ _ _ (ring_wf_reachable ow ops) G) as W0.
  destruct (wf0_contents r W0) as (C & L).
  split; [|split; assumption].
  destruct W0 as [W| ->]; [exact (wf_size r W)|cbn; lia].
Qed.

(* after every history, destroying whatever a buffer variable holds destroys exactly the elements it holds, each
   once, and nothing that is not an element *)
Lemma ring_reachable_destroy : forall ow ops b r,
  env_get (ring_run fixed_variant ow env0 ops) b = Some r ->
  forallb (@ev_ok Z) (destroy r) = true /\ removed (destroy r) = items r.
Proof.
  intros ow ops b r G. apply destroy_events.
  exact (env_get_wf0 _ _ _ (ring_wf_reachable ow ops) G).
Qed.
