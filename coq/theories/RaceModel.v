(* RaceModel.v — the notions of the data-race theorem (C15), definitions only.

   An access row says: function F of component C reads / writes member field X (an atomic or
   a plain field) at a point where it holds the guards G — scoped_lock / unique_lock objects on
   a mutex member or explicit lock()..unlock() regions (mode Excl), rwp::ReadLock (mode Shared)
   or rwp::WriteLock (mode Excl) objects on a Resource member. The rows of the current source are
   regenerated on every run (TulzGen.Accesses); the table the proofs talk about is
   AccessTable.expected_accesses, and the two are compared by evaluation.

   Lock discipline (the only thing assumed of the synchronisation objects): a lock held in mode
   Excl by one thread is held by no other thread; Shared holders may coexist. For std::mutex this
   is the standard's guarantee; for rwp::Resource it is C01 (Properties_C01). A data race is two
   conflicting accesses (same field, at least one write, not both atomic) that two different
   threads can perform in the same state; by the SC-for-DRF guarantee of the C++ memory model it
   suffices to rule these out in interleaved executions. *)
From Coq Require Import List String Bool Arith Lia.
Import ListNotations.
Local Open Scope string_scope.

Inductive gmode := Excl | Shared.
Definition gmode_eqb (a b : gmode) : bool := match a, b with Excl, Excl | Shared, Shared => true | _, _ => false end.
Definition guard := (string * gmode)%type.

Record access := mkAcc {
  a_comp : string; a_fn : string; a_field : string;
  a_write : bool; a_atomic : bool; a_guards : list guard
}.

(* who executes a function *)
Inductive role := Owner | Worker | Client.
(* can two DIFFERENT threads be in these roles at the same time? there is one owner thread *)
Definition concurrent (r1 r2 : role) : bool := match r1, r2 with Owner, Owner => false | _, _ => true end.

(* ---- lock states -------------------------------------------------------------------------------- *)

Definition lstate := list (list guard).          (* per thread: the guards it holds *)

Definition held (st : lstate) (t : nat) : list guard := nth t st [].

Definition is_excl (m : gmode) : bool := match m with Excl => true | Shared => false end.

(* may thread t acquire (l, m)? nobody else holds l in a conflicting mode *)
Definition can_acquire (st : lstate) (t : nat) (g : guard) : bool :=
  forallb (fun u => Nat.eqb u t ||
                    forallb (fun h => negb (String.eqb (fst h) (fst g)) || (negb (is_excl (snd h)) && negb (is_excl (snd g))))
                            (held st u))
          (seq 0 (List.length st)).

Fixpoint set_nth {A} (l : list A) (n : nat) (x : A) : list A :=
  match l, n with
  | [], _ => []
  | _ :: t, O => x :: t
  | h :: t, S n' => h :: set_nth t n' x
  end.

Fixpoint remove_guard (g : guard) (l : list guard) : list guard :=
  match l with
  | [] => []
  | h :: t => if String.eqb (fst h) (fst g) && gmode_eqb (snd h) (snd g) then t else h :: remove_guard g t
  end.

Inductive lop := Acquire (t : nat) (g : guard) | Release (t : nat) (g : guard).

Definition lstep (st : lstate) (o : lop) : option lstate :=
  match o with
  | Acquire t g => if Nat.ltb t (List.length st) && can_acquire st t g then Some (set_nth st t (g :: held st t)) else None
  | Release t g => if Nat.ltb t (List.length st) then Some (set_nth st t (remove_guard g (held st t))) else None
  end.

Fixpoint lrun (st : lstate) (os : list lop) : lstate :=
  match os with
  | [] => st
  | o :: rest => match lstep st o with Some st' => lrun st' rest | None => lrun st rest end
  end.

Definition linit (n : nat) : lstate := repeat [] n.

(* thread t is at a point of function F where it performs access a: it holds a's guards *)
Definition can_perform (st : lstate) (t : nat) (a : access) : Prop :=
  forall g, In g (a_guards a) -> In g (held st t).

(* ---- the check on a table ------------------------------------------------------------------------ *)

Definition conflicting (a1 a2 : access) : bool :=
  String.eqb (a_comp a1) (a_comp a2) && String.eqb (a_field a1) (a_field a2) &&
  (a_write a1 || a_write a2) && negb (a_atomic a1 && a_atomic a2).

(* a common lock, held exclusively by at least one of the two *)
Definition protected (a1 a2 : access) : bool :=
  existsb (fun g1 => existsb (fun g2 => String.eqb (fst g1) (fst g2) && (is_excl (snd g1) || is_excl (snd g2))) (a_guards a2))
          (a_guards a1).

Section Table.
  Variable role_of : access -> role.
  (* fields of which every worker thread has its own instance (the object belongs to the thread) *)
  Variable per_worker : access -> bool.
  (* pairs discharged by a state argument (each one is a theorem of its own, named in AccessTable) *)
  Variable exempt : access -> access -> bool.

  Definition pair_ok (a1 a2 : access) : bool :=
    negb (conflicting a1 a2) ||
    negb (concurrent (role_of a1) (role_of a2)) ||
    (match role_of a1, role_of a2 with Worker, Worker => per_worker a1 && per_worker a2 | _, _ => false end) ||
    protected a1 a2 || exempt a1 a2.

  Definition table_ok (tbl : list access) : bool := forallb (fun a1 => forallb (pair_ok a1) tbl) tbl.
End Table.

(* comparison of the extracted rows with the expected ones *)
Definition guard_eqb (g h : guard) : bool := String.eqb (fst g) (fst h) && gmode_eqb (snd g) (snd h).
Fixpoint guards_eqb (a b : list guard) : bool :=
  match a, b with
  | [], [] => true
  | g :: a', h :: b' => guard_eqb g h && guards_eqb a' b'
  | _, _ => false
  end.
Definition access_eqb (a b : access) : bool :=
  String.eqb (a_comp a) (a_comp b) && String.eqb (a_fn a) (a_fn b) && String.eqb (a_field a) (a_field b) &&
  Bool.eqb (a_write a) (a_write b) && Bool.eqb (a_atomic a) (a_atomic b) && guards_eqb (a_guards a) (a_guards b).
Fixpoint accesses_eqb (a b : list access) : bool :=
  match a, b with
  | [], [] => true
  | x :: a', y :: b' => access_eqb x y && accesses_eqb a' b'
  | _, _ => false
  end.
