(* PoolLemmasB.v — list helpers, the stop() variant computation and the reachable-state invariant
   of the thread-pool model, used by PoolProofsB.v. *)
From Coq Require Import List ZArith Bool Lia Arith.
From Tulz Require Import Common PoolModel PoolInv.
Import ListNotations.

Local Arguments Z.mul : simpl never.
Local Arguments Z.add : simpl never.
Local Arguments Zlen {A} l : simpl never.

(* ---- list_set ------------------------------------------------------------------------------ *)
Lemma ls_length {A} (l : list A) w x : length (list_set l w x) = length l.
Proof. revert w; induction l; destruct w; simpl; auto. Qed.

Lemma ls_nth_eq {A} (l : list A) w x : w < length l -> nth_error (list_set l w x) w = Some x.
Proof. revert w; induction l; destruct w; simpl; intros; try lia; auto. apply IHl; lia. Qed.

Lemma ls_nth_neq {A} (l : list A) w w' x : w <> w' -> nth_error (list_set l w x) w' = nth_error l w'.
Proof. revert w w'; induction l; destruct w, w'; simpl; intros; try congruence; auto. Qed.

Lemma ls_in {A} (l : list A) w x y : In y (list_set l w x) -> y = x \/ In y l.
Proof.
  revert w; induction l; destruct w; simpl; intros H; auto.
  - destruct H; auto.
  - destruct H; auto. destruct (IHl _ H); auto.
Qed.

Lemma ls_forallb {A} (p : A -> bool) (l : list A) w x :
  forallb p l = true -> p x = true -> forallb p (list_set l w x) = true.
Proof.
  revert w; induction l; destruct w; simpl; intros H Hx; auto.
  - apply andb_true_iff in H. destruct H as [_ H]. rewrite Hx, H. reflexivity.
  - apply andb_true_iff in H. destruct H as [Ha H]. rewrite Ha, (IHl w H Hx). reflexivity.
Qed.

Lemma ls_snoc {A} (l : list A) y x : list_set (l ++ [y]) (length l) x = l ++ [x].
Proof. induction l; simpl; auto. rewrite IHl. reflexivity. Qed.

Lemma nth_some_lt {A} (l : list A) w x : nth_error l w = Some x -> w < length l.
Proof. intros H. apply nth_error_Some. congruence. Qed.

Lemma nth_lt_some {A} (l : list A) w : w < length l -> exists x, nth_error l w = Some x.
Proof.
  intros H. destruct (nth_error l w) eqn:E; eauto.
  apply nth_error_None in E. lia.
Qed.

Lemma NoDup_snoc {A} (l : list A) x : NoDup l -> ~ In x l -> NoDup (l ++ [x]).
Proof.
  induction l; simpl; intros Hn Hx.
  - constructor; auto; constructor.
  - inversion Hn; subst. constructor.
    + rewrite in_app_iff. simpl. intros [H|[H|[]]]; auto.
    + apply IHl; auto.
Qed.

Lemma Zlen_cons {A} (a : A) l : Zlen (a :: l) = (Zlen l + 1)%Z.
Proof. unfold Zlen. simpl length. lia. Qed.

Lemma Zlen_nonneg {A} (l : list A) : (0 <= Zlen l)%Z.
Proof. unfold Zlen. lia. Qed.

Lemma Zlen_app {A} (l m : list A) : Zlen (l ++ m) = (Zlen l + Zlen m)%Z.
Proof. unfold Zlen. rewrite app_length. lia. Qed.

(* ---- the measure ---------------------------------------------------------------------------- *)
Definition wsum (l : list wst) : Z := fold_right Z.add 0%Z (map wrank l).
Arguments wsum : simpl never.

Lemma pmeasure_eq s : pmeasure s = (orank s + wsum (ws s) + 10 * Zlen (queue s))%Z.
Proof. reflexivity. Qed.

Lemma wrank_nonneg x : (0 <= wrank x)%Z.
Proof. destruct x; simpl; try lia. destruct notified; lia. Qed.

Lemma wsum_nonneg l : (0 <= wsum l)%Z.
Proof.
  unfold wsum. induction l; simpl; [lia|]. pose proof (wrank_nonneg a). lia.
Qed.

Lemma wsum_set l w x old :
  nth_error l w = Some old -> wsum (list_set l w x) = (wsum l - wrank old + wrank x)%Z.
Proof.
  unfold wsum. revert w; induction l; destruct w; simpl; intros H; try discriminate.
  - inversion H; subst. lia.
  - rewrite (IHl _ H). lia.
Qed.

Definition wake (x : wst) : wst := match x with WWait _ => WWait true | _ => x end.

Lemma wsum_wake l : (wsum (map wake l) <= wsum l + 2 * Zlen l)%Z.
Proof.
  unfold wsum. induction l.
  - unfold Zlen; simpl; lia.
  - rewrite Zlen_cons. cbn [map fold_right].
    assert (wrank (wake a) <= wrank a + 2)%Z.
    { destruct a; simpl; try lia. destruct notified; lia. }
    lia.
Qed.

Lemma pmeasure_nonneg s : (0 <= pmeasure s)%Z.
Proof.
  rewrite pmeasure_eq. pose proof (wsum_nonneg (ws s)). pose proof (Zlen_nonneg (queue s)).
  assert (0 <= orank s)%Z.
  { unfold orank. pose proof (Zlen_nonneg (ws s)). pose proof (Zlen_nonneg (pool s)).
    destruct (own s); try lia. pose proof (Zlen_nonneg rest). lia. }
  lia.
Qed.

Lemma worker_variant s w s' : step_worker s w = Some s' ->
  own s' = own s /\ pool s' = pool s /\ length (ws s') = length (ws s) /\
  (wsum (ws s') + 10 * Zlen (queue s') < wsum (ws s) + 10 * Zlen (queue s))%Z.
Proof.
  destruct s as [q r p l o pg nt mw ev]. unfold step_worker; simpl.
  destruct (nth_error l w) as [x|] eqn:E; [|discriminate].
  destruct x as [| | |n|k|k| |]; try discriminate.
  - intros H; inversion H; subst; clear H; simpl.
    rewrite ls_length, (wsum_set _ _ _ _ E). simpl. repeat split; lia.
  - destruct (mutex_free _); [|discriminate]. unfold eval_pred; simpl.
    destruct r; simpl; [destruct q; simpl|];
      intros H; inversion H; subst; clear H; simpl;
      rewrite ls_length, (wsum_set _ _ _ _ E), ?Zlen_cons; simpl; repeat split; lia.
  - intros H; inversion H; subst; clear H; simpl.
    rewrite ls_length, (wsum_set _ _ _ _ E). simpl. repeat split; lia.
  - destruct n; [|discriminate].
    destruct (mutex_free _); [|discriminate]. unfold eval_pred; simpl.
    destruct r; simpl; [destruct q; simpl|];
      intros H; inversion H; subst; clear H; simpl;
      rewrite ls_length, (wsum_set _ _ _ _ E), ?Zlen_cons; simpl; repeat split; lia.
  - intros H; inversion H; subst; clear H; simpl.
    rewrite ls_length, (wsum_set _ _ _ _ E). simpl. repeat split; lia.
  - intros H; inversion H; subst; clear H; simpl.
    rewrite ls_length, (wsum_set _ _ _ _ E). simpl. repeat split; lia.
Qed.

Lemma owner_variant s pick s' :
  in_stop s = true -> step_owner true s pick = Some s' -> (pmeasure s' < pmeasure s)%Z.
Proof.
  destruct s as [q r p l o pg nt mw ev]. unfold in_stop, step_owner; simpl.
  rewrite !pmeasure_eq. unfold orank.
  destruct o; try discriminate; intros _; simpl.
  - destruct (mutex_free _); [|discriminate].
    intros H; inversion H; subst; clear H; simpl. lia.
  - fold wake. pose proof (wsum_wake l). pose proof (Zlen_nonneg l). pose proof (Zlen_nonneg p).
    assert (Zlen (map wake l) = Zlen l) by (unfold Zlen; rewrite map_length; reflexivity).
    destruct p; intros H'; inversion H'; subst; clear H'; simpl; lia.
  - destruct rest as [|w rest]; [discriminate|].
    destruct (nth_error l w) as [x|] eqn:E; [|discriminate].
    destruct x; try discriminate. pose proof (Zlen_nonneg rest).
    destruct rest; intros H'; inversion H'; subst; clear H'; simpl;
      rewrite (wsum_set _ _ _ _ E), ?Zlen_cons; simpl; lia.
  - destruct (mutex_free _); [|discriminate].
    intros H; inversion H; subst; clear H; simpl.
    pose proof (Zlen_nonneg q). unfold Zlen at 1. simpl. lia.
Qed.

Lemma step_variant s l s' :
  in_stop s = true -> is_spur l = false -> pstep true s l = Some s' ->
  (0 <= pmeasure s' < pmeasure s)%Z.
Proof.
  intros Hs Hl Hp. split; [apply pmeasure_nonneg|].
  destruct l as [w|w|pick]; simpl in *; try discriminate.
  - destruct (worker_variant _ _ _ Hp) as (Ho & Hpool & Hlen & Hlt).
    rewrite !pmeasure_eq. unfold orank, Zlen. rewrite Ho, Hpool, Hlen. fold (Zlen (queue s')) (Zlen (queue s)). lia.
  - eapply owner_variant; eauto.
Qed.

(* ---- facts about worker lists ---------------------------------------------------------------- *)
Definition notpre (x : wst) : bool := match x with WPre => false | _ => true end.

Lemma mutex_free_eq s : mutex_free s = forallb notpre (ws s).
Proof. reflexivity. Qed.

Lemma mf_false l : forallb notpre l = false -> exists w, nth_error l w = Some WPre.
Proof.
  induction l; simpl; [discriminate|].
  destruct a; simpl; try (intros H; destruct (IHl H) as [w Hw]; exists (S w); exact Hw).
  intros _. exists 0. reflexivity.
Qed.

Lemma mf_nopre l w : forallb notpre l = true -> nth_error l w <> Some WPre.
Proof.
  intros H E. apply nth_error_In in E. rewrite forallb_forall in H. apply H in E. discriminate.
Qed.

Lemma mf_wake l : forallb notpre (map wake l) = forallb notpre l.
Proof. induction l; simpl; auto. rewrite IHl. destruct a; reflexivity. Qed.

Lemma nth_wake l w : nth_error (map wake l) w = option_map wake (nth_error l w).
Proof. revert w; induction l; destruct w; simpl; auto. Qed.

Lemma gone_wake l w : nth_error (map wake l) w = Some WGone <-> nth_error l w = Some WGone.
Proof.
  rewrite nth_wake. destruct (nth_error l w) as [x|]; simpl; [|tauto].
  destruct x; simpl; split; intros H; try discriminate; auto.
Qed.

Lemma nowait_wake l w : nth_error (map wake l) w <> Some (WWait false).
Proof.
  rewrite nth_wake. destruct (nth_error l w) as [x|]; simpl; [|discriminate].
  destruct x; simpl; discriminate.
Qed.

Lemma gone_set l w0 old x w :
  nth_error l w0 = Some old -> old <> WGone -> x <> WGone ->
  (nth_error (list_set l w0 x) w = Some WGone <-> nth_error l w = Some WGone).
Proof.
  intros E Ho Hx. destruct (Nat.eq_dec w0 w) as [->|Hn].
  - rewrite ls_nth_eq by (eapply nth_some_lt; eauto). rewrite E.
    split; intros H; inversion H; congruence.
  - rewrite ls_nth_neq by auto. tauto.
Qed.

Lemma all_gone_forall l :
  (forall w, w < length l -> nth_error l w = Some WGone) -> Forall (fun x => x = WGone) l.
Proof.
  intros H. apply Forall_forall. intros x Hx. apply In_nth_error in Hx. destruct Hx as [n Hn].
  pose proof (nth_some_lt _ _ _ Hn) as Hlt. rewrite (H _ Hlt) in Hn. congruence.
Qed.

Lemma all_gone_nth l w : Forall (fun x => x = WGone) l -> w < length l -> nth_error l w = Some WGone.
Proof.
  intros H Hlt. destruct (nth_lt_some _ _ Hlt) as [x Hx]. rewrite Hx.
  rewrite Forall_forall in H. rewrite (H x); auto. eapply nth_error_In; eauto.
Qed.

Lemma all_gone_mf l : Forall (fun x => x = WGone) l -> forallb notpre l = true.
Proof.
  intros H. apply forallb_forall. intros x Hx. rewrite Forall_forall in H. rewrite (H x Hx). reflexivity.
Qed.

(* ---- a worker-side update: what worker steps and spurious wake-ups have in common ------------- *)
Definition wupd (s : pstate) (w : nat) (old x : wst) (s' : pstate) : Prop :=
  nth_error (ws s) w = Some old /\ old <> WGone /\ x <> WGone /\
  ws s' = list_set (ws s) w x /\ pool s' = pool s /\ own s' = own s /\ maxw s' = maxw s /\
  running s' = running s /\ (x = WPre -> running s = true) /\ (x = WWait false -> old = WPre) /\
  (old = WWait false -> x = WWait true) /\
  (mutex_free s = false -> old <> WWant /\ old <> WWait true).

Ltac wupd_done E :=
  intros H; inversion H; subst; clear H; simpl;
  unfold wupd; simpl; rewrite E;
  repeat split; try congruence; try discriminate.

Lemma worker_wupd s w s' : step_worker s w = Some s' -> exists old x, wupd s w old x s'.
Proof.
  destruct s as [q r p l o pg nt mw ev]. unfold step_worker; simpl.
  destruct (nth_error l w) as [y|] eqn:E; [|discriminate].
  destruct y as [| | |n|k|k| |]; try discriminate.
  - exists WStart, WWant. revert H. wupd_done E.
  - destruct (mutex_free _) eqn:M; [|discriminate]. unfold eval_pred; simpl.
    destruct r; simpl; [destruct q as [|k q]; simpl|].
    + exists WWant, WPre. revert H. wupd_done E.
    + exists WWant, (WRun k). revert H. wupd_done E.
    + exists WWant, WFin. revert H. wupd_done E.
  - exists WPre, (WWait false). revert H. wupd_done E.
  - destruct n; [|discriminate].
    destruct (mutex_free _) eqn:M; [|discriminate]. unfold eval_pred; simpl.
    destruct r; simpl; [destruct q as [|k q]; simpl|].
    + exists (WWait true), WPre. revert H. wupd_done E.
    + exists (WWait true), (WRun k). revert H. wupd_done E.
    + exists (WWait true), WFin. revert H. wupd_done E.
  - exists (WRun k), (WEnd k). revert H. wupd_done E.
  - exists (WEnd k), WWant. revert H. wupd_done E.
Qed.

Lemma spur_wupd s w s' : pstep true s (LSpur w) = Some s' -> wupd s w (WWait false) (WWait true) s'.
Proof.
  destruct s as [q r p l o pg nt mw ev]. simpl.
  destruct (nth_error l w) as [y|] eqn:E; [|discriminate].
  destruct y as [| | |n|k|k| |]; try discriminate. destruct n; [discriminate|].
  wupd_done E.
Qed.

(* ---- invariant A: the pool list and the joined workers ------------------------------------------ *)
Definition live (s : pstate) : list nat := match own s with OP_join rest => rest | _ => pool s end.

Record InvA (s : pstate) : Prop := {
  a_nodup : NoDup (pool s);
  a_lt : forall w, In w (pool s) -> w < length (ws s);
  a_gone : forall w, w < length (ws s) -> (nth_error (ws s) w = Some WGone <-> ~ In w (live s));
  a_join : forall rest, own s = OP_join rest -> rest <> [] /\ exists done, pool s = done ++ rest;
  a_clear : own s = OP_clear -> pool s = [] }.

Lemma InvA_wupd s w old x s' : wupd s w old x s' -> InvA s -> InvA s'.
Proof.
  intros (E & Ho & Hx & Hws & Hp & Hown & _) [H1 H2 H3 H4 H5].
  constructor; unfold live in *; rewrite ?Hws, ?Hp, ?Hown, ?ls_length; auto.
  intros w' Hlt. rewrite (gone_set _ _ _ _ _ E Ho Hx). auto.
Qed.

Lemma InvA_owner s pick s' : InvA s -> step_owner true s pick = Some s' -> InvA s'.
Proof.
  destruct s as [q r p l o pg nt mw ev]. intros [H1 H2 H3 H4 H5]. unfold live in H3. simpl in *.
  unfold step_owner; simpl.
  destruct o.
  - (* OIdle *)
    destruct pg as [|[| |] pg]; try discriminate;
      intros H; inversion H; subst; clear H; constructor; unfold live; simpl; auto; discriminate.
  - (* OS_push *)
    destruct (mutex_free _); [|discriminate].
    destruct (_ && _); intros H; inversion H; subst; clear H; constructor; unfold live; simpl; auto;
      try discriminate.
    + apply NoDup_snoc; auto. intros Hin. apply H2 in Hin. lia.
    + intros w Hin. rewrite app_length; simpl. apply in_app_iff in Hin. destruct Hin as [Hin|[<-|[]]].
      * apply H2 in Hin. lia.
      * lia.
    + intros w Hlt. rewrite app_length in Hlt; simpl in Hlt. rewrite in_app_iff; simpl.
      destruct (Nat.eq_dec w (length l)) as [->|Hn].
      * rewrite nth_error_app2, Nat.sub_diag by lia. simpl. split; [discriminate|]. intros Hf. exfalso. apply Hf. auto.
      * rewrite nth_error_app1 by lia. rewrite H3 by lia. split; intros Hf; [intros [Hi|[Hi|[]]]; auto; congruence|auto].
  - (* OS_notify *)
    destruct pick as [w|].
    + destruct (nth_error l w) as [y|] eqn:E; [|discriminate].
      destruct y as [| | |n|k0|k0| |]; try discriminate. destruct n; [discriminate|].
      intros H; inversion H; subst; clear H; constructor; unfold live; simpl; rewrite ?ls_length; auto;
        try discriminate.
      intros w' Hlt. rewrite (gone_set _ _ _ _ _ E) by discriminate. auto.
    + destruct (existsb _ _); [discriminate|].
      intros H; inversion H; subst; clear H; constructor; unfold live; simpl; auto; discriminate.
  - (* OC_clear *)
    destruct (mutex_free _); [|discriminate].
    intros H; inversion H; subst; clear H; constructor; unfold live; simpl; auto; discriminate.
  - (* OP_flag *)
    destruct (mutex_free _); [|discriminate].
    intros H; inversion H; subst; clear H; constructor; unfold live; simpl; auto; discriminate.
  - (* OP_notify *)
    fold wake.
    destruct p as [|n p]; intros H; inversion H; subst; clear H; constructor; unfold live; simpl;
      rewrite ?map_length; auto; try discriminate.
    + intros w Hlt. rewrite gone_wake. apply (H3 w Hlt).
    + intros w Hlt. rewrite gone_wake. apply (H3 w Hlt).
    + intros rest Hr. inversion Hr; subst. split; [discriminate|]. exists []. reflexivity.
  - (* OP_join *)
    destruct rest as [|w rest]; [discriminate|].
    destruct (nth_error l w) as [y|] eqn:E; [|discriminate].
    destruct y; try discriminate.
    pose proof (nth_some_lt _ _ _ E) as Hw.
    destruct (H4 _ eq_refl) as [_ [done Hd]].
    assert (Hnin : ~ In w rest).
    { intros Hin. rewrite Hd in H1. apply NoDup_remove_2 in H1. apply H1. apply in_app_iff. auto. }
    destruct rest as [|n rest]; intros H; inversion H; subst; clear H; constructor; unfold live; simpl;
      rewrite ?ls_length; auto; try discriminate.
    + constructor.
    + intros w' [].
    + intros w' Hlt. split; [intros _ []|intros _].
      destruct (Nat.eq_dec w w') as [->|Hn].
      * apply ls_nth_eq; auto.
      * rewrite ls_nth_neq by auto. apply H3; auto. simpl. intros [Hf|[]]; auto.
    + intros w' Hlt.
      destruct (Nat.eq_dec w w') as [->|Hn].
      * rewrite ls_nth_eq by auto. split; auto.
      * rewrite ls_nth_neq by auto. rewrite H3 by auto. simpl. split; intros Hf; [auto|].
        intros [Hi|Hi]; auto.
    + intros rest' Hr. inversion Hr; subst. split; [discriminate|]. exists (done ++ [w]).
      rewrite <- app_assoc. reflexivity.
  - (* OP_clear *)
    destruct (mutex_free _); [|discriminate].
    intros H; inversion H; subst; clear H; constructor; unfold live; simpl; auto; discriminate.
Qed.

(* ---- invariant B: the shutdown flag ------------------------------------------------------------- *)
Definition stopping (s : pstate) : bool :=
  match own s with OP_notify | OP_join _ | OP_clear => true | _ => false end.
Definition joining (s : pstate) : bool :=
  match own s with OP_join _ | OP_clear => true | _ => false end.

Record InvB (s : pstate) : Prop := {
  b_mf : running s = false -> mutex_free s = true;
  b_run : stopping s = true -> running s = false;
  b_nowait : joining s = true -> forall w, nth_error (ws s) w <> Some (WWait false) }.

Lemma joining_stopping s : joining s = true -> stopping s = true.
Proof. unfold joining, stopping. destruct (own s); auto. Qed.

Lemma InvB_wupd s w old x s' : wupd s w old x s' -> InvB s -> InvB s'.
Proof.
  intros (E & Ho & Hx & Hws & Hp & Hown & _ & Hr & Hpre & Hwf & _) [H1 H2 H3].
  unfold stopping, joining in *. rewrite mutex_free_eq in *.
  constructor; unfold stopping, joining; rewrite ?mutex_free_eq, ?Hws, ?Hown, ?Hr; auto.
  - intros Hf. apply ls_forallb; auto. destruct x; auto. rewrite Hpre in Hf; auto; discriminate.
  - intros Hj w' Hf.
    assert (Hrun : running s = false) by (apply H2; destruct (own s); auto; discriminate).
    destruct (Nat.eq_dec w w') as [->|Hn].
    + rewrite ls_nth_eq in Hf by (eapply nth_some_lt; eauto). inversion Hf; subst.
      rewrite (Hwf eq_refl) in E. eapply mf_nopre; eauto.
    + rewrite ls_nth_neq in Hf by auto. eapply H3; eauto.
Qed.

Lemma InvB_owner s pick s' : InvB s -> step_owner true s pick = Some s' -> InvB s'.
Proof.
  destruct s as [q r p l o pg nt mw ev]. intros [H1 H2 H3].
  unfold stopping, joining in *. rewrite mutex_free_eq in *. simpl in *.
  unfold step_owner; simpl.
  destruct o.
  - destruct pg as [|[| |] pg]; try discriminate;
      intros H; inversion H; subst; clear H; constructor; unfold stopping, joining; simpl; auto; discriminate.
  - rewrite mutex_free_eq; simpl. destruct (forallb notpre l) eqn:M; [|discriminate].
    destruct (_ && _); intros H; inversion H; subst; clear H; constructor; unfold stopping, joining;
      rewrite ?mutex_free_eq; simpl; auto; try discriminate.
    intros _. rewrite forallb_app, M. reflexivity.
  - destruct pick as [w|].
    + destruct (nth_error l w) as [y|] eqn:E; [|discriminate].
      destruct y as [| | |n|k0|k0| |]; try discriminate. destruct n; [discriminate|].
      intros H; inversion H; subst; clear H; constructor; unfold stopping, joining;
        rewrite ?mutex_free_eq; simpl; auto; try discriminate.
      intros Hf. apply ls_forallb; auto.
    + destruct (existsb _ _); [discriminate|].
      intros H; inversion H; subst; clear H; constructor; unfold stopping, joining; simpl; auto; discriminate.
  - rewrite mutex_free_eq; simpl. destruct (forallb notpre l) eqn:M; [|discriminate].
    intros H; inversion H; subst; clear H; constructor; unfold stopping, joining; simpl; auto; discriminate.
  - rewrite mutex_free_eq; simpl. destruct (forallb notpre l) eqn:M; [|discriminate].
    intros H; inversion H; subst; clear H; constructor; unfold stopping, joining; simpl; auto; discriminate.
  - fold wake.
    destruct p as [|n p]; intros H; inversion H; subst; clear H; constructor; unfold stopping, joining;
      rewrite ?mutex_free_eq; simpl; rewrite ?mf_wake; auto; try discriminate;
      intros _ w; apply nowait_wake.
  - destruct rest as [|w rest]; [discriminate|].
    destruct (nth_error l w) as [y|] eqn:E; [|discriminate].
    destruct y; try discriminate.
    destruct rest as [|n rest]; intros H; inversion H; subst; clear H; constructor; unfold stopping, joining;
      rewrite ?mutex_free_eq; simpl; auto; try discriminate.
    + intros Hf. apply ls_forallb; auto.
    + intros _ w' Hf. destruct (Nat.eq_dec w w') as [->|Hn].
      * rewrite ls_nth_eq in Hf by (eapply nth_some_lt; eauto). discriminate.
      * rewrite ls_nth_neq in Hf by auto. eapply H3; eauto.
    + intros Hf. apply ls_forallb; auto.
    + intros _ w' Hf. destruct (Nat.eq_dec w w') as [->|Hn].
      * rewrite ls_nth_eq in Hf by (eapply nth_some_lt; eauto). discriminate.
      * rewrite ls_nth_neq in Hf by auto. eapply H3; eauto.
  - rewrite mutex_free_eq; simpl. destruct (forallb notpre l) eqn:M; [|discriminate].
    intros H; inversion H; subst; clear H; constructor; unfold stopping, joining; simpl; auto; discriminate.
Qed.

(* ---- invariant C: the thread-count bound ---------------------------------------------------------- *)
Definition InvC (s : pstate) : Prop := (0 <= maxw s -> Zlen (pool s) <= maxw s)%Z.

Lemma InvC_wupd s w old x s' : wupd s w old x s' -> InvC s -> InvC s'.
Proof.
  intros (_ & _ & _ & _ & Hp & _ & Hm & _) H. unfold InvC in *. rewrite Hp, Hm. auto.
Qed.

Lemma maxw_wupd s w old x s' : wupd s w old x s' -> maxw s' = maxw s.
Proof. intros (_ & _ & _ & _ & Hp & _ & Hm & _). auto. Qed.

Lemma InvC_owner s pick s' : InvC s -> step_owner true s pick = Some s' -> InvC s' /\ maxw s' = maxw s.
Proof.
  destruct s as [q r p l o pg nt mw ev]. unfold InvC. simpl. intros HC.
  unfold step_owner; simpl.
  destruct o.
  - destruct pg as [|[| |] pg]; try discriminate;
      intros H; inversion H; subst; clear H; simpl; auto.
  - destruct (mutex_free _); [|discriminate].
    destruct (_ && _) eqn:C; intros H; inversion H; subst; clear H; simpl; auto.
    split; auto. intros Hm. rewrite Zlen_app. unfold Zlen at 2. simpl.
    apply andb_true_iff in C. destruct C as [C _]. apply orb_true_iff in C.
    destruct C as [C|C]; [apply Z.ltb_lt in C|apply Z.ltb_lt in C]; lia.
  - destruct pick as [w|].
    + destruct (nth_error l w) as [y|] eqn:E; [|discriminate].
      destruct y as [| | |n|k0|k0| |]; try discriminate. destruct n; [discriminate|].
      intros H; inversion H; subst; clear H; simpl; auto.
    + destruct (existsb _ _); [discriminate|].
      intros H; inversion H; subst; clear H; simpl; auto.
  - destruct (mutex_free _); [|discriminate].
    intros H; inversion H; subst; clear H; simpl; auto.
  - destruct (mutex_free _); [|discriminate].
    intros H; inversion H; subst; clear H; simpl; auto.
  - destruct p as [|n p]; intros H; inversion H; subst; clear H; simpl; auto.
  - destruct rest as [|w rest]; [discriminate|].
    destruct (nth_error l w) as [y|] eqn:E; [|discriminate].
    destruct y; try discriminate.
    destruct rest as [|n rest]; intros H; inversion H; subst; clear H; simpl; auto.
  - destruct (mutex_free _); [|discriminate].
    intros H; inversion H; subst; clear H; simpl; auto.
Qed.

(* ---- invariant D: the task ledger --------------------------------------------------------------- *)
Definition bound (s : pstate) : nat := match own s with OS_push k => k | _ => next_task s end.
Definition holds (l : list wst) (k : nat) : Prop := In (WRun k) l \/ In (WEnd k) l.

Record InvD (s : pstate) : Prop := {
  d_nodup : NoDup (queue s);
  d_q : forall k, In k (queue s) -> k < bound s;
  d_h : forall k, holds (ws s) k -> k < bound s /\ ~ In k (queue s);
  d_e : forall k, In (EvDelete k) (evs s) -> k < bound s /\ ~ In k (queue s);
  d_push : forall k, own s = OS_push k -> k < next_task s }.

Lemma holds_set l w x k : holds (list_set l w x) k -> x = WRun k \/ x = WEnd k \/ holds l k.
Proof.
  unfold holds. intros [H|H]; apply ls_in in H; destruct H as [H|H]; auto.
Qed.

Lemma holds_wake l k : holds (map wake l) k -> holds l k.
Proof.
  unfold holds. intros [H|H]; apply in_map_iff in H; destruct H as [y [Hy Hin]];
    destruct y; simpl in Hy; try discriminate; inversion Hy; subst; auto.
Qed.

Lemma holds_snoc l k : holds (l ++ [WStart]) k -> holds l k.
Proof.
  unfold holds. intros [H|H]; apply in_app_iff in H; destruct H as [H|[H|[]]]; auto; discriminate.
Qed.

Lemma holds_nth_run l w k : nth_error l w = Some (WRun k) -> holds l k.
Proof. intros H. left. eapply nth_error_In; eauto. Qed.
Lemma holds_nth_end l w k : nth_error l w = Some (WEnd k) -> holds l k.
Proof. intros H. right. eapply nth_error_In; eauto. Qed.

Lemma InvD_frame s s' :
  InvD s -> NoDup (queue s') -> (forall k, In k (queue s') -> In k (queue s)) -> bound s' = bound s ->
  (forall k, holds (ws s') k -> holds (ws s) k \/ (In k (queue s) /\ ~ In k (queue s'))) ->
  (forall k, In (EvDelete k) (evs s') ->
     In (EvDelete k) (evs s) \/ holds (ws s) k \/ (In k (queue s) /\ ~ In k (queue s'))) ->
  (forall k, own s' = OS_push k -> k < next_task s') ->
  InvD s'.
Proof.
  intros [H1 H2 H3 H4 H5] Hn Hq Hb Hh He Hp. constructor; auto; rewrite Hb.
  - intros k Hk. auto.
  - intros k Hk. destruct (Hh k Hk) as [H|[H H']].
    + destruct (H3 k H). split; auto.
    + split; auto.
  - intros k Hk. destruct (He k Hk) as [H|[H|[H H']]].
    + destruct (H4 k H). split; auto.
    + destruct (H3 k H). split; auto.
    + split; auto.
Qed.

Ltac dframe_tac :=
  match goal with
  | |- NoDup _ => auto
  | |- forall k, In k _ -> In k _ => auto
  | |- bound _ = bound _ => reflexivity
  | |- forall k, _ = OS_push k -> _ => auto; try discriminate
  | _ => idtac
  end.

Lemma InvD_worker s w s' : InvD s -> step_worker s w = Some s' -> InvD s'.
Proof.
  destruct s as [q r p l o pg nt mw ev]. intros HD. pose proof HD as [H1 H2 H3 H4 H5]. simpl in *.
  unfold step_worker; simpl.
  destruct (nth_error l w) as [y|] eqn:E; [|discriminate].
  assert (Hpop : forall k q' e, q = k :: q' ->
     InvD (mkP q' r p (list_set l w (WRun k)) o pg nt mw (EvBegin k e :: ev))).
  { intros k q' e ->. inversion H1; subst.
    eapply InvD_frame; [exact HD|..]; simpl; dframe_tac.
    - intros k' Hk. right; auto.
    - intros k' Hk. apply holds_set in Hk. destruct Hk as [Hk|[Hk|Hk]]; try discriminate; auto.
      inversion Hk; subst. right. split; auto.
    - intros k' [Hk|Hk]; [discriminate|auto]. }
  assert (Hsame : forall x ev', (forall k, x <> WRun k) ->
     (forall k, x = WEnd k -> holds l k) ->
     (forall k, In (EvDelete k) ev' -> In (EvDelete k) ev \/ holds l k) ->
     InvD (mkP q r p (list_set l w x) o pg nt mw ev')).
  { intros x ev' Hx1 Hx2 Hev.
    eapply InvD_frame; [exact HD|..]; simpl; dframe_tac.
    - intros k' Hk. apply holds_set in Hk. destruct Hk as [Hk|[Hk|Hk]]; auto.
      exfalso; eapply Hx1; eauto.
    - intros k' Hk. destruct (Hev _ Hk); auto. }
  destruct y as [| | |n|k|k| |]; try discriminate.
  - intros H; inversion H; subst; clear H. apply Hsame; auto; discriminate.
  - destruct (mutex_free _); [|discriminate]. unfold eval_pred; simpl.
    destruct r; simpl; [destruct q as [|k q]; simpl|]; intros H; inversion H; subst; clear H.
    + apply Hsame; auto; discriminate.
    + eapply Hpop; eauto.
    + apply Hsame; auto; discriminate.
  - intros H; inversion H; subst; clear H. apply Hsame; auto; discriminate.
  - destruct n; [|discriminate].
    destruct (mutex_free _); [|discriminate]. unfold eval_pred; simpl.
    destruct r; simpl; [destruct q as [|k q]; simpl|]; intros H; inversion H; subst; clear H.
    + apply Hsame; auto; discriminate.
    + eapply Hpop; eauto.
    + apply Hsame; auto; discriminate.
  - intros H; inversion H; subst; clear H. apply Hsame; try discriminate.
    + intros k' Hk. inversion Hk; subst. eapply holds_nth_run; eauto.
    + intros k' [Hk|Hk]; [discriminate|auto].
  - intros H; inversion H; subst; clear H. apply Hsame; try discriminate.
    intros k' [Hk|Hk]; auto. inversion Hk; subst. right. eapply holds_nth_end; eauto.
Qed.

Lemma InvD_spur s w s' : InvD s -> pstep true s (LSpur w) = Some s' -> InvD s'.
Proof.
  destruct s as [q r p l o pg nt mw ev]. intros HD. simpl.
  destruct (nth_error l w) as [y|] eqn:E; [|discriminate].
  destruct y as [| | |n|k|k| |]; try discriminate. destruct n; [discriminate|].
  intros H; inversion H; subst; clear H.
  eapply InvD_frame; [exact HD|..]; simpl; dframe_tac.
  - apply HD.
  - intros k' Hk. apply holds_set in Hk. destruct Hk as [Hk|[Hk|Hk]]; auto; discriminate.
  - auto.
  - apply HD.
Qed.

Lemma in_rev_delete k q ev :
  In (EvDelete k) (rev (map EvDelete q) ++ ev) -> In k q \/ In (EvDelete k) ev.
Proof.
  intros H. apply in_app_iff in H. destruct H as [H|H]; auto.
  apply in_rev in H. apply in_map_iff in H. destruct H as [x [Hx Hin]]. inversion Hx; subst. auto.
Qed.

Lemma InvD_owner s pick s' : InvD s -> step_owner true s pick = Some s' -> InvD s'.
Proof.
  destruct s as [q r p l o pg nt mw ev]. intros HD. pose proof HD as [H1 H2 H3 H4 H5].
  unfold bound in *. simpl in *.
  unfold step_owner; simpl.
  destruct o.
  - destruct pg as [|[| |] pg]; try discriminate;
      intros H; inversion H; subst; clear H;
      (eapply InvD_frame; [exact HD|..]; simpl; dframe_tac; auto).
    intros k Hk. inversion Hk; subst. lia.
  - (* OS_push *)
    destruct (mutex_free _); [|discriminate].
    pose proof (H5 _ eq_refl) as Hk.
    assert (Hq : NoDup (q ++ [k])).
    { apply NoDup_snoc; auto. intros Hin. apply H2 in Hin. lia. }
    assert (Hq2 : forall k', In k' (q ++ [k]) -> k' < nt).
    { intros k' Hin. apply in_app_iff in Hin. destruct Hin as [Hin|[<-|[]]]; auto. apply H2 in Hin. lia. }
    assert (Hq3 : forall k', k' < k -> ~ In k' q -> ~ In k' (q ++ [k])).
    { intros k' Hlt Hn Hin. apply in_app_iff in Hin. destruct Hin as [Hin|[<-|[]]]; auto. lia. }
    destruct (_ && _); intros H; inversion H; subst; clear H; constructor; unfold bound; simpl; auto;
      try discriminate.
    + intros k' Hh. apply holds_snoc in Hh. destruct (H3 _ Hh). split; [lia|auto].
    + intros k' [Hh|Hh]; [discriminate|]. destruct (H4 _ Hh). split; [lia|auto].
    + intros k' Hh. destruct (H3 _ Hh). split; [lia|auto].
    + intros k' Hh. destruct (H4 _ Hh). split; [lia|auto].
  - (* OS_notify *)
    destruct pick as [w|].
    + destruct (nth_error l w) as [y|] eqn:E; [|discriminate].
      destruct y as [| | |n|k0|k0| |]; try discriminate. destruct n; [discriminate|].
      intros H; inversion H; subst; clear H.
      eapply InvD_frame; [exact HD|..]; simpl; dframe_tac; auto.
      intros k' Hk. apply holds_set in Hk. destruct Hk as [Hk|[Hk|Hk]]; auto; discriminate.
    + destruct (existsb _ _); [discriminate|].
      intros H; inversion H; subst; clear H.
      eapply InvD_frame; [exact HD|..]; simpl; dframe_tac; auto.
  - (* OC_clear *)
    destruct (mutex_free _); [|discriminate].
    intros H; inversion H; subst; clear H.
    eapply InvD_frame; [exact HD|..]; simpl; dframe_tac; auto.
    + constructor.
    + intros k [].
    + intros k Hk. apply in_rev_delete in Hk. destruct Hk; auto.
  - (* OP_flag *)
    destruct (mutex_free _); [|discriminate].
    intros H; inversion H; subst; clear H.
    eapply InvD_frame; [exact HD|..]; simpl; dframe_tac; auto.
  - (* OP_notify *)
    fold wake.
    destruct p as [|n p]; intros H; inversion H; subst; clear H;
      (eapply InvD_frame; [exact HD|..]; simpl; dframe_tac; auto);
      intros k' Hk; apply holds_wake in Hk; auto.
  - (* OP_join *)
    destruct rest as [|w rest]; [discriminate|].
    destruct (nth_error l w) as [y|] eqn:E; [|discriminate].
    destruct y; try discriminate.
    destruct rest as [|n rest]; intros H; inversion H; subst; clear H;
      (eapply InvD_frame; [exact HD|..]; simpl; dframe_tac; auto);
      intros k' Hk; apply holds_set in Hk; destruct Hk as [Hk|[Hk|Hk]]; auto; discriminate.
  - (* OP_clear *)
    destruct (mutex_free _); [|discriminate].
    intros H; inversion H; subst; clear H.
    eapply InvD_frame; [exact HD|..]; simpl; dframe_tac; auto.
    + constructor.
    + intros k [].
    + intros k [Hk|Hk]; [discriminate|]. apply in_rev_delete in Hk. destruct Hk; auto.
Qed.

(* ---- the invariant of reachable states ------------------------------------------------------------ *)
Definition SInv (s : pstate) : Prop := InvA s /\ InvB s /\ InvC s /\ InvD s.

Lemma SInv_init mx pr : SInv (pinit mx pr).
Proof.
  unfold pinit. split; [|split; [|split]].
  - constructor; unfold live; simpl; try discriminate; auto.
    + constructor.
    + intros w [].
    + intros w Hw. lia.
  - constructor; unfold stopping, joining; simpl; try discriminate; auto.
  - unfold InvC; simpl. unfold Zlen; simpl. auto.
  - constructor; unfold bound, holds; simpl; try discriminate.
    + constructor.
    + intros k [].
    + intros k [[]|[]].
    + intros k [].
Qed.

Lemma SInv_step s l s' : SInv s -> pstep true s l = Some s' -> SInv s' /\ maxw s' = maxw s.
Proof.
  intros (HA & HB & HC & HD) Hs. destruct l as [w|w|pick].
  - simpl in Hs. destruct (worker_wupd _ _ _ Hs) as (old & x & Hw).
    split; [|eapply maxw_wupd; eauto].
    split; [eapply InvA_wupd; eauto|]. split; [eapply InvB_wupd; eauto|].
    split; [eapply InvC_wupd; eauto|]. eapply InvD_worker; eauto.
  - pose proof (spur_wupd _ _ _ Hs) as Hw.
    split; [|eapply maxw_wupd; eauto].
    split; [eapply InvA_wupd; eauto|]. split; [eapply InvB_wupd; eauto|].
    split; [eapply InvC_wupd; eauto|]. eapply InvD_spur; eauto.
  - simpl in Hs. destruct (InvC_owner _ _ _ HC Hs) as [HC' Hm].
    split; auto.
    split; [eapply InvA_owner; eauto|]. split; [eapply InvB_owner; eauto|].
    split; auto. eapply InvD_owner; eauto.
Qed.

Lemma SInv_prun_from s ls : SInv s -> SInv (prun true s ls) /\ maxw (prun true s ls) = maxw s.
Proof.
  revert s; induction ls as [|l ls IH]; intros s H; simpl; auto.
  destruct (pstep true s l) as [s'|] eqn:E; auto.
  destruct (SInv_step _ _ _ H E) as [H' Hm]. destruct (IH _ H') as [H'' Hm'].
  split; auto. congruence.
Qed.

Lemma SInv_prun mx pr ls : SInv (prun true (pinit mx pr) ls) /\ maxw (prun true (pinit mx pr) ls) = mx.
Proof. apply (SInv_prun_from (pinit mx pr) ls). apply SInv_init. Qed.
