(* Properties_C03.v — rwp::Resource: FIFO fairness, waiting requests are never overtaken.
   Only statements, each closed by [exact <lemma of ResourceProofs>], and Print Assumptions. *)
From Coq Require Import List ZArith Bool Lia.
From Tulz Require Import RaceModel AtomicSections.
From TulzGen Require Import Accesses.
From Tulz Require Import Common ResourceModel ResourceInv ResourceLemmas ResourceOrder.
Import ListNotations.
Local Open Scope Z_scope.

(* THE property, over the ghost history of every execution: whenever a request b is granted
   (its lock*() returns), every request a that was already parked before b was issued and is
   still ungranted is a read, b is a read, and no write request ever parked between them. *)
Theorem C03_fifo : forall n ls, fifo_ok (hist (run true (init n) ls)).
Proof. exact fifo_reachable. Qed.
Print Assumptions C03_fifo.

(* no barging: while the queue is non-empty or any writer waits (admitted or not), every new
   request — read or write — parks behind it *)
Theorem C03_no_barging : forall n ls t op s',
  (queue (rs (run true (init n) ls)) <> [] \/
   exists t' id nt a, nth_error (thr (run true (init n) ls)) t' = Some (Parked Wr id nt a)) ->
  step true (run true (init n) ls) (Req t op) = Some s' ->
  exists id a, nth_error (thr s') t = Some (Parked op id false a).
Proof. exact no_barging. Qed.
Print Assumptions C03_no_barging.

(* parked requests keep their arrival order: tickets of parked threads are ordered like their
   arrival numbers (so the queue is served in arrival order) *)
Theorem C03_tickets_follow_arrival : forall n ls t1 t2 o1 o2 i1 i2 n1 n2 a1 a2,
  nth_error (thr (run true (init n) ls)) t1 = Some (Parked o1 i1 n1 a1) ->
  nth_error (thr (run true (init n) ls)) t2 = Some (Parked o2 i2 n2 a2) ->
  ((a1 < a2)%nat <-> i1 < i2).
Proof. exact tickets_follow_arrival. Qed.
Print Assumptions C03_tickets_follow_arrival.

(* The pinned upstream code violates it (after the counter reset writer 2 takes the fast path
   while reader 1, parked long before, is still asleep). *)
Theorem C03_upstream_refuted : exists ls, ~ fifo_ok (hist (run false (init 3) ls)).
Proof. exact upstream_overtaking. Qed.
Print Assumptions C03_upstream_refuted.

Example C03_nonvacuous :
  hist (run true (init 3) [Req 0 Wr; Req 1 Rd; Req 2 Wr; Rel 0; Notify 0; Wake 1])
  = [HGrant 1 1; HPark 2 2; HIssue 2 2 Wr; HPark 1 1; HIssue 1 1 Rd; HGrant 0 0; HIssue 0 0 Wr].
Proof. vm_compute. reflexivity. Qed.

(* The premise of the atomic-step model, checked on the access rows the translator extracted from the
   CURRENT source (TulzGen.Accesses, regenerated on every run): every access to the Resource's state in
   Resource::lock / Resource::unlock (and the helpers they call) is made holding m_mutex, hence no two
   threads are ever inside those sections at once (AtomicSections.v). *)
Theorem C03_sections_atomic : forall n os t1 t2 a1 a2,
  t1 <> t2 -> In a1 TulzGen.Accesses.extracted_accesses -> In a2 TulzGen.Accesses.extracted_accesses ->
  RaceModel.a_comp a1 = resource_component -> RaceModel.a_comp a2 = resource_component ->
  RaceModel.can_perform (RaceModel.lrun (RaceModel.linit n) os) t1 a1 ->
  RaceModel.can_perform (RaceModel.lrun (RaceModel.linit n) os) t2 a2 -> False.
Proof. apply (AtomicSections.sections_exclusive resource_component resource_mutex). vm_compute. reflexivity. Qed.
Print Assumptions C03_sections_atomic.
