(* RingInv.v — the predicates the RingBuffer theorems are stated with (definitions only). *)
From Coq Require Import List ZArith Bool Lia.
From Tulz Require Import Common RingModel.
Import ListNotations.
Local Open Scope Z_scope.

Section Inv.
Context {V : Type}.

Definition is_live (s : slot V) : bool := match s with Live _ => true | _ => false end.

(* well-formed buffer: capacity >= 1, head inside the array, the array has exactly [cap]
   slots, the [size] logical slots starting at the head (wrapping around) hold elements and
   no other slot does *)
Record wf (r : ring V) : Prop := {
  wf_cap : 1 <= cap r;
  wf_pos : 0 <= pos r < cap r;
  wf_size : 0 <= size r <= cap r;
  wf_len : Zlen (data r) = cap r;
  wf_live : forall i, 0 <= i < size r -> is_live (rd (data r) (dataIndex r i)) = true;
  wf_dead : forall j, 0 <= j < cap r -> (forall i, 0 <= i < size r -> dataIndex r i <> j) ->
                      is_live (rd (data r) j) = false
}.

(* a buffer variable holds a well-formed buffer or the moved-from buffer *)
Definition wf0 (r : ring V) : Prop := wf r \/ r = empty_ring.

Definition abs (r : ring V) : deque V := mkDeque (items r) (cap r).

(* an event that the property forbids: out-of-bounds / non-element access, an abandoned
   array, a destructor or assignment on raw storage, moving out of a non-element, releasing
   an array that still contains an element *)
Definition ev_ok (e : event V) : bool :=
  match e with
  | EUb => false
  | EDrop _ => false
  | EDtor Raw => false
  | EAssign Raw _ => false
  | EMoveOut (Live _) => true
  | EMoveOut _ => false
  | EFree rest => negb (existsb is_live rest)
  | _ => true
  end.

(* element values an event sequence removes for good / constructs / hands to the caller *)
Definition removed (evs : list (event V)) : list V :=
  flat_map (fun e => match e with EDtor (Live v) => [v] | EAssign (Live v) _ => [v] | _ => [] end) evs.
Definition constructed (evs : list (event V)) : list V :=
  flat_map (fun e => match e with ECtor v => [v] | _ => [] end) evs.
Definition moved_out (evs : list (event V)) : list V :=
  flat_map (fun e => match e with EMoveOut (Live v) => [v] | _ => [] end) evs.
(* temporaries: the moved-from shell of an overwriting insert is destroyed, never a value *)
End Inv.

(* ---- trace-level notions (element type Z, the runner's instance) ----------------------- *)

Definition abs_env (e : env) : denv := map (option_map abs) e.
Definition wf_env (e : env) : Prop := length e = 3%nat /\ Forall (fun o => match o with Some r => wf0 r | None => True end) e.

Definition live_items (e : env) : list Z :=
  flat_map (fun o => match o with Some r => items r | None => [] end) e.

Definition all_events (t : list (outcome * list Z)) : list (event Z) :=
  flat_map (fun x => match fst x with Some (_, evs) => evs | None => [] end) t.

(* what C04 observes of a step: returned values and dump; what C09 observes: the events *)
Definition view_ring (x : outcome * list Z) : option (list Z) * list Z := (option_map fst (fst x), snd x).
Definition view_deque (x : doutcome * list Z) : option (list Z) * list Z := (option_map fst (fst x), snd x).

Definition step_lifetimes_ok (x : outcome * list Z) (y : doutcome * list Z) : Prop :=
  match fst x, fst y with
  | Some (_, evs), Some (_, rem) => forallb ev_ok evs = true /\ removed evs = rem
  | None, None => True
  | _, _ => False
  end.
