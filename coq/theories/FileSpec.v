(* FileSpec.v — the sessions the C17 theorems are stated with (definitions only). *)
From Coq Require Import List ZArith Bool Lia.
From Tulz Require Import Common FileModel.
Import ListNotations.
Local Open Scope Z_scope.

(* File f(path, mode); f.write(c1); ...; f.write(cn); f.close(): the disk afterwards *)
Definition write_session (d : disk) (n : Z) (m : fmode) (chunks : list (list Z)) : option disk :=
  match file_open d n m with
  | inr (d', Some st) => Some (fst (fold_left (fun ds c => fwrite (fst ds) (snd ds) c) chunks (d', st)))
  | _ => None
  end.

(* File f(path, mode); f.read() *)
Definition read_back (d : disk) (n : Z) (m : fmode) : option (list Z) :=
  match file_open d n m with
  | inr (d', Some st) => match file_read_all d' st with Some (_, bytes) => Some bytes | None => None end
  | _ => None
  end.

Definition is_dir (d : disk) (n : Z) : bool := match dfind d n with Some EDir => true | _ => false end.
