(* Properties_C15.v — the threading components are free of data races under their intended use.
   Only statements, each closed by [exact <lemma of RaceProofs / PoolProofsC>] or by evaluation, and
   Print Assumptions. Partial by nature: the C++ memory model (SC for data-race-free programs) is
   assumed, the access summary is syntactic (lib/gen_accesses.py, trusted), library internals are
   covered only through the member that holds them. *)
From Coq Require Import List String Bool Lia.
From Tulz Require Import Common RaceModel AccessTable RaceProofs PoolModel PoolInv PoolProofsC.
From TulzGen Require Import Accesses.
Import ListNotations.

(* the lock discipline is an invariant of every execution of acquire / release operations *)
Theorem C15_lock_discipline : forall n os t1 t2 l m1 m2,
  t1 <> t2 -> In (l, m1) (held (lrun (linit n) os) t1) -> In (l, m2) (held (lrun (linit n) os) t2) ->
  m1 = Shared /\ m2 = Shared.
Proof. exact lock_discipline. Qed.
Print Assumptions C15_lock_discipline.

(* THE theorem, for any table that passes the check: in every reachable lock state no two
   different threads can simultaneously be at conflicting accesses of the table — accesses to the
   same field, at least one a write, not both atomic — unless they are both run by the one owner
   thread, are worker threads on their own per-thread objects, or form a pair discharged separately *)
Theorem C15_drf : forall role_of per_worker exempt tbl,
  table_ok role_of per_worker exempt tbl = true ->
  forall n os t1 t2 a1 a2,
  In a1 tbl -> In a2 tbl -> t1 <> t2 ->
  can_perform (lrun (linit n) os) t1 a1 -> can_perform (lrun (linit n) os) t2 a2 ->
  conflicting a1 a2 = true ->
  concurrent (role_of a1) (role_of a2) = true ->
  (match role_of a1, role_of a2 with Worker, Worker => per_worker a1 && per_worker a2 | _, _ => false end) = false ->
  exempt a1 a2 = false -> False.
Proof. exact table_drf. Qed.
Print Assumptions C15_drf.

(* the table of the tree's threading code passes the check ... *)
Theorem C15_table_ok_now : table_ok role_of per_worker exempt expected_accesses = true.
Proof. vm_compute. reflexivity. Qed.
Print Assumptions C15_table_ok_now.

(* ... and it is what the translator extracts from the current source (the tie to the source) *)
Theorem C15_source_agrees : accesses_eqb extracted_accesses expected_accesses = true.
Proof. vm_compute. reflexivity. Qed.
Print Assumptions C15_source_agrees.

(* the one pair discharged by a state argument: when ThreadPool::start finds m_isRunning false (and
   re-arms it without a lock) the owner is between operations and no worker thread is alive, so no
   worker can be reading the flag — in every reachable state of the pool model *)
Theorem C15_rearm_has_no_reader : forall maxw pr ls,
  let s := prun true (pinit maxw pr) ls in
  own s = OIdle -> running s = false -> all_gone s.
Proof. exact rearm_has_no_reader. Qed.
Print Assumptions C15_rearm_has_no_reader.

(* The pinned upstream code is refuted by the same check: stop() writing m_isRunning without the
   queue mutex, and a plain (non-atomic) m_isFinished, each make the table fail. *)
Definition upstream_stop (a : access) : access :=
  if String.eqb (a_fn a) "ThreadPool::stop" && String.eqb (a_field a) "m_isRunning"
  then mkAcc (a_comp a) (a_fn a) (a_field a) (a_write a) (a_atomic a) [] else a.
Definition upstream_flag (a : access) : access :=
  if String.eqb (a_field a) "Thread::m_isFinished"
  then mkAcc (a_comp a) (a_fn a) (a_field a) (a_write a) false (a_guards a) else a.
Theorem C15_upstream_refuted :
  table_ok role_of per_worker exempt (map upstream_stop expected_accesses) = false /\
  table_ok role_of per_worker exempt (map upstream_flag expected_accesses) = false.
Proof. vm_compute. split; reflexivity. Qed.
Print Assumptions C15_upstream_refuted.

Example C15_nonvacuous :
  let st := lrun (linit 3) [Acquire 0 ("m_resource", Shared); Acquire 1 ("m_resource", Shared);
                            Acquire 2 ("m_resource", Excl); Acquire 2 ("m_queueMutex", Excl); Acquire 0 ("m_queueMutex", Excl)]%string in
  st = [[("m_resource", Shared)]; [("m_resource", Shared)]; [("m_queueMutex", Excl)]]%string.
Proof. vm_compute. reflexivity. Qed.
