(* RingLemmasC.v — push / pop operations of the RingBuffer model. *)
From Coq Require Import List ZArith Bool Lia ZifyBool Permutation.
From Tulz Require Import Common RingModel RingInv RingLemmasA RingLemmasB.
Import ListNotations.
Local Open Scope Z_scope.

Section C.
Context {V : Type}.
Implicit Types (d : list (slot V)) (r : ring V).

Lemma live_is_Live (s : slot V) : is_live s = true -> exists x, s = Live x.
Proof. destruct s; simpl; try discriminate. eauto. Qed.

Lemma contents_cons' p s c d : 1 <= s -> 0 < c ->
  contents (mkRing p s c d) = rd d (modCap p c) :: contents (mkRing (modCap (p + 1) c) (s - 1) c d).
Proof.
  intros. rewrite <- contents_cons by lia. f_equal. f_equal. lia.
Qed.

Lemma contents_snoc' p s c d : 1 <= s ->
  contents (mkRing p s c d) = contents (mkRing p (s - 1) c d) ++ [rd d (modCap (p + s - 1) c)].
Proof.
  intros. replace (p + s - 1) with (p + (s - 1)) by lia.
  rewrite <- contents_snoc by lia. f_equal. f_equal. lia.
Qed.

Lemma slot_vals_cons_Live x (l : list (slot V)) : slot_vals (Live x :: l) = x :: slot_vals l.
Proof. reflexivity. Qed.

Lemma slot_vals_snoc_Live x (l : list (slot V)) : slot_vals (l ++ [Live x]) = slot_vals l ++ [x].
Proof. rewrite slot_vals_app. reflexivity. Qed.

Lemma emplace_back_spec ow r v : wf r ->
  match emplace_back ow r v with
  | Some (r', evs) =>
      (ow || (size r <? cap r)) = true /\ wf r' /\ cap r' = cap r /\
      at_ r' (size r' - 1) = Live v /\
      (if size r <? cap r then items r' = items r ++ [v] /\ evfacts evs [] [v] []
       else exists x t, items r = x :: t /\ items r' = t ++ [v] /\ evfacts evs [x] [v] [])
  | None => (ow || (size r <? cap r)) = false
  end.
Proof.
  destruct r as [p s c d]. intros W.
  destruct (wf_elim _ _ _ _ W) as (Hc & Hp & Hs & Hl & Hph).
  unfold emplace_back, full; cbn [pos size cap data].
  destruct (ow || (s <? c)) eqn:Hg; cbn [negb]; [|reflexivity].
  destruct (s =? c) eqn:Hf.
  - (* full *)
    assert (s = c) by lia. subst s. assert (Hlt : (c <? c) = false) by lia. rewrite Hlt.
    assert (Hlp : is_live (rd d p) = true) by (apply Hph; lia).
    destruct (live_is_Live _ Hlp) as [x Hx].
    split; [reflexivity|]. split; [|split; [reflexivity|split]].
    + apply wf_intro; try lia.
      * apply modCap_range; lia.
      * rewrite Zlen_wr; lia.
      * intros j Hj. destruct (Z.eq_dec p j) as [->|Hne].
        -- rewrite rd_wr_same by lia. cbn [is_live]. mcz; lia.
        -- rewrite rd_wr_other by lia. rewrite (Hph j Hj). mcz; lia.
    + unfold at_, dataIndex; cbn [pos size cap data].
      replace (modCap (modCap (p + 1) c + (c - 1)) c) with p by (mcz; lia).
      apply rd_wr_same. lia.
    + exists x, (slot_vals (contents (mkRing (modCap (p + 1) c) (c - 1) c d))).
      split; [|split].
      * unfold items. rewrite contents_cons' by lia. mc. rewrite Hx. reflexivity.
      * unfold items. rewrite contents_snoc' by lia.
        replace (modCap (modCap (p + 1) c + c - 1) c) with p by (mcz; lia).
        rewrite rd_wr_same by lia. rewrite slot_vals_snoc_Live. f_equal. f_equal.
        apply contents_data_ext. intros k Hk. apply rd_wr_other. mcz; lia.
      * rewrite ub_in by lia. rewrite Hx. repeat split; reflexivity.
  - (* not full *)
    assert (Hlt : (s <? c) = true) by lia. rewrite Hlt.
    assert (Hir : 0 <= modCap (p + s) c < c) by (apply modCap_range; lia).
    assert (Hdead : is_live (rd d (modCap (p + s) c)) = false).
    { pose proof (Hph (modCap (p + s) c) Hir). mcz; lia. }
    split; [reflexivity|]. split; [|split; [reflexivity|split]].
    + apply wf_intro; try lia.
      * rewrite Zlen_wr; lia.
      * intros j Hj. destruct (Z.eq_dec (modCap (p + s) c) j) as [E|Hne].
        -- rewrite E. rewrite rd_wr_same by lia. cbn [is_live]. mcz; lia.
        -- rewrite rd_wr_other by lia. rewrite (Hph j Hj). mcz; lia.
    + unfold at_, dataIndex; cbn [pos size cap data].
      replace (p + (s + 1 - 1)) with (p + s) by lia. apply rd_wr_same. lia.
    + split.
      * unfold items. rewrite contents_snoc by lia. rewrite rd_wr_same by lia.
        rewrite slot_vals_snoc_Live. f_equal. f_equal. symmetry.
        apply contents_data_ext. intros k Hk. symmetry. apply rd_wr_other. mcz; lia.
      * rewrite ub_in by lia. destruct (rd d (modCap (p + s) c)); try discriminate;
          repeat split; reflexivity.
Qed.

Lemma emplace_front_spec ow r v : wf r ->
  match emplace_front ow r v with
  | Some (r', evs) =>
      (ow || (size r <? cap r)) = true /\ wf r' /\ cap r' = cap r /\
      at_ r' 0 = Live v /\
      (if size r <? cap r then items r' = v :: items r /\ evfacts evs [] [v] []
       else exists t x, items r = t ++ [x] /\ items r' = v :: t /\ evfacts evs [x] [v] [])
  | None => (ow || (size r <? cap r)) = false
  end.
Proof.
  destruct r as [p s c d]. intros W.
  destruct (wf_elim _ _ _ _ W) as (Hc & Hp & Hs & Hl & Hph).
  unfold emplace_front, full; cbn [pos size cap data].
  destruct (ow || (s <? c)) eqn:Hg; cbn [negb]; [|reflexivity].
  assert (Hir : 0 <= modCap (p - 1) c < c) by (apply modCap_range; lia).
  destruct (s =? c) eqn:Hf.
  - (* full *)
    assert (s = c) by lia. subst s. assert (Hlt : (c <? c) = false) by lia. rewrite Hlt.
    assert (Hlp : is_live (rd d (modCap (p - 1) c)) = true) by (apply Hph; lia).
    destruct (live_is_Live _ Hlp) as [x Hx].
    split; [reflexivity|]. split; [|split; [reflexivity|split]].
    + apply wf_intro; try lia.
      * rewrite Zlen_wr; lia.
      * intros j Hj. destruct (Z.eq_dec (modCap (p - 1) c) j) as [E|Hne].
        -- rewrite E. rewrite rd_wr_same by lia. cbn [is_live]. mcz; lia.
        -- rewrite rd_wr_other by lia. rewrite (Hph j Hj). mcz; lia.
    + unfold at_, dataIndex; cbn [pos size cap data].
      replace (modCap (modCap (p - 1) c + 0) c) with (modCap (p - 1) c) by (mcz; lia).
      apply rd_wr_same. lia.
    + exists (slot_vals (contents (mkRing p (c - 1) c d))), x.
      split; [|split].
      * unfold items. rewrite contents_snoc' by lia.
        replace (modCap (p + c - 1) c) with (modCap (p - 1) c) by (mcz; lia).
        rewrite Hx. apply slot_vals_snoc_Live.
      * unfold items. rewrite contents_cons' by lia.
        replace (modCap (modCap (p - 1) c) c) with (modCap (p - 1) c) by (mcz; lia).
        replace (modCap (modCap (p - 1) c + 1) c) with p by (mcz; lia).
        rewrite rd_wr_same by lia. rewrite slot_vals_cons_Live. f_equal. f_equal.
        apply contents_data_ext. intros k Hk. apply rd_wr_other. mcz; lia.
      * rewrite ub_in by lia. rewrite Hx. repeat split; reflexivity.
  - (* not full *)
    assert (Hlt : (s <? c) = true) by lia. rewrite Hlt.
    assert (Hdead : is_live (rd d (modCap (p - 1) c)) = false).
    { pose proof (Hph (modCap (p - 1) c) Hir). mcz; lia. }
    split; [reflexivity|]. split; [|split; [reflexivity|split]].
    + apply wf_intro; try lia.
      * rewrite Zlen_wr; lia.
      * intros j Hj. destruct (Z.eq_dec (modCap (p - 1) c) j) as [E|Hne].
        -- rewrite E. rewrite rd_wr_same by lia. cbn [is_live]. mcz; lia.
        -- rewrite rd_wr_other by lia. rewrite (Hph j Hj). mcz; lia.
    + unfold at_, dataIndex; cbn [pos size cap data].
      replace (modCap (modCap (p - 1) c + 0) c) with (modCap (p - 1) c) by (mcz; lia).
      apply rd_wr_same. lia.
    + split.
      * unfold items. rewrite contents_cons by lia.
        replace (modCap (modCap (p - 1) c) c) with (modCap (p - 1) c) by (mcz; lia).
        replace (modCap (modCap (p - 1) c + 1) c) with p by (mcz; lia).
        rewrite rd_wr_same by lia. rewrite slot_vals_cons_Live. f_equal. f_equal. symmetry.
        apply contents_data_ext. intros k Hk. symmetry. apply rd_wr_other. mcz; lia.
      * rewrite ub_in by lia. destruct (rd d (modCap (p - 1) c)); try discriminate;
          repeat split; reflexivity.
Qed.

Lemma pop_back_spec r : wf r ->
  match pop_back r with
  | Some (r', sl, evs) =>
      size r <> 0 /\
      exists x t, sl = Live x /\ wf r' /\ cap r' = cap r /\ items r = t ++ [x] /\ items r' = t /\
                  evfacts evs [] [] [x]
  | None => size r = 0
  end.
Proof.
  destruct r as [p s c d]. intros W.
  destruct (wf_elim _ _ _ _ W) as (Hc & Hp & Hs & Hl & Hph).
  unfold pop_back; cbn [pos size cap data].
  destruct (s =? 0) eqn:Hz; [lia|].
  assert (Hir : 0 <= modCap (p + (s - 1)) c < c) by (apply modCap_range; lia).
  assert (Hlp : is_live (rd d (modCap (p + (s - 1)) c)) = true).
  { apply Hph; auto. mcz; lia. }
  destruct (live_is_Live _ Hlp) as [x Hx]. rewrite Hx. cbn [moved].
  split; [lia|]. exists x, (slot_vals (contents (mkRing p (s - 1) c d))).
  split; [reflexivity|]. split; [|split; [reflexivity|split; [|split]]].
  - apply wf_intro; try lia.
    + rewrite Zlen_wr; lia.
    + intros j Hj. destruct (Z.eq_dec (modCap (p + (s - 1)) c) j) as [E|Hne].
      * rewrite E. rewrite rd_wr_same by lia. cbn [is_live]. mcz; lia.
      * rewrite rd_wr_other by lia. rewrite (Hph j Hj). mcz; lia.
  - unfold items. rewrite contents_snoc' by lia.
    replace (p + s - 1) with (p + (s - 1)) by lia. rewrite Hx. apply slot_vals_snoc_Live.
  - unfold items. f_equal. symmetry.
    apply contents_data_ext. intros k Hk. symmetry. apply rd_wr_other. mcz; lia.
  - rewrite ub_in by lia. repeat split; reflexivity.
Qed.

Lemma pop_front_spec r : wf r ->
  match pop_front r with
  | Some (r', sl, evs) =>
      size r <> 0 /\
      exists x t, sl = Live x /\ wf r' /\ cap r' = cap r /\ items r = x :: t /\ items r' = t /\
                  evfacts evs [] [] [x]
  | None => size r = 0
  end.
Proof.
  destruct r as [p s c d]. intros W.
  destruct (wf_elim _ _ _ _ W) as (Hc & Hp & Hs & Hl & Hph).
  unfold pop_front; cbn [pos size cap data].
  destruct (s =? 0) eqn:Hz; [lia|].
  assert (Hlp : is_live (rd d p) = true) by (apply Hph; lia).
  destruct (live_is_Live _ Hlp) as [x Hx]. rewrite Hx. cbn [moved].
  split; [lia|]. exists x, (slot_vals (contents (mkRing (modCap (p + 1) c) (s - 1) c d))).
  split; [reflexivity|]. split; [|split; [reflexivity|split; [|split]]].
  - apply wf_intro; try lia.
    + apply modCap_range; lia.
    + rewrite Zlen_wr; lia.
    + intros j Hj. destruct (Z.eq_dec p j) as [E|Hne].
      * rewrite <- E. rewrite rd_wr_same by lia. cbn [is_live]. mcz; lia.
      * rewrite rd_wr_other by lia. rewrite (Hph j Hj). mcz; lia.
  - unfold items. rewrite contents_cons' by lia. mc. rewrite Hx. reflexivity.
  - unfold items. f_equal. symmetry.
    apply contents_data_ext. intros k Hk. symmetry. apply rd_wr_other. mcz; lia.
  - rewrite ub_in by lia. repeat split; reflexivity.
Qed.

Lemma emplace_back_refines0 ow r v :
  wf r ->
  match emplace_back ow r v with
  | Some (r', _) => wf r' /\ d_push_back ow (abs r) v = Some (abs r') /\ at_ r' (size r' - 1) = Live v
  | None => d_push_back ow (abs r) v = None
  end.
Proof.
  intros W. pose proof (emplace_back_spec ow r v W) as H.
  destruct (wf_contents r W) as [_ HZ].
  unfold d_push_back, abs; cbn [ditems dcap]. rewrite HZ.
  destruct (emplace_back ow r v) as [[r' evs]|].
  - destruct H as (Hg & W' & Hcap & Hat & H). split; auto. split; auto.
    rewrite Hcap. destruct (size r <? cap r).
    + destruct H as [-> _]. reflexivity.
    + rewrite orb_false_r in Hg. rewrite Hg. destruct H as (x & t & -> & -> & _). reflexivity.
  - apply orb_false_elim in H. destruct H as [-> ->]. reflexivity.
Qed.

Lemma emplace_front_refines0 ow r v :
  wf r ->
  match emplace_front ow r v with
  | Some (r', _) => wf r' /\ d_push_front ow (abs r) v = Some (abs r') /\ at_ r' 0 = Live v
  | None => d_push_front ow (abs r) v = None
  end.
Proof.
  intros W. pose proof (emplace_front_spec ow r v W) as H.
  destruct (wf_contents r W) as [_ HZ].
  unfold d_push_front, abs; cbn [ditems dcap]. rewrite HZ.
  destruct (emplace_front ow r v) as [[r' evs]|].
  - destruct H as (Hg & W' & Hcap & Hat & H). split; auto. split; auto.
    rewrite Hcap. destruct (size r <? cap r).
    + destruct H as [-> _]. reflexivity.
    + rewrite orb_false_r in Hg. rewrite Hg. destruct H as (t & x & -> & -> & _).
      rewrite removelast_last. reflexivity.
  - apply orb_false_elim in H. destruct H as [-> ->]. reflexivity.
Qed.

Lemma pop_back_refines0 r :
  wf r ->
  match pop_back r with
  | Some (r', s, _) => exists x, s = Live x /\ wf r' /\ d_pop_back (abs r) = Some (abs r', x)
  | None => d_pop_back (abs r) = None
  end.
Proof.
  intros W. pose proof (pop_back_spec r W) as H.
  destruct (wf_contents r W) as [_ HZ].
  unfold d_pop_back, abs; cbn [ditems dcap].
  destruct (pop_back r) as [[[r' sl] evs]|].
  - destruct H as (_ & x & t & -> & W' & Hcap & Hi & Hi' & _). exists x. split; auto. split; auto.
    rewrite Hi, Hi', Hcap. rewrite rev_unit, removelast_last. reflexivity.
  - destruct (items r); [reflexivity|]. unfold Zlen in HZ. simpl in HZ. lia.
Qed.

Lemma pop_front_refines0 r :
  wf r ->
  match pop_front r with
  | Some (r', s, _) => exists x, s = Live x /\ wf r' /\ d_pop_front (abs r) = Some (abs r', x)
  | None => d_pop_front (abs r) = None
  end.
Proof.
  intros W. pose proof (pop_front_spec r W) as H.
  destruct (wf_contents r W) as [_ HZ].
  unfold d_pop_front, abs; cbn [ditems dcap].
  destruct (pop_front r) as [[[r' sl] evs]|].
  - destruct H as (_ & x & t & -> & W' & Hcap & Hi & Hi' & _). exists x. split; auto. split; auto.
    rewrite Hi, Hi', Hcap. reflexivity.
  - destruct (items r); [reflexivity|]. unfold Zlen in HZ. simpl in HZ. lia.
Qed.

End C.
