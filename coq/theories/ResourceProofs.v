(* ResourceProofs.v -- the lemmas closing Properties_C01 / C02 / C12 (and no_barging of C03).
   Everything rests on the inductive invariant RInv (ResourceLemmas.v). *)
From Coq Require Import List ZArith Bool Lia Arith.
From Tulz Require Import Common ResourceModel ResourceInv ResourceLemmas.
Import ListNotations.
Local Open Scope Z_scope.

Lemma rinv_reachable : forall n ls, RInv (run true (init n) ls).
Proof. exact ResourceLemmas.rinv_reachable. Qed.

(* ---------- C01 ---------- *)
Lemma writer_exclusive_inv s t1 t2 o : RInv s -> t1 <> t2 ->
  nth_error (thr s) t1 = Some (Holding Wr) -> nth_error (thr s) t2 <> Some (Holding o).
Proof.
  intros HI N H1 H2. pose proof (holding_op _ _ _ HI H1) as Hao. cbn in Hao.
  pose proof (I_wr s HI Hao) as Hc. pose proof (I_count s HI) as Hcount.
  pose proof (countb_two is_holding (thr s) _ _ _ _ N H1 H2 eq_refl eq_refl).
  pose proof (countb_nonneg (is_admitted (ubound (rs s))) (thr s)). lia.
Qed.

Lemma writer_exclusive : forall n ls t1 t2 o,
  t1 <> t2 ->
  nth_error (thr (run true (init n) ls)) t1 = Some (Holding Wr) ->
  nth_error (thr (run true (init n) ls)) t2 <> Some (Holding o).
Proof. intros n ls t1 t2 o N H1. eapply writer_exclusive_inv; eauto. apply rinv_reachable. Qed.

Lemma assert_holds : forall n ls, assert_failed (run true (init n) ls) = false.
Proof. intros. apply I_assert. apply rinv_reachable. Qed.

Lemma upstream_overlap : exists ls t1 t2 o,
  t1 <> t2 /\ nth_error (thr (run false (init 3) ls)) t1 = Some (Holding Wr)
           /\ nth_error (thr (run false (init 3) ls)) t2 = Some (Holding o).
Proof. exists [Req 0 Wr; Req 1 Rd; Rel 0; Notify 0; Req 0 Rd; Req 2 Wr; Rel 0; Wake 1; Notify 0; Wake 2], 2%nat, 1%nat, Rd.
  vm_compute. repeat split; try reflexivity. discriminate. Qed.

(* ---------- lengths ---------- *)
Lemma step_length pre s l s' : step pre s l = Some s' -> length (thr s') = length (thr s).
Proof.
  destruct l as [t o|t|t|t|t]; unfold step; cbv zeta; intros H;
  destruct (nth_error (thr s) t) as [[|op id [|] a|op|]|]; try discriminate;
  repeat match type of H with context [if ?b then _ else _] => destruct b end;
  inversion H; subst; cbn [thr]; rewrite ?map_length, ?length_list_set; reflexivity.
Qed.

Lemma run_length pre ls : forall s, length (thr (run pre s ls)) = length (thr s).
Proof. induction ls as [|l ls IH]; intro s; cbn [run]; auto.
  destruct (step pre s l) eqn:E; auto. rewrite IH. eapply step_length; eauto. Qed.

Lemma init_length n : length (thr (init n)) = n.
Proof. cbn. apply repeat_length. Qed.

(* ---------- idle ---------- *)
Lemma idle_again_inv s : RInv s -> all_idle s -> rs s = r0.
Proof.
  intros HI Hall. apply (I_idle s HI). rewrite (I_count s HI).
  unfold all_idle in Hall. rewrite Forall_forall in Hall.
  rewrite !countb_all_false; auto; intros x Hx; rewrite (Hall x Hx); reflexivity.
Qed.

Lemma idle_again : forall n ls, all_idle (run true (init n) ls) -> rs (run true (init n) ls) = r0.
Proof. intros. apply idle_again_inv; auto. apply rinv_reachable. Qed.

Lemma idle_grants : forall n ls t op, (t < n)%nat -> all_idle (run true (init n) ls) ->
  exists s', step true (run true (init n) ls) (Req t op) = Some s' /\ nth_error (thr s') t = Some (Holding op).
Proof.
  intros n ls t op Ht Hall. pose proof (idle_again n ls Hall) as Hr.
  set (s := run true (init n) ls) in *.
  assert (Hl : length (thr s) = n). { unfold s. rewrite run_length. apply init_length. }
  destruct (nth_error (thr s) t) as [st|] eqn:E.
  2:{ apply nth_error_None in E. lia. }
  assert (st = Idle). { unfold all_idle in Hall. rewrite Forall_forall in Hall. apply Hall. eapply nth_error_In; eauto. }
  subst st. unfold step. cbv zeta. rewrite E, Hr. cbn [fast r0 queue activeOp].
  eexists. split. reflexivity. cbn [thr]. eapply nth_error_list_set_same; eauto.
Qed.

Lemma upstream_lost_wakeup : exists ps ls c,
  cexec false (cinit ps) ls = Some c /\ finished c = false /\ can_progress false c = false.
Proof. exists [[Wr; Rd]; [Rd]], [Req 0 Wr; Req 1 Rd; Rel 0; Notify 0; Req 0 Rd; Rel 0; Notify 0; Wake 1]. eexists. vm_compute. repeat split; reflexivity. Qed.

(* ---------- fast path / barging ---------- *)
Lemma top_wr_wants st : option_map aop_of (top st) = Some AWr -> wants_write st = true.
Proof. destruct st as [|[] ? ? ?|[]|]; cbn; intro H; try discriminate; reflexivity. Qed.

Lemma no_writer_not_awr s : RInv s -> no_writer s -> activeOp (rs s) <> AWr.
Proof.
  intros HI NW Hao. pose proof (I_wr s HI Hao) as Hc. pose proof (I_count s HI) as Hcount.
  pose proof (countb_nonneg is_holding (thr s)). pose proof (countb_nonneg (is_admitted (ubound (rs s))) (thr s)).
  assert (Hex : exists t st, nth_error (thr s) t = Some st /\ is_holding st || is_admitted (ubound (rs s)) st = true).
  { destruct (Z.eq_dec (countb is_holding (thr s)) 0) as [E|E].
    - destruct (countb_pos_ex (is_admitted (ubound (rs s))) (thr s)) as (t & st & Hn & Hf). lia.
      exists t, st. split; auto. rewrite Hf. apply orb_true_r.
    - destruct (countb_pos_ex is_holding (thr s)) as (t & st & Hn & Hf). lia.
      exists t, st. split; auto. rewrite Hf. reflexivity. }
  destruct Hex as (t & st & Hn & Hf). pose proof (I_op s HI _ _ Hn Hf) as Ho. rewrite Hao in Ho.
  apply top_wr_wants in Ho. rewrite (NW _ _ Hn) in Ho. discriminate.
Qed.

Lemma no_writer_queue_nil s : RInv s -> no_writer s -> queue (rs s) = [].
Proof.
  intros HI NW. destruct (queue (rs s)) as [|[ty b] q'] eqn:Q; auto. exfalso.
  pose proof (I_chain s HI) as Hch. rewrite Q in Hch. cbn [chain] in Hch. destruct Hch as [Hlt Hch].
  pose proof (chain_le _ _ _ Hch) as Hble.
  pose proof (I_cnt s HI (ubound (rs s) + 1)) as Hc.
  destruct (countb_pos_ex (is_waiting_below (ubound (rs s)) (ubound (rs s) + 1)) (thr s)) as (t & st & Hn & Hf).
  { rewrite Hc; lia. }
  destruct st as [|op id nt a| |]; try discriminate. cbn [is_waiting_below] in Hf.
  apply andb_prop in Hf. destruct Hf as [F1 F2]. apply Z.leb_le in F1. apply Z.ltb_lt in F2.
  destruct (I_parked s HI _ _ _ _ _ Hn) as [_ R2]. specialize (R2 F1). rewrite Q in R2. cbn [entry_type] in R2.
  replace (id <? b) with true in R2 by (symmetry; apply Z.ltb_lt; lia). inversion R2; subst.
  destruct op.
  - apply (no_writer_not_awr s HI NW). eapply (I_head s HI); eauto.
  - pose proof (NW _ _ Hn) as W. discriminate.
Qed.

Lemma reader_fast_inv s t s' : RInv s -> no_writer s -> step true s (Req t Rd) = Some s' ->
  nth_error (thr s') t = Some (Holding Rd).
Proof.
  intros HI NW H. unfold step in H. cbv zeta in H.
  destruct (nth_error (thr s) t) as [[| | |]|] eqn:Ht; try discriminate.
  assert (F : fast (rs s) Rd = true).
  { unfold fast. rewrite (no_writer_queue_nil s HI NW). pose proof (no_writer_not_awr s HI NW).
    destruct (activeOp (rs s)); auto; congruence. }
  rewrite F in H. inversion H; subst. cbn [thr]. eapply nth_error_list_set_same; eauto.
Qed.

Lemma reader_fast_path : forall n ls t s',
  no_writer (run true (init n) ls) ->
  step true (run true (init n) ls) (Req t Rd) = Some s' ->
  nth_error (thr s') t = Some (Holding Rd).
Proof. intros. eapply reader_fast_inv; eauto. apply rinv_reachable. Qed.

Lemma no_barging_inv s t op s' : RInv s ->
  (queue (rs s) <> [] \/ exists t' id nt a, nth_error (thr s) t' = Some (Parked Wr id nt a)) ->
  step true s (Req t op) = Some s' ->
  exists id a, nth_error (thr s') t = Some (Parked op id false a).
Proof.
  intros HI Hq H. unfold step in H. cbv zeta in H.
  destruct (nth_error (thr s) t) as [[| | |]|] eqn:Ht; try discriminate.
  assert (F : fast (rs s) op = false).
  { unfold fast. destruct (queue (rs s)) as [|e q'] eqn:Q; auto.
    destruct Hq as [Hq|(t' & id & nt & a & Hn)]; [congruence|].
    destruct (I_parked s HI _ _ _ _ _ Hn) as [R1 R2].
    destruct (Z_lt_le_dec id (ubound (rs s))) as [L|L].
    - assert (Hf : is_holding (Parked Wr id nt a) || is_admitted (ubound (rs s)) (Parked Wr id nt a) = true).
      { cbn. apply Z.ltb_lt. exact L. }
      pose proof (I_op s HI _ _ Hn Hf) as Ho. cbn in Ho. inversion Ho as [Ho']. destruct op; reflexivity.
    - specialize (R2 L). rewrite Q in R2. discriminate. }
  rewrite F in H. inversion H; subst. cbn [thr]. do 2 eexists. eapply nth_error_list_set_same; eauto.
Qed.

Lemma no_barging : forall n ls t op s',
  (queue (rs (run true (init n) ls)) <> [] \/
   exists t' id nt a, nth_error (thr (run true (init n) ls)) t' = Some (Parked Wr id nt a)) ->
  step true (run true (init n) ls) (Req t op) = Some s' ->
  exists id a, nth_error (thr s') t = Some (Parked op id false a).
Proof. intros. eapply no_barging_inv; eauto. apply rinv_reachable. Qed.

(* ---------- C12: admitted_can_enter, all_readers_inside ---------- *)
Lemma wake_enters s t op id a : nth_error (thr s) t = Some (Parked op id true a) -> id < ubound (rs s) ->
  exists s', step true s (Wake t) = Some s' /\ nth_error (thr s') t = Some (Holding op).
Proof.
  intros Ht Hid. unfold step. cbv zeta. rewrite Ht.
  replace (id <? ubound (rs s)) with true by (symmetry; apply Z.ltb_lt; exact Hid).
  eexists. split. reflexivity. cbn [thr]. eapply nth_error_list_set_same; eauto.
Qed.

Lemma admitted_enter_inv s t op id nt a : RInv s ->
  nth_error (thr s) t = Some (Parked op id nt a) -> id < ubound (rs s) ->
  exists ls' s', exec true s ls' = Some s' /\
                 Forall (fun l => match l with Rel _ => False | _ => True end) ls' /\
                 nth_error (thr s') t = Some (Holding op).
Proof.
  intros HI Ht Hid. destruct nt.
  - destruct (wake_enters s t op id a Ht Hid) as (s' & Hs & Hn).
    exists [Wake t], s'. cbn [exec]. rewrite Hs. repeat split; auto.
  - destruct (I_notif s HI) as [t' Ht']. { exists t, op, id, a. auto. }
    assert (N : t' <> t) by (intro; subst; congruence).
    set (s1 := mkS (rs s) (map notify_one_thread (list_set (thr s) t' Idle)) (arrivals s) (hist s) (assert_failed s)).
    assert (H1 : step true s (Notify t') = Some s1).
    { unfold step. cbv zeta. rewrite Ht'. reflexivity. }
    assert (Ht1 : nth_error (thr s1) t = Some (Parked op id true a)).
    { unfold s1. cbn [thr]. erewrite map_nth_error. 2:{ rewrite nth_error_list_set_neq; eauto. } reflexivity. }
    destruct (wake_enters s1 t op id a Ht1 Hid) as (s' & Hs & Hn).
    exists [Notify t'; Wake t], s'. cbn [exec]. rewrite H1, Hs. repeat split; auto.
Qed.

Lemma admitted_can_enter : forall n ls t op id nt a,
  nth_error (thr (run true (init n) ls)) t = Some (Parked op id nt a) ->
  id < ubound (rs (run true (init n) ls)) ->
  exists ls' s', exec true (run true (init n) ls) ls' = Some s' /\
                 Forall (fun l => match l with Rel _ => False | _ => True end) ls' /\
                 nth_error (thr s') t = Some (Holding op).
Proof. intros. eapply admitted_enter_inv; eauto. apply rinv_reachable. Qed.

Lemma list_set_app_mid {A} (l1 : list A) x y l2 : list_set (l1 ++ x :: l2) (length l1) y = l1 ++ y :: l2.
Proof. induction l1 as [|a l1 IH]; cbn; auto. rewrite IH. reflexivity. Qed.

Lemma nth_error_app_mid {A} (l1 : list A) x l2 : nth_error (l1 ++ x :: l2) (length l1) = Some x.
Proof. induction l1 as [|a l1 IH]; cbn; auto. Qed.

Lemma readers_run : forall m k s,
  thr s = repeat (Holding Rd) k ++ repeat Idle m -> queue (rs s) = [] ->
  (activeOp (rs s) = ANone \/ activeOp (rs s) = ARd) ->
  thr (run true s (map (fun t => Req t Rd) (seq k m))) = repeat (Holding Rd) (k + m).
Proof.
  induction m as [|m IH]; intros k s Hth Hq Hao.
  - cbn. rewrite Hth. cbn. rewrite app_nil_r, Nat.add_0_r. reflexivity.
  - cbn [seq map run].
    assert (Hk : length (repeat (Holding Rd) k) = k) by apply repeat_length.
    assert (Hn : nth_error (thr s) k = Some Idle).
    { rewrite Hth. cbn [repeat]. rewrite <- Hk at 2. apply nth_error_app_mid. }
    assert (F : fast (rs s) Rd = true).
    { unfold fast. rewrite Hq. destruct Hao as [-> | ->]; reflexivity. }
    unfold step at 1. cbv zeta. rewrite Hn, F.
    rewrite IH.
    + f_equal. lia.
    + cbn [thr]. rewrite Hth. cbn [repeat]. rewrite <- Hk at 2. rewrite list_set_app_mid.
      rewrite (repeat_cons k (Holding Rd)). rewrite <- app_assoc. reflexivity.
    + cbn [rs queue]. exact Hq.
    + cbn [rs activeOp aop_of]. auto.
Qed.

Lemma all_readers_inside : forall n,
  Forall (fun st => st = Holding Rd) (thr (run true (init n) (map (fun t => Req t Rd) (seq 0 n)))).
Proof.
  intro n. rewrite (readers_run n 0 (init n)).
  - apply Forall_forall. intros x Hx. apply repeat_spec in Hx. exact Hx.
  - reflexivity.
  - reflexivity.
  - left. reflexivity.
Qed.

(* ---------- C02: closed system ---------- *)
Definition CInv (c : cstate) : Prop := RInv (cs c) /\ length (progs c) = length (thr (cs c)).

Lemma cinv_init ps : CInv (cinit ps).
Proof. split; cbn [cinit cs progs]. apply rinv_init. rewrite init_length. reflexivity. Qed.

Lemma cstep_step pre c l c' : cstep pre c l = Some c' -> step pre (cs c) l = Some (cs c').
Proof.
  unfold cstep. destruct l as [t o|t|t|t|t].
  1:{ destruct (nth_error (progs c) t) as [[|o' rest]|]; try discriminate.
      destruct (optype_eqb o o'); try discriminate.
      destruct (step pre (cs c) (Req t o)); try discriminate. intro H; inversion H; reflexivity. }
  all: destruct (step pre (cs c) _); try discriminate; intro H; inversion H; reflexivity.
Qed.

Lemma cstep_progs_length pre c l c' : cstep pre c l = Some c' -> length (progs c') = length (progs c).
Proof.
  unfold cstep. destruct l as [t o|t|t|t|t].
  1:{ destruct (nth_error (progs c) t) as [[|o' rest]|]; try discriminate.
      destruct (optype_eqb o o'); try discriminate.
      destruct (step pre (cs c) (Req t o)); try discriminate. intro H; inversion H; cbn [progs].
      apply length_list_set. }
  all: destruct (step pre (cs c) _); try discriminate; intro H; inversion H; reflexivity.
Qed.

Lemma cinv_cstep c l c' : CInv c -> cstep true c l = Some c' -> CInv c'.
Proof.
  intros [HI HL] H. split.
  - eapply rinv_step; eauto. eapply cstep_step; eauto.
  - rewrite (cstep_progs_length _ _ _ _ H). rewrite (step_length _ _ _ _ (cstep_step _ _ _ _ H)). exact HL.
Qed.

Lemma cinv_cexec ls : forall c c', CInv c -> cexec true c ls = Some c' -> CInv c'.
Proof.
  induction ls as [|l ls IH]; intros c c' HC H; cbn [cexec] in H.
  - inversion H; subst; auto.
  - destruct (cstep true c l) eqn:E; try discriminate. eapply IH; [|eauto]. eapply cinv_cstep; eauto.
Qed.

Lemma in_labels n t l : (t < n)%nat -> In l [Req t Rd; Req t Wr; Wake t; Rel t; Notify t] -> In l (labels_of n).
Proof. intros Ht Hl. unfold labels_of. apply in_flat_map. exists t. split; auto. apply in_seq. lia. Qed.

Lemma can_progress_intro c t l c' : (t < length (thr (cs c)))%nat ->
  In l [Req t Rd; Req t Wr; Wake t; Rel t; Notify t] -> cstep true c l = Some c' -> can_progress true c = true.
Proof.
  intros Ht Hl Hs. unfold can_progress. apply existsb_exists. exists l. split.
  - eapply in_labels; eauto.
  - rewrite Hs. reflexivity.
Qed.

Lemma forallb_false_nth {A} (f : A -> bool) l : forallb f l = false -> exists t x, nth_error l t = Some x /\ f x = false.
Proof. induction l as [|a l IH]; cbn [forallb]; intro H; try discriminate.
  destruct (f a) eqn:E.
  - cbn in H. destruct (IH H) as (t & x & Hn & Hf). exists (S t), x. auto.
  - exists 0%nat, a. auto. Qed.

Lemma existsb_false_nth {A} (f : A -> bool) l t x : existsb f l = false -> nth_error l t = Some x -> f x = false.
Proof. intros H Hn. destruct (f x) eqn:E; auto.
  assert (existsb f l = true). { apply existsb_exists. exists x. split; auto. eapply nth_error_In; eauto. }
  congruence. Qed.

Definition can_move (st : tstate) : bool :=
  match st with Holding _ => true | Notifying => true | Parked _ _ true _ => true | _ => false end.

Lemma mover_progress c t st : nth_error (thr (cs c)) t = Some st -> can_move st = true -> can_progress true c = true.
Proof.
  intros Hn Hm. pose proof (nth_error_lt _ _ _ Hn) as Hl.
  destruct st as [|op id [|] a|op|]; try discriminate.
  - (* notified sleeper: Wake *)
    destruct (step true (cs c) (Wake t)) as [s'|] eqn:E.
    + eapply (can_progress_intro c t (Wake t)); auto. cbn; auto 10. unfold cstep. rewrite E. reflexivity.
    + unfold step in E. cbv zeta in E. rewrite Hn in E. destruct (id <? ubound (rs (cs c))); discriminate.
  - destruct (step true (cs c) (Rel t)) as [s'|] eqn:E.
    + eapply (can_progress_intro c t (Rel t)); auto. cbn; auto 10. unfold cstep. rewrite E. reflexivity.
    + unfold step in E. cbv zeta in E. rewrite Hn in E. destruct (activeCount (rs (cs c)) - 1 =? 0); discriminate.
  - destruct (step true (cs c) (Notify t)) as [s'|] eqn:E.
    + eapply (can_progress_intro c t (Notify t)); auto. cbn; auto 10. unfold cstep. rewrite E. reflexivity.
    + unfold step in E. cbv zeta in E. rewrite Hn in E. discriminate.
Qed.

Lemma idle_progress c t o rest : nth_error (thr (cs c)) t = Some Idle ->
  nth_error (progs c) t = Some (o :: rest) -> can_progress true c = true.
Proof.
  intros Hn Hp. pose proof (nth_error_lt _ _ _ Hn) as Hl.
  assert (E : exists s', step true (cs c) (Req t o) = Some s').
  { unfold step. cbv zeta. rewrite Hn. destruct (fast (rs (cs c)) o); eauto. }
  destruct E as [s' E].
  eapply (can_progress_intro c t (Req t o)); auto.
  - destruct o; cbn; auto 10.
  - unfold cstep. rewrite Hp. replace (optype_eqb o o) with true by (destruct o; reflexivity).
    rewrite E. reflexivity.
Qed.

(* no movers: a parked thread leads to a contradiction *)
Lemma stuck_parked_absurd s t op id a : RInv s -> existsb can_move (thr s) = false ->
  nth_error (thr s) t = Some (Parked op id false a) -> False.
Proof.
  intros HI Hex Hn.
  assert (Hnm : forall t' st, nth_error (thr s) t' = Some st -> can_move st = false).
  { intros. eapply existsb_false_nth; eauto. }
  assert (Hna : forall st, In st (thr s) -> is_admitted (ubound (rs s)) st = false).
  { intros st Hin. apply In_nth_error in Hin. destruct Hin as [t' Hn'].
    destruct st as [|op' id' nt' a'| |]; auto. cbn [is_admitted]. destruct (id' <? ubound (rs s)) eqn:E; auto.
    apply Z.ltb_lt in E. pose proof (Hnm _ _ Hn') as M. destruct nt'; try discriminate.
    destruct (I_notif s HI) as [t'' Ht'']. { exists t', op', id', a'. auto. }
    pose proof (Hnm _ _ Ht''). discriminate. }
  assert (Hnh : forall st, In st (thr s) -> is_holding st = false).
  { intros st Hin. apply In_nth_error in Hin. destruct Hin as [t' Hn']. pose proof (Hnm _ _ Hn') as M.
    destruct st; auto; discriminate. }
  pose proof (I_count s HI) as Hc. rewrite (countb_all_false _ _ Hna), (countb_all_false _ _ Hnh) in Hc.
  pose proof (I_idle s HI Hc) as Hr. destruct (I_parked s HI _ _ _ _ _ Hn) as [R1 _].
  rewrite Hr in R1. cbn in R1. lia.
Qed.

Lemma no_deadlock_inv c : CInv c -> finished c = false -> can_progress true c = true.
Proof.
  intros [HI HL] Hf.
  destruct (existsb can_move (thr (cs c))) eqn:Hex.
  - apply existsb_exists in Hex. destruct Hex as (st & Hin & Hm). apply In_nth_error in Hin.
    destruct Hin as [t Hn]. eapply mover_progress; eauto.
  - assert (Hcase : forall t st, nth_error (thr (cs c)) t = Some st -> st <> Idle -> False).
    { intros t st Hn Hne. pose proof (existsb_false_nth _ _ _ _ Hex Hn) as M.
      destruct st as [|op id [|] a|op|]; try discriminate; try congruence.
      eapply stuck_parked_absurd; eauto. }
    unfold finished in Hf. apply andb_false_iff in Hf. destruct Hf as [Hf|Hf].
    + apply forallb_false_nth in Hf. destruct Hf as (t & p & Hp & Hne).
      destruct p as [|o rest]; try discriminate.
      assert (Hl : (t < length (thr (cs c)))%nat). { rewrite <- HL. eapply nth_error_lt; eauto. }
      destruct (nth_error (thr (cs c)) t) as [st|] eqn:Hn.
      2:{ apply nth_error_None in Hn. lia. }
      destruct st as [|op id nt a|op|].
      * eapply idle_progress; eauto.
      * exfalso. eapply Hcase; eauto. discriminate.
      * exfalso. eapply Hcase; eauto. discriminate.
      * exfalso. eapply Hcase; eauto. discriminate.
    + apply forallb_false_nth in Hf. destruct Hf as (t & st & Hn & Hne).
      exfalso. eapply Hcase; eauto. intro; subst; discriminate.
Qed.

Lemma no_deadlock : forall ps ls c,
  cexec true (cinit ps) ls = Some c -> finished c = false -> can_progress true c = true.
Proof. intros ps ls c H Hf. apply no_deadlock_inv; auto. eapply cinv_cexec; eauto. apply cinv_init. Qed.

(* ---------- the variant ---------- *)
Definition tsum (n : Z) (th : list tstate) : Z := fold_right Z.add 0 (map (phase n) th).
Definition psum (n : Z) (ps : list (list optype)) : Z :=
  fold_right Z.add 0 (map (fun p => (2 * n + 4) * Zlen p) ps).

Lemma measure_eq c : measure c = psum (Zlen (thr (cs c))) (progs c) + tsum (Zlen (thr (cs c))) (thr (cs c)).
Proof. reflexivity. Qed.

Lemma sum_map_list_set {A} (f : A -> Z) l : forall t old x, nth_error l t = Some old ->
  fold_right Z.add 0 (map f (list_set l t x)) = fold_right Z.add 0 (map f l) - f old + f x.
Proof. induction l as [|a l IH]; intros [|t] old x H; cbn [nth_error list_set map fold_right] in *; try discriminate.
  - inversion H; subst. lia.
  - rewrite (IH _ _ _ H). lia. Qed.

Lemma sum_map_nonneg {A} (f : A -> Z) l : (forall x, 0 <= f x) -> 0 <= fold_right Z.add 0 (map f l).
Proof. intro H. induction l as [|a l IH]; cbn [map fold_right]. lia. pose proof (H a). lia. Qed.

Lemma Zlen_nonneg {A} (l : list A) : 0 <= Zlen l.
Proof. unfold Zlen. lia. Qed.

Lemma Zlen_cons {A} (a : A) l : Zlen (a :: l) = Zlen l + 1.
Proof. unfold Zlen. cbn [length]. rewrite Nat2Z.inj_succ. lia. Qed.

Lemma phase_nonneg n st : 0 <= n -> 0 <= phase n st.
Proof. intro H. destruct st as [|op id [|] a|op|]; cbn [phase]; lia. Qed.

Lemma measure_nonneg c : 0 <= measure c.
Proof.
  rewrite measure_eq. pose proof (Zlen_nonneg (thr (cs c))) as Hn.
  assert (0 <= psum (Zlen (thr (cs c))) (progs c)).
  { apply sum_map_nonneg. intro p. pose proof (Zlen_nonneg p). nia. }
  assert (0 <= tsum (Zlen (thr (cs c))) (thr (cs c))).
  { apply sum_map_nonneg. intro st. apply phase_nonneg. exact Hn. }
  lia.
Qed.

Lemma tsum_notify n th : tsum n (map notify_one_thread th) <= tsum n th + countb is_parked th.
Proof. induction th as [|st th IH]; unfold tsum in *; cbn [map fold_right].
  - rewrite countb_nil. lia.
  - rewrite countb_cons. destruct st as [|op id [|] a|op|]; cbn [notify_one_thread phase is_parked b2z]; lia. Qed.

Lemma countb_lt_len {A} (f : A -> bool) l : forall t x, nth_error l t = Some x -> f x = false -> countb f l <= Zlen l - 1.
Proof. induction l as [|a l IH]; intros [|t] x H Hf; cbn [nth_error] in *; try discriminate.
  - inversion H; subst. rewrite countb_cons, Hf, Zlen_cons. pose proof (countb_le_len f l). unfold b2z. lia.
  - rewrite countb_cons, Zlen_cons. pose proof (IH _ _ H Hf). pose proof (b2z_range (f a)). lia. Qed.

Lemma step_tsum s l s' : step true s l = Some s' ->
  match l with
  | Req _ _ => tsum (Zlen (thr s)) (thr s') = tsum (Zlen (thr s)) (thr s) + Zlen (thr s) + 1
  | Spurious _ => tsum (Zlen (thr s)) (thr s') = tsum (Zlen (thr s)) (thr s) + 1
  | _ => tsum (Zlen (thr s)) (thr s') <= tsum (Zlen (thr s)) (thr s) - 1
  end.
Proof.
  intro H. pose proof (Zlen_nonneg (thr s)) as Hn0. set (n := Zlen (thr s)) in *.
  destruct l as [t o|t|t|t|t]; unfold step in H; cbv zeta in H;
    destruct (nth_error (thr s) t) as [[|op id [|] a|op|]|] eqn:Ht; try discriminate.
  - destruct (fast (rs s) o); inversion H; subst; cbn [thr]; unfold tsum;
      rewrite (sum_map_list_set _ _ _ _ _ Ht); cbn [phase]; lia.
  - destruct (id <? ubound (rs s)); inversion H; subst; cbn [thr]; unfold tsum;
      rewrite (sum_map_list_set _ _ _ _ _ Ht); cbn [phase]; lia.
  - inversion H; subst; cbn [thr]; unfold tsum;
      rewrite (sum_map_list_set _ _ _ _ _ Ht); cbn [phase]; lia.
  - destruct (activeCount (rs s) - 1 =? 0); inversion H; subst; cbn [thr]; unfold tsum;
      rewrite (sum_map_list_set _ _ _ _ _ Ht); cbn [phase]; lia.
  - inversion H; subst; cbn [thr].
    pose proof (tsum_notify n (list_set (thr s) t Idle)) as P.
    rewrite (countb_list_set _ _ _ _ _ Ht) in P. cbn [is_parked b2z] in P.
    pose proof (countb_lt_len is_parked (thr s) _ _ Ht eq_refl) as Q. fold n in Q.
    unfold tsum in *. rewrite (sum_map_list_set _ _ _ _ _ Ht) in P. cbn [phase] in P. lia.
Qed.

Lemma cstep_measure c l c' : cstep true c l = Some c' ->
  if is_spurious l then measure c' = measure c + 1 else measure c' <= measure c - 1.
Proof.
  intro H. pose proof (cstep_step _ _ _ _ H) as Hs.
  pose proof (step_tsum _ _ _ Hs) as T. pose proof (step_length _ _ _ _ Hs) as L.
  rewrite !measure_eq. assert (LZ : Zlen (thr (cs c')) = Zlen (thr (cs c))) by (unfold Zlen; rewrite L; reflexivity).
  rewrite LZ. pose proof (Zlen_nonneg (thr (cs c))) as Hn0. set (n := Zlen (thr (cs c))) in *.
  unfold cstep in H. destruct l as [t o|t|t|t|t]; cbn [is_spurious].
  1:{ destruct (nth_error (progs c) t) as [[|o' rest]|] eqn:Hp; try discriminate.
      destruct (optype_eqb o o'); try discriminate.
      destruct (step true (cs c) (Req t o)); try discriminate. inversion H; subst. cbn [progs cs] in *.
      unfold psum. rewrite (sum_map_list_set _ _ _ _ _ Hp). rewrite Zlen_cons.
      pose proof (Zlen_nonneg rest). nia. }
  all: destruct (step true (cs c) _); try discriminate; inversion H; subst; cbn [progs cs] in *; lia.
Qed.

Lemma variant_decreases : forall ps ls c l c',
  cexec true (cinit ps) ls = Some c -> cstep true c l = Some c' -> is_spurious l = false ->
  0 <= measure c' < measure c.
Proof.
  intros ps ls c l c' _ H Hsp. pose proof (cstep_measure _ _ _ H) as M. rewrite Hsp in M.
  pose proof (measure_nonneg c'). lia.
Qed.

Lemma cexec_measure ls : forall c c', cexec true c ls = Some c' ->
  Zlen (filter (fun l => negb (is_spurious l)) ls) + measure c' <= measure c + Zlen (filter is_spurious ls).
Proof.
  induction ls as [|l ls IH]; intros c c' H; cbn [cexec] in H.
  - inversion H; subst. cbn. lia.
  - destruct (cstep true c l) as [c1|] eqn:E; try discriminate.
    pose proof (cstep_measure _ _ _ E) as M. pose proof (IH _ _ H) as R.
    cbn [filter]. destruct (is_spurious l); cbn [negb]; rewrite Zlen_cons; lia.
Qed.

Lemma nonspurious_bounded : forall ps ls c,
  cexec true (cinit ps) ls = Some c ->
  Zlen (filter (fun l => negb (is_spurious l)) ls) <= measure (cinit ps) + Zlen (filter is_spurious ls).
Proof. intros ps ls c H. pose proof (cexec_measure _ _ _ H). pose proof (measure_nonneg c). lia. Qed.
