(* SubjectModel.v — executable model of include/tulz/observer/{Subject,Subscription,Observer,
   EternalObserver}.h (definitions only).

   World: a heap of observer objects (alive / valid / muted / which callback script they
   run), some Subjects (m_observers as a list of (subscriptionId, observer) newest first —
   the forward_list filled by emplace_front —, m_activeSubscriptions, m_subscriptionCounter,
   and the notification depth + graveyard introduced by the repair of Subject::notify), a
   table of Subscription handles (id, subject, observer pointers; move = swap), a call
   stack of the observers whose callbacks are executing, and an event log.

   Callbacks are scripts: lists of actions executed against the same world (subscribe,
   unsubscribe, mute, invalidate, notify again, ...), so that re-entrancy is part of the
   model. Dangling pointers are explicit: calling or querying a freed observer, or freeing
   an observer whose callback is on the call stack, is the error UseAfterFree.

   [defer] selects the variant: true = the tree's code (an observer unsubscribed while a
   notification of its Subject is in progress is parked in the graveyard and destroyed when
   the outermost notify() returns); false = the pinned upstream code (destroyed at once, and
   observer->isValid() is read after the call). *)
From Coq Require Import List ZArith Bool Lia Arith.
From Tulz Require Import Common.
Import ListNotations.
Local Open Scope Z_scope.

Inductive error := UseAfterFree | OutOfFuel | BadRef.
Inductive res (A : Type) := Ok (a : A) | Err (e : error).
Arguments Ok {A} a.
Arguments Err {A} e.
Definition bind {A B} (r : res A) (f : A -> res B) : res B :=
  match r with Ok a => f a | Err e => Err e end.

(* what a callback (or the main program) does *)
Inductive action :=
| ASub (k : nat) (scr : nat)     (* subjects[k].subscribe(observer running script scr); the handle is appended to the table *)
| AUnsub (h : nat)               (* if (handles[h].isValid()) handles[h].unsubscribe() *)
| AMute (h : nat)                (* if valid: handles[h].mute() *)
| AUnmute (h : nat)              (* if valid: handles[h].unmute() *)
| AInval (h : nat)               (* if valid: handles[h].getObserver()->invalidate() *)
| AInvalSelf                     (* self->invalidate(), inside a callback only *)
| ANotify (k : nat) (arg : Z).   (* subjects[k].notify(arg) *)

Record obs := mkObs { o_alive : bool; o_valid : bool; o_muted : bool; o_script : nat }.

Record subject := mkSubj {
  observers : list (Z * nat);      (* (subscriptionId, observer), newest first *)
  active : list Z;                 (* m_activeSubscriptions *)
  counter : Z;                     (* m_subscriptionCounter *)
  depth : nat;                     (* notify() calls of this Subject in progress *)
  graveyard : list nat             (* observers unsubscribed during a notification *)
}.
Definition subject0 : subject := mkSubj [] [] 0 0 [].
(* a destroyed Subject (never used again by well-formed programs) *)
Definition tombstone : subject := mkSubj [] [] (-1) 0 [].

(* Subscription: m_id (None = InvalidSubscriptionId), m_subject, m_observer *)
Record handle := mkH { h_id : option Z; h_subj : option nat; h_obs : option nat }.
Definition handle0 : handle := mkH None None None.

Inductive event :=
| ECall (o : nat) (arg : Z)      (* the callback of observer o ran with this argument *)
| EFree (o : nat).               (* observer object o was destroyed *)

Record world := mkW {
  heap : list obs;
  subjects : list subject;
  handles : list handle;
  stack : list nat;                (* observers whose callbacks are executing, innermost first *)
  log : list event                 (* newest first *)
}.

Definition get_subj (sl : list subject) (k : nat) : option subject :=
  match nth_error sl k with
  | Some s => if counter s <? 0 then None else Some s
  | None => None
  end.

Definition memZ (x : Z) (l : list Z) : bool := existsb (Z.eqb x) l.
Definition memN (x : nat) (l : list nat) : bool := existsb (Nat.eqb x) l.

Definition set_heap (w : world) (hp : list obs) : world := mkW hp (subjects w) (handles w) (stack w) (log w).
Definition set_subj (w : world) (k : nat) (s : subject) : world :=
  mkW (heap w) (list_set (subjects w) k s) (handles w) (stack w) (log w).
Definition set_handle (w : world) (h : nat) (x : handle) : world :=
  mkW (heap w) (subjects w) (list_set (handles w) h x) (stack w) (log w).
Definition add_handle (w : world) (x : handle) : world :=
  mkW (heap w) (subjects w) (handles w ++ [x]) (stack w) (log w).
Definition add_log (w : world) (e : event) : world :=
  mkW (heap w) (subjects w) (handles w) (stack w) (e :: log w).
Definition set_stack (w : world) (st : list nat) : world :=
  mkW (heap w) (subjects w) (handles w) st (log w).

(* destroying observer object o: it must exist, be alive and not be executing *)
Definition free_obs (w : world) (o : nat) : res world :=
  match nth_error (heap w) o with
  | Some ob =>
      if negb (o_alive ob) || memN o (stack w) then Err UseAfterFree
      else Ok (add_log (set_heap w (list_set (heap w) o (mkObs false (o_valid ob) (o_muted ob) (o_script ob)))) (EFree o))
  | None => Err BadRef
  end.

Fixpoint free_all (w : world) (os : list nat) : res world :=
  match os with
  | [] => Ok w
  | o :: rest => bind (free_obs w o) (fun w' => free_all w' rest)
  end.

(* Subject::unsubscribeById *)
Definition unsubscribe_by_id (defer : bool) (w : world) (k : nat) (sid : Z) : res world :=
  match nth_error (subjects w) k with
  | None => Err BadRef
  | Some s =>
      let gone := map snd (filter (fun p => fst p =? sid) (observers s)) in
      let keep := filter (fun p => negb (fst p =? sid)) (observers s) in
      let act := filter (fun x => negb (x =? sid)) (active s) in
      if defer && negb (Nat.eqb (depth s) 0) then
        Ok (set_subj w k (mkSubj keep act (counter s) (depth s) (gone ++ graveyard s)))
      else
        free_all (set_subj w k (mkSubj keep act (counter s) (depth s) (graveyard s))) gone
  end.

(* Subject::isSubscriptionValid / Subscription::isValid *)
Definition handle_valid (w : world) (h : handle) : bool :=
  match h_subj h, h_id h with
  | Some k, Some sid => match nth_error (subjects w) k with
                        | Some s => memZ sid (active s)
                        | None => false
                        end
  | _, _ => false
  end.
(* the same test as performed by subjects[k].isSubscriptionValid(handle) *)
Definition handle_valid_in (w : world) (k : nat) (h : handle) : bool :=
  match h_subj h, h_id h with
  | Some k', Some sid => Nat.eqb k k' && match nth_error (subjects w) k with
                                          | Some s => memZ sid (active s)
                                          | None => false
                                          end
  | _, _ => false
  end.

(* Subject::unsubscribe(Subscription&): None = threw std::invalid_argument (state unchanged) *)
Definition subject_unsubscribe (defer : bool) (w : world) (k : nat) (h : nat) : res (world * bool) :=
  match nth_error (handles w) h with
  | None => Err BadRef
  | Some hd =>
      if handle_valid_in w k hd then
        match h_id hd with
        | Some sid => bind (unsubscribe_by_id defer w k sid) (fun w' => Ok (set_handle w' h handle0, true))
        | None => Err BadRef
        end
      else Ok (w, false)
  end.

(* flags of the observer a valid handle points to *)
Definition with_obs (w : world) (o : nat) (f : obs -> obs) : res world :=
  match nth_error (heap w) o with
  | Some ob => if o_alive ob then Ok (set_heap w (list_set (heap w) o (f ob))) else Err UseAfterFree
  | None => Err BadRef
  end.

Section Interp.
  Variable defer : bool.
  Variable scripts : list (list action).
  (* notify() with less fuel (the nesting depth of notifications is bounded by the fuel) *)
  Variable rec : world -> nat -> Z -> res world.

  Definition do_action (self : option nat) (w : world) (a : action) : res world :=
    match a with
    | ASub k scr =>
        match get_subj (subjects w) k with
        | None => Ok w      (* a script that refers to a missing Subject / handle skips the action *)
        | Some s =>
            let o := length (heap w) in
            let sid := counter s in
            let w1 := set_heap w (heap w ++ [mkObs true true false scr]) in
            let w2 := set_subj w1 k (mkSubj ((sid, o) :: observers s) (sid :: active s) (sid + 1) (depth s) (graveyard s)) in
            Ok (add_handle w2 (mkH (Some sid) (Some k) (Some o)))
        end
    | AUnsub h =>
        match nth_error (handles w) h with
        | None => Ok w
        | Some hd =>
            if handle_valid w hd then
              match h_subj hd with
              | Some k => bind (subject_unsubscribe defer w k h) (fun r => Ok (fst r))
              | None => Err BadRef
              end
            else Ok w
        end
    | AMute h | AUnmute h | AInval h =>
        match nth_error (handles w) h with
        | None => Ok w
        | Some hd =>
            if handle_valid w hd then
              match h_obs hd with
              | Some o => with_obs w o (fun ob =>
                            match a with
                            | AMute _ => mkObs (o_alive ob) (o_valid ob) true (o_script ob)
                            | AUnmute _ => mkObs (o_alive ob) (o_valid ob) false (o_script ob)
                            | _ => mkObs (o_alive ob) false (o_muted ob) (o_script ob)
                            end)
              | None => Err BadRef
              end
            else Ok w
        end
    | AInvalSelf =>
        match self with
        | Some o => with_obs w o (fun ob => mkObs (o_alive ob) false (o_muted ob) (o_script ob))
        | None => Ok w
        end
    | ANotify k arg => match get_subj (subjects w) k with Some _ => rec w k arg | None => Ok w end
    end.

  Fixpoint run_script (self : option nat) (w : world) (acts : list action) : res world :=
    match acts with
    | [] => Ok w
    | a :: rest => bind (do_action self w a) (fun w' => run_script self w' rest)
    end.

  (* Observer::operator()(args): if (!isMuted() && isValid()) m_func(args) *)
  Definition call_observer (w : world) (o : nat) (arg : Z) : res world :=
    match nth_error (heap w) o with
    | None => Err BadRef
    | Some ob =>
        if negb (o_alive ob) then Err UseAfterFree
        else if negb (o_muted ob) && o_valid ob then
          let w1 := set_stack (add_log w (ECall o arg)) (o :: stack w) in
          bind (run_script (Some o) w1 (nth (o_script ob) scripts []))
               (fun w2 => Ok (set_stack w2 (tl (stack w2))))
        else Ok w
    end.

  (* the loop over cachedDetails *)
  Fixpoint round (w : world) (k : nat) (arg : Z) (snap : list (Z * nat)) : res world :=
    match snap with
    | [] => Ok w
    | (sid, o) :: rest =>
        match nth_error (subjects w) k with
        | None => Err BadRef
        | Some s =>
            if memZ sid (active s) then
              bind (call_observer w o arg) (fun w1 =>
                (* if (!observer->isValid()) unsubscribeById(subscriptionId); *)
                match nth_error (heap w1) o with
                | None => Err BadRef
                | Some ob =>
                    if negb (o_alive ob) then Err UseAfterFree
                    else if o_valid ob then round w1 k arg rest
                    else bind (unsubscribe_by_id defer w1 k sid) (fun w2 => round w2 k arg rest)
                end)
            else round w k arg rest
        end
    end.

  Definition notify_body (w : world) (k : nat) (arg : Z) : res world :=
    match nth_error (subjects w) k with
    | None => Err BadRef
    | Some s =>
        let snap := rev (observers s) in
        let w0 := set_subj w k (mkSubj (observers s) (active s) (counter s) (S (depth s)) (graveyard s)) in
        bind (round w0 k arg snap) (fun w1 =>
          match nth_error (subjects w1) k with
          | None => Err BadRef
          | Some s1 =>
              let d := Nat.pred (depth s1) in
              if Nat.eqb d 0 then
                free_all (set_subj w1 k (mkSubj (observers s1) (active s1) (counter s1) d [])) (graveyard s1)
              else Ok (set_subj w1 k (mkSubj (observers s1) (active s1) (counter s1) d (graveyard s1)))
          end)
    end.
End Interp.

Fixpoint notify (defer : bool) (scripts : list (list action)) (fuel : nat) (w : world) (k : nat) (arg : Z)
  : res world :=
  match fuel with
  | O => Err OutOfFuel
  | S f => notify_body defer scripts (notify defer scripts f) w k arg
  end.

(* ---- the main program's operations ----------------------------------------------------- *)

Inductive op :=
| OAct (a : action)              (* any action, executed by the main program (no self) *)
| OSubjUnsub (k h : nat)         (* subjects[k].unsubscribe(handles[h]), unguarded: may throw *)
| OMove (d s : nat)              (* handles[d] = std::move(handles[s]) *)
| ODestroy (k : nat).            (* destroy Subject k: every observer it still owns is destroyed *)

(* result of an operation: the values it returns *)
Definition step (defer : bool) (scripts : list (list action)) (fuel : nat) (w : world) (o : op)
  : res (world * list Z) :=
  match o with
  | OAct a => bind (do_action defer (notify defer scripts fuel) None w a) (fun w' => Ok (w', []))
  | OSubjUnsub k h => bind (subject_unsubscribe defer w k h) (fun r => Ok (fst r, [b2z (negb (snd r))]))
  | OMove d s =>
      match nth_error (handles w) d, nth_error (handles w) s with
      | Some hd, Some hs => if Nat.eqb d s then Ok (w, []) else Ok (set_handle (set_handle w d hs) s hd, [])
      | _, _ => Err BadRef
      end
  | ODestroy k =>
      match nth_error (subjects w) k with
      | None => Err BadRef
      | Some s => bind (free_all (set_subj w k tombstone) (map snd (observers s) ++ graveyard s))
                       (fun w' => Ok (w', []))
      end
  end.

Definition world0 (nsubj : nat) : world := mkW [] (repeat subject0 nsubj) [] [] [].

(* ---- runner for the correspondence check ------------------------------------------------ *)

Definition zn (z : Z) : nat := Z.to_nat z.

Definition action_of (l : list Z) : option action :=
  match l with
  | [0; k; scr] => Some (ASub (zn k) (zn scr))
  | [1; h] => Some (AUnsub (zn h))
  | [2; h] => Some (AMute (zn h))
  | [3; h] => Some (AUnmute (zn h))
  | [4; h] => Some (AInval (zn h))
  | [5] => Some AInvalSelf
  | [6; k; arg] => Some (ANotify (zn k) arg)
  | _ => None
  end.

Definition op_of (l : list Z) : option op :=
  match l with
  | [7; k; h] => Some (OSubjUnsub (zn k) (zn h))
  | [8; d; s] => Some (OMove (zn d) (zn s))
  | [10; k] => Some (ODestroy (zn k))
  | _ => option_map OAct (action_of l)
  end.

(* a script line is a flat list of length-prefixed actions: n a1 .. an  m b1 .. bm ... *)
Fixpoint script_of (fuel : nat) (l : list Z) : list action :=
  match fuel with
  | O => []
  | S f => match l with
           | [] => []
           | _ => let '(c, rest) := take_chunk l in
                  match action_of c with
                  | Some a => a :: script_of f rest
                  | None => script_of f rest
                  end
           end
  end.

Definition event_z (e : event) : list Z :=
  match e with ECall o arg => [1; Z.of_nat o; arg] | EFree o => [2; Z.of_nat o] end.

Definition err_z (e : error) : Z := match e with UseAfterFree => -777001 | OutOfFuel => -777002 | BadRef => PRE end.

(* observation after an operation: returned values, the events of the operation (oldest
   first), isValid() of every handle followed by isMuted() of the valid ones, and
   hasSubscriptions() of every Subject *)
Definition observe (w : world) (ret : list Z) (before : nat) : list Z :=
  ret ++ [SEP] ++ flat_map event_z (rev (firstn (length (log w) - before) (log w))) ++ [SEP] ++
  flat_map (fun h => if handle_valid w h then
                       [1; match h_obs h with
                           | Some o => match nth_error (heap w) o with Some ob => b2z (o_muted ob) | None => -1 end
                           | None => -1 end]
                     else [0]) (handles w) ++ [SEP] ++
  map (fun s => b2z (negb (match observers s with [] => true | _ => false end))) (subjects w).

Definition NESTING : nat := 6.

(* the main program only issues operations whose Subject / handle indices exist *)
Definition refs_ok (w : world) (o : op) : bool :=
  let okH h := Nat.ltb h (length (handles w)) in
  let okS k := match get_subj (subjects w) k with Some _ => true | None => false end in
  match o with
  | OAct (ASub k _) | OAct (ANotify k _) | ODestroy k => okS k
  | OAct (AUnsub h) | OAct (AMute h) | OAct (AUnmute h) | OAct (AInval h) => okH h
  | OAct AInvalSelf => true
  | OSubjUnsub k h => okS k && okH h
  | OMove d s => okH d && okH s
  end.

Fixpoint subj_run_lines (defer : bool) (scripts : list (list action)) (w : world) (ls : list (list Z))
  : list (list Z) :=
  match ls with
  | [] => []
  | l :: rest =>
      match op_of l with
      | None => [PRE] :: subj_run_lines defer scripts w rest
      | Some o =>
          if negb (refs_ok w o) then [PRE] :: subj_run_lines defer scripts w rest else
          match step defer scripts NESTING w o with
          | Ok (w', ret) => observe w' ret (length (log w)) :: subj_run_lines defer scripts w' rest
          | Err e => [[err_z e]]       (* the implementation's behaviour is undefined from here on *)
          end
      end
  end.

(* case: header [variant; nsubjects; nscripts; signature], then nscripts script lines, then
   operation lines. variant 1 = the tree's code, 0 = pinned upstream. The signature only
   matters to the implementation side (which Subject<Args...> is instantiated), except that
   signature 0 (no arguments) always delivers the value 0. *)
Definition zero_args (sig : Z) (l : list Z) : list Z :=
  match l with
  | [6; k; arg] => if sig =? 0 then [6; k; 0] else l
  | _ => l
  end.

Definition subj_run (case : list (list Z)) : list (list Z) :=
  match case with
  | [v; ns; nscr; sig] :: rest =>
      let scr_lines := firstn (zn nscr) rest in
      let scripts := map (fun l => script_of (length l) l) scr_lines in
      let scripts := if sig =? 0 then
                       map (map (fun a => match a with ANotify k _ => ANotify k 0 | _ => a end)) scripts
                     else scripts in
      [] :: subj_run_lines (negb (v =? 0)) scripts (world0 (zn ns)) (map (zero_args sig) (skipn (zn nscr) rest))
  | _ => [[PRE]]
  end.
