(* RingLemmasG.v — environments of buffer variables: helper lemmas for the runner. *)
From Coq Require Import List ZArith Bool Lia ZifyBool Permutation.
From Tulz Require Import Common RingModel RingInv RingLemmasA RingLemmasB RingLemmasC RingLemmasD
  RingLemmasE RingLemmasF.
Import ListNotations.
Local Open Scope Z_scope.

Ltac perm_solve :=
  repeat match goal with H : Permutation _ _ |- _ => rewrite (Permutation_count_occ Z.eq_dec) in H end;
  rewrite (Permutation_count_occ Z.eq_dec);
  let x0 := fresh "x0" in intros x0;
  repeat match goal with H : forall x, count_occ _ _ x = count_occ _ _ x |- _ => specialize (H x0) end;
  repeat match goal with
  | |- context [?a :: ?l] => lazymatch l with [] => fail | _ => change (a :: l) with ([a] ++ l) end
  | H : context [?a :: ?l] |- _ => lazymatch l with [] => fail | _ => change (a :: l) with ([a] ++ l) in H end
  end;
  rewrite ?count_occ_app in *; cbn [count_occ]; lia.

Definition oitems (o : option (ring Z)) : list Z := match o with Some r => items r | None => [] end.
Definition owf (o : option (ring Z)) : Prop := match o with Some r => wf0 r | None => True end.

Lemma map_list_set {A B} (f : A -> B) (l : list A) n x :
  map f (list_set l n x) = list_set (map f l) n (f x).
Proof. revert n; induction l as [|h t IH]; intros [|n]; simpl; auto. f_equal. apply IH. Qed.

Lemma Forall_list_set {A} (P : A -> Prop) (l : list A) n x :
  Forall P l -> P x -> Forall P (list_set l n x).
Proof.
  intros H Hx. revert n; induction H as [|h t Hh Ht IH]; intros [|n]; simpl; auto.
Qed.

Lemma wf_env_owf e : wf_env e <-> (length e = 3%nat /\ Forall owf e).
Proof. reflexivity. Qed.

Lemma Zlen_abs_env e : Zlen (abs_env e) = Zlen e.
Proof. unfold Zlen, abs_env. rewrite map_length. reflexivity. Qed.

Lemma env_get_abs e b : denv_get (abs_env e) b = option_map abs (env_get e b).
Proof.
  unfold denv_get, env_get, abs_env. destruct (0 <=? b); auto.
  change (@None (deque Z)) with (option_map (@abs Z) None). apply map_nth.
Qed.

Lemma env_get_u_abs e b : denv_get_u (abs_env e) b = option_map abs (env_get_u e b).
Proof.
  unfold denv_get_u, env_get_u. rewrite env_get_abs.
  destruct (env_get e b) as [r|]; cbn [option_map]; auto.
  unfold abs at 1; cbn [dcap]. destruct (1 <=? cap r); auto.
Qed.

Lemma abs_env_set e b o : abs_env (env_set e b o) = denv_set (abs_env e) b (option_map abs o).
Proof.
  unfold env_set, denv_set. rewrite Zlen_abs_env.
  destruct ((0 <=? b) && (b <? Zlen e)); auto. apply map_list_set.
Qed.

Lemma Zlen_env_set e b o : Zlen (env_set e b o) = Zlen e.
Proof.
  unfold env_set. destruct ((0 <=? b) && (b <? Zlen e)); auto.
  unfold Zlen. rewrite length_list_set. auto.
Qed.

Lemma env_get_range e b r : env_get e b = Some r -> 0 <= b < Zlen e.
Proof.
  unfold env_get. destruct (0 <=? b) eqn:E; [|discriminate]. intros H.
  destruct (le_lt_dec (length e) (Z.to_nat b)) as [Hle|Hlt].
  - rewrite nth_overflow in H by auto. discriminate.
  - unfold Zlen. lia.
Qed.

Lemma env_get_owf e b : wf_env e -> owf (env_get e b).
Proof.
  intros [_ HF]. unfold env_get. destruct (0 <=? b); [|exact I].
  destruct (le_lt_dec (length e) (Z.to_nat b)) as [Hle|Hlt].
  - rewrite nth_overflow by auto. exact I.
  - apply (proj1 (Forall_nth _ _) HF). auto.
Qed.

Lemma env_get_wf0 e b r : wf_env e -> env_get e b = Some r -> wf0 r.
Proof. intros W H. pose proof (env_get_owf e b W) as Ho. rewrite H in Ho. exact Ho. Qed.

Lemma env_get_u_some e b r : wf_env e -> env_get_u e b = Some r ->
  env_get e b = Some r /\ wf r /\ 0 <= b < Zlen e.
Proof.
  intros W. unfold env_get_u. destruct (env_get e b) as [r0|] eqn:G; [|discriminate].
  destruct (1 <=? cap r0) eqn:Hc; [|discriminate]. intros E. inversion E; subst r0.
  split; auto. split.
  - apply wf0_wf; [eapply env_get_wf0; eauto|lia].
  - eapply env_get_range; eauto.
Qed.

Lemma wf_env_set e b o : wf_env e -> owf o -> wf_env (env_set e b o).
Proof.
  intros [HL HF] Ho. unfold env_set. destruct ((0 <=? b) && (b <? Zlen e)); [|split; auto].
  split.
  - rewrite length_list_set. auto.
  - apply Forall_list_set; auto.
Qed.

Lemma env_get_set_same e b o : 0 <= b < Zlen e -> env_get (env_set e b o) b = o.
Proof.
  intros H. unfold env_get, env_set.
  replace ((0 <=? b) && (b <? Zlen e)) with true by lia.
  replace (0 <=? b) with true by lia. apply nth_list_set_eq. unfold Zlen in H. lia.
Qed.

Lemma env_get_set_other e b c o : b <> c -> env_get (env_set e b o) c = env_get e c.
Proof.
  intros H. unfold env_get, env_set.
  destruct ((0 <=? b) && (b <? Zlen e)) eqn:E; auto.
  destruct (0 <=? c) eqn:E2; auto. apply nth_list_set_neq. lia.
Qed.

Lemma live_items_list_set (l : env) : forall n o, (n < length l)%nat ->
  Permutation (oitems (nth n l None) ++ live_items (list_set l n o)) (oitems o ++ live_items l).
Proof.
  induction l as [|a l IH]; intros n o H; [simpl in H; lia|].
  destruct n as [|n].
  - cbn [nth list_set]. unfold live_items. cbn [flat_map]. fold (oitems a). fold (oitems o).
    apply Permutation_app_swap_app.
  - cbn [nth list_set]. unfold live_items. cbn [flat_map]. fold (oitems a).
    fold (live_items (list_set l n o)). fold (live_items l).
    pose proof (IH n o ltac:(simpl in H; lia)) as P. perm_solve.
Qed.

Lemma live_items_set e b o : 0 <= b < Zlen e ->
  Permutation (oitems (env_get e b) ++ live_items (env_set e b o)) (oitems o ++ live_items e).
Proof.
  intros H. unfold env_get, env_set.
  replace ((0 <=? b) && (b <? Zlen e)) with true by lia.
  replace (0 <=? b) with true by lia. apply live_items_list_set. unfold Zlen in H. lia.
Qed.

Lemma dump_ring_abs o : owf o -> dump_ring o = dump_deque (option_map abs o).
Proof.
  destruct o as [r|]; [|reflexivity]. intros W. cbn [owf] in W.
  destruct (wf0_contents r W) as [HC HZ].
  unfold dump_ring, dump_deque, option_map, abs; cbn [ditems dcap].
  rewrite HC, HZ, map_map. cbn [slot_z]. rewrite map_id. reflexivity.
Qed.

Lemma dump_env_abs e : wf_env e -> dump_env e = dump_denv (abs_env e).
Proof.
  intros [_ HF]. unfold dump_env, dump_denv, abs_env.
  induction HF as [|o l Ho Hl IH]; [reflexivity|].
  cbn [flat_map map]. rewrite IH, dump_ring_abs by auto. reflexivity.
Qed.

(* ---- the per-step relation ---------------------------------------------------------------- *)

Definition step_rel (e e' : env) (o : outcome) (o' : doutcome) : Prop :=
  match o, o' with
  | Some (ret, evs), Some (ret', rem) =>
      ret = ret' /\ forallb ev_ok evs = true /\ removed evs = rem /\
      Permutation (constructed evs ++ live_items e) (removed evs ++ moved_out evs ++ live_items e')
  | None, None => e' = e
  | _, _ => False
  end.

Definition step_ok' (e : env) (x : env * outcome) (y : denv * doutcome) : Prop :=
  wf_env (fst x) /\ fst y = abs_env (fst x) /\ step_rel e (fst x) (snd x) (snd y).

Definition step_ok (ow : bool) (e : env) (op : list Z) : Prop :=
  step_ok' e (ring_step fixed_variant ow e op) (deque_step ow (abs_env e) op).

Lemma step_none e : wf_env e -> step_ok' e (e, None) (abs_env e, None).
Proof. intros W. split; [exact W|]. split; reflexivity. Qed.

Lemma step_same e ret ret' : wf_env e -> ret = ret' ->
  step_ok' e (e, Some (ret, [])) (abs_env e, Some (ret', [])).
Proof.
  intros W ->. split; auto. split; auto. cbn. repeat split; auto.
Qed.

Lemma step_set_gen e b o' ret evs ret' rem con mo :
  wf_env e -> 0 <= b < Zlen e -> owf o' -> ret = ret' -> evfacts evs rem con mo ->
  Permutation (con ++ oitems (env_get e b)) (rem ++ mo ++ oitems o') ->
  step_ok' e (env_set e b o', Some (ret, evs))
             (denv_set (abs_env e) b (option_map abs o'), Some (ret', rem)).
Proof.
  intros W Hb Wo -> (E1 & E2 & E3 & E4) P.
  split; [apply wf_env_set; auto|]. split; [cbn [fst]; rewrite abs_env_set; reflexivity|].
  cbn [fst snd step_rel]. split; auto. split; auto. split; auto.
  rewrite E2, E3, E4. pose proof (live_items_set e b o' Hb) as P2. perm_solve.
Qed.

Lemma step_set1 e b o r' dq ret evs ret' rem con mo :
  wf_env e -> 0 <= b < Zlen e -> env_get e b = o -> wf0 r' -> dq = abs r' -> ret = ret' ->
  evfacts evs rem con mo ->
  Permutation (con ++ oitems o) (rem ++ mo ++ items r') ->
  step_ok' e (env_set e b (Some r'), Some (ret, evs))
             (denv_set (abs_env e) b (Some dq), Some (ret', rem)).
Proof.
  intros W Hb <- Wr -> Hret EF P.
  apply (step_set_gen e b (Some r') ret evs ret' rem con mo); auto.
Qed.

Lemma step_unset e b o ret evs ret' rem con mo :
  wf_env e -> 0 <= b < Zlen e -> env_get e b = o -> ret = ret' ->
  evfacts evs rem con mo ->
  Permutation (con ++ oitems o) (rem ++ mo) ->
  step_ok' e (env_set e b None, Some (ret, evs))
             (denv_set (abs_env e) b None, Some (ret', rem)).
Proof.
  intros W Hb <- Hret EF P.
  apply (step_set_gen e b None ret evs ret' rem con mo); auto. exact I.
  cbn [oitems]. rewrite app_nil_r. exact P.
Qed.
