(* ArrayAliasProofs.v — resize(n, a[i]) with the fill value referring to an own element (D11). *)
From Coq Require Import List ZArith Bool Lia.
From Tulz Require Import Common RingModel ArrayModel.
Import ListNotations.
Local Open Scope Z_scope.

(* the tree's code: exactly the ordinary resize with the value the element holds, wrapped in one
   construction and one destruction of the copy; nothing is read through the stale reference *)
Lemma alias_guarded_spec : forall cls a n i a' evs,
  resize_fill_alias true cls a n i = Some (a', evs) ->
  exists v u, read a i = Some (Live v, u) /\ 0 <= n /\
    a' = fst (resize_fill cls a n v) /\
    evs = (if cls then [ECtor v] else []) ++ snd (resize_fill cls a n v) ++ (if cls then [EDtor (Live v)] else []).
Proof.
  intros cls a n i a' evs H. unfold resize_fill_alias in H.
  destruct (read a i) as [[s u]|] eqn:R; [|discriminate H].
  destruct s as [|v|]; try discriminate H.
  destruct (n <? 0) eqn:N; [discriminate H|].
  destruct (resize_fill cls a n v) as [a1 e1] eqn:RF.
  inversion H; subst. exists v, u.
  split; [reflexivity|]. split; [apply Z.ltb_ge in N; exact N|]. rewrite RF. split; reflexivity.
Qed.

(* the pinned upstream code reads the freed element whenever the array grows *)
Lemma upstream_alias_refuted :
  exists a n i a' evs, resize_fill_alias false true a n i = Some (a', evs) /\ In EUb evs.
Proof.
  exists (mkArr 2 [Live 104; Live 0]), 5, 0.
  eexists. eexists. split; [vm_compute; reflexivity|]. vm_compute. tauto.
Qed.
