(* ArrayAliasProofs.v — resize(n, a[i]) with the fill value referring to an own element (D11). *)
From Coq Require Import List ZArith Bool Lia.
From Tulz Require Import Common RingModel ArrayModel ArrayInv ArrayProofs.
Import ListNotations.
Local Open Scope Z_scope.

(* the tree's code: exactly the ordinary resize with the value the element holds, wrapped in one
   construction and one destruction of the copy; nothing is read through the stale reference *)
Lemma alias_guarded_spec : forall cls a n i a' evs,
  resize_fill_alias true cls a n i = Some (a', evs) ->
  exists v u, read a i = Some (Live v, u) /\ 0 <= n /\
    a' = fst (resize_fill cls a n v) /\
    evs = (if cls then [ECtor v] else []) ++ snd (resize_fill cls a n v) ++ (if cls then [EDtor (Live v)] else []).
Proof.
  intros cls a n i a' evs H. unfold resize_fill_alias in H.
  destruct (read a i) as [[s u]|] eqn:R; [|discriminate H].
  destruct s as [|v|]; try discriminate H.
  destruct (n <? 0) eqn:N; [discriminate H|].
  destruct (resize_fill cls a n v) as [a1 e1] eqn:RF.
  inversion H; subst. exists v, u.
  split; [reflexivity|]. split; [apply Z.ltb_ge in N; exact N|]. rewrite RF. split; reflexivity.
Qed.

(* the pinned upstream code reads the freed element whenever the array grows *)
Lemma upstream_alias_refuted :
  exists a n i a' evs, resize_fill_alias false true a n i = Some (a', evs) /\ In EUb evs.
Proof.
  exists (mkArr 2 [Live 104; Live 0]), 5, 0.
  eexists. eexists. split; [vm_compute; reflexivity|]. vm_compute. tauto.
Qed.

(* adoption: the adopted block is the state the initializer-list constructor builds *)
Lemma construct_at_all : forall (vals : list Z) (pre : list (slot Z)) (k : nat),
  fst (construct_at (pre ++ repeat Raw (length vals + k)) (Zlen pre) vals) = pre ++ map Live vals ++ repeat Raw k.
Proof.
  induction vals as [|v vs IH]; intros pre k.
  - cbn. reflexivity.
  - cbn [construct_at length map Nat.add repeat].
    destruct (construct_at (wr (pre ++ Raw :: repeat Raw (length vs + k)) (Zlen pre) (Live v)) (Zlen pre + 1) vs) as [d' ev] eqn:E.
    cbn [fst].
    assert (W : wr (pre ++ Raw :: repeat Raw (length vs + k)) (Zlen pre) (Live v) = (pre ++ [Live v]) ++ repeat Raw (length vs + k)).
    { unfold wr, inb, Zlen. rewrite app_length. cbn [length].
      assert (H1 : (0 <=? Z.of_nat (length pre)) = true) by (apply Z.leb_le; lia).
      assert (H2 : (Z.of_nat (length pre) <? Z.of_nat (length pre + S (length (repeat (@Raw Z) (length vs + k))))) = true) by (apply Z.ltb_lt; lia).
      rewrite H1, H2. cbn [andb]. rewrite Nat2Z.id.
      rewrite <- app_assoc. cbn [app].
      clear. induction pre as [|p ps IHp]; cbn; [reflexivity | f_equal; exact IHp]. }
    rewrite W in E.
    assert (L : Zlen pre + 1 = Zlen (pre ++ [Live v])) by (unfold Zlen; rewrite app_length; cbn [length]; lia).
    rewrite L in E.
    specialize (IH (pre ++ [Live v]) k). rewrite E in IH. cbn [fst] in IH. rewrite IH.
    rewrite <- app_assoc. reflexivity.
Qed.

Lemma adopt_is_list_state : forall vals, adopt vals = fst (ctor_list vals).
Proof.
  intro vals. unfold adopt, ctor_list.
  assert (H : fst (construct_at (repeat Raw (Z.to_nat (Zlen vals))) 0 vals) = map Live vals).
  { pose proof (construct_at_all vals [] 0) as H0.
    replace (length vals + 0)%nat with (length vals) in H0 by lia.
    change (Zlen (@nil (slot Z))) with 0 in H0. cbn [app repeat] in H0.
    rewrite app_nil_r in H0. unfold Zlen. rewrite Nat2Z.id. exact H0. }
  destruct (construct_at (repeat Raw (Z.to_nat (Zlen vals))) 0 vals) as [d ev].
  cbn [fst] in *. rewrite H. reflexivity.
Qed.

(* ---- histories with aliasing resizes and adoptions are histories of ordinary operations ---------- *)

(* the ordinary line a special line stands for, given the environment it is executed in *)
Definition adesugar (cls : bool) (e : aenv) (op : list Z) : list Z :=
  match op with
  | [15; b; n; i] =>
      match aenv_get e b with
      | Some a => match read a i with
                  | Some (Live v, _) => [10; b; n; v]
                  | _ => []          (* not an operation: rejected on both sides *)
                  end
      | None => []
      end
  | 16 :: b :: vals => 2 :: b :: vals
  | _ => op
  end.

Fixpoint adesugar_all (cls : bool) (e : aenv) (ops : list (list Z)) : list (list Z) :=
  match ops with
  | [] => []
  | op :: rest => let op' := adesugar cls e op in op' :: adesugar_all cls (fst (arr_step afixed cls e op')) rest
  end.

(* every line is an aliasing resize, an adoption, or a line both runners treat alike *)
Lemma aop_cases : forall op : list Z,
  (exists b n i, op = [15; b; n; i]) \/
  (exists b vals, op = 16 :: b :: vals) \/
  ((forall g vr cls e, arr_step_d g vr cls e op = arr_step vr cls e op) /\
   (forall cls e, adesugar cls e op = op)).
Proof.
  intro op.
  destruct op as [|x l]; [right; right; split; intros; reflexivity|].
  destruct x as [|p|p]; try (right; right; split; intros; reflexivity).
  destruct p as [p1|p1|]; [ | |right; right; split; intros; reflexivity].
  - (* 15 = xI (xI (xI xH)) *)
    destruct p1 as [p2|p2|]; [ |right; right; split; intros; reflexivity|right; right; split; intros; reflexivity].
    destruct p2 as [p3|p3|]; [ |right; right; split; intros; reflexivity|right; right; split; intros; reflexivity].
    destruct p3 as [p4|p4|]; [right; right; split; intros; reflexivity|right; right; split; intros; reflexivity| ].
    destruct l as [|b [|n [|i [|z l']]]]; try (right; right; split; intros; reflexivity).
    left. exists b, n, i. reflexivity.
  - (* 16 = xO (xO (xO (xO xH))) *)
    destruct p1 as [p2|p2|]; [right; right; split; intros; reflexivity| |right; right; split; intros; reflexivity].
    destruct p2 as [p3|p3|]; [right; right; split; intros; reflexivity| |right; right; split; intros; reflexivity].
    destruct p3 as [p4|p4|]; [right; right; split; intros; reflexivity| |right; right; split; intros; reflexivity].
    destruct p4 as [p5|p5|]; [right; right; split; intros; reflexivity|right; right; split; intros; reflexivity| ].
    destruct l as [|b vals]; [right; right; split; intros; reflexivity|].
    right; left. exists b, vals. reflexivity.
Qed.

Lemma arr_step_nil : forall vr cls e, arr_step vr cls e [] = (e, None).
Proof. reflexivity. Qed.

Lemma arr_step_list : forall vr cls e b vals,
  arr_step vr cls e (2 :: b :: vals) =
  match aenv_get e b with
  | None => if slot_ok b e then
              let '(a, evs) := ctor_list vals in
              (aenv_set e b (Some a), Some ([], if cls then evs else []))
            else (e, None)
  | Some _ => (e, None)
  end.
Proof. reflexivity. Qed.

Lemma arr_step_resize_fill : forall vr cls e b n v,
  arr_step vr cls e [10; b; n; v] =
  match aenv_get e b with
  | Some a => if 0 <=? n then
                let '(a', evs) := resize_fill cls a n v in (aenv_set e b (Some a'), Some ([], evs))
              else (e, None)
  | None => (e, None)
  end.
Proof. reflexivity. Qed.

Lemma arr_step_d_alias : forall g vr cls e b n i,
  arr_step_d g vr cls e [15; b; n; i] =
  match aenv_get e b with
  | Some a => match resize_fill_alias g cls a n i with
              | Some (a', evs) => (aenv_set e b (Some a'), Some ([], evs))
              | None => (e, None)
              end
  | None => (e, None)
  end.
Proof. reflexivity. Qed.

Lemma arr_step_d_adopt : forall g vr cls e b vals,
  arr_step_d g vr cls e (16 :: b :: vals) =
  match aenv_get e b with
  | None => if slot_ok b e then (aenv_set e b (Some (adopt vals)), Some ([], [])) else (e, None)
  | Some _ => (e, None)
  end.
Proof. reflexivity. Qed.

Lemma adesugar_alias : forall cls e b n i,
  adesugar cls e [15; b; n; i] =
  match aenv_get e b with
  | Some a => match read a i with
              | Some (Live v, _) => [10; b; n; v]
              | _ => []
              end
  | None => []
  end.
Proof. reflexivity. Qed.

Lemma adesugar_adopt : forall cls e b vals, adesugar cls e (16 :: b :: vals) = 2 :: b :: vals.
Proof. reflexivity. Qed.

(* one line: same environment afterwards, same acceptance, same returned values *)
Lemma arr_step_d_desugar : forall g vr cls e op,
  fst (arr_step_d g vr cls e op) = fst (arr_step vr cls e (adesugar cls e op)) /\
  option_map fst (snd (arr_step_d g vr cls e op)) =
  option_map fst (snd (arr_step vr cls e (adesugar cls e op))).
Proof.
  intros g vr cls e op.
  destruct (aop_cases op) as [(b & n & i & Eop) | [(b & vals & Eop) | [Hd Ha]]].
  - subst op. rewrite arr_step_d_alias, adesugar_alias.
    destruct (aenv_get e b) as [a|] eqn:G; [|rewrite arr_step_nil; split; reflexivity].
    unfold resize_fill_alias.
    destruct (read a i) as [[s u]|] eqn:R; [|rewrite arr_step_nil; split; reflexivity].
    destruct s as [|v|]; try (rewrite arr_step_nil; split; reflexivity).
    rewrite arr_step_resize_fill, G.
    destruct (n <? 0) eqn:N.
    + assert (N' : (0 <=? n) = false) by (apply Z.ltb_lt in N; apply Z.leb_gt; exact N).
      rewrite N'. split; reflexivity.
    + assert (N' : (0 <=? n) = true) by (apply Z.ltb_ge in N; apply Z.leb_le; exact N).
      rewrite N'.
      destruct (resize_fill cls a n v) as [a' evs] eqn:RF.
      destruct g; split; reflexivity.
  - subst op. rewrite arr_step_d_adopt, adesugar_adopt, arr_step_list.
    destruct (aenv_get e b) as [a|] eqn:G; [split; reflexivity|].
    destruct (slot_ok b e) eqn:S; [|split; reflexivity].
    rewrite (adopt_is_list_state vals).
    destruct (ctor_list vals) as [a evs] eqn:CL.
    split; reflexivity.
  - rewrite Hd, Ha. split; reflexivity.
Qed.

(* with respect to returned values and contents (events aside), a history containing aliasing resizes
   and adoptions IS the history of ordinary operations obtained by replacing them *)
Lemma arr_trace_d_view : forall cls ops e,
  map view_arr (arr_trace_d true afixed cls e ops) = map view_arr (arr_trace afixed cls e (adesugar_all cls e ops)).
Proof.
  intros cls ops. induction ops as [|op rest IH]; intro e; [reflexivity|].
  cbn [arr_trace_d adesugar_all arr_trace].
  pose proof (arr_step_d_desugar true afixed cls e op) as [He Ho].
  destruct (arr_step_d true afixed cls e op) as [e1 o1] eqn:S1.
  destruct (arr_step afixed cls e (adesugar cls e op)) as [e2 o2] eqn:S2.
  cbn [fst snd] in He, Ho. subst e2.
  cbn [map fst]. rewrite (IH e1). f_equal.
  unfold view_arr. cbn [fst snd]. rewrite Ho. reflexivity.
Qed.

Lemma alias_refines_values : forall cls ops,
  map view_arr (arr_trace_d true afixed cls aenv0 ops) = map view_sarr (spec_trace cls senv0 (adesugar_all cls aenv0 ops)).
Proof.
  intros cls ops. rewrite arr_trace_d_view. apply arr_refines_values.
Qed.
