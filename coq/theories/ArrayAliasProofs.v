(* ArrayAliasProofs.v — resize(n, a[i]) with the fill value referring to an own element (D11). *)
From Coq Require Import List ZArith Bool Lia.
From Tulz Require Import Common RingModel ArrayModel.
Import ListNotations.
Local Open Scope Z_scope.

(* the tree's code: exactly the ordinary resize with the value the element holds, wrapped in one
   construction and one destruction of the copy; nothing is read through the stale reference *)
Lemma alias_guarded_spec : forall cls a n i a' evs,
  resize_fill_alias true cls a n i = Some (a', evs) ->
  exists v u, read a i = Some (Live v, u) /\ 0 <= n /\
    a' = fst (resize_fill cls a n v) /\
    evs = (if cls then [ECtor v] else []) ++ snd (resize_fill cls a n v) ++ (if cls then [EDtor (Live v)] else []).
Proof.
  intros cls a n i a' evs H. unfold resize_fill_alias in H.
  destruct (read a i) as [[s u]|] eqn:R; [|discriminate H].
  destruct s as [|v|]; try discriminate H.
  destruct (n <? 0) eqn:N; [discriminate H|].
  destruct (resize_fill cls a n v) as [a1 e1] eqn:RF.
  inversion H; subst. exists v, u.
  split; [reflexivity|]. split; [apply Z.ltb_ge in N; exact N|]. rewrite RF. split; reflexivity.
Qed.

(* the pinned upstream code reads the freed element whenever the array grows *)
Lemma upstream_alias_refuted :
  exists a n i a' evs, resize_fill_alias false true a n i = Some (a', evs) /\ In EUb evs.
Proof.
  exists (mkArr 2 [Live 104; Live 0]), 5, 0.
  eexists. eexists. split; [vm_compute; reflexivity|]. vm_compute. tauto.
Qed.

(* adoption: the adopted block is the state the initializer-list constructor builds *)
Lemma construct_at_all : forall (vals : list Z) (pre : list (slot Z)) (k : nat),
  fst (construct_at (pre ++ repeat Raw (length vals + k)) (Zlen pre) vals) = pre ++ map Live vals ++ repeat Raw k.
Proof.
  induction vals as [|v vs IH]; intros pre k.
  - cbn. reflexivity.
  - cbn [construct_at length map Nat.add repeat].
    destruct (construct_at (wr (pre ++ Raw :: repeat Raw (length vs + k)) (Zlen pre) (Live v)) (Zlen pre + 1) vs) as [d' ev] eqn:E.
    cbn [fst].
    assert (W : wr (pre ++ Raw :: repeat Raw (length vs + k)) (Zlen pre) (Live v) = (pre ++ [Live v]) ++ repeat Raw (length vs + k)).
    { unfold wr, inb, Zlen. rewrite app_length. cbn [length].
      assert (H1 : (0 <=? Z.of_nat (length pre)) = true) by (apply Z.leb_le; lia).
      assert (H2 : (Z.of_nat (length pre) <? Z.of_nat (length pre + S (length (repeat (@Raw Z) (length vs + k))))) = true) by (apply Z.ltb_lt; lia).
      rewrite H1, H2. cbn [andb]. rewrite Nat2Z.id.
      rewrite <- app_assoc. cbn [app].
      clear. induction pre as [|p ps IHp]; cbn; [reflexivity | f_equal; exact IHp]. }
    rewrite W in E.
    assert (L : Zlen pre + 1 = Zlen (pre ++ [Live v])) by (unfold Zlen; rewrite app_length; cbn [length]; lia).
    rewrite L in E.
    specialize (IH (pre ++ [Live v]) k). rewrite E in IH. cbn [fst] in IH. rewrite IH.
    rewrite <- app_assoc. reflexivity.
Qed.

Lemma adopt_is_list_state : forall vals, adopt vals = fst (ctor_list vals).
Proof.
  intro vals. unfold adopt, ctor_list.
  assert (H : fst (construct_at (repeat Raw (Z.to_nat (Zlen vals))) 0 vals) = map Live vals).
  { pose proof (construct_at_all vals [] 0) as H0.
    replace (length vals + 0)%nat with (length vals) in H0 by lia.
    change (Zlen (@nil (slot Z))) with 0 in H0. cbn [app repeat] in H0.
    rewrite app_nil_r in H0. unfold Zlen. rewrite Nat2Z.id. exact H0. }
  destruct (construct_at (repeat Raw (Z.to_nat (Zlen vals))) 0 vals) as [d ev].
  cbn [fst] in *. rewrite H. reflexivity.
Qed.
