(* ObservableModel.v — executable model of include/tulz/observer/Observable.h (definitions only).

   Observable<T, Eq> holds a value and a Subject<T&>. The Subject is represented by what C05
   establishes about it (Properties_C05: the pointer-level Subject refines the record
   specification and, with observers that do not re-enter, notify delivers to exactly the
   valid unmuted subscriptions in subscription order and lazily removes the invalid ones):
   a list of subscriber records in subscription order. The value type T, the equality Eq
   (an arbitrary boolean function — not assumed to be an equivalence) and the functions
   applied to the value are parameters. *)
From Coq Require Import List ZArith Bool Lia Arith.
From Tulz Require Import Common.
Import ListNotations.
Local Open Scope Z_scope.

Record osub := mkSub { s_id : nat; s_valid : bool; s_muted : bool }.

Section Obs.
  Variable T : Type.
  Variable eq : T -> T -> bool.

  Record ostate := mkO {
    oval : T;                       (* m_val *)
    osubs : list osub;              (* subscriptions of m_subject, in subscription order *)
    onext : nat;                    (* identity of the next subscriber *)
    olog : list (nat * T)           (* notifications received (subscriber, value), newest first *)
  }.

  (* m_subject.notify(m_val) *)
  Definition deliver (s : ostate) : ostate :=
    mkO (oval s) (filter s_valid (osubs s)) (onext s)
        (rev (map (fun r => (s_id r, oval s)) (filter (fun r => s_valid r && negb (s_muted r)) (osubs s))) ++ olog s).

  Inductive oop :=
  | OAssign (v : T)               (* observable = v *)
  | OApply (f : T -> T)           (* observable.apply(f); also +=, -=, *=, /= (f = fun x => x op v) *)
  | OStepPost (f : T -> T)        (* observable++ / observable-- (f = succ / pred): returns the old value *)
  | OStepPre (f : T -> T)         (* ++observable / --observable: returns the new value *)
  | OSubscribe
  | OUnsub (id : nat)
  | OMute (id : nat)
  | OUnmute (id : nat)
  | OInval (id : nat).

  Definition upd (s : ostate) (id : nat) (f : osub -> osub) : ostate :=
    mkO (oval s) (map (fun r => if Nat.eqb (s_id r) id then f r else r) (osubs s)) (onext s) (olog s).

  (* result: new state and the value returned by the operator (if any) *)
  Definition ostep (s : ostate) (o : oop) : ostate * option T :=
    match o with
    | OAssign v =>
        if eq (oval s) v then (s, None)
        else (deliver (mkO v (osubs s) (onext s) (olog s)), None)
    | OApply f =>
        let s1 := mkO (f (oval s)) (osubs s) (onext s) (olog s) in
        if eq (oval s) (f (oval s)) then (s1, None) else (deliver s1, None)
    | OStepPost f =>
        (deliver (mkO (f (oval s)) (osubs s) (onext s) (olog s)), Some (oval s))
    | OStepPre f =>
        (deliver (mkO (f (oval s)) (osubs s) (onext s) (olog s)), Some (f (oval s)))
    | OSubscribe =>
        (mkO (oval s) (osubs s ++ [mkSub (onext s) true false]) (S (onext s)) (olog s), None)
    | OUnsub id =>
        (mkO (oval s) (filter (fun r => negb (Nat.eqb (s_id r) id)) (osubs s)) (onext s) (olog s), None)
    | OMute id => (upd s id (fun r => mkSub (s_id r) (s_valid r) true), None)
    | OUnmute id => (upd s id (fun r => mkSub (s_id r) (s_valid r) false), None)
    | OInval id => (upd s id (fun r => mkSub (s_id r) false (s_muted r)), None)
    end.

  Definition orun (s : ostate) (ops : list oop) : ostate := fold_left (fun s o => fst (ostep s o)) ops s.

  Definition oinit (v : T) : ostate := mkO v [] 0 [].

  (* the value a recording subscriber holds: the last value it received, or [init] *)
  Definition recorded (init : T) (new : list (nat * T)) (id : nat) : T :=
    hd init (map snd (filter (fun c => Nat.eqb (fst c) id) new)).

  Definition touches (id : nat) (o : oop) : bool :=
    match o with
    | OUnsub i | OMute i | OUnmute i | OInval i => Nat.eqb i id
    | _ => false
    end.
End Obs.

Arguments mkO {T}.
Arguments oval {T}.
Arguments osubs {T}.
Arguments onext {T}.
Arguments olog {T}.
Arguments deliver {T}.
Arguments ostep {T}.
Arguments orun {T}.
Arguments oinit {T}.
Arguments OAssign {T}.
Arguments OApply {T}.
Arguments OStepPost {T}.
Arguments OStepPre {T}.
Arguments OSubscribe {T}.
Arguments OUnsub {T}.
Arguments OMute {T}.
Arguments OUnmute {T}.
Arguments OInval {T}.

(* the subscribers a notification reaches: subscribed, valid, not muted, in subscription order *)
Definition live {T} (s : ostate T) : list nat :=
  map s_id (filter (fun r => s_valid r && negb (s_muted r)) (osubs s)).

(* "every live subscriber is notified exactly once, in order, with value v, and nobody else" *)
Definition notified_once {T} (s s' : ostate T) (v : T) : Prop :=
  exists new, olog s' = new ++ olog s /\ map fst (rev new) = live s /\
              Forall (fun c => snd c = v) new /\ NoDup (map fst new).

(* ---- runner for the correspondence check ------------------------------------------------
   One value representation for the three instantiations the harness builds:
     kind 0  Observable<int>                      value [n]            Eq = std::equal_to
     kind 1  Observable<double, NearEq>           value [n] = n / 2^20 Eq = |a - b| < 1/64
     kind 2  Observable<std::string>              value = the bytes    Eq = std::equal_to
     kind 3  Observable<int, BucketEq>            value [n]            Eq = same bucket of eight (floor n/8): an
                                                                       equality coarser than the unit step of ++ / --
   Arithmetic that would not be exact in the implementation's type (non-dyadic quotient,
   division by zero, magnitude beyond 2^40) is a precondition violation (PRE) on both sides. *)

Definition V := list Z.
Definition SCALE : Z := 1048576.   (* 2^20 *)
Definition TOL : Z := 16384.       (* 2^14 = 2^20 / 64 *)

Fixpoint list_eqb (a b : list Z) : bool :=
  match a, b with
  | [], [] => true
  | x :: a', y :: b' => (x =? y) && list_eqb a' b'
  | _, _ => false
  end.

Definition v_eq (kind : Z) (a b : V) : bool :=
  if kind =? 1 then
    match a, b with [x], [y] => Z.abs (x - y) <? TOL | _, _ => list_eqb a b end
  else if kind =? 3 then
    match a, b with [x], [y] => Z.div x 8 =? Z.div y 8 | _, _ => list_eqb a b end
  else list_eqb a b.

Definition in_range (n : Z) : bool := Z.abs n <? 1099511627776.   (* 2^40 *)

(* the binary operators of the compound assignments; None = precondition violated *)
Definition v_bin (kind : Z) (code : Z) (a b : V) : option V :=
  match (if kind =? 3 then 0 else kind), a, b with
  | 0, [x], [y] =>
      let r := if code =? 11 then Some (x + y) else if code =? 12 then Some (x - y)
               else if code =? 13 then Some (x * y)
               else if code =? 14 then (if y =? 0 then None else Some (Z.quot x y)) else None in
      match r with Some n => if in_range n then Some [n] else None | None => None end
  | 1, [x], [y] =>
      let r := if code =? 11 then Some (x + y) else if code =? 12 then Some (x - y)
               else if code =? 13 then (if Z.rem (x * y) SCALE =? 0 then Some (Z.quot (x * y) SCALE) else None)
               else if code =? 14 then (if y =? 0 then None
                                        else if Z.rem (x * SCALE) y =? 0 then Some (Z.quot (x * SCALE) y) else None)
               else None in
      match r with Some n => if in_range n then Some [n] else None | None => None end
  | 2, _, _ => if code =? 11 then Some (a ++ b) else None
  | _, _, _ => None
  end.

Definition v_one (kind : Z) : V := if kind =? 1 then [SCALE] else [1].

Definition v_ok (kind : Z) (v : V) : bool :=
  if kind =? 2 then forallb (fun c => (1 <=? c) && (c <=? 255)) v
  else match v with [n] => in_range n | _ => false end.

Definition enc_v (v : V) : list Z := Zlen v :: v.

Definition render_o (kind : Z) (s : ostate V) (ret : option V) (before : nat) : list Z :=
  match ret with Some r => enc_v r | None => [] end ++ [SEP] ++ enc_v (oval s) ++ [SEP] ++
  flat_map (fun c => Z.of_nat (fst c) :: enc_v (snd c)) (rev (firstn (length (olog s) - before) (olog s))).

(* decode an operation line; None = malformed / precondition violated in the current state *)
Definition oop_of (kind : Z) (s : ostate V) (l : list Z) : option (oop V) :=
  let id_ok i := (0 <=? i) && (i <? Z.of_nat (onext s)) in
  match l with
  | [0] => Some OSubscribe
  | [1; i] => if id_ok i then Some (OUnsub (Z.to_nat i)) else None
  | [2; i] => if id_ok i then Some (OMute (Z.to_nat i)) else None
  | [3; i] => if id_ok i then Some (OUnmute (Z.to_nat i)) else None
  | [4; i] => if id_ok i then Some (OInval (Z.to_nat i)) else None
  | 10 :: v => if v_ok kind v then Some (OAssign v) else None
  | [15] => if kind =? 2 then None else
            match v_bin kind 11 (oval s) (v_one kind) with Some r => Some (OStepPost (fun _ => r)) | None => None end
  | [16] => if kind =? 2 then None else
            match v_bin kind 11 (oval s) (v_one kind) with Some r => Some (OStepPre (fun _ => r)) | None => None end
  | [17] => if kind =? 2 then None else
            match v_bin kind 12 (oval s) (v_one kind) with Some r => Some (OStepPost (fun _ => r)) | None => None end
  | [18] => if kind =? 2 then None else
            match v_bin kind 12 (oval s) (v_one kind) with Some r => Some (OStepPre (fun _ => r)) | None => None end
  | 19 :: 0 :: v => if v_ok kind v then Some (OApply (fun _ => v)) else None       (* apply: set to v *)
  | [19; 2] => Some (OApply (fun x => x))                                           (* apply: leave unchanged *)
  | code :: v =>
      if (11 <=? code) && (code <=? 14) && v_ok kind v then
        match v_bin kind code (oval s) v with Some r => Some (OApply (fun _ => r)) | None => None end
      else None
  | _ => None
  end.

Fixpoint obs_run_lines (kind : Z) (s : ostate V) (ls : list (list Z)) : list (list Z) :=
  match ls with
  | [] => []
  | l :: rest =>
      match oop_of kind s l with
      | None => [PRE] :: obs_run_lines kind s rest
      | Some o => let '(s', ret) := ostep (v_eq kind) s o in
                  render_o kind s' ret (length (olog s)) :: obs_run_lines kind s' rest
      end
  end.

(* case: header [kind], then the initial value as a line, then operation lines *)
Definition obs_run (case : list (list Z)) : list (list Z) :=
  match case with
  | [kind] :: v0 :: ls => if v_ok kind v0 then [] :: [] :: obs_run_lines kind (oinit v0) ls else [[PRE]]
  | _ => [[PRE]]
  end.
