(* Properties_C11.v — ConcurrentSubjectRouter operations are atomic with respect to each other.
   Only statements, each closed by [exact <lemma of ConcRouterProofs>], and Print Assumptions.
   The theorems hold for every lock table that satisfies the boolean condition lock_table_ok; the
   table of the current source (regenerated into TulzGen.LockTable on every run) satisfies it. They
   quantify over every number of threads, every program within the property's scope and every
   schedule (thread numbers; a thread that cannot advance is skipped). *)
From Coq Require Import List ZArith Bool Lia.
From Tulz Require Import Common ResourceModel RouterModel ConcRouterModel ConcRouterSpec ConcRouterProofs.
From TulzGen Require Import LockTable.
Import ListNotations.

(* no subscribe, unsubscribe or shrink takes effect while a delivery is in progress: whenever a
   step of thread t performs the effect of a mutating operation, no other thread is inside a notify *)
Theorem C11_no_effect_during_delivery : forall tbl ps ts t s' o,
  lock_table_ok tbl = true -> progs_in_scope ps = true ->
  cstep tbl (crun tbl (cr_init ps) ts) t = Some s' ->
  In (CEffect t o) (firstn (length (clog s') - length (clog (crun tbl (cr_init ps) ts))) (clog s')) ->
  forall t', t' <> t -> ~ inside_notify (crun tbl (cr_init ps) ts) t'.
Proof. exact no_effect_during_delivery. Qed.
Print Assumptions C11_no_effect_during_delivery.

(* while a thread is inside a notify, no step of any other thread changes the router *)
Theorem C11_router_stable_during_delivery : forall tbl ps ts t t' s',
  lock_table_ok tbl = true -> progs_in_scope ps = true ->
  inside_notify (crun tbl (cr_init ps) ts) t' -> t <> t' ->
  cstep tbl (crun tbl (cr_init ps) ts) t = Some s' ->
  rt s' = rt (crun tbl (cr_init ps) ts).
Proof. exact router_stable_during_delivery. Qed.
Print Assumptions C11_router_stable_during_delivery.

(* a notify reaches exactly the observers subscribed at one instant: at every moment of the
   delivery, the callbacks run so far are a prefix of the delivery computed from the router as it
   is now — which is the router as it was when the lock was granted, by the theorem above *)
Theorem C11_notify_atomic : forall tbl ps ts t o k,
  lock_table_ok tbl = true -> progs_in_scope ps = true ->
  nth_error (ph (crun tbl (cr_init ps) ts)) t = Some (PInCb o k) ->
  calls_since_grant t (clog (crun tbl (cr_init ps) ts))
  = firstn (S k) (delivery (rt (crun tbl (cr_init ps) ts)) o).
Proof. exact notify_atomic. Qed.
Print Assumptions C11_notify_atomic.

(* ... and when it returns it has run the whole delivery, and has not changed the router *)
Theorem C11_notify_complete : forall tbl ps ts t o k s',
  lock_table_ok tbl = true -> progs_in_scope ps = true ->
  nth_error (ph (crun tbl (cr_init ps) ts)) t = Some (PInCb o k) ->
  cstep tbl (crun tbl (cr_init ps) ts) t = Some s' -> nth_error (ph s') t = Some PIdle ->
  calls_since_grant t (clog (crun tbl (cr_init ps) ts)) = delivery (rt (crun tbl (cr_init ps) ts)) o /\
  rt s' = rt (crun tbl (cr_init ps) ts).
Proof. exact notify_complete. Qed.
Print Assumptions C11_notify_complete.

(* once an unsubscribe has taken effect (it returns in the same step), that observer is never invoked again *)
Theorem C11_no_call_after_unsubscribe : forall tbl ps ts post pre t h obs t' v,
  lock_table_ok tbl = true -> progs_in_scope ps = true ->
  clog (crun tbl (cr_init ps) ts) = post ++ CEffect t (RUnsub h) :: pre ->
  handle_obs (rt (crun tbl (cr_init ps) ts)) h = Some obs ->
  ~ In (CCall t' obs v) post.
Proof. exact no_call_after_unsubscribe. Qed.
Print Assumptions C11_no_call_after_unsubscribe.

(* the lock table of the current source satisfies the condition (the tie to the source) *)
Theorem C11_lock_table_ok_now : lock_table_ok lock_table = true.
Proof. vm_compute. reflexivity. Qed.
Print Assumptions C11_lock_table_ok_now.

(* a table that lets unsubscribe bypass the lock is refuted: an unsubscribe takes effect while
   another thread is inside a notify *)
Theorem C11_unlocked_unsubscribe_refuted : exists ps ts t t' s' o,
  let tbl := mkLT MRead MRead MRead MWrite MWrite MNone in
  cstep tbl (crun tbl (cr_init ps) ts) t = Some s' /\
  In (CEffect t o) (firstn (length (clog s') - length (clog (crun tbl (cr_init ps) ts))) (clog s')) /\
  t' <> t /\ inside_notify (crun tbl (cr_init ps) ts) t'.
Proof. exact unlocked_unsubscribe_refuted. Qed.
Print Assumptions C11_unlocked_unsubscribe_refuted.

Example C11_nonvacuous :
  let s := crun lock_table (cr_init [[RSubscribe [8%Z]; RSubscribe [8%Z]; RNotify [LStr 8%Z] 5%Z]; [RUnsub 0%nat]; [RNotify [LRx [8%Z]] 6%Z]])
                [0; 0; 0; 2; 1; 0; 2; 2; 0; 1]%nat in
  (map (fun t => cphase_z (lk s) t (nth t (ph s) PIdle)) (seq 0 3), flat_map cevent_z (rev (clog s)))
  = ([0; 0; 0]%Z,
     [2; 0; 0; 2; 0; 0; 1; 0; 0; 5; 1; 2; 0; 6; 1; 0; 1; 5; 1; 2; 1; 6; 2; 2; 1; 1; 2; 0; 1; 1; 2; 1; 0]%Z).
Proof. vm_compute. reflexivity. Qed.
