(* RouterLemmasA1.v — basic facts about the router tree model and its flat view:
   induction principle for the nested inductive [node], list characterisations of [wf_node] /
   [sig_ok], structure of [flat], key order, shrink, sortedness of the flat view. *)
From Coq Require Import List ZArith Bool Lia Arith Sorted.
From Tulz Require Import Common RouterModel RouterSpec.
Import ListNotations.
Local Open Scope Z_scope.

(* ---- induction principle ------------------------------------------------------------------ *)

Lemma node_ind2 : forall P : node -> Prop,
  (forall nm sj ch, Forall P ch -> P (Node nm sj ch)) -> forall n, P n.
Proof.
  intros P H. fix IH 1. intros [nm sj ch]. apply H.
  induction ch as [|c cs IHcs]; constructor; [apply IH | exact IHcs].
Qed.

(* ---- generic list facts --------------------------------------------------------------------- *)

Lemma SS_app {A} (R : A -> A -> Prop) l1 l2 :
  StronglySorted R l1 -> StronglySorted R l2 ->
  (forall a b, In a l1 -> In b l2 -> R a b) -> StronglySorted R (l1 ++ l2).
Proof.
  induction l1 as [|x l1 IH]; cbn; intros H1 H2 H; auto.
  inversion H1; subst. constructor.
  - apply IH; auto.
  - apply Forall_app; split; auto. apply Forall_forall; intros; apply H; auto.
Qed.

Lemma SS_filter {A} (R : A -> A -> Prop) (p : A -> bool) l :
  StronglySorted R l -> StronglySorted R (filter p l).
Proof.
  induction 1; cbn; [constructor|]. destruct (p a); auto. constructor; auto.
  rewrite Forall_forall in *. intros x Hx. apply filter_In in Hx. apply H0, Hx.
Qed.

Lemma SS_lt_filter_map {A} (g : A -> Z) (p : A -> bool) l :
  StronglySorted Z.lt (map g l) -> StronglySorted Z.lt (map g (filter p l)).
Proof.
  induction l as [|a l IH]; cbn; intros H; auto. inversion H; subst.
  destruct (p a); cbn; auto. constructor; auto.
  rewrite Forall_forall in *. intros x Hx. apply in_map_iff in Hx as (y & <- & Hy).
  apply filter_In in Hy. apply H3. apply in_map, Hy.
Qed.

(* ---- key order ------------------------------------------------------------------------------ *)

Lemma key_eqb_refl k : key_eqb k k = true.
Proof. induction k; cbn; auto. rewrite Z.eqb_refl; auto. Qed.

Lemma key_eqb_eq a b : key_eqb a b = true <-> a = b.
Proof.
  revert b; induction a as [|x a IH]; intros [|y b]; cbn; split; intros H; try congruence; auto.
  - apply andb_true_iff in H as [H1 H2]. apply Z.eqb_eq in H1. apply IH in H2. congruence.
  - inversion H; subst. rewrite Z.eqb_refl. apply key_eqb_refl.
Qed.

Lemma key_ltb_irrefl k : key_ltb k k = false.
Proof. induction k; cbn; auto. rewrite Z.ltb_irrefl, Z.eqb_refl; auto. Qed.

Lemma sig_eqb_refl s : sig_eqb s s = true.
Proof. destruct s; cbn; apply Z.eqb_refl. Qed.

(* ---- wf_node / sig_ok as list predicates ------------------------------------------------------- *)

Fixpoint wf_list (cs : list node) : Prop :=
  match cs with
  | [] => True
  | c :: cs' => match cs' with [] => True | d :: _ => nname c < nname d end /\ wf_node c /\ wf_list cs'
  end.

Lemma wf_node_eq nm sj ch : wf_node (Node nm sj ch) = wf_list ch.
Proof. reflexivity. Qed.

Lemma wf_list_iff cs : wf_list cs <-> Forall wf_node cs /\ StronglySorted Z.lt (map nname cs).
Proof.
  induction cs as [|c cs IH].
  - cbn; split; intros; auto. split; constructor.
  - cbn [wf_list map]. split.
    + intros (H1 & H2 & H3). apply IH in H3 as [H3 H4]. split; [constructor; auto|].
      constructor; auto. destruct cs as [|d cs]; [constructor|].
      cbn [map] in *. inversion H4; subst. constructor; auto.
      eapply Forall_impl; [|exact H6]. intros; cbn in *; lia.
    + intros [H1 H2]. apply Forall_cons_iff in H1 as [H1a H1b].
      apply StronglySorted_inv in H2 as [H2a H2b]. split; [|split; auto].
      * destruct cs as [|d cs]; auto. cbn in H2b. apply Forall_inv in H2b. exact H2b.
      * apply IH; auto.
Qed.

Lemma wf_node_iff nm sj ch :
  wf_node (Node nm sj ch) <-> Forall wf_node ch /\ StronglySorted Z.lt (map nname ch).
Proof. rewrite wf_node_eq. apply wf_list_iff. Qed.

Definition sig_list (s : sig) : list node -> Prop :=
  fix all (cs : list node) : Prop := match cs with [] => True | c :: cs' => sig_ok s c /\ all cs' end.

Definition sj_ok (s : sig) (sj : option rsubject) : Prop :=
  match sj with Some sb => s_sig sb = s | None => True end.

Lemma sig_ok_eq s nm sj ch : sig_ok s (Node nm sj ch) = (sj_ok s sj /\ sig_list s ch).
Proof. reflexivity. Qed.

Lemma sig_list_iff s cs : sig_list s cs <-> Forall (sig_ok s) cs.
Proof.
  induction cs as [|c cs IH]; cbn; split; intros H; auto.
  - destruct H; constructor; auto. apply IH; auto.
  - inversion H; subst. split; auto. apply IH; auto.
Qed.

Lemma sig_ok_iff s nm sj ch : sig_ok s (Node nm sj ch) <-> sj_ok s sj /\ Forall (sig_ok s) ch.
Proof. rewrite sig_ok_eq, sig_list_iff. tauto. Qed.

(* ---- structure of flat ------------------------------------------------------------------------ *)

Definition own (sj : option rsubject) : fstate :=
  match live_subs sj with [] => [] | subs => [([], subs)] end.
Definition rekey (k : Z) (B : fstate) : fstate := map (fun e => (k :: fst e, snd e)) B.
Definition blocks (cs : list node) : fstate := flat_map (fun c => rekey (nname c) (flat c)) cs.

Lemma flat_eq nm sj ch : flat (Node nm sj ch) = own sj ++ blocks ch.
Proof. reflexivity. Qed.

Lemma blocks_cons c cs : blocks (c :: cs) = rekey (nname c) (flat c) ++ blocks cs.
Proof. reflexivity. Qed.

Lemma blocks_nil : blocks [] = [].
Proof. reflexivity. Qed.

Lemma blocks_app a b : blocks (a ++ b) = blocks a ++ blocks b.
Proof. apply flat_map_app. Qed.

Lemma rekey_app k a b : rekey k (a ++ b) = rekey k a ++ rekey k b.
Proof. apply map_app. Qed.

Definition nonempty (e : list Z * list orec) : bool := match snd e with [] => false | _ => true end.

Lemma own_nonempty sj : Forall (fun e => snd e <> []) (own sj).
Proof. unfold own. destruct (live_subs sj); constructor; [cbn; congruence | constructor]. Qed.

Lemma own_key sj e : In e (own sj) -> fst e = [].
Proof. unfold own. destruct (live_subs sj); cbn; intros H; [tauto|]. destruct H as [<-|[]]; auto. Qed.

Lemma in_rekey k B e : In e (rekey k B) -> exists e', In e' B /\ e = (k :: fst e', snd e').
Proof. unfold rekey. intros H. apply in_map_iff in H as (e' & <- & H). eauto. Qed.

Lemma in_blocks cs e : In e (blocks cs) ->
  exists c e', In c cs /\ In e' (flat c) /\ e = (nname c :: fst e', snd e').
Proof.
  unfold blocks. intros H. apply in_flat_map in H as (c & Hc & H).
  apply in_rekey in H as (e' & H & ->). eauto.
Qed.

Lemma flat_nonempty n : Forall (fun e => snd e <> []) (flat n).
Proof.
  induction n as [nm sj ch IH] using node_ind2. rewrite flat_eq. apply Forall_app; split.
  - apply own_nonempty.
  - apply Forall_forall. intros e He. apply in_blocks in He as (c & e' & Hc & He' & ->). cbn.
    rewrite Forall_forall in IH. specialize (IH c Hc). rewrite Forall_forall in IH. apply IH; auto.
Qed.

Lemma rekey_nonempty k B : Forall (fun e => snd e <> []) B -> Forall (fun e => snd e <> []) (rekey k B).
Proof. unfold rekey. rewrite Forall_map. cbn. auto. Qed.

Lemma blocks_nonempty cs : Forall (fun e => snd e <> []) (blocks cs).
Proof.
  apply Forall_forall. intros e He. apply in_blocks in He as (c & e' & Hc & He' & ->). cbn.
  pose proof (flat_nonempty c) as H. rewrite Forall_forall in H. apply H; auto.
Qed.

Lemma filter_nonempty_id st : Forall (fun e => snd e <> []) st -> filter nonempty st = st.
Proof.
  induction 1 as [|e st H _ IH]; cbn; auto. unfold nonempty at 1. destruct (snd e); [congruence|].
  f_equal; auto.
Qed.

(* ---- names ------------------------------------------------------------------------------------- *)

Lemma find_name_none k cs : Forall (fun c => nname c <> k) cs -> find (fun c => nname c =? k) cs = None.
Proof.
  induction 1 as [|c cs H _ IH]; cbn; auto. apply Z.eqb_neq in H. rewrite H. auto.
Qed.

Lemma find_name_some k cs c : find (fun c => nname c =? k) cs = Some c -> In c cs /\ nname c = k.
Proof. intros H. apply find_some in H as [H1 H2]. apply Z.eqb_eq in H2. auto. Qed.

Lemma find_name_unique cs c :
  StronglySorted Z.lt (map nname cs) -> In c cs -> find (fun d => nname d =? nname c) cs = Some c.
Proof.
  induction cs as [|d cs IH]; cbn; intros Hs Hin; [tauto|]. inversion Hs; subst.
  destruct Hin as [->|Hin]; [rewrite Z.eqb_refl; auto|].
  assert (nname d < nname c).
  { rewrite Forall_forall in H2. apply H2. apply in_map; auto. }
  assert (E : (nname d =? nname c) = false) by (apply Z.eqb_neq; lia). rewrite E. auto.
Qed.

(* ---- shrink -------------------------------------------------------------------------------------- *)

Lemma is_empty_flat c : is_empty c = true -> flat c = [].
Proof.
  destruct c as [nm sj ch]. cbn [is_empty]. intros H. apply andb_true_iff in H as [H1 H2].
  destruct ch; [|discriminate]. rewrite flat_eq. cbn. rewrite app_nil_r. unfold own.
  destruct sj as [sb|]; cbn; auto. destruct (s_subs sb); auto; discriminate.
Qed.

Lemma blocks_filter_empty cs : blocks (filter (fun c => negb (is_empty c)) cs) = blocks cs.
Proof.
  induction cs as [|c cs IH]; cbn [filter]; auto.
  destruct (is_empty c) eqn:E; cbn [negb]; rewrite ?blocks_cons, IH; auto.
  rewrite (is_empty_flat c E). reflexivity.
Qed.

Lemma blocks_map_ext g cs :
  Forall (fun c => nname (g c) = nname c /\ flat (g c) = flat c) cs -> blocks (map g cs) = blocks cs.
Proof.
  induction 1 as [|c cs [H1 H2] _ IH]; cbn [map]; auto. rewrite !blocks_cons, H1, H2, IH. reflexivity.
Qed.

Lemma shrink_name n lv : nname (shrink_node n lv) = nname n.
Proof. destruct n as [nm sj ch], lv as [|l rest]; cbn; auto. destruct (negb (matches l nm)); auto. Qed.

Lemma shrink_unfold nm sj ch l rest :
  shrink_node (Node nm sj ch) (l :: rest) =
  if negb (matches l nm) then Node nm sj ch
  else Node nm sj (filter (fun c => negb (is_empty c))
         match rest with
         | [] => ch
         | nl :: _ =>
             if is_regex nl then map (fun c => shrink_node c rest) ch
             else map (fun c => if nname c =? (match nl with LStr x => x | LRx _ => 0 end)
                                then shrink_node c rest else c) ch
         end).
Proof. reflexivity. Qed.

Lemma shrink_flat : forall n lv, flat (shrink_node n lv) = flat n.
Proof.
  induction n as [nm sj ch IH] using node_ind2. intros [|l rest]; [reflexivity|].
  rewrite shrink_unfold. destruct (negb (matches l nm)); [reflexivity|].
  rewrite !flat_eq. f_equal. rewrite blocks_filter_empty.
  destruct rest as [|nl rest']; auto.
  destruct (is_regex nl).
  - apply blocks_map_ext. eapply Forall_impl; [|exact IH]. cbn. intros c Hc. split; [apply shrink_name|apply Hc].
  - apply blocks_map_ext. eapply Forall_impl; [|exact IH]. cbn. intros c Hc.
    destruct (nname c =? _); auto. split; [apply shrink_name|apply Hc].
Qed.

Lemma shrink_children_ok (P : node -> Prop) (g : node -> node) ch :
  Forall (fun c => P c -> P (g c) /\ nname (g c) = nname c) ch ->
  Forall P ch -> StronglySorted Z.lt (map nname ch) ->
  Forall P (filter (fun c => negb (is_empty c)) (map g ch)) /\
  StronglySorted Z.lt (map nname (filter (fun c => negb (is_empty c)) (map g ch))).
Proof.
  intros HF HP HS. split.
  - apply Forall_forall. intros x Hx. apply filter_In in Hx as [Hx _].
    apply in_map_iff in Hx as (c & <- & Hc). rewrite Forall_forall in HF, HP. apply HF; auto.
  - apply SS_lt_filter_map. rewrite map_map.
    replace (map (fun x => nname (g x)) ch) with (map nname ch); auto.
    clear HS. induction HF as [|c cs H _ IH]; cbn; auto. inversion HP; subst.
    f_equal; auto. symmetry; apply H; auto.
Qed.

Lemma shrink_wf : forall n lv, wf_node n -> wf_node (shrink_node n lv).
Proof.
  induction n as [nm sj ch IH] using node_ind2. intros [|l rest] Hwf; [exact Hwf|].
  rewrite shrink_unfold. destruct (negb (matches l nm)); [exact Hwf|].
  apply wf_node_iff in Hwf as [HW HS]. apply wf_node_iff.
  destruct rest as [|nl rest'].
  - split; [|apply SS_lt_filter_map; auto].
    apply Forall_forall. intros x Hx. apply filter_In in Hx as [Hx _]. rewrite Forall_forall in HW; auto.
  - destruct (is_regex nl).
    + apply shrink_children_ok; auto. eapply Forall_impl; [|exact IH]. cbn. intros c Hc Hw.
      split; [apply Hc; auto|apply shrink_name].
    + apply shrink_children_ok; auto. eapply Forall_impl; [|exact IH]. cbn. intros c Hc Hw.
      destruct (nname c =? _); auto. split; [apply Hc; auto|apply shrink_name].
Qed.

Lemma shrink_sig_ok s : forall n lv, sig_ok s n -> sig_ok s (shrink_node n lv).
Proof.
  induction n as [nm sj ch IH] using node_ind2. intros [|l rest] Hok; [exact Hok|].
  rewrite shrink_unfold. destruct (negb (matches l nm)); [exact Hok|].
  apply sig_ok_iff in Hok as [Hsj HW]. apply sig_ok_iff. split; auto.
  apply Forall_forall. intros x Hx. apply filter_In in Hx as [Hx _].
  rewrite Forall_forall in HW, IH.
  destruct rest as [|nl rest']; auto.
  destruct (is_regex nl); apply in_map_iff in Hx as (c & <- & Hc).
  - apply IH; auto.
  - destruct (nname c =? _); auto.
Qed.

(* ---- sortedness of the flat view ------------------------------------------------------------------ *)

Definition klt (a b : list Z * list orec) : Prop := key_ltb (fst a) (fst b) = true.

Lemma rekey_sorted k B : StronglySorted klt B -> StronglySorted klt (rekey k B).
Proof.
  induction 1 as [|e B _ IH HF]; cbn; constructor; auto.
  apply Forall_map. eapply Forall_impl; [|exact HF]. unfold klt; cbn. intros a Ha.
  rewrite Z.ltb_irrefl, Z.eqb_refl. exact Ha.
Qed.

Lemma blocks_sorted cs :
  Forall (fun c => StronglySorted klt (flat c)) cs -> StronglySorted Z.lt (map nname cs) ->
  StronglySorted klt (blocks cs).
Proof.
  induction 1 as [|c cs H _ IH]; cbn [map]; intros HS; [constructor|]. inversion HS; subst.
  rewrite blocks_cons. apply SS_app; auto using rekey_sorted.
  intros a b Ha Hb. apply in_rekey in Ha as (a' & _ & ->).
  apply in_blocks in Hb as (d & b' & Hd & _ & ->). unfold klt; cbn.
  rewrite Forall_forall in H3. assert (nname c < nname d) by (apply H3, in_map, Hd).
  assert (E : (nname c <? nname d) = true) by (apply Z.ltb_lt; lia). rewrite E. reflexivity.
Qed.

Lemma flat_sorted_wf : forall n, wf_node n -> StronglySorted klt (flat n).
Proof.
  induction n as [nm sj ch IH] using node_ind2. intros Hwf.
  apply wf_node_iff in Hwf as [HW HS]. rewrite flat_eq. apply SS_app.
  - unfold own. destruct (live_subs sj); repeat constructor.
  - apply blocks_sorted; auto. rewrite Forall_forall in *. auto.
  - intros a b Ha Hb. apply own_key in Ha. apply in_blocks in Hb as (d & b' & _ & _ & ->).
    unfold klt. rewrite Ha. reflexivity.
Qed.
