(* RingLemmasE.v — resize, destroy, copy, init_list, equality of the RingBuffer model. *)
From Coq Require Import List ZArith Bool Lia ZifyBool Permutation.
From Tulz Require Import Common RingModel RingInv RingLemmasA RingLemmasB RingLemmasC RingLemmasD.
Import ListNotations.
Local Open Scope Z_scope.

Section E.
Context {V : Type}.
Implicit Types (d : list (slot V)) (r : ring V).

Lemma resize_spec r n : wf r ->
  match resize fixed_variant r n with
  | Some (r', evs) => 0 < n /\ wf r' /\ cap r' = n /\ items r' = firstn (Z.to_nat n) (items r) /\
                      evfacts evs (skipn (Z.to_nat n) (items r)) [] []
  | None => n <= 0
  end.
Proof.
  destruct r as [p s c d]. intros W.
  destruct (wf_elim _ _ _ _ W) as (Hc & Hp & Hs & Hl & Hph).
  destruct (wf_contents _ W) as [HC HZ]. cbn [size] in HZ.
  set (its := items (mkRing p s c d)) in *.
  unfold resize; cbn [pos size cap data dtor_logical fixed_variant].
  destruct (n <=? 0) eqn:Hn; [lia|].
  destruct (n =? c) eqn:Hnc.
  { assert (n = c) by lia; subst n. split; [lia|]. split; auto. split; auto.
    assert (length its <= Z.to_nat c)%nat by (unfold Zlen in HZ; lia).
    rewrite firstn_all2, skipn_all2 by lia. split; auto. repeat split. }
  destruct ((p <=? modCap (p + s - 1) c) && (modCap (p + s - 1) c <? n)) eqn:HA.
  - (* in place *)
    assert (HB : p + s <= c /\ p + s <= n /\ p < n) by (mcz; lia).
    clear HA.
    set (d' := firstn (Z.to_nat n) d ++ repeat Raw (Z.to_nat (n - c))).
    assert (Hl' : Zlen d' = n).
    { unfold d', Zlen in *. rewrite app_length, firstn_length, repeat_length. lia. }
    assert (Hrd : forall j, 0 <= j < n -> rd d' j = if j <? c then rd d j else Raw).
    { intros j Hj. unfold d'. destruct (j <? c) eqn:Hjc.
      - rewrite rd_app1 by (unfold Zlen in *; rewrite firstn_length; lia).
        rewrite !rd_in by (unfold Zlen in *; try rewrite firstn_length; lia).
        apply nth_firstn_lt. lia.
      - rewrite rd_app2 by (unfold Zlen in *; rewrite firstn_length; lia). apply rd_repeat_Raw. }
    split; [lia|]. split; [|split; [reflexivity|split]].
    + apply wf_intro; try lia. intros j Hj. rewrite Hrd by lia.
      destruct (j <? c) eqn:Hjc.
      * rewrite (Hph j) by lia. lia.
      * cbn [is_live]. lia.
    + assert (length its <= Z.to_nat n)%nat by (unfold Zlen in HZ; lia).
      rewrite firstn_all2 by lia. unfold its, items. f_equal.
      apply contents_ext; cbn [pos size cap data].
      * rewrite Zlen_contents; cbn [size]; lia.
      * intros k Hk. rewrite contents_nth by (cbn [size]; lia).
        unfold dataIndex; cbn [pos size cap data]. mc. rewrite Hrd by lia.
        replace (p + k <? c) with true by lia. reflexivity.
    + assert (length its <= Z.to_nat n)%nat by (unfold Zlen in HZ; lia).
      rewrite (skipn_all_ge its) by lia. apply evfacts_free.
      apply existsb_live_false. intros k Hk. rewrite nth_skipn.
      unfold Zlen in Hk. rewrite skipn_length in Hk.
      replace (Z.to_nat n + Z.to_nat k)%nat with (Z.to_nat (n + k)) by lia.
      rewrite <- rd_in by (unfold Zlen in *; lia).
      pose proof (Hph (n + k)). unfold Zlen in *. lia.
  - clear HA. destruct (n <? c) eqn:Hlt.
    + (* shrink *)
      set (cc := Z.min s n).
      assert (Hcc : 0 <= cc <= s /\ cc <= n) by lia.
      destruct (silentCopy (mkRing p s c d) cc) as [[copied d1] ev1] eqn:HSC.
      apply silentCopy_spec in HSC; try lia. destruct HSC as (-> & Hl1 & -> & Hr1 & Hk1).
      unfold dataIndex; cbn [pos size cap data].
      destruct (dtor_loop d1 (fun i => modCap (p + i) c) cc (Z.to_nat (s - cc))) as [d2 ev2] eqn:HDL.
      apply dtor_loop_spec in HDL; try lia. destruct HDL as (Hl2 & Ha & Hb & ->).
      rewrite Z2Nat.id in Ha, Hb by lia.
      assert (Hcop : contents (mkRing p cc c d) = map Live (firstn (Z.to_nat cc) its)).
      { rewrite <- firstn_map, <- HC. rewrite contents_firstn by lia. rewrite Z2Nat.id by lia. reflexivity. }
      destruct (fresh_wf (firstn (Z.to_nat cc) its) n cc (contents (mkRing p cc c d))) as [W' I']; try lia.
      { unfold Zlen in *; rewrite firstn_length; lia. }
      { exact Hcop. }
      assert (Hfs : firstn (Z.to_nat cc) its = firstn (Z.to_nat n) its /\
                    skipn (Z.to_nat cc) its = skipn (Z.to_nat n) its).
      { unfold cc. destruct (Z_le_gt_dec s n).
        - rewrite Z.min_l by lia. unfold Zlen in HZ.
          rewrite !firstn_all2, !skipn_all2 by lia. auto.
        - rewrite Z.min_r by lia. auto. }
      destruct Hfs as [Hf Hsk].
      split; [lia|]. split; [exact W'|]. split; [reflexivity|]. split; [rewrite I'; exact Hf|].
      cbn [app].
      assert (Hev : contents (mkRing (modCap (p + cc) c) (Z.of_nat (Z.to_nat (s - cc))) c d1)
                    = map Live (skipn (Z.to_nat cc) its)).
      { rewrite <- skipn_map, <- HC. rewrite contents_skipn by lia. rewrite !Z2Nat.id by lia.
        apply contents_data_ext. intros k Hk. rewrite modCap_idem_l by lia. apply Hk1.
        - apply modCap_range; lia.
        - mcz; lia. }
      rewrite Hev, Hsk.
      assert (Hno : existsb is_live d2 = false).
      { apply no_live_list. intros j Hj. rewrite Hl2 in Hj.
        assert (Hi : exists i, 0 <= i < c /\ modCap (p + i) c = j).
        { destruct (Z_lt_le_dec j p); [exists (j - p + c)|exists (j - p)]; split; try lia; mc; lia. }
        destruct Hi as (i & Hi & Hij).
        destruct (Z_lt_le_dec i cc); [|destruct (Z_lt_le_dec i s)].
        - rewrite Hb by (intros i' Hi'; mcz; lia). rewrite Hr1; auto. mcz; lia.
        - rewrite <- Hij. rewrite Ha by lia. reflexivity.
        - rewrite Hb by (intros i' Hi'; mcz; lia). rewrite Hk1; auto.
          + pose proof (Hph j Hj). mcz; lia.
          + mcz; lia. }
      pose proof (evfacts_app _ _ _ _ _ _ _ _ (evfacts_dtors (skipn (Z.to_nat n) its)) (evfacts_free d2 Hno)) as HE.
      rewrite app_nil_r in HE. exact HE.
    + (* grow *)
      destruct (silentCopy (mkRing p s c d) s) as [[copied d1] ev1] eqn:HSC.
      apply silentCopy_spec in HSC; try lia. destruct HSC as (-> & Hl1 & -> & Hr1 & Hk1).
      destruct (fresh_wf its n s (contents (mkRing p s c d))) as [W' I']; try lia.
      { exact HC. }
      assert (length its <= Z.to_nat n)%nat by (unfold Zlen in HZ; lia).
      split; [lia|]. split; [exact W'|]. split; [reflexivity|]. split.
      { rewrite I'. rewrite firstn_all2 by lia. reflexivity. }
      cbn [app]. rewrite skipn_all2 by lia. apply evfacts_free.
      apply no_live_list. intros j Hj. rewrite Hl1 in Hj.
      destruct (Z_lt_le_dec j p).
      * destruct (Z_lt_le_dec j (p + s - c)).
        -- rewrite Hr1; auto.
        -- rewrite Hk1 by lia. pose proof (Hph j Hj). lia.
      * destruct (Z_lt_le_dec j (p + s)).
        -- rewrite Hr1; auto.
        -- rewrite Hk1 by lia. pose proof (Hph j Hj). lia.
Qed.

End E.
