(* RouterLemmasA2.v — Node::notify (with the tree's forwarding code, fwd = true) against the
   flat specification f_notify, with the returned count. *)
From Coq Require Import List ZArith Bool Lia Arith Sorted.
From Tulz Require Import Common RouterModel RouterSpec RouterLemmasA1.
Import ListNotations.
Local Open Scope Z_scope.

Lemma Zlen_app {A} (a b : list A) : Zlen (a ++ b) = Zlen a + Zlen b.
Proof. unfold Zlen. rewrite app_length. lia. Qed.

Lemma filter_map_comm {A B} (P : B -> bool) (f : A -> B) l :
  filter P (map f l) = map f (filter (fun x => P (f x)) l).
Proof. induction l as [|a l IH]; cbn; auto. destruct (P (f a)); cbn; rewrite IH; auto. Qed.

(* ---- the nested fixpoints of notify_node as list functions ---------------------------------- *)

Definition ores := option (Z * list (nat * Z) * list node).

Definition notify_all (f : node -> nres) : list node -> ores :=
  fix all (cs : list node) : ores :=
    match cs with
    | [] => Some (0, [], [])
    | c :: cs' =>
        match f c with
        | None => None
        | Some (k, calls, c') =>
            match all cs' with
            | None => None
            | Some (k2, calls2, cs2) => Some (k + k2, calls ++ calls2, c' :: cs2)
            end
        end
    end.

Definition notify_one (f : node -> nres) (x : Z) : list node -> ores :=
  fix one (cs : list node) : ores :=
    match cs with
    | [] => Some (0, [], [])
    | c :: cs' =>
        if nname c =? x then
          match f c with
          | None => None
          | Some (k, calls, c') => Some (k, calls, c' :: cs')
          end
        else match one cs' with
             | None => None
             | Some (k, calls, cs2) => Some (k, calls, c :: cs2)
             end
    end.

Lemma notify_all_cons f c cs :
  notify_all f (c :: cs) =
  match f c with
  | None => None
  | Some (k, calls, c') =>
      match notify_all f cs with
      | None => None
      | Some (k2, calls2, cs2) => Some (k + k2, calls ++ calls2, c' :: cs2)
      end
  end.
Proof. reflexivity. Qed.

Lemma notify_one_cons f x c cs :
  notify_one f x (c :: cs) =
  if nname c =? x then
    match f c with
    | None => None
    | Some (k, calls, c') => Some (k, calls, c' :: cs)
    end
  else match notify_one f x cs with
       | None => None
       | Some (k, calls, cs2) => Some (k, calls, c :: cs2)
       end.
Proof. reflexivity. Qed.

Lemma notify_unfold fwd byval arg nm sj ch l nl rest' cur :
  notify_node fwd byval arg (Node nm sj ch) (l :: nl :: rest') cur =
  if negb (matches l nm) then Some (0, [], Node nm sj ch)
  else if is_regex nl then
         wrap nm sj (notify_all (fun c => notify_node fwd byval arg c (nl :: rest')
                                            (if fwd then cur else redecuce byval cur)) ch)
       else
         wrap nm sj (notify_one (fun c => notify_node fwd byval arg c (nl :: rest') cur)
                                (match nl with LStr x => x | LRx _ => 0 end) ch).
Proof. reflexivity. Qed.

Lemma notify_leaf fwd byval arg nm sj ch l cur :
  notify_node fwd byval arg (Node nm sj ch) [l] cur =
  if negb (matches l nm) then Some (0, [], Node nm sj ch)
  else match sj with
       | Some s =>
           if sig_eqb (s_sig s) cur then
             Some (1, fst (deliver_subs (s_subs s) arg),
                   Node nm (Some (mkRS (s_sig s) (snd (deliver_subs (s_subs s) arg)))) ch)
           else None
       | None => Some (0, [], Node nm sj ch)
       end.
Proof. reflexivity. Qed.

(* ---- the two components of f_notify ---------------------------------------------------------- *)

Section Notify.
Variable byval : Z -> bool.
Variable arg : Z.
Variable s : sig.

Definition f_calls (st : fstate) (pat : list level) : list (nat * Z) :=
  flat_map (fun e => if key_matches pat (fst e) then fst (deliver_subs (snd e) arg) else []) st.
Definition f_next (st : fstate) (pat : list level) : fstate :=
  filter nonempty
    (map (fun e => if key_matches pat (fst e) then (fst e, snd (deliver_subs (snd e) arg)) else e) st).

Lemma f_notify_eq st pat : f_notify st pat arg = (f_calls st pat, f_next st pat).
Proof. reflexivity. Qed.

Lemma f_calls_app a b pat : f_calls (a ++ b) pat = f_calls a pat ++ f_calls b pat.
Proof. apply flat_map_app. Qed.

Lemma f_next_app a b pat : f_next (a ++ b) pat = f_next a pat ++ f_next b pat.
Proof. unfold f_next. rewrite map_app, filter_app. reflexivity. Qed.

Lemma f_calls_nomatch st pat :
  Forall (fun e => key_matches pat (fst e) = false) st -> f_calls st pat = [].
Proof. induction 1 as [|e st H _ IH]; cbn; auto. rewrite H. exact IH. Qed.

Lemma f_next_nomatch st pat :
  Forall (fun e => key_matches pat (fst e) = false) st -> Forall (fun e => snd e <> []) st ->
  f_next st pat = st.
Proof.
  intros H1 H2. unfold f_next.
  assert (E : map (fun e => if key_matches pat (fst e) then (fst e, snd (deliver_subs (snd e) arg)) else e) st = st).
  { clear H2. induction H1 as [|e st H _ IH]; cbn [map]; auto. rewrite H, IH. reflexivity. }
  rewrite E. apply filter_nonempty_id; auto.
Qed.

Lemma f_calls_rekey k B l pat :
  f_calls (rekey k B) (l :: pat) = if matches l k then f_calls B pat else [].
Proof.
  unfold f_calls, rekey. induction B as [|e B IH]; [destruct (matches l k); reflexivity|].
  cbn [map flat_map]. rewrite IH. cbn [fst snd key_matches].
  destruct (matches l k); reflexivity.
Qed.

Lemma f_next_rekey_match k B l pat :
  matches l k = true -> f_next (rekey k B) (l :: pat) = rekey k (f_next B pat).
Proof.
  intros E. unfold f_next, rekey. induction B as [|e B IH]; [reflexivity|].
  destruct e as [ke ve].
  cbn [map filter]. rewrite IH. cbn [fst snd key_matches]. rewrite E. cbn [andb].
  destruct (key_matches pat ke); unfold nonempty, deliver_subs; cbn [fst snd].
  - destruct (filter r_valid ve); reflexivity.
  - destruct ve; reflexivity.
Qed.

Lemma rekey_nomatch k B l pat :
  matches l k = false -> Forall (fun e => key_matches (l :: pat) (fst e) = false) (rekey k B).
Proof.
  intros E. unfold rekey. apply Forall_map. apply Forall_forall. intros e _. cbn. rewrite E. auto.
Qed.

Lemma own_nomatch sj l pat : Forall (fun e => key_matches (l :: pat) (fst e) = false) (own sj).
Proof. apply Forall_forall. intros e He. apply own_key in He. rewrite He. reflexivity. Qed.

Lemma blocks_nomatch_nil cs : Forall (fun e => key_matches [] (fst e) = false) (blocks cs).
Proof.
  apply Forall_forall. intros e He. apply in_blocks in He as (c & e' & _ & _ & ->). reflexivity.
Qed.

(* ---- the returned count ------------------------------------------------------------------------ *)

Definition hs (o : option node) : bool :=
  match o with Some (Node _ (Some _) _) => true | _ => false end.
Definition cnt (pat : list level) (n : node) : Z :=
  Zlen (filter (fun p => key_matches pat p && hs (node_at n p)) (paths n)).
Definition sumK (nl : level) (pat : list level) (cs : list node) : Z :=
  fold_right (fun c acc => (if matches nl (nname c) then cnt pat c else 0) + acc) 0 cs.

Lemma paths_eq nm sj ch :
  paths (Node nm sj ch) = [] :: flat_map (fun c => map (cons (nname c)) (paths c)) ch.
Proof. reflexivity. Qed.

Lemma cnt_nil nm sj ch : cnt [] (Node nm sj ch) = match sj with Some _ => 1 | None => 0 end.
Proof.
  unfold cnt. rewrite paths_eq. cbn [filter key_matches node_at andb hs].
  assert (E : forall g, filter (fun p => key_matches [] p && g p)
            (flat_map (fun c => map (cons (nname c)) (paths c)) ch) = []).
  { intros g. induction ch as [|c cs IH]; cbn [flat_map]; auto. rewrite filter_app, IH, app_nil_r.
    rewrite filter_map_comm. cbn. induction (paths c); cbn; auto. }
  destruct sj; rewrite E; reflexivity.
Qed.

Lemma cnt_cons nm sj ch nl pat :
  StronglySorted Z.lt (map nname ch) -> cnt (nl :: pat) (Node nm sj ch) = sumK nl pat ch.
Proof.
  intros HS. unfold cnt. rewrite paths_eq. cbn [filter key_matches andb].
  assert (G : forall cs, (forall c, In c cs -> find (fun d => nname d =? nname c) ch = Some c) ->
            Zlen (filter (fun p => key_matches (nl :: pat) p && hs (node_at (Node nm sj ch) p))
                    (flat_map (fun c => map (cons (nname c)) (paths c)) cs)) = sumK nl pat cs).
  { induction cs as [|c cs IH]; intros Hf; [reflexivity|].
    cbn [flat_map sumK fold_right]. rewrite filter_app, Zlen_app. fold (sumK nl pat cs).
    rewrite IH by (intros; apply Hf; right; auto). f_equal.
    rewrite filter_map_comm. unfold Zlen at 1. rewrite map_length. fold (Zlen (filter
      (fun x => key_matches (nl :: pat) (nname c :: x) && hs (node_at (Node nm sj ch) (nname c :: x))) (paths c))).
    cbn [key_matches node_at nchildren]. rewrite (Hf c) by (left; auto).
    destruct (matches nl (nname c)); cbn [andb].
    - reflexivity.
    - induction (paths c); cbn; auto. }
  apply G. intros c Hc. apply find_name_unique; auto.
Qed.

Lemma sumK_nomatch nl pat cs :
  Forall (fun c => matches nl (nname c) = false) cs -> sumK nl pat cs = 0.
Proof. induction 1 as [|c cs H _ IH]; cbn; auto. rewrite H. fold (sumK nl pat cs). lia. Qed.

(* ---- per-node statement --------------------------------------------------------------------------- *)

Definition child_ok (l : level) (pat : list level) (c : node) (r : nres) : Prop :=
  exists c', r = Some ((if matches l (nname c) then cnt pat c else 0),
                       (if matches l (nname c) then f_calls (flat c) pat else []), c') /\
             nname c' = nname c /\ wf_node c' /\ sig_ok s c' /\
             flat c' = (if matches l (nname c) then f_next (flat c) pat else flat c).

Definition list_ok (nl : level) (pat : list level) (cs : list node) (r : ores) : Prop :=
  exists cs', r = Some (sumK nl pat cs, f_calls (blocks cs) (nl :: pat), cs') /\
              map nname cs' = map nname cs /\ Forall wf_node cs' /\ Forall (sig_ok s) cs' /\
              blocks cs' = f_next (blocks cs) (nl :: pat).

Lemma blocks_all_nomatch nl pat cs :
  Forall (fun c => matches nl (nname c) = false) cs ->
  sumK nl pat cs = 0 /\ f_calls (blocks cs) (nl :: pat) = [] /\ f_next (blocks cs) (nl :: pat) = blocks cs.
Proof.
  intros H. split; [apply sumK_nomatch; auto|].
  assert (F : Forall (fun e => key_matches (nl :: pat) (fst e) = false) (blocks cs)).
  { apply Forall_forall. intros e He. apply in_blocks in He as (c & e' & Hc & _ & ->). cbn.
    rewrite Forall_forall in H. rewrite (H c Hc). reflexivity. }
  split; [apply f_calls_nomatch; auto|apply f_next_nomatch; auto using blocks_nonempty].
Qed.

Lemma notify_all_ok f nl pat cs :
  Forall (fun c => child_ok nl pat c (f c)) cs -> list_ok nl pat cs (notify_all f cs).
Proof.
  induction 1 as [|c cs H _ IH].
  - exists []. cbn. repeat split; constructor.
  - destruct H as (c' & Hf & Hn & Hw & Hs & Hfl). destruct IH as (cs' & Hr & Hns & Hws & Hss & Hbl).
    exists (c' :: cs'). rewrite notify_all_cons, Hf, Hr. split; [|split; [|split; [|split]]].
    + rewrite blocks_cons, f_calls_app, f_calls_rekey. reflexivity.
    + cbn. congruence.
    + constructor; auto.
    + constructor; auto.
    + rewrite !blocks_cons, f_next_app, Hn, Hfl, Hbl. f_equal.
      destruct (matches nl (nname c)) eqn:E.
      * rewrite f_next_rekey_match; auto.
      * symmetry. apply f_next_nomatch; [apply rekey_nomatch; auto|].
        apply rekey_nonempty, flat_nonempty.
Qed.

Lemma notify_one_ok f x pat cs :
  StronglySorted Z.lt (map nname cs) -> Forall wf_node cs -> Forall (sig_ok s) cs ->
  Forall (fun c => child_ok (LStr x) pat c (f c)) cs -> list_ok (LStr x) pat cs (notify_one f x cs).
Proof.
  intros HS HW HG H. induction H as [|c cs H _ IH].
  - exists []. cbn. repeat split; constructor.
  - cbn [map] in HS. apply StronglySorted_inv in HS as [HS1 HS2].
    apply Forall_cons_iff in HW as [HW1 HW2]. apply Forall_cons_iff in HG as [HG1 HG2].
    rewrite notify_one_cons. destruct (nname c =? x) eqn:E.
    + apply Z.eqb_eq in E. destruct H as (c' & Hf & Hn & Hw & Hs & Hfl).
      assert (M : matches (LStr x) (nname c) = true) by (cbn; apply Z.eqb_eq; auto).
      rewrite M in *.
      assert (NM : Forall (fun d => matches (LStr x) (nname d) = false) cs).
      { apply Forall_forall. intros d Hd. cbn. apply Z.eqb_neq.
        rewrite Forall_forall in HS2. specialize (HS2 (nname d) (in_map nname _ _ Hd)). lia. }
      destruct (blocks_all_nomatch (LStr x) pat cs NM) as (K0 & C0 & N0).
      exists (c' :: cs). rewrite Hf. split; [|split; [|split; [|split]]].
      * cbn [sumK fold_right]. fold (sumK (LStr x) pat cs). rewrite M, K0.
        rewrite blocks_cons, f_calls_app, f_calls_rekey, M, C0, app_nil_r. do 3 f_equal. lia.
      * cbn. congruence.
      * constructor; auto.
      * constructor; auto.
      * rewrite !blocks_cons, f_next_app, Hn, Hfl, N0, f_next_rekey_match; auto.
    + destruct (IH HS1 HW2 HG2) as (cs' & Hr & Hns & Hws & Hss & Hbl).
      assert (M : matches (LStr x) (nname c) = false).
      { cbn. apply Z.eqb_neq. apply Z.eqb_neq in E. congruence. }
      exists (c :: cs'). rewrite Hr. split; [|split; [|split; [|split]]].
      * cbn [sumK fold_right]. fold (sumK (LStr x) pat cs). rewrite M.
        rewrite blocks_cons, f_calls_app, f_calls_rekey, M. reflexivity.
      * cbn. congruence.
      * constructor; auto.
      * constructor; auto.
      * rewrite !blocks_cons, f_next_app, Hbl. f_equal. symmetry.
        apply f_next_nomatch; [apply rekey_nomatch; auto|]. apply rekey_nonempty, flat_nonempty.
Qed.

Lemma f_next_own_nil sb :
  f_next (own (Some sb)) [] = own (Some (mkRS (s_sig sb) (snd (deliver_subs (s_subs sb) arg)))).
Proof.
  unfold own, f_next. cbn [live_subs s_subs deliver_subs snd]. destruct (s_subs sb) as [|o l] eqn:E.
  - reflexivity.
  - unfold deliver_subs. cbn [map key_matches fst snd]. set (X := filter r_valid (o :: l)).
    cbn [filter]. unfold nonempty. cbn [snd]. destruct X; reflexivity.
Qed.

Lemma f_calls_own_nil sb : f_calls (own (Some sb)) [] = fst (deliver_subs (s_subs sb) arg).
Proof.
  unfold own, f_calls. cbn [live_subs]. destruct (s_subs sb) as [|o l] eqn:E.
  - reflexivity.
  - cbn [flat_map key_matches fst snd]. apply app_nil_r.
Qed.

Theorem notify_node_ok : forall n l pat, wf_node n -> sig_ok s n ->
  child_ok l pat n (notify_node true byval arg n (l :: pat) s).
Proof.
  induction n as [nm sj ch IH] using node_ind2. intros l pat Hwf Hok. unfold child_ok. cbn [nname].
  pose proof Hwf as Hwf0. pose proof Hok as Hok0.
  apply wf_node_iff in Hwf as [HW HS]. apply sig_ok_iff in Hok as [Hsj HG].
  destruct pat as [|nl pat'].
  - rewrite notify_leaf. destruct (matches l nm); cbn [negb]; [|eauto 10].
    destruct sj as [sb|].
    + cbn in Hsj. replace (sig_eqb (s_sig sb) s) with true by (rewrite Hsj, sig_eqb_refl; auto). eexists. split; [|split; [|split; [|split]]].
      * rewrite cnt_nil, flat_eq, f_calls_app, f_calls_own_nil.
        rewrite (f_calls_nomatch (blocks ch)) by apply blocks_nomatch_nil. rewrite app_nil_r. reflexivity.
      * reflexivity.
      * apply wf_node_iff; auto.
      * apply sig_ok_iff; split; [exact Hsj|auto].
      * rewrite !flat_eq, f_next_app, f_next_own_nil.
        rewrite (f_next_nomatch (blocks ch)); auto using blocks_nomatch_nil, blocks_nonempty.
    + exists (Node nm None ch). split; [|split; [|split; [|split]]]; auto.
      * rewrite cnt_nil, flat_eq. cbn [own live_subs app].
        rewrite (f_calls_nomatch (blocks ch)) by apply blocks_nomatch_nil. reflexivity.
      * rewrite flat_eq. cbn [own live_subs app].
        rewrite (f_next_nomatch (blocks ch)); auto using blocks_nomatch_nil, blocks_nonempty.
  - rewrite notify_unfold. destruct (matches l nm); cbn [negb]; [|eauto 10].
    assert (CH : Forall (fun c => child_ok nl pat' c (notify_node true byval arg c (nl :: pat') s)) ch).
    { rewrite Forall_forall in *. intros c Hc. apply IH; auto. }
    assert (L : list_ok nl pat' ch
                  (if is_regex nl then notify_all (fun c => notify_node true byval arg c (nl :: pat') s) ch
                   else notify_one (fun c => notify_node true byval arg c (nl :: pat') s)
                          (match nl with LStr x => x | LRx _ => 0 end) ch)).
    { destruct nl as [x|ms]; cbn [is_regex].
      - apply notify_one_ok; auto.
      - apply notify_all_ok; auto. }
    destruct L as (cs' & Hr & Hns & Hws & Hss & Hbl).
    exists (Node nm sj cs'). split; [|split; [|split; [|split]]].
    + destruct (is_regex nl); rewrite Hr; cbn [wrap]; rewrite cnt_cons by auto;
        rewrite flat_eq, f_calls_app, (f_calls_nomatch (own sj)) by apply own_nomatch; reflexivity.
    + reflexivity.
    + apply wf_node_iff. rewrite Hns. auto.
    + apply sig_ok_iff. auto.
    + rewrite !flat_eq, f_next_app, Hbl.
      rewrite (f_next_nomatch (own sj)); auto using own_nomatch, own_nonempty.
Qed.

End Notify.
