(* RouterLemmasA3.v — the tree operations reached through a key (subscribe, the handle
   operations, the presence test) against the flat specification:
   [subscribe_below] is [f_insert], [update_at] is [f_update], [find_at] is [f_present]. *)
From Coq Require Import List ZArith Bool Lia Arith Sorted.
From Tulz Require Import Common RouterModel RouterSpec RouterLemmasA1.
Import ListNotations.
Local Open Scope Z_scope.

(* ---- generic facts ------------------------------------------------------------------------------ *)

Lemma SS_app_inv {A} (R : A -> A -> Prop) l1 l2 :
  StronglySorted R (l1 ++ l2) -> StronglySorted R l1 /\ StronglySorted R l2.
Proof.
  induction l1 as [|x l1 IH]; cbn; intros H.
  - split; [constructor|exact H].
  - inversion H; subst. apply IH in H2 as [H2a H2b]. split; auto.
    constructor; auto. apply Forall_app in H3. apply H3.
Qed.

(* ---- find_at / f_present -------------------------------------------------------------------------- *)

Lemma f_present_app a b key o : f_present (a ++ b) key o = f_present a key o || f_present b key o.
Proof. unfold f_present. apply existsb_app. Qed.

Lemma f_present_rekey_eq k B key o : f_present (rekey k B) (k :: key) o = f_present B key o.
Proof.
  unfold f_present, rekey. induction B as [|e B IH]; cbn [map existsb fst snd key_eqb]; auto.
  rewrite Z.eqb_refl, IH. reflexivity.
Qed.

Lemma f_present_rekey_neq d k B key o : d <> k -> f_present (rekey d B) (k :: key) o = false.
Proof.
  intros Hd. apply Z.eqb_neq in Hd.
  unfold f_present, rekey. induction B as [|e B IH]; cbn [map existsb fst snd key_eqb]; auto.
  rewrite Hd, IH. reflexivity.
Qed.

Lemma f_present_rekey_nil d B o : f_present (rekey d B) [] o = false.
Proof.
  unfold f_present, rekey. induction B as [|e B IH]; cbn [map existsb fst snd key_eqb]; auto.
Qed.

Lemma f_present_blocks_nil cs o : f_present (blocks cs) [] o = false.
Proof.
  induction cs as [|c cs IH]; [reflexivity|].
  rewrite blocks_cons, f_present_app, f_present_rekey_nil, IH. reflexivity.
Qed.

Lemma f_present_blocks_neq k key cs o :
  Forall (fun c => nname c <> k) cs -> f_present (blocks cs) (k :: key) o = false.
Proof.
  induction 1 as [|c cs H _ IH]; [reflexivity|].
  rewrite blocks_cons, f_present_app, f_present_rekey_neq, IH; auto.
Qed.

Lemma f_present_own_cons sj k key o : f_present (own sj) (k :: key) o = false.
Proof. unfold own. destruct (live_subs sj); reflexivity. Qed.

Lemma f_present_own_nil sj o :
  f_present (own sj) [] o =
  match sj with Some sb => existsb (fun x => Nat.eqb (r_obs x) o) (s_subs sb) | None => false end.
Proof.
  destruct sj as [sb|]; unfold own; cbn [live_subs]; [|reflexivity].
  destruct (s_subs sb); [reflexivity|].
  unfold f_present. cbn [existsb fst snd key_eqb andb]. apply orb_false_r.
Qed.

Lemma find_at_present o : forall key n, wf_node n ->
  match find_at n key with
  | Some sb => existsb (fun x => Nat.eqb (r_obs x) o) (s_subs sb)
  | None => false
  end = f_present (flat n) key o.
Proof.
  induction key as [|k key IH]; intros [nm sj ch] Hwf; rewrite flat_eq, f_present_app.
  - cbn [find_at]. rewrite f_present_own_nil, f_present_blocks_nil, orb_false_r. reflexivity.
  - cbn [find_at]. rewrite f_present_own_cons. cbn [orb].
    apply wf_node_iff in Hwf as [HW HS].
    induction ch as [|c cs IHc]; cbn [find]; [reflexivity|].
    apply Forall_cons_iff in HW as [HWc HWcs]. cbn [map] in HS.
    apply StronglySorted_inv in HS as [HS HF].
    rewrite blocks_cons, f_present_app.
    destruct (nname c =? k) eqn:E.
    + apply Z.eqb_eq in E. subst k. rewrite f_present_rekey_eq, f_present_blocks_neq, orb_false_r.
      * apply IH; auto.
      * rewrite Forall_map in HF. eapply Forall_impl; [|exact HF]. cbn. intros; lia.
    + apply Z.eqb_neq in E. rewrite f_present_rekey_neq by auto. cbn [orb]. apply IHc; auto.
Qed.

(* ---- update_at / f_update -------------------------------------------------------------------------- *)

Lemma f_update_eq st key f :
  f_update st key f =
  filter nonempty (map (fun e => if key_eqb (fst e) key then (fst e, f (snd e)) else e) st).
Proof. reflexivity. Qed.

Lemma f_update_app a b key f : f_update (a ++ b) key f = f_update a key f ++ f_update b key f.
Proof. rewrite !f_update_eq, map_app, filter_app. reflexivity. Qed.

Lemma f_update_cons e st key f :
  f_update (e :: st) key f =
  (if key_eqb (fst e) key then (match f (snd e) with [] => [] | _ => [(fst e, f (snd e))] end)
   else match snd e with [] => [] | _ => [e] end) ++ f_update st key f.
Proof.
  rewrite !f_update_eq. cbn [map filter]. destruct (key_eqb (fst e) key).
  - unfold nonempty at 1. cbn [snd]. destruct (f (snd e)); reflexivity.
  - unfold nonempty at 1. destruct (snd e); reflexivity.
Qed.

Lemma f_update_id st key f :
  Forall (fun e => key_eqb (fst e) key = false /\ snd e <> []) st -> f_update st key f = st.
Proof.
  induction 1 as [|e st [H1 H2] _ IH]; [reflexivity|].
  rewrite f_update_cons, H1, IH. destruct (snd e); [congruence|reflexivity].
Qed.

Lemma f_update_rekey_eq k B key f : f_update (rekey k B) (k :: key) f = rekey k (f_update B key f).
Proof.
  induction B as [|[ke se] B IH]; [reflexivity|].
  unfold rekey at 1. cbn [map]. fold (rekey k B).
  rewrite !f_update_cons, rekey_app, IH. cbn [fst snd key_eqb]. rewrite Z.eqb_refl. cbn [andb].
  f_equal. destruct (key_eqb ke key).
  - destruct (f se); reflexivity.
  - destruct se; reflexivity.
Qed.

Lemma f_update_rekey_neq d k B key f :
  d <> k -> Forall (fun e => snd e <> []) B -> f_update (rekey d B) (k :: key) f = rekey d B.
Proof.
  intros Hd HB. apply f_update_id. unfold rekey. apply Forall_map.
  eapply Forall_impl; [|exact HB]. cbn. intros e He. split; auto.
  apply Z.eqb_neq in Hd. rewrite Hd. reflexivity.
Qed.

Lemma f_update_blocks_nil cs f : f_update (blocks cs) [] f = blocks cs.
Proof.
  apply f_update_id. pose proof (blocks_nonempty cs) as HN. rewrite Forall_forall in *.
  intros e He. split; [|apply HN; auto].
  apply in_blocks in He as (c & e' & _ & _ & ->). reflexivity.
Qed.

Lemma f_update_own_cons sj k key f : f_update (own sj) (k :: key) f = own sj.
Proof.
  apply f_update_id. pose proof (own_nonempty sj) as HN. rewrite Forall_forall in *.
  intros e He. split; [|apply HN; auto]. apply own_key in He. rewrite He. reflexivity.
Qed.

Lemma f_update_own_nil sj f : f [] = [] ->
  f_update (own sj) [] f =
  own (match sj with Some sb => Some (mkRS (s_sig sb) (f (s_subs sb))) | None => None end).
Proof.
  intros Hf. destruct sj as [sb|]; [|reflexivity]. unfold own. cbn [live_subs s_subs].
  destruct (s_subs sb) as [|a l].
  - rewrite Hf. reflexivity.
  - rewrite f_update_cons. cbn [fst snd key_eqb f_update map filter]. rewrite app_nil_r.
    destruct (f (a :: l)); reflexivity.
Qed.

Lemma update_at_name n key f : nname (update_at n key f) = nname n.
Proof. destruct n as [nm sj ch], key; reflexivity. Qed.

Lemma update_children s f k key ch :
  (forall n, wf_node n -> sig_ok s n ->
     nname (update_at n key f) = nname n /\ wf_node (update_at n key f) /\
     sig_ok s (update_at n key f) /\ flat (update_at n key f) = f_update (flat n) key f) ->
  Forall wf_node ch -> Forall (sig_ok s) ch ->
  let g := fun c => if nname c =? k then update_at c key f else c in
  map nname (map g ch) = map nname ch /\ Forall wf_node (map g ch) /\ Forall (sig_ok s) (map g ch) /\
  blocks (map g ch) = f_update (blocks ch) (k :: key) f.
Proof.
  intros IH HW HK g. induction ch as [|c cs IHc].
  - repeat split; constructor.
  - apply Forall_cons_iff in HW as [HWc HWcs]. apply Forall_cons_iff in HK as [HKc HKcs].
    destruct (IHc HWcs HKcs) as (I1 & I2 & I3 & I4). clear IHc.
    destruct (IH c HWc HKc) as (J1 & J2 & J3 & J4).
    cbn [map]. rewrite !blocks_cons, f_update_app, I1, I4.
    assert (G : nname (g c) = nname c /\ wf_node (g c) /\ sig_ok s (g c) /\
                rekey (nname (g c)) (flat (g c)) = f_update (rekey (nname c) (flat c)) (k :: key) f).
    { unfold g. destruct (nname c =? k) eqn:E.
      - apply Z.eqb_eq in E. repeat split; auto. rewrite J1, J4. subst k. symmetry. apply f_update_rekey_eq.
      - apply Z.eqb_neq in E. repeat split; auto. symmetry. apply f_update_rekey_neq; auto.
        apply flat_nonempty. }
    destruct G as (G1 & G2 & G3 & G4). rewrite G4, G1. repeat split; auto.
Qed.

Lemma update_at_spec s f : f [] = [] -> forall key n, wf_node n -> sig_ok s n ->
  nname (update_at n key f) = nname n /\ wf_node (update_at n key f) /\ sig_ok s (update_at n key f) /\
  flat (update_at n key f) = f_update (flat n) key f.
Proof.
  intros Hf. induction key as [|k key IH]; intros [nm sj ch] Hwf Hok.
  - cbn [update_at]. split; [reflexivity|]. split; [exact Hwf|].
    apply sig_ok_iff in Hok as [Hsj Hch]. split.
    + apply sig_ok_iff. split; auto. destruct sj; [exact Hsj|exact I].
    + rewrite !flat_eq, f_update_app, f_update_blocks_nil, f_update_own_nil; auto.
  - cbn [update_at]. split; [reflexivity|].
    apply wf_node_iff in Hwf as [HW HS]. apply sig_ok_iff in Hok as [Hsj Hch].
    destruct (update_children s f k key ch IH HW Hch) as (I1 & I2 & I3 & I4).
    split; [|split].
    + apply wf_node_iff. split; auto. rewrite I1. exact HS.
    + apply sig_ok_iff. split; auto.
    + rewrite !flat_eq, f_update_app, f_update_own_cons, I4. reflexivity.
Qed.

(* ---- subscribe_below / f_insert ---------------------------------------------------------------------- *)

Lemma f_insert_cons k subs st key o :
  f_insert ((k, subs) :: st) key o =
  if key_eqb k key then (k, subs ++ [mkOR o true false]) :: st
  else if key_ltb key k then (key, [mkOR o true false]) :: (k, subs) :: st
  else (k, subs) :: f_insert st key o.
Proof. reflexivity. Qed.

(* entries before the place of the key are skipped *)
Lemma f_insert_skip A R key o :
  Forall (fun e => key_eqb (fst e) key = false /\ key_ltb key (fst e) = false) A ->
  f_insert (A ++ R) key o = A ++ f_insert R key o.
Proof.
  induction 1 as [|[ke se] A [H1 H2] _ IH]; [reflexivity|].
  cbn [app fst] in *. rewrite f_insert_cons, H1, H2, IH. reflexivity.
Qed.

(* the rest of the state starts after the key *)
Definition front_ok (key : list Z) (R : fstate) : Prop :=
  match R with
  | [] => True
  | e :: _ => key_eqb (fst e) key = false /\ key_ltb key (fst e) = true
  end.

Lemma f_insert_front R key o : front_ok key R -> f_insert R key o = (key, [mkOR o true false]) :: R.
Proof.
  destruct R as [|[ke se] R]; [reflexivity|]. cbn [front_ok fst]. intros [H1 H2].
  rewrite f_insert_cons, H1, H2. reflexivity.
Qed.

Lemma f_insert_rekey k B R key o :
  front_ok (k :: key) R ->
  f_insert (rekey k B ++ R) (k :: key) o = rekey k (f_insert B key o) ++ R.
Proof.
  intros HR. induction B as [|[ke se] B IH].
  - cbn [rekey map app f_insert fst snd]. apply f_insert_front, HR.
  - unfold rekey at 1. cbn [map app fst snd]. fold (rekey k B).
    rewrite !f_insert_cons. cbn [key_eqb key_ltb]. rewrite Z.eqb_refl, Z.ltb_irrefl. cbn [andb orb].
    destruct (key_eqb ke key); [reflexivity|].
    destruct (key_ltb key ke); [reflexivity|].
    rewrite IH. reflexivity.
Qed.

Lemma front_ok_blocks_nil cs : front_ok [] (blocks cs).
Proof.
  induction cs as [|c cs IH]; [exact I|]. rewrite blocks_cons.
  destruct (flat c) as [|e B]; [exact IH|]. cbn. auto.
Qed.

Lemma front_ok_blocks_gt k key cs : Forall (fun c => k < nname c) cs -> front_ok (k :: key) (blocks cs).
Proof.
  induction 1 as [|c cs H _ IH]; [exact I|]. rewrite blocks_cons.
  destruct (flat c) as [|e B]; [exact IH|]. cbn [rekey map app front_ok fst key_eqb key_ltb].
  assert (E1 : (nname c =? k) = false) by (apply Z.eqb_neq; lia).
  assert (E2 : (k <? nname c) = true) by (apply Z.ltb_lt; lia).
  rewrite E1, E2. auto.
Qed.

Lemma skip_own sj k key :
  Forall (fun e => key_eqb (fst e) (k :: key) = false /\ key_ltb (k :: key) (fst e) = false) (own sj).
Proof.
  apply Forall_forall. intros e He. apply own_key in He. rewrite He. auto.
Qed.

Lemma skip_blocks_lt k key cs :
  Forall (fun c => nname c < k) cs ->
  Forall (fun e => key_eqb (fst e) (k :: key) = false /\ key_ltb (k :: key) (fst e) = false) (blocks cs).
Proof.
  intros H. rewrite Forall_forall in *. intros e He.
  apply in_blocks in He as (c & e' & Hc & _ & ->). specialize (H c Hc). cbn [fst key_eqb key_ltb].
  assert (E1 : (nname c =? k) = false) by (apply Z.eqb_neq; lia).
  assert (E2 : (k <? nname c) = false) by (apply Z.ltb_ge; lia).
  assert (E3 : (k =? nname c) = false) by (apply Z.eqb_neq; lia).
  rewrite E1, E2, E3. auto.
Qed.

(* the children list around the name k *)
Lemma split_found k ch c :
  StronglySorted Z.lt (map nname ch) -> find (fun d => nname d =? k) ch = Some c ->
  exists pre post, ch = pre ++ c :: post /\ nname c = k /\
    Forall (fun d => nname d < k) pre /\ Forall (fun d => k < nname d) post.
Proof.
  induction ch as [|d ch IH]; cbn [find map]; intros HS Hf; [discriminate|].
  apply StronglySorted_inv in HS as [HS HF]. rewrite Forall_map in HF.
  destruct (nname d =? k) eqn:E.
  - injection Hf as <-. apply Z.eqb_eq in E. exists [], ch. repeat split; auto.
    subst k. exact HF.
  - destruct (IH HS Hf) as (pre & post & -> & Hk & Hpre & Hpost).
    exists (d :: pre), post. repeat split; auto. constructor; auto.
    apply Forall_app in HF as [_ HF]. apply Forall_inv in HF. lia.
Qed.

Lemma split_notfound k ch :
  StronglySorted Z.lt (map nname ch) -> find (fun d => nname d =? k) ch = None ->
  exists pre post, ch = pre ++ post /\
    Forall (fun d => nname d < k) pre /\ Forall (fun d => k < nname d) post /\
    forall c', nname c' = k -> insert_child ch c' = pre ++ c' :: post.
Proof.
  induction ch as [|d ch IH]; cbn [find map]; intros HS Hf.
  - exists [], []. repeat split; auto.
  - apply StronglySorted_inv in HS as [HS HF]. rewrite Forall_map in HF.
    destruct (nname d =? k) eqn:E; [discriminate|]. apply Z.eqb_neq in E.
    destruct (Z_lt_ge_dec k (nname d)) as [Hlt|Hge].
    + exists [], (d :: ch). repeat split; auto.
      * constructor; auto. eapply Forall_impl; [|exact HF]. cbn. intros; lia.
      * intros c' Hc'. cbn [insert_child]. rewrite Hc'.
        assert (E2 : (k <? nname d) = true) by (apply Z.ltb_lt; lia). rewrite E2. reflexivity.
    + destruct (IH HS Hf) as (pre & post & -> & Hpre & Hpost & Hins).
      exists (d :: pre), post. repeat split; auto.
      * constructor; auto. lia.
      * intros c' Hc'. cbn [insert_child]. rewrite Hc'.
        assert (E2 : (k <? nname d) = false) by (apply Z.ltb_ge; lia). rewrite E2.
        rewrite Hins by auto. reflexivity.
Qed.

Lemma map_replace k pre c c' post :
  nname c = k -> Forall (fun d => nname d < k) pre -> Forall (fun d => k < nname d) post ->
  map (fun d => if nname d =? k then c' else d) (pre ++ c :: post) = pre ++ c' :: post.
Proof.
  intros Hc Hpre Hpost.
  assert (Hid : forall l, Forall (fun d => nname d <> k) l ->
                          map (fun d => if nname d =? k then c' else d) l = l).
  { induction 1 as [|d l H _ IH]; [reflexivity|]. cbn [map]. apply Z.eqb_neq in H. rewrite H, IH. reflexivity. }
  rewrite map_app. cbn [map]. rewrite Hc, Z.eqb_refl. rewrite !Hid; auto.
  - eapply Forall_impl; [|exact Hpost]. cbn; intros; lia.
  - eapply Forall_impl; [|exact Hpre]. cbn; intros; lia.
Qed.

Lemma assemble_wf nm sj pre post k c' :
  Forall wf_node pre -> Forall wf_node post -> wf_node c' ->
  StronglySorted Z.lt (map nname pre) -> StronglySorted Z.lt (map nname post) ->
  Forall (fun d => nname d < k) pre -> Forall (fun d => k < nname d) post -> nname c' = k ->
  wf_node (Node nm sj (pre ++ c' :: post)).
Proof.
  intros W1 W2 W3 S1 S2 F1 F2 Hk. apply wf_node_iff. split.
  - apply Forall_app. split; auto.
  - rewrite map_app. cbn [map]. rewrite Forall_forall in F1, F2. apply SS_app; auto.
    + constructor; auto. rewrite Forall_map. apply Forall_forall. intros d Hd. specialize (F2 d Hd). lia.
    + intros a b Ha Hb. apply in_map_iff in Ha as (x & <- & Hx). specialize (F1 x Hx).
      destruct Hb as [<-|Hb]; [lia|]. apply in_map_iff in Hb as (y & <- & Hy). specialize (F2 y Hy). lia.
Qed.

Lemma assemble_flat o nm sj pre post k key B c' :
  Forall (fun c => nname c < k) pre -> Forall (fun c => k < nname c) post ->
  nname c' = k -> flat c' = f_insert B key o ->
  flat (Node nm sj (pre ++ c' :: post)) =
  f_insert (own sj ++ blocks pre ++ rekey k B ++ blocks post) (k :: key) o.
Proof.
  intros F1 F2 Hk Hfl.
  rewrite f_insert_skip by apply skip_own.
  rewrite f_insert_skip by (apply skip_blocks_lt; exact F1).
  rewrite f_insert_rekey by (apply front_ok_blocks_gt; exact F2).
  rewrite flat_eq, blocks_app, blocks_cons, Hk, Hfl. reflexivity.
Qed.

Lemma fresh_wf k : wf_node (Node k None []).
Proof. exact I. Qed.
Lemma fresh_sig_ok s k : sig_ok s (Node k None []).
Proof. split; exact I. Qed.

Lemma subscribe_below_spec s o : forall key n fuel, (length key < fuel)%nat -> wf_node n -> sig_ok s n ->
  exists n', subscribe_below fuel n key s o = Some n' /\ nname n' = nname n /\ wf_node n' /\ sig_ok s n' /\
             flat n' = f_insert (flat n) key o.
Proof.
  induction key as [|k key IH]; intros [nm sj ch] fuel Hfuel Hwf Hok;
    (destruct fuel as [|fl]; [cbn in Hfuel; lia|]).
  - cbn [subscribe_below]. apply sig_ok_iff in Hok as [Hsj Hch]. destruct sj as [sb|].
    + cbn in Hsj. rewrite Hsj, sig_eqb_refl. eexists. split; [reflexivity|].
      split; [reflexivity|]. split; [exact Hwf|]. split.
      * apply sig_ok_iff. split; auto. reflexivity.
      * rewrite !flat_eq. unfold own. cbn [live_subs s_subs]. destruct (s_subs sb) as [|a l].
        -- cbn [app]. symmetry. apply f_insert_front, front_ok_blocks_nil.
        -- reflexivity.
    + eexists. split; [reflexivity|]. split; [reflexivity|]. split; [exact Hwf|]. split.
      * apply sig_ok_iff. split; auto. reflexivity.
      * rewrite !flat_eq. unfold own. cbn [live_subs s_subs app]. symmetry.
        apply f_insert_front, front_ok_blocks_nil.
  - cbn [subscribe_below]. cbn [length] in Hfuel.
    apply wf_node_iff in Hwf as [HW HS]. apply sig_ok_iff in Hok as [Hsj Hch].
    destruct (find (fun c => nname c =? k) ch) as [c|] eqn:Ef.
    + destruct (split_found k ch c HS Ef) as (pre & post & -> & Hk & Hpre & Hpost).
      apply Forall_app in HW as [HW1 HW2]. apply Forall_cons_iff in HW2 as [HWc HW2].
      apply Forall_app in Hch as [HK1 HK2]. apply Forall_cons_iff in HK2 as [HKc HK2].
      rewrite map_app in HS. cbn [map] in HS. apply SS_app_inv in HS as [HS1 HS2].
      apply StronglySorted_inv in HS2 as [HS2 _].
      destruct (IH c fl ltac:(lia) HWc HKc) as (c' & Es & En & Ew & Ek & Efl).
      rewrite Es. eexists. split; [reflexivity|]. split; [reflexivity|].
      rewrite (map_replace k pre c c' post Hk Hpre Hpost).
      split; [|split].
      * apply (assemble_wf nm sj pre post k c'); auto. congruence.
      * apply sig_ok_iff. split; auto. apply Forall_app. split; auto.
      * rewrite (flat_eq nm sj (pre ++ c :: post)), blocks_app, blocks_cons, Hk.
        apply assemble_flat; auto. congruence.
    + destruct (split_notfound k ch HS Ef) as (pre & post & -> & Hpre & Hpost & Hins).
      apply Forall_app in HW as [HW1 HW2]. apply Forall_app in Hch as [HK1 HK2].
      rewrite map_app in HS. apply SS_app_inv in HS as [HS1 HS2].
      destruct (IH (Node k None []) fl ltac:(lia) (fresh_wf k) (fresh_sig_ok s k))
        as (c' & Es & En & Ew & Ek & Efl).
      rewrite Es. eexists. split; [reflexivity|]. split; [reflexivity|].
      cbn [nname] in En. rewrite (Hins c' En).
      split; [|split].
      * apply (assemble_wf nm sj pre post k c'); auto.
      * apply sig_ok_iff. split; auto. apply Forall_app. split; auto.
      * rewrite (flat_eq nm sj (pre ++ post)), blocks_app.
        change (blocks pre ++ blocks post) with (blocks pre ++ rekey k [] ++ blocks post).
        apply assemble_flat; auto.
Qed.
