(* ThreadProofs.v — proofs about ThreadModel.v: one reachable-state invariant (the finite set of
   reachable (spc, npc, invoked, finished, deleted) tuples plus "no use-after-free when the
   callable is copied or is a Runnable"), preserved by every step and lifted to [trun]. *)
From Coq Require Import List ZArith Bool Lia.
From Tulz Require Import Common ThreadModel.
Import ListNotations.

Definition tcore (s : tstate) : nat * nat * nat * bool * nat :=
  (spc s, npc s, invoked s, finished s, deleted s).

Definition tstates (is_runnable : bool) : list (nat * nat * nat * bool * nat) :=
  let d := if is_runnable then 1%nat else 0%nat in
  [ (0, 0, 0, false, 0); (1, 0, 0, false, 0); (2, 0, 0, false, 0); (3, 0, 0, false, 0);
    (1, 1, 1, false, 0); (2, 1, 1, false, 0); (3, 1, 1, false, 0);
    (1, 2, 1, true, d); (2, 2, 1, true, d); (3, 2, 1, true, d); (4, 2, 1, true, d) ]%nat.

Definition TI (by_copy is_runnable : bool) (s : tstate) : Prop :=
  In (tcore s) (tstates is_runnable) /\ (by_copy || is_runnable = true -> uaf s = false).

Lemma TI_init : forall c r, TI c r tinit.
Proof.
  intros c r. split.
  - left. reflexivity.
  - intros _. reflexivity.
Qed.

Lemma TI_step : forall c r s l s', TI c r s -> tstep c r s l = Some s' -> TI c r s'.
Proof.
  intros c r [sp np iv fi de ua] l s' [H U] E.
  unfold tcore, tstates in H.
  destruct c, r; simpl in H, U;
    repeat (destruct H as [H | H];
            [ inversion H; subst; destruct l; simpl in E; inversion E; subst;
              (split; [ simpl; tauto
                      | simpl; intros X; try discriminate X; try rewrite (U X); reflexivity ])
            | ]);
    contradiction.
Qed.

Lemma TI_run : forall c r ls s, TI c r s -> TI c r (trun c r s ls).
Proof.
  intros c r ls. induction ls as [| l rest IH]; intros s H; simpl.
  - exact H.
  - destruct (tstep c r s l) as [s' |] eqn:E.
    + apply IH. eapply TI_step; eauto.
    + apply IH. exact H.
Qed.

Lemma TI_reach : forall c r ls, TI c r (trun c r tinit ls).
Proof. intros. apply TI_run. apply TI_init. Qed.

Lemma live_copy : forall is_runnable ls, uaf (trun true is_runnable tinit ls) = false.
Proof.
  intros r ls. destruct (TI_reach true r ls) as [_ U]. apply U. reflexivity.
Qed.

Lemma runnable_live : forall by_copy ls, uaf (trun by_copy true tinit ls) = false.
Proof.
  intros c ls. destruct (TI_reach c true ls) as [_ U]. apply U. apply orb_true_r.
Qed.

Lemma once_and_ordered : forall by_copy is_runnable ls,
  let s := trun by_copy is_runnable tinit ls in
  (invoked s <= 1)%nat /\
  (finished s = true -> npc s = 2%nat /\ invoked s = 1%nat) /\
  (spc s = 4%nat -> finished s = true /\ invoked s = 1%nat) /\
  (deleted s = (if is_runnable && finished s then 1 else 0)%nat).
Proof.
  intros c r ls s.
  destruct (TI_reach c r ls) as [H _]. fold s in H.
  destruct s as [sp np iv fi de ua].
  unfold tcore, tstates in H.
  destruct r; simpl in H;
    repeat (destruct H as [H | H];
            [ inversion H; subst; simpl;
              repeat split; intros; try discriminate; try lia; try reflexivity
            | ]);
    contradiction.
Qed.

Lemma join_completes : forall by_copy is_runnable ls,
  (spc (trun by_copy is_runnable tinit ls) <> 0)%nat ->
  spc (trun by_copy is_runnable (trun by_copy is_runnable tinit ls) [NInvoke; NFinish; SReturn; SClobber; SJoin]) = 4%nat.
Proof.
  intros c r ls.
  destruct (TI_reach c r ls) as [H _].
  destruct (trun c r tinit ls) as [sp np iv fi de ua].
  unfold tcore, tstates in H. intros N.
  destruct c, r; simpl in H, N;
    repeat (destruct H as [H | H];
            [ inversion H; subst; try (exfalso; apply N; reflexivity); reflexivity
            | ]);
    contradiction.
Qed.

Lemma upstream_capture_refuted : exists ls, uaf (trun false false tinit ls) = true.
Proof. exists [SEnter; SReturn; NInvoke]. vm_compute. reflexivity. Qed.

Print Assumptions live_copy.
Print Assumptions runnable_live.
Print Assumptions once_and_ordered.
Print Assumptions join_completes.
Print Assumptions upstream_capture_refuted.
