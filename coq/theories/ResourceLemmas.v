(* ResourceLemmas.v -- RInv (ResourceInv.v) is an inductive invariant of the rwp::Resource model.
   Interface: rinv_init, rinv_step, rinv_run, rinv_reachable, rinv_exec; plus the counting
   (countb), list_set/nth_error, chain/entry_type/shape_ok helper lemmas used to get there. *)
From Coq Require Import List ZArith Bool Lia Arith.
From Tulz Require Import Common ResourceModel ResourceInv.
Import ListNotations.
Local Open Scope Z_scope.

(* ---------- list_set / nth_error ---------- *)
Lemma length_list_set {A} (l : list A) : forall t x, length (list_set l t x) = length l.
Proof. induction l as [|a l IH]; intros [|t] x; cbn; auto. Qed.

Lemma nth_error_list_set_eq {A} (l : list A) : forall t x,
  (t < length l)%nat -> nth_error (list_set l t x) t = Some x.
Proof. induction l as [|a l IH]; intros [|t] x H; cbn in *; try lia; auto. apply IH. lia. Qed.

Lemma nth_error_list_set_neq {A} (l : list A) : forall t t' x,
  t <> t' -> nth_error (list_set l t x) t' = nth_error l t'.
Proof. induction l as [|a l IH]; intros [|t] [|t'] x H; cbn; auto; try congruence. Qed.

Lemma nth_error_lt {A} (l : list A) t x : nth_error l t = Some x -> (t < length l)%nat.
Proof. intro H. apply nth_error_Some. congruence. Qed.

Lemma nth_error_list_set_inv {A} (l : list A) t t' x y :
  nth_error (list_set l t x) t' = Some y ->
  (t = t' /\ y = x) \/ (t <> t' /\ nth_error l t' = Some y).
Proof.
  intro H. destruct (Nat.eq_dec t t') as [->|N].
  - left. split; auto. assert (L : (t' < length l)%nat).
    { apply nth_error_lt in H. rewrite length_list_set in H. exact H. }
    rewrite nth_error_list_set_eq in H by exact L. congruence.
  - right. split; auto. rewrite nth_error_list_set_neq in H by exact N. exact H.
Qed.

Lemma nth_error_list_set_same {A} (l : list A) t x old :
  nth_error l t = Some old -> nth_error (list_set l t x) t = Some x.
Proof. intro H. apply nth_error_list_set_eq. eapply nth_error_lt; eauto. Qed.

Lemma in_list_set {A} (l : list A) : forall t x y, In y (list_set l t x) -> y = x \/ In y l.
Proof. induction l as [|a l IH]; intros [|t] x y H; cbn in *; auto.
  - destruct H; auto.
  - destruct H; auto. apply IH in H. destruct H; auto. Qed.

(* ---------- countb ---------- *)
Lemma countb_nil {A} (f : A -> bool) : countb f [] = 0.
Proof. reflexivity. Qed.

Lemma countb_cons {A} (f : A -> bool) a l : countb f (a :: l) = b2z (f a) + countb f l.
Proof. unfold countb, Zlen. cbn [filter]. destruct (f a); cbn [length b2z].
  - rewrite Nat2Z.inj_succ. lia.
  - lia. Qed.

Lemma countb_nonneg {A} (f : A -> bool) l : 0 <= countb f l.
Proof. unfold countb, Zlen. lia. Qed.

Lemma b2z_range b : 0 <= b2z b <= 1.
Proof. destruct b; cbn; lia. Qed.

Lemma countb_list_set {A} (f : A -> bool) l : forall t old x,
  nth_error l t = Some old -> countb f (list_set l t x) = countb f l - b2z (f old) + b2z (f x).
Proof. induction l as [|a l IH]; intros [|t] old x H; cbn [nth_error list_set] in *; try discriminate.
  - inversion H; subst. rewrite !countb_cons. lia.
  - rewrite !countb_cons. rewrite (IH _ _ _ H). lia. Qed.

Lemma countb_split {A} (f g h : A -> bool) l :
  (forall x, In x l -> b2z (f x) = b2z (g x) + b2z (h x)) -> countb f l = countb g l + countb h l.
Proof. induction l as [|a l IH]; intro H.
  - reflexivity.
  - rewrite !countb_cons. rewrite IH. rewrite (H a) by (left; auto). lia.
    intros x Hx. apply H. right; auto. Qed.

Lemma countb_ext_in {A} (f g : A -> bool) l :
  (forall x, In x l -> f x = g x) -> countb f l = countb g l.
Proof. induction l as [|a l IH]; intro H.
  - reflexivity.
  - rewrite !countb_cons. rewrite IH. rewrite (H a) by (left; auto). lia.
    intros x Hx. apply H. right; auto. Qed.

Lemma countb_all_false {A} (f : A -> bool) l :
  (forall x, In x l -> f x = false) -> countb f l = 0.
Proof. induction l as [|a l IH]; intro H.
  - reflexivity.
  - rewrite countb_cons. rewrite IH. rewrite (H a) by (left; auto). reflexivity.
    intros x Hx. apply H. right; auto. Qed.

Lemma countb_zero_in {A} (f : A -> bool) l x : countb f l = 0 -> In x l -> f x = false.
Proof. induction l as [|a l IH]; intros H Hin.
  - destruct Hin.
  - rewrite countb_cons in H. pose proof (countb_nonneg f l). pose proof (b2z_range (f a)).
    destruct Hin as [->|Hin].
    + destruct (f x); unfold b2z in *; auto; lia.
    + apply IH; auto. lia. Qed.

Lemma countb_zero_nth {A} (f : A -> bool) l t x : countb f l = 0 -> nth_error l t = Some x -> f x = false.
Proof. intros H Hn. eapply countb_zero_in; eauto. eapply nth_error_In; eauto. Qed.

Lemma countb_one {A} (f : A -> bool) l : forall t x, nth_error l t = Some x -> f x = true -> 1 <= countb f l.
Proof. induction l as [|a l IH]; intros [|t] x H Hf; cbn [nth_error] in *; try discriminate.
  - inversion H; subst. rewrite countb_cons, Hf. pose proof (countb_nonneg f l). unfold b2z. lia.
  - rewrite countb_cons. pose proof (IH _ _ H Hf). pose proof (b2z_range (f a)). lia. Qed.

Lemma countb_two {A} (f : A -> bool) l : forall t1 t2 x1 x2, t1 <> t2 ->
  nth_error l t1 = Some x1 -> nth_error l t2 = Some x2 -> f x1 = true -> f x2 = true -> 2 <= countb f l.
Proof. induction l as [|a l IH]; intros [|t1] [|t2] x1 x2 N H1 H2 F1 F2; cbn [nth_error] in *; try discriminate; try congruence.
  - inversion H1; subst. rewrite countb_cons, F1. pose proof (countb_one f l _ _ H2 F2). unfold b2z. lia.
  - inversion H2; subst. rewrite countb_cons, F2. pose proof (countb_one f l _ _ H1 F1). unfold b2z. lia.
  - rewrite countb_cons. assert (t1 <> t2) by congruence.
    pose proof (IH _ _ _ _ H H1 H2 F1 F2). pose proof (b2z_range (f a)). lia. Qed.

Lemma countb_pos_ex {A} (f : A -> bool) l : 0 < countb f l -> exists t x, nth_error l t = Some x /\ f x = true.
Proof. induction l as [|a l IH]; intro H.
  - rewrite countb_nil in H. lia.
  - rewrite countb_cons in H. destruct (f a) eqn:E.
    + exists 0%nat, a. auto.
    + unfold b2z in H. assert (H' : 0 < countb f l) by lia. destruct (IH H') as (t & x & Hn & Hf). exists (S t), x. auto. Qed.

Lemma countb_map {A} (f : A -> bool) (g : A -> A) l : (forall x, f (g x) = f x) -> countb f (map g l) = countb f l.
Proof. intro H. induction l as [|a l IH]; cbn [map].
  - reflexivity.
  - rewrite !countb_cons, IH, H. reflexivity. Qed.

Lemma countb_le_len {A} (f : A -> bool) l : countb f l <= Zlen l.
Proof. induction l as [|a l IH].
  - cbn. lia.
  - rewrite countb_cons. unfold Zlen in *. cbn [length]. rewrite Nat2Z.inj_succ. pose proof (b2z_range (f a)). lia. Qed.

(* ---------- chain / entry_type / shape_ok ---------- *)
Lemma chain_le q : forall lo hi, chain lo q hi -> lo <= hi.
Proof. induction q as [|[ty b] q IH]; intros lo hi H; cbn in H.
  - lia.
  - destruct H as [H1 H2]. apply IH in H2. lia. Qed.

Lemma chain_snoc q : forall lo hi ty x, chain lo q hi -> hi < x -> chain lo (q ++ [(ty, x)]) x.
Proof. induction q as [|[ty' b] q IH]; intros lo hi ty x H Hx; cbn in *.
  - split; lia.
  - destruct H as [H1 H2]. split; auto. eapply IH; eauto. Qed.

Lemma chain_snoc_inv q : forall lo hi ty b, chain lo (q ++ [(ty, b)]) hi ->
  b = hi /\ exists mid, chain lo q mid /\ mid < b.
Proof. induction q as [|[ty' b'] q IH]; intros lo hi ty b H; cbn in *.
  - destruct H as [H1 H2]. split; auto. exists lo. split; auto.
  - destruct H as [H1 H2]. apply IH in H2. destruct H2 as [E (mid & C & Hm)]. split; auto.
    exists mid. split; auto. Qed.

Lemma entry_type_snoc q ty b id :
  entry_type (q ++ [(ty, b)]) id =
  match entry_type q id with Some o => Some o | None => if id <? b then Some ty else None end.
Proof. induction q as [|[ty' b'] q IH]; cbn.
  - reflexivity.
  - destruct (id <? b'); auto. Qed.

Lemma entry_type_none_chain q : forall lo hi id, chain lo q hi -> hi <= id -> entry_type q id = None.
Proof. induction q as [|[ty b] q IH]; intros lo hi id H Hid; cbn in *.
  - reflexivity.
  - destruct H as [H1 H2]. pose proof (chain_le _ _ _ H2).
    destruct (id <? b) eqn:E. apply Z.ltb_lt in E. lia. eapply IH; eauto. Qed.

Lemma enqueue_cases q op x :
  (enqueue q op x = q ++ [(op, x)] /\ (op = Wr \/ q = [] \/ exists q0 b, q = q0 ++ [(Wr, b)]))
  \/ (op = Rd /\ exists q0 b, q = q0 ++ [(Rd, b)] /\ enqueue q op x = q0 ++ [(Rd, x)]).
Proof.
  destruct op.
  2:{ left. split; auto. }
  unfold enqueue. destruct (rev q) as [|[ty b] rq] eqn:E.
  - left. split; auto. right. left. rewrite <- (rev_involutive q), E. reflexivity.
  - assert (Q : q = rev rq ++ [(ty, b)]). { rewrite <- (rev_involutive q), E. reflexivity. }
    destruct ty.
    + right. split; auto. exists (rev rq), b. split; auto.
    + left. split; auto. right. right. exists (rev rq), b. auto. Qed.

Lemma shape_snoc_wr q : forall lo hi, chain lo q hi -> shape_ok lo q -> shape_ok lo (q ++ [(Wr, hi + 1)]).
Proof. induction q as [|[ty b] q IH]; intros lo hi C S; cbn [app].
  - cbn in *. split; auto. lia.
  - cbn [chain] in C. destruct C as [C1 C2]. destruct ty; cbn [shape_ok] in *.
    + destruct S as [S1 S2]. split.
      * destruct q as [|[[|] ?] ?]; cbn; auto.
      * apply IH; auto.
    + destruct S as [S1 S2]. split; auto. Qed.

Lemma shape_snoc_rd_nil lo x : shape_ok lo [(Rd, x)].
Proof. cbn. auto. Qed.

Lemma shape_snoc_rd_wr q0 : forall lo b x, shape_ok lo (q0 ++ [(Wr, b)]) -> shape_ok lo ((q0 ++ [(Wr, b)]) ++ [(Rd, x)]).
Proof. induction q0 as [|[ty b'] q IH]; intros lo b x S; cbn [app] in *.
  - cbn in *. destruct S. auto.
  - destruct ty; cbn [shape_ok] in *.
    + destruct S as [S1 S2]. split.
      * destruct q as [|[[|] ?] ?]; cbn in *; auto.
      * apply IH; auto.
    + destruct S as [S1 S2]. split; auto. Qed.

Lemma shape_replace_rd q0 : forall lo b x, shape_ok lo (q0 ++ [(Rd, b)]) -> shape_ok lo (q0 ++ [(Rd, x)]).
Proof. induction q0 as [|[ty b'] q IH]; intros lo b x S; cbn [app] in *.
  - cbn in *. auto.
  - destruct ty; cbn [shape_ok] in *.
    + destruct S as [S1 S2]. split.
      * destruct q as [|[[|] ?] ?]; cbn in *; auto.
      * eapply IH; eauto.
    + destruct S as [S1 S2]. split; auto. eapply IH; eauto. Qed.

Lemma chain_enqueue q op lo idc : chain lo q idc -> chain lo (enqueue q op (idc + 1)) (idc + 1).
Proof. intro C. destruct (enqueue_cases q op (idc + 1)) as [[E _]|[-> (q0 & b & Q & E)]]; rewrite E.
  - eapply chain_snoc; eauto. lia.
  - subst q. apply chain_snoc_inv in C. destruct C as [-> (mid & C & Hm)]. eapply chain_snoc; eauto. lia. Qed.

Lemma shape_enqueue q op lo idc : chain lo q idc -> shape_ok lo q -> shape_ok lo (enqueue q op (idc + 1)).
Proof. intros C S. destruct (enqueue_cases q op (idc + 1)) as [[E D]|[-> (q0 & b & Q & E)]]; rewrite E.
  - destruct op.
    + destruct D as [D|[->|(q0 & b & ->)]]; try discriminate.
      * apply shape_snoc_rd_nil.
      * apply shape_snoc_rd_wr; auto.
    + apply shape_snoc_wr; auto.
  - subst q. eapply shape_replace_rd; eauto. Qed.

Lemma entry_enqueue_new q op lo idc : chain lo q idc -> entry_type (enqueue q op (idc + 1)) idc = Some op.
Proof. intro C. destruct (enqueue_cases q op (idc + 1)) as [[E _]|[-> (q0 & b & Q & E)]]; rewrite E.
  - rewrite entry_type_snoc. rewrite (entry_type_none_chain _ _ _ _ C) by lia.
    destruct (idc <? idc + 1) eqn:F; auto. apply Z.ltb_ge in F. lia.
  - subst q. apply chain_snoc_inv in C. destruct C as [-> (mid & C & Hm)].
    rewrite entry_type_snoc. rewrite (entry_type_none_chain _ _ _ _ C) by lia.
    destruct (idc <? idc + 1) eqn:F; auto. apply Z.ltb_ge in F. lia. Qed.

Lemma entry_enqueue_old q op lo idc id o : chain lo q idc -> id < idc ->
  entry_type q id = Some o -> entry_type (enqueue q op (idc + 1)) id = Some o.
Proof. intros C Hid H. destruct (enqueue_cases q op (idc + 1)) as [[E _]|[-> (q0 & b & Q & E)]]; rewrite E.
  - rewrite entry_type_snoc, H. reflexivity.
  - subst q. apply chain_snoc_inv in C. destruct C as [-> (mid & C & Hm)].
    rewrite entry_type_snoc in *. destruct (entry_type q0 id); auto.
    destruct (id <? idc) eqn:F.
    + destruct (id <? idc + 1) eqn:G; auto. apply Z.ltb_lt in F. apply Z.ltb_ge in G. lia.
    + discriminate. Qed.

Lemma enqueue_head_rd q op x b q'' : enqueue q op x = (Rd, b) :: q'' ->
  (q = [] /\ op = Rd) \/ exists b0 q1, q = (Rd, b0) :: q1.
Proof. intro H. destruct (enqueue_cases q op x) as [[E _]|[-> (q0 & b1 & Q & E)]]; rewrite E in H.
  - destruct q as [|e q1].
    + left. cbn in H. inversion H. auto.
    + right. cbn in H. inversion H. eauto.
  - right. subst q. destruct q0 as [|e q1]; cbn in *.
    + eauto.
    + inversion H. eauto. Qed.

Ltac projs := cbn [rs thr queue activeOp activeCount idCounter ubound assert_failed arrivals hist] in *.
Ltac inv_destruct H :=
  destruct H as [Hcount Hop Hwr Hnone Hidle Hids Hchain Hparked Hcnt Hshape Hnotif Hhead Hassert]; projs.

Definition notif_ok (th : list tstate) (ub : Z) : Prop :=
  (exists t op id a, nth_error th t = Some (Parked op id false a) /\ id < ub) ->
  exists t', nth_error th t' = Some Notifying.

Lemma notif_preserved th ub t old new :
  nth_error th t = Some old -> old <> Notifying ->
  (forall op id a, new = Parked op id false a -> ub <= id) ->
  notif_ok th ub -> notif_ok (list_set th t new) ub.
Proof.
  intros Hn Hold Hnew H (t1 & op & id & a & H1 & Hid).
  apply nth_error_list_set_inv in H1. destruct H1 as [[-> E]|[N H1]].
  - symmetry in E. apply Hnew in E. lia.
  - destruct H as [t' Ht']. { exists t1, op, id, a. auto. }
    exists t'. rewrite nth_error_list_set_neq; auto. intro; subst. congruence.
Qed.

Lemma aop_eqb_refl a : aop_eqb a a = true.
Proof. destruct a; reflexivity. Qed.

Lemma rinv_req_fast q ao cnt idc ub th arr h af t op arr' h' :
  RInv (mkS (mkR q ao cnt idc ub) th arr h af) ->
  nth_error th t = Some Idle ->
  fast (mkR q ao cnt idc ub) op = true ->
  RInv (mkS (mkR q (aop_of op) (cnt + 1) idc ub) (list_set th t (Holding op)) arr' h' af).
Proof.
  intros HI Ht Hf. inv_destruct HI.
  unfold fast in Hf; projs.
  destruct q as [|e q]; [|discriminate].
  assert (Hao : ao = ANone \/ (ao = ARd /\ op = Rd)).
  { destruct ao, op; try discriminate; auto. }
  pose proof (countb_nonneg is_holding th) as P1.
  pose proof (countb_nonneg (is_admitted ub) th) as P2.
  constructor; projs.
  - rewrite !(countb_list_set _ _ _ _ _ Ht). cbn [is_holding is_admitted b2z]. lia.
  - intros t' st Hn Hs. apply nth_error_list_set_inv in Hn. destruct Hn as [[-> ->]|[N Hn]].
    + reflexivity.
    + specialize (Hop _ _ Hn Hs). destruct Hao as [->|[-> ->]].
      * destruct (top st) as [[]|]; discriminate.
      * exact Hop.
  - intro E. destruct Hao as [->|[-> ->]]; [|discriminate].
    assert (cnt = 0) by (apply Hnone; auto). lia.
  - split; intro E. lia. destruct op; discriminate.
  - intro; lia.
  - auto.
  - auto.
  - intros t' op' id nt a Hn. apply nth_error_list_set_inv in Hn.
    destruct Hn as [[-> E]|[N Hn]]; [discriminate|]. eauto.
  - intros x Hx. rewrite (countb_list_set _ _ _ _ _ Ht). cbn [is_waiting_below b2z].
    rewrite Hcnt by auto. lia.
  - auto.
  - eapply (notif_preserved th ub t); eauto. discriminate. intros; discriminate.
  - intros; discriminate.
  - auto.
Qed.

Lemma rinv_req_slow q ao cnt idc ub th arr h af t op arr' h' a :
  RInv (mkS (mkR q ao cnt idc ub) th arr h af) ->
  nth_error th t = Some Idle ->
  fast (mkR q ao cnt idc ub) op = false ->
  RInv (mkS (mkR (enqueue q op (idc + 1)) ao cnt (idc + 1) ub)
            (list_set th t (Parked op idc false a)) arr' h' af).
Proof.
  intros HI Ht Hf. inv_destruct HI.
  assert (Hge : idc <? ub = false) by (apply Z.ltb_ge; lia).
  constructor; projs.
  - rewrite !(countb_list_set _ _ _ _ _ Ht). cbn [is_holding is_admitted b2z]. rewrite Hge. cbn [b2z]. lia.
  - intros t' st Hn Hs. apply nth_error_list_set_inv in Hn. destruct Hn as [[-> ->]|[N Hn]].
    + cbn [is_holding is_admitted orb] in Hs. rewrite Hge in Hs. discriminate.
    + eauto.
  - auto.
  - auto.
  - intro E. apply Hidle in E. inversion E; subst. destruct op; discriminate Hf.
  - lia.
  - apply chain_enqueue; auto.
  - intros t' op' id nt a' Hn. apply nth_error_list_set_inv in Hn. destruct Hn as [[-> E]|[N Hn]].
    + inversion E; subst. split. lia. intros _. eapply entry_enqueue_new; eauto.
    + destruct (Hparked _ _ _ _ _ Hn) as [R1 R2]. split. lia. intro U.
      eapply entry_enqueue_old; eauto. lia.
  - intros x Hx. rewrite (countb_list_set _ _ _ _ _ Ht). cbn [is_waiting_below b2z].
    destruct (Z.eq_dec x (idc + 1)) as [->|Nx].
    + rewrite (countb_ext_in _ (is_waiting_below ub idc) th).
      * rewrite Hcnt by lia.
        replace ((ub <=? idc) && (idc <? idc + 1)) with true. cbn [b2z]. lia.
        symmetry. apply andb_true_intro. split. apply Z.leb_le; lia. apply Z.ltb_lt; lia.
      * intros st Hin. apply In_nth_error in Hin. destruct Hin as [t' Hn]. destruct st; auto.
        cbn [is_waiting_below]. destruct (Hparked _ _ _ _ _ Hn) as [R1 _]. f_equal.
        transitivity true. apply Z.ltb_lt; lia. symmetry; apply Z.ltb_lt; lia.
    + rewrite Hcnt by lia. replace (idc <? x) with false. rewrite andb_false_r. cbn [b2z]. lia.
      symmetry. apply Z.ltb_ge. lia.
  - apply shape_enqueue; auto.
  - eapply (notif_preserved th ub t); eauto. discriminate. intros ? ? ? E. inversion E; subst. lia.
  - intros b q' E. apply enqueue_head_rd in E. destruct E as [[-> ->]|(b0 & q1 & ->)].
    + unfold fast in Hf; projs. destruct ao; try discriminate; auto.
    + eapply Hhead; eauto.
  - auto.
Qed.

Lemma rinv_wake_in q ao cnt idc ub th arr h af t op id a h' :
  RInv (mkS (mkR q ao cnt idc ub) th arr h af) ->
  nth_error th t = Some (Parked op id true a) ->
  id < ub ->
  RInv (mkS (mkR q ao cnt idc ub) (list_set th t (Holding op)) arr h' af).
Proof.
  intros HI Ht Hid. inv_destruct HI.
  assert (Hlt : id <? ub = true) by (apply Z.ltb_lt; lia).
  constructor; projs; auto.
  - rewrite !(countb_list_set _ _ _ _ _ Ht). cbn [is_holding is_admitted b2z]. rewrite Hlt. cbn [b2z]. lia.
  - intros t' st Hn Hs. apply nth_error_list_set_inv in Hn. destruct Hn as [[-> ->]|[N Hn]].
    + apply (Hop _ _ Ht). cbn [is_holding is_admitted orb]. exact Hlt.
    + eauto.
  - intros t' op' id' nt a' Hn. apply nth_error_list_set_inv in Hn.
    destruct Hn as [[-> E]|[N Hn]]; [discriminate|]. eauto.
  - intros x Hx. rewrite (countb_list_set _ _ _ _ _ Ht). cbn [is_waiting_below b2z].
    replace (ub <=? id) with false. cbn [andb b2z]. rewrite Hcnt by auto. lia.
    symmetry. apply Z.leb_gt. lia.
  - eapply (notif_preserved th ub t); eauto. discriminate. intros; discriminate.
Qed.

Lemma rinv_reflag q ao cnt idc ub th arr h af t op id nt nt' a :
  RInv (mkS (mkR q ao cnt idc ub) th arr h af) ->
  nth_error th t = Some (Parked op id nt a) ->
  (nt' = false -> ub <= id) ->
  RInv (mkS (mkR q ao cnt idc ub) (list_set th t (Parked op id nt' a)) arr h af).
Proof.
  intros HI Ht Hid. inv_destruct HI.
  constructor; projs; auto.
  - rewrite !(countb_list_set _ _ _ _ _ Ht). cbn [is_holding is_admitted b2z]. lia.
  - intros t' st Hn Hs. apply nth_error_list_set_inv in Hn. destruct Hn as [[-> ->]|[N Hn]].
    + apply (Hop _ _ Ht). exact Hs.
    + eauto.
  - intros t' op' id' nt0 a' Hn. apply nth_error_list_set_inv in Hn.
    destruct Hn as [[-> E]|[N Hn]].
    + inversion E; subst. eauto.
    + eauto.
  - intros x Hx. rewrite (countb_list_set _ _ _ _ _ Ht). cbn [is_waiting_below b2z].
    rewrite Hcnt by auto. lia.
  - eapply (notif_preserved th ub t); eauto. discriminate.
    intros ? ? ? E. inversion E; subst. auto.
Qed.

Lemma notify_holding x : is_holding (notify_one_thread x) = is_holding x.
Proof. destruct x; reflexivity. Qed.
Lemma notify_admitted ub x : is_admitted ub (notify_one_thread x) = is_admitted ub x.
Proof. destruct x; reflexivity. Qed.
Lemma notify_waiting ub y x : is_waiting_below ub y (notify_one_thread x) = is_waiting_below ub y x.
Proof. destruct x; reflexivity. Qed.
Lemma notify_top x : top (notify_one_thread x) = top x.
Proof. destruct x; reflexivity. Qed.

Lemma nth_error_map_inv {A B} (f : A -> B) l t y :
  nth_error (map f l) t = Some y -> exists x, nth_error l t = Some x /\ y = f x.
Proof. rewrite nth_error_map. destruct (nth_error l t); cbn; intro H; inversion H. eauto. Qed.

Lemma rinv_notify q ao cnt idc ub th arr h af t :
  RInv (mkS (mkR q ao cnt idc ub) th arr h af) ->
  nth_error th t = Some Notifying ->
  RInv (mkS (mkR q ao cnt idc ub) (map notify_one_thread (list_set th t Idle)) arr h af).
Proof.
  intros HI Ht. inv_destruct HI.
  constructor; projs; auto.
  - rewrite !countb_map by (intros; auto using notify_holding, notify_admitted).
    rewrite !(countb_list_set _ _ _ _ _ Ht). cbn [is_holding is_admitted b2z]. lia.
  - intros t' st Hn Hs. apply nth_error_map_inv in Hn. destruct Hn as (st0 & Hn & ->).
    rewrite notify_holding, notify_admitted in Hs. rewrite notify_top.
    apply nth_error_list_set_inv in Hn. destruct Hn as [[-> ->]|[N Hn]].
    + discriminate.
    + eauto.
  - intros t' op' id' nt0 a' Hn. apply nth_error_map_inv in Hn. destruct Hn as (st0 & Hn & E).
    apply nth_error_list_set_inv in Hn. destruct Hn as [[-> ->]|[N Hn]]; [discriminate|].
    destruct st0; try discriminate. cbn in E. inversion E; subst. eauto.
  - intros x Hx. rewrite countb_map by (intros; apply notify_waiting).
    rewrite (countb_list_set _ _ _ _ _ Ht). cbn [is_waiting_below b2z]. rewrite Hcnt by auto. lia.
  - intros (t1 & op & id & a & H1 & _). apply nth_error_map_inv in H1. destruct H1 as (st0 & _ & E).
    destruct st0; discriminate.
Qed.

Lemma holding_op s t op : RInv s -> nth_error (thr s) t = Some (Holding op) -> activeOp (rs s) = aop_of op.
Proof. intros HI Ht. pose proof (I_op s HI _ _ Ht eq_refl) as H. cbn in H. congruence. Qed.

Lemma rinv_rel_more q ao cnt idc ub th arr h af t op :
  RInv (mkS (mkR q ao cnt idc ub) th arr h af) ->
  nth_error th t = Some (Holding op) ->
  cnt - 1 <> 0 ->
  RInv (mkS (mkR q ao (cnt - 1) idc ub) (list_set th t Idle) arr h
            (af || negb (aop_eqb ao (aop_of op)))).
Proof.
  intros HI Ht Hc. pose proof (holding_op _ _ _ HI Ht) as Hao. inv_destruct HI.
  constructor; projs; auto.
  - rewrite !(countb_list_set _ _ _ _ _ Ht). cbn [is_holding is_admitted b2z]. lia.
  - intros t' st Hn Hs. apply nth_error_list_set_inv in Hn. destruct Hn as [[-> ->]|[N Hn]].
    + discriminate.
    + eauto.
  - intro E. apply Hwr in E. lia.
  - split; intro E. lia. subst ao. destruct op; discriminate.
  - intro; lia.
  - intros t' op' id' nt0 a' Hn. apply nth_error_list_set_inv in Hn.
    destruct Hn as [[-> E]|[N Hn]]; [discriminate|]. eauto.
  - intros x Hx. rewrite (countb_list_set _ _ _ _ _ Ht). cbn [is_waiting_below b2z].
    rewrite Hcnt by auto. lia.
  - eapply (notif_preserved th ub t); eauto. discriminate. intros; discriminate.
  - subst ao af. rewrite aop_eqb_refl. reflexivity.
Qed.

Lemma wb_split ub b x st : ub <= b <= x ->
  b2z (is_waiting_below ub x st) = b2z (is_waiting_below ub b st) + b2z (is_waiting_below b x st).
Proof. intro H. destruct st; cbn [is_waiting_below b2z]; try lia.
  destruct (Z.leb_spec ub id), (Z.ltb_spec id x), (Z.ltb_spec id b), (Z.leb_spec b id); cbn; lia. Qed.

Lemma rinv_rel_last q ao cnt idc ub th arr h af t op :
  RInv (mkS (mkR q ao cnt idc ub) th arr h af) ->
  nth_error th t = Some (Holding op) ->
  cnt - 1 = 0 ->
  RInv (mkS (select true (mkR q ao (cnt - 1) idc ub)) (list_set th t Notifying) arr h
            (af || negb (aop_eqb ao (aop_of op)))).
Proof.
  intros HI Ht Hc. pose proof (holding_op _ _ _ HI Ht) as Hao. inv_destruct HI.
  pose proof (countb_nonneg (is_admitted ub) th) as P2.
  pose proof (countb_one is_holding th _ _ Ht eq_refl) as P1.
  assert (HH : countb is_holding th = 1) by lia.
  assert (HA : countb (is_admitted ub) th = 0) by lia.
  assert (Hbad : af || negb (aop_eqb ao (aop_of op)) = false).
  { subst ao af. rewrite aop_eqb_refl. reflexivity. }
  assert (Honly : forall t' st, nth_error th t' = Some st -> t <> t' -> is_holding st = false).
  { intros t' st Hn N. destruct (is_holding st) eqn:E; auto.
    pose proof (countb_two is_holding th _ _ _ _ N Ht Hn eq_refl E). lia. }
  assert (Hnoadm : forall t' o id nt a, nth_error th t' = Some (Parked o id nt a) -> ub <= id).
  { intros t' o id nt a Hn. pose proof (countb_zero_nth _ _ _ _ HA Hn) as E. cbn in E.
    apply Z.ltb_ge in E. exact E. }
  assert (Htl : (t < length th)%nat) by (eapply nth_error_lt; eauto).
  unfold select; projs. destruct q as [|[ty b] q'].
  - (* empty queue: back to r0 *)
    cbn [chain] in Hchain.
    assert (Hnop : forall t' o id nt a, nth_error th t' = Some (Parked o id nt a) -> False).
    { intros t' o id nt a Hn. pose proof (Hnoadm _ _ _ _ _ Hn). destruct (Hparked _ _ _ _ _ Hn). lia. }
    assert (Hnop' : forall f, (forall st, is_parked st = false -> f st = false) -> countb f th = 0).
    { intros f Hf. apply countb_all_false. intros st Hin. apply In_nth_error in Hin. destruct Hin as [t' Hn].
      destruct st; try (apply Hf; reflexivity). exfalso. eapply Hnop; eauto. }
    constructor; projs.
    + rewrite !(countb_list_set _ _ _ _ _ Ht). cbn [is_holding is_admitted b2z].
      rewrite (Hnop' (is_admitted 0)). lia. intros [] E; try discriminate; reflexivity.
    + intros t' st Hn Hs. apply nth_error_list_set_inv in Hn. destruct Hn as [[-> ->]|[N Hn]].
      * discriminate.
      * rewrite (Honly _ _ Hn N) in Hs. destruct st; try discriminate. exfalso. eapply Hnop; eauto.
    + discriminate.
    + split; auto.
    + intros _. rewrite Hc. reflexivity.
    + lia.
    + cbn. reflexivity.
    + intros t' op' id' nt0 a' Hn. apply nth_error_list_set_inv in Hn.
      destruct Hn as [[-> E]|[N Hn]]; [discriminate|]. exfalso. eapply Hnop; eauto.
    + intros x Hx. rewrite (countb_list_set _ _ _ _ _ Ht). cbn [is_waiting_below b2z].
      rewrite Hnop'. lia. intros [] E; try discriminate; reflexivity.
    + cbn. auto.
    + intros _. exists t. apply nth_error_list_set_eq. exact Htl.
    + intros; discriminate.
    + exact Hbad.
  - (* pop the head entry *)
    cbn [chain] in Hchain. destruct Hchain as [Hlt Hch]. pose proof (chain_le _ _ _ Hch) as Hble.
    assert (Hadm : forall st, In st th -> is_admitted b st = is_waiting_below ub b st).
    { intros st Hin. apply In_nth_error in Hin. destruct Hin as [t' Hn]. destruct st; auto.
      cbn [is_admitted is_waiting_below]. pose proof (Hnoadm _ _ _ _ _ Hn) as G.
      apply Z.leb_le in G. rewrite G. reflexivity. }
    constructor; projs.
    + rewrite !(countb_list_set _ _ _ _ _ Ht). cbn [is_holding is_admitted b2z].
      rewrite (countb_ext_in _ _ _ Hadm). rewrite Hcnt by lia. lia.
    + intros t' st Hn Hs. apply nth_error_list_set_inv in Hn. destruct Hn as [[-> ->]|[N Hn]].
      * discriminate.
      * rewrite (Honly _ _ Hn N) in Hs. destruct st; try discriminate.
        cbn [is_admitted orb] in Hs. apply Z.ltb_lt in Hs.
        destruct (Hparked _ _ _ _ _ Hn) as [R1 R2]. pose proof (Hnoadm _ _ _ _ _ Hn) as G.
        specialize (R2 G). cbn [entry_type] in R2. apply Z.ltb_lt in Hs. rewrite Hs in R2.
        cbn [top option_map]. congruence.
    + intro E. destruct ty; try discriminate. cbn [shape_ok] in Hshape. lia.
    + split; intro E. lia. destruct ty; discriminate.
    + intro; lia.
    + lia.
    + exact Hch.
    + intros t' op' id' nt0 a' Hn. apply nth_error_list_set_inv in Hn.
      destruct Hn as [[-> E]|[N Hn]]; [discriminate|].
      destruct (Hparked _ _ _ _ _ Hn) as [R1 R2]. split; auto. intro G.
      assert (G' : ub <= id') by lia. specialize (R2 G'). cbn [entry_type] in R2.
      replace (id' <? b) with false in R2. exact R2. symmetry. apply Z.ltb_ge. lia.
    + intros x Hx. rewrite (countb_list_set _ _ _ _ _ Ht). cbn [is_waiting_below b2z].
      assert (S : countb (is_waiting_below ub x) th =
                  countb (is_waiting_below ub b) th + countb (is_waiting_below b x) th).
      { apply countb_split. intros st _. apply wb_split. lia. }
      rewrite (Hcnt x) in S by lia. rewrite (Hcnt b) in S by lia. lia.
    + destruct ty; cbn [shape_ok] in Hshape; tauto.
    + intros _. exists t. apply nth_error_list_set_eq. exact Htl.
    + intros b' q'' E. subst q'. destruct ty; auto. cbn [shape_ok] in Hshape. tauto.
    + exact Hbad.
Qed.

Lemma rinv_init : forall n, RInv (init n).
Proof.
  intro n. unfold init.
  assert (Hall : forall t st, nth_error (repeat Idle n) t = Some st -> st = Idle).
  { intros t st H. apply nth_error_In in H. apply repeat_spec in H. exact H. }
  assert (Hz : forall f, f Idle = false -> countb f (repeat Idle n) = 0).
  { intros f Hf. apply countb_all_false. intros x Hin. apply repeat_spec in Hin. subst. exact Hf. }
  constructor; projs; cbn [r0 queue activeOp activeCount idCounter ubound].
  - rewrite !Hz by reflexivity. reflexivity.
  - intros t st H Hs. apply Hall in H. subst. discriminate.
  - discriminate.
  - split; auto.
  - auto.
  - lia.
  - cbn. reflexivity.
  - intros t op id nt a H. apply Hall in H. discriminate.
  - intros x Hx. rewrite Hz by reflexivity. lia.
  - cbn. auto.
  - intros (t & op & id & a & H & _). apply Hall in H. discriminate.
  - intros; discriminate.
  - reflexivity.
Qed.

Lemma rinv_step : forall s l s', RInv s -> step true s l = Some s' -> RInv s'.
Proof.
  intros [[q ao cnt idc ub] th arr h af] l s' HI Hs.
  destruct l as [t op|t|t|t|t]; unfold step in Hs; projs.
  - destruct (nth_error th t) as [[| | |]|] eqn:Ht; try discriminate.
    destruct (fast (mkR q ao cnt idc ub) op) eqn:Hf; inversion Hs; subst; clear Hs.
    + eapply rinv_req_fast; eauto.
    + eapply rinv_req_slow; eauto.
  - destruct (nth_error th t) as [[|op id [|] a| |]|] eqn:Ht; try discriminate.
    destruct (id <? ub) eqn:Hid; inversion Hs; subst; clear Hs.
    + apply Z.ltb_lt in Hid. eapply rinv_wake_in; eauto.
    + apply Z.ltb_ge in Hid. eapply rinv_reflag; eauto.
  - destruct (nth_error th t) as [[|op id [|] a| |]|] eqn:Ht; try discriminate.
    inversion Hs; subst; clear Hs. eapply rinv_reflag; eauto. discriminate.
  - destruct (nth_error th t) as [[| |op|]|] eqn:Ht; try discriminate.
    destruct (cnt - 1 =? 0) eqn:Hc; inversion Hs; subst; clear Hs.
    + apply Z.eqb_eq in Hc. eapply rinv_rel_last; eauto.
    + apply Z.eqb_neq in Hc. eapply rinv_rel_more; eauto.
  - destruct (nth_error th t) as [[| | |]|] eqn:Ht; try discriminate.
    inversion Hs; subst; clear Hs. eapply rinv_notify; eauto.
Qed.

Lemma rinv_run : forall ls s, RInv s -> RInv (run true s ls).
Proof.
  induction ls as [|l ls IH]; intros s HI; cbn [run]; auto.
  destruct (step true s l) eqn:E; auto. apply IH. eapply rinv_step; eauto.
Qed.

Lemma rinv_reachable : forall n ls, RInv (run true (init n) ls).
Proof. intros. apply rinv_run. apply rinv_init. Qed.

Lemma rinv_exec : forall ls s s', RInv s -> exec true s ls = Some s' -> RInv s'.
Proof.
  induction ls as [|l ls IH]; intros s s' HI H; cbn [exec] in H.
  - inversion H; subst; auto.
  - destruct (step true s l) eqn:E; try discriminate. eapply IH; [|eauto]. eapply rinv_step; eauto.
Qed.
