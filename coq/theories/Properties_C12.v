(* Properties_C12.v — rwp::Resource lets readers share: no reader waits without a writer.
   Only statements, each closed by [exact <lemma of ResourceProofs>], and Print Assumptions. *)
From Coq Require Import List ZArith Bool Lia.
From Tulz Require Import RaceModel AtomicSections.
From TulzGen Require Import Accesses.
From Tulz Require Import Common ResourceModel ResourceInv ResourceLemmas ResourceProofs ResourceOrder.
Import ListNotations.
Local Open Scope Z_scope.

(* a read request is granted without waiting whenever no thread holds or waits for the write
   lock — in every reachable state, whatever happened before *)
Theorem C12_reader_fast_path : forall n ls t s',
  no_writer (run true (init n) ls) ->
  step true (run true (init n) ls) (Req t Rd) = Some s' ->
  nth_error (thr s') t = Some (Holding Rd).
Proof. exact reader_fast_path. Qed.
Print Assumptions C12_reader_fast_path.

(* any number of readers can be inside at the same time *)
Theorem C12_all_readers_inside : forall n,
  Forall (fun st => st = Holding Rd) (thr (run true (init n) (map (fun t => Req t Rd) (seq 0 n)))).
Proof. exact all_readers_inside. Qed.
Print Assumptions C12_all_readers_inside.

(* readers that queued up consecutively (no parked writer between them in arrival order) are
   admitted together: in every reachable state either both are admitted or neither is *)
Theorem C12_consecutive_readers_together : forall n ls ta tb ia ib na nb a b,
  nth_error (thr (run true (init n) ls)) ta = Some (Parked Rd ia na a) ->
  nth_error (thr (run true (init n) ls)) tb = Some (Parked Rd ib nb b) ->
  (a < b)%nat ->
  (forall tw iw nw w, nth_error (thr (run true (init n) ls)) tw = Some (Parked Wr iw nw w) -> ~ (a < w < b)%nat) ->
  (ia < ubound (rs (run true (init n) ls)) <-> ib < ubound (rs (run true (init n) ls))).
Proof. exact consecutive_readers_together. Qed.
Print Assumptions C12_consecutive_readers_together.

(* an admitted request can always enter without anybody leaving: at most a pending
   notify_all and its own wake-up are needed — so readers of one batch that wait for each
   other inside the critical section cannot deadlock *)
Theorem C12_admitted_can_enter : forall n ls t op id nt a,
  nth_error (thr (run true (init n) ls)) t = Some (Parked op id nt a) ->
  id < ubound (rs (run true (init n) ls)) ->
  exists ls' s', exec true (run true (init n) ls) ls' = Some s' /\
                 Forall (fun l => match l with Rel _ => False | _ => True end) ls' /\
                 nth_error (thr s') t = Some (Holding op).
Proof. exact admitted_can_enter. Qed.
Print Assumptions C12_admitted_can_enter.

Example C12_nonvacuous :
  map tstate_z (thr (run true (init 4) [Req 0 Wr; Req 1 Rd; Req 2 Rd; Req 3 Rd; Rel 0]))
  = [5; 1; 1; 1] /\ activeCount (rs (run true (init 4) [Req 0 Wr; Req 1 Rd; Req 2 Rd; Req 3 Rd; Rel 0])) = 3.
Proof. vm_compute. split; reflexivity. Qed.

(* The premise of the atomic-step model, checked on the access rows the translator extracted from the
   CURRENT source (TulzGen.Accesses, regenerated on every run): every access to the Resource's state in
   Resource::lock / Resource::unlock (and the helpers they call) is made holding m_mutex, hence no two
   threads are ever inside those sections at once (AtomicSections.v). *)
Theorem C12_sections_atomic : forall n os t1 t2 a1 a2,
  t1 <> t2 -> In a1 TulzGen.Accesses.extracted_accesses -> In a2 TulzGen.Accesses.extracted_accesses ->
  RaceModel.a_comp a1 = resource_component -> RaceModel.a_comp a2 = resource_component ->
  RaceModel.can_perform (RaceModel.lrun (RaceModel.linit n) os) t1 a1 ->
  RaceModel.can_perform (RaceModel.lrun (RaceModel.linit n) os) t2 a2 -> False.
Proof. apply (AtomicSections.sections_exclusive resource_component resource_mutex). vm_compute. reflexivity. Qed.
Print Assumptions C12_sections_atomic.
