(* SubjectProofs.v — the pointer-level model of Subject refines the specification, is memory
   safe, destroys every observer exactly once; delivery and never-again on the specification. *)
From Coq Require Import List ZArith Bool Lia Arith.
From Tulz Require Import Common SubjectModel SubjectSpec SubjectLemmasA SubjectLemmasB SubjectLemmasC
  SubjectLemmasD SubjectLemmasE SubjectLemmasSpec.
Import ListNotations.
Local Open Scope Z_scope.

(* between operations: related worlds, empty call stack, no notification in progress *)
Definition Rtop (w : world) (aw : aworld) : Prop :=
  R w aw /\ stack w = [] /\ forall k s, nth_error (subjects w) k = Some s -> depth s = 0%nat.

Lemma nth_error_repeat {A} (x : A) n k y : nth_error (repeat x n) k = Some y -> y = x.
Proof. intros H. apply nth_error_In in H. eapply repeat_spec; eauto. Qed.

Lemma Rtop0 n : Rtop (world0 n) (aworld0 n).
Proof.
  split; [split|split]; cbn; auto.
  - constructor; cbn; auto.
    + rewrite !repeat_length. reflexivity.
    + intros k s a H1 H2. apply nth_error_repeat in H1. apply nth_error_repeat in H2. subst.
      constructor; cbn; auto; try lia; try constructor; try (intros sid []).
    + intros h hd ah H1. destruct h; discriminate.
  - constructor; cbn.
    + intros k1 k2 s1 s2 o H1 H2 I1. apply nth_error_repeat in H1. subst. destruct I1.
    + intros k s H1. apply nth_error_repeat in H1. subst. constructor.
    + intros o (k & s & H1 & I1). apply nth_error_repeat in H1. subst. destruct I1.
    + intros o ob H1. destruct o; discriminate.
    + constructor.
    + intros o. split. intros []. intros (ob & H1 & _). destruct o; discriminate.
    + intros o [].
  - intros k s H1. apply nth_error_repeat in H1. subst. reflexivity.
Qed.

Lemma Rtop_frame w w' aw aw' : Rtop w aw -> R w' aw' -> frame w w' -> Rtop w' aw'.
Proof.
  intros (HR & Hst & Hd) HR' Hf. split; auto. split.
  - rewrite (f_stack _ _ Hf). auto.
  - intros k s' Hs'.
    destruct (nth_error_same_length _ (subjects w) _ _ (f_slen _ _ Hf) Hs') as [s Hs].
    rewrite (sf_depth _ _ _ (f_subj _ _ Hf _ _ _ Hs Hs')). eauto.
Qed.

(* ---------- refs_ok ---------- *)
Lemma refs_ok_eq w aw o : Rabs w aw -> refs_ok w o = a_refs_ok aw o.
Proof.
  intros H.
  assert (HS : forall k, match get_subj (subjects w) k with Some _ => true | None => false end =
                         match aget aw k with Some _ => true | None => false end).
  { intros k. destruct (get_subj_aget w aw k H) as [(E1 & E2)|(s & a & E1 & E2 & _)]; rewrite E1, E2; reflexivity. }
  unfold refs_ok, a_refs_ok. rewrite <- (r_hlen _ _ H).
  destruct o as [a|k h|d s|k]; try destruct a; try rewrite HS; reflexivity.
Qed.

(* ---------- one operation ---------- *)
Lemma step_sim scripts fuel w aw o :
  Rtop w aw -> refs_ok w o = true ->
  (step true scripts fuel w o = Err OutOfFuel /\ a_step scripts fuel aw o = Err OutOfFuel) \/
  (exists w' aw' ret, step true scripts fuel w o = Ok (w', ret) /\ a_step scripts fuel aw o = Ok (aw', ret) /\
                      Rtop w' aw' /\ exists new, log w' = new ++ log w).
Proof.
  intros HT Hok. pose proof HT as (HR & Hst & Hdep). pose proof HR as [H M].
  destruct o as [a|k h|d s|k]; cbn [step a_step].
  - (* OAct *)
    assert (X : rel_res w (do_action true (notify true scripts fuel) None w a)
                          (a_do_action (a_notify scripts fuel) None aw a)).
    { apply do_action_sim; auto.
      - intros. eapply notify_sim; eauto.
      - intros o Ho. discriminate. }
    apply rel_res_inv in X. destruct X as [(E1 & E2)|(w' & aw' & E1 & E2 & HR' & Hf)]; rewrite E1, E2.
    + left. auto.
    + right. exists w', aw', []. split; [reflexivity|]. split; [reflexivity|]. split.
      * eapply Rtop_frame; eauto.
      * apply (f_log _ _ Hf).
  - (* OSubjUnsub *)
    right. cbn [refs_ok] in Hok. apply andb_true_iff in Hok. destruct Hok as [_ Hh].
    apply Nat.ltb_lt in Hh. destruct (nth_error (handles w) h) as [hd|] eqn:Eh.
    2:{ apply nth_error_None in Eh. lia. }
    unfold ahandle_target.
    destruct (handle_cases w aw h hd H Eh) as [E Eah|k' sid o s a E Eah Hs Ha HRs Hn Hm Hfd|k' sid o s a E Eah Hs Ha HRs Hi Hm Hfd];
      rewrite Eah; subst hd.
    + exists w, aw, [1]. unfold subject_unsubscribe. rewrite Eh. cbn.
      split; [reflexivity|]. split; [reflexivity|]. split; [exact HT|]. exists []. reflexivity.
    + exists w, aw, [1]. unfold subject_unsubscribe. rewrite Eh. unfold handle_valid_in. cbn [h_subj h_id].
      rewrite Ha, Hfd.
      assert (Ev : Nat.eqb k k' && match nth_error (subjects w) k with Some s0 => memZ sid (active s0) | None => false end = false).
      { destruct (Nat.eqb k k') eqn:Ek; auto. apply Nat.eqb_eq in Ek. subst k'. rewrite Hs, Hm. reflexivity. }
      rewrite Ev. cbn.
      split; [reflexivity|]. split; [reflexivity|]. split; [exact HT|]. exists []. reflexivity.
    + rewrite Ha, Hfd. destruct (Nat.eqb k k') eqn:Ek.
      * apply Nat.eqb_eq in Ek. subst k'.
        destruct (subj_unsub_valid w aw h k sid o s a HR Eh Hs Ha Hm) as (w3 & E3 & HR3 & Hf3).
        exists w3, (a_unsubscribe aw k sid h), [0]. rewrite E3. cbn.
        split; [reflexivity|]. split; [reflexivity|]. split.
        -- eapply Rtop_frame; eauto.
        -- apply (f_log _ _ Hf3).
      * exists w, aw, [1]. unfold subject_unsubscribe. rewrite Eh. unfold handle_valid_in. cbn [h_subj h_id].
        rewrite Ek. cbn.
        split; [reflexivity|]. split; [reflexivity|]. split; [exact HT|]. exists []. reflexivity.
  - (* OMove *)
    right. cbn [refs_ok] in Hok. apply andb_true_iff in Hok. destruct Hok as [Hd Hs].
    apply Nat.ltb_lt in Hd. apply Nat.ltb_lt in Hs.
    destruct (nth_error (handles w) d) as [hd|] eqn:Ed. 2:{ apply nth_error_None in Ed. lia. }
    destruct (nth_error (handles w) s) as [hs|] eqn:Es. 2:{ apply nth_error_None in Es. lia. }
    destruct (nth_error_same_length _ (ahandles aw) _ _ (r_hlen _ _ H) Ed) as [ad Ead].
    destruct (nth_error_same_length _ (ahandles aw) _ _ (r_hlen _ _ H) Es) as [ah Eah].
    rewrite Ead, Eah. destruct (Nat.eqb d s).
    + exists w, aw, []. split; [reflexivity|]. split; [reflexivity|]. split; [exact HT|]. exists []. reflexivity.
    + pose proof (R_set_handle w aw d hs ah HR (r_hand _ _ H _ _ _ Es Eah)) as HR1.
      pose proof (R_set_handle _ _ s hd ad HR1 (r_hand _ _ H _ _ _ Ed Ead)) as HR2.
      eexists _, _, []. split; [reflexivity|]. split; [reflexivity|]. split.
      * split; [exact HR2|]. split; auto.
      * exists []. reflexivity.
  - (* ODestroy *)
    right. cbn [refs_ok] in Hok.
    destruct (get_subj_aget w aw k H) as [(E1 & E2)|(s & a & E1 & E2 & Hs & Ha & Hc & HRs)].
    { rewrite E1 in Hok. discriminate. }
    rewrite Hs, Ha.
    destruct (R_destroy w aw k s a HR Hs Ha Hst) as (w2 & F1 & F2 & F3 & F4 & F5).
    exists w2, (aset aw k (mkAS [] (-1))), []. rewrite F1. cbn.
    split; [reflexivity|]. split; [reflexivity|]. split; [|exact F5]. split; auto. split; auto.
    intros j sj Hj. rewrite F3 in Hj. apply nth_error_list_set_inv in Hj.
    destruct Hj as [(_ & -> & _)|(_ & Hj)]; eauto.
Qed.

(* ---------- observations ---------- *)
Lemma firstn_len_app {A} (a b : list A) : firstn (length (a ++ b) - length b) (a ++ b) = a.
Proof.
  rewrite app_length. replace (length a + length b - length b)%nat with (length a + 0)%nat by lia.
  rewrite firstn_app_2. cbn. apply app_nil_r.
Qed.

Lemma map_seq_ext {A B} (f : A -> B) (g : nat -> B) (l : list A) : forall n,
  (forall i x, nth_error l i = Some x -> f x = g (n + i)%nat) ->
  map f l = map g (seq n (length l)).
Proof.
  induction l as [|x l IH]; intros n H; cbn; auto. f_equal.
  - rewrite (H 0%nat x eq_refl). f_equal. lia.
  - apply IH. intros i y Hy. rewrite (H (S i) y Hy). f_equal. lia.
Qed.

Lemma map_pointwise {A B C} (f : A -> C) (g : B -> C) (l : list A) : forall (l' : list B),
  length l = length l' ->
  (forall i x y, nth_error l i = Some x -> nth_error l' i = Some y -> f x = g y) ->
  map f l = map g l'.
Proof.
  induction l as [|x l IH]; intros [|y l'] Hl H; cbn in *; try discriminate; auto. f_equal.
  - apply (H 0%nat); reflexivity.
  - apply IH. lia. intros i a b Ha Hb. apply (H (S i)); auto.
Qed.

Lemma observe_eq w aw w' aw' ret new :
  R w' aw' -> log w' = new ++ log w -> acalls aw = calls_of (log w) ->
  observe_c w' ret (length (log w)) = observe_a aw' ret (length (acalls aw)).
Proof.
  intros [H' M'] El Ec. unfold observe_c, observe_a. f_equal.
  - rewrite (r_calls _ _ H'), Ec, El, calls_of_app, !firstn_len_app. apply calls_of_rev.
  - rewrite <- (r_hlen _ _ H'). apply map_seq_ext. intros i hd Hhd. cbn [Nat.add]. unfold ahandle_target.
    destruct (handle_cases w' aw' i hd H' Hhd) as [E Eah|k sid o s a E Eah Hs Ha HRs Hn Hm Hfd|k sid o s a E Eah Hs Ha HRs Hi Hm Hfd];
      rewrite Eah; subst hd.
    + reflexivity.
    + unfold handle_valid. cbn [h_subj h_id]. rewrite Hs, Hm, Ha, Hfd. reflexivity.
    + unfold handle_valid. cbn [h_subj h_id h_obs]. rewrite Hs, Hm, Ha, Hfd.
      destruct (owned_alive_in w' k s o M' Hs (in_obs_own _ _ _ Hi)) as (ob & Eob & _).
      rewrite Eob, (recof_nth_error _ _ _ _ Eob). reflexivity.
  - apply map_pointwise. apply H'. intros i s a Hs Ha. pose proof (r_subj _ _ H' _ _ _ Hs Ha) as HRs.
    rewrite (rs_subs _ _ _ HRs). destruct (observers s) as [|p t]; cbn; auto.
    destruct (rev (map (recof (heap w')) t)); reflexivity.
Qed.

(* ---------- traces ---------- *)
Lemma trace_eq scripts fuel ops : forall w aw,
  Rtop w aw -> c_trace true scripts fuel w ops = a_trace scripts fuel aw ops.
Proof.
  induction ops as [|o rest IH]; intros w aw HT; cbn [c_trace a_trace]; auto.
  pose proof HT as (HR & _). pose proof HR as [H M].
  rewrite <- (refs_ok_eq w aw o H). destruct (refs_ok w o) eqn:Hok; cbn [negb].
  - destruct (step_sim scripts fuel w aw o HT Hok) as [(E1 & E2)|(w' & aw' & ret & E1 & E2 & HT' & new & El)];
      rewrite E1, E2; auto.
    f_equal.
    + f_equal. eapply observe_eq; eauto. apply HT'. apply H.
    + apply IH; auto.
  - f_equal. apply IH; auto.
Qed.

Lemma trace_safe scripts fuel ops : forall w aw,
  Rtop w aw ->
  Forall (fun x => x = Rejected \/ (exists v, x = Done v) \/ x = Failed OutOfFuel) (c_trace true scripts fuel w ops).
Proof.
  induction ops as [|o rest IH]; intros w aw HT; cbn [c_trace]; auto.
  destruct (refs_ok w o) eqn:Hok; cbn [negb].
  - destruct (step_sim scripts fuel w aw o HT Hok) as [(E1 & E2)|(w' & aw' & ret & E1 & E2 & HT' & new & El)];
      rewrite E1.
    + constructor; auto.
    + constructor; eauto.
  - constructor; eauto.
Qed.

Lemma exec_Rtop scripts fuel ops : forall w aw w',
  Rtop w aw -> c_exec true scripts fuel w ops = Some w' -> exists aw', Rtop w' aw'.
Proof.
  induction ops as [|o rest IH]; intros w aw w' HT He; cbn [c_exec] in He.
  - inversion He; subst. eauto.
  - destruct (refs_ok w o) eqn:Hok; cbn [negb] in He.
    + destruct (step_sim scripts fuel w aw o HT Hok) as [(E1 & E2)|(w1 & aw1 & ret & E1 & E2 & HT' & new & El)];
        rewrite E1 in He.
      * discriminate.
      * eapply IH; eauto.
    + eapply IH; eauto.
Qed.

(* ---------- the lemmas used by Properties_C05 / Properties_C10 ---------- *)
Lemma subject_refines_spec : forall scripts fuel nsubj ops,
  c_trace true scripts fuel (world0 nsubj) ops = a_trace scripts fuel (aworld0 nsubj) ops.
Proof. intros. apply trace_eq. apply Rtop0. Qed.

Lemma subject_memory_safe : forall scripts fuel nsubj ops,
  Forall (fun x => x = Rejected \/ (exists v, x = Done v) \/ x = Failed OutOfFuel)
         (c_trace true scripts fuel (world0 nsubj) ops).
Proof. intros. eapply trace_safe. apply Rtop0. Qed.

Lemma upstream_self_unsubscribe : exists scripts ops,
  In (Failed UseAfterFree) (c_trace false scripts 6 (world0 1) ops).
Proof. exists [[AUnsub 0]], [OAct (ASub 0 0); OAct (ANotify 0 5)]. vm_compute. auto. Qed.

Lemma notify_delivers : forall scripts fuel fuel' nsubj ops w k s arg,
  a_exec scripts fuel (aworld0 nsubj) ops = Some w ->
  nth_error (asubjects w) k = Some s ->
  (forall r, In r (subs s) -> nth (a_script r) scripts [] = []) ->
  a_notify scripts (S fuel') w k arg =
    Ok (mkAW (list_set (asubjects w) k (mkAS (filter a_valid (subs s)) (acounter s))) (ahandles w) (anext w)
             (rev (map (fun r => (a_obs r, arg)) (filter (fun r => a_valid r && negb (a_muted r)) (subs s)))
              ++ acalls w)).
Proof. exact spec_notify_delivers. Qed.

Lemma never_again : forall scripts fuel nsubj ops1 ops2 w1 w2 o,
  a_exec scripts fuel (aworld0 nsubj) ops1 = Some w1 ->
  a_exec scripts fuel w1 ops2 = Some w2 ->
  (o < anext w1)%nat ->
  (forall k s r, nth_error (asubjects w1) k = Some s -> In r (subs s) -> a_obs r = o -> a_valid r = false) ->
  exists new, acalls w2 = new ++ acalls w1 /\ forall arg, ~ In (o, arg) new.
Proof. exact spec_never_again. Qed.

Lemma destroyed_once : forall scripts fuel nsubj ops w,
  c_exec true scripts fuel (world0 nsubj) ops = Some w ->
  NoDup (frees_of (log w)) /\
  forall o ob, nth_error (heap w) o = Some ob ->
    (o_alive ob = true <-> subscribed w o) /\ (o_alive ob = false <-> In o (frees_of (log w))).
Proof.
  intros scripts fuel nsubj ops w He.
  destruct (exec_Rtop scripts fuel ops _ _ _ (Rtop0 nsubj) He) as (aw & [H M] & Hst & Hdep).
  split. { apply M. }
  intros o ob Hob. split; split.
  - intros Ha. destruct (r_alive_owned _ M _ _ Hob Ha) as (k & s & Hs & Hin).
    destruct (Rabs_subj_ex _ _ _ _ H Hs) as (a & _ & HRs).
    unfold own in Hin. rewrite (rs_grave _ _ _ HRs (Hdep _ _ Hs)), app_nil_r in Hin.
    apply in_map_snd in Hin. destruct Hin as [sid Hin]. exists k, s, sid. auto.
  - intros (k & s & sid & Hs & Hin).
    destruct (owned_alive_in w k s o M Hs (in_obs_own _ _ _ Hin)) as (ob' & E & Ha). congruence.
  - intros Ha. apply (r_free _ M). eauto.
  - intros Hf. apply (r_free _ M) in Hf. destruct Hf as (ob' & E & Ha). congruence.
Qed.
