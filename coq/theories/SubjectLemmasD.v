(* SubjectLemmasD.v — the relation R is preserved by the primitive transitions of both
   interpreters (subscribe, flag updates, unsubscribe, handle updates, call stack, depth). *)
From Coq Require Import List ZArith Bool Lia Arith Permutation.
From Tulz Require Import Common SubjectModel SubjectSpec SubjectLemmasA SubjectLemmasB SubjectLemmasC.
Import ListNotations.
Local Open Scope Z_scope.

(* ---------- recof ---------- *)
Lemma recof_list_set_neq hp o x p : snd p <> o -> recof (list_set hp o x) p = recof hp p.
Proof. intros H. unfold recof. rewrite nth_list_set_neq; auto. Qed.

Lemma recof_list_set_eq hp o x sid :
  (o < length hp)%nat -> recof (list_set hp o x) (sid, o) = mkRec sid o (o_valid x) (o_muted x) (o_script x).
Proof. intros H. unfold recof. cbn [fst snd]. rewrite nth_list_set_eq; auto. Qed.

Lemma recof_nth_error hp o ob sid :
  nth_error hp o = Some ob -> recof hp (sid, o) = mkRec sid o (o_valid ob) (o_muted ob) (o_script ob).
Proof. intros H. unfold recof. cbn [fst snd]. rewrite (nth_error_nth _ _ dob H). reflexivity. Qed.

Lemma recof_app hp x p : (snd p < length hp)%nat -> recof (hp ++ [x]) p = recof hp p.
Proof. intros H. unfold recof. rewrite app_nth1; auto. Qed.

Lemma recof_app_new hp x sid :
  recof (hp ++ [x]) (sid, length hp) = mkRec sid (length hp) (o_valid x) (o_muted x) (o_script x).
Proof. unfold recof. cbn [fst snd]. rewrite nth_middle. reflexivity. Qed.

(* ---------- generic updates of Rabs ---------- *)
Lemma hok_sub s s' sid o :
  counter s' = counter s -> (forall p, In p (observers s') -> In p (observers s)) ->
  hok s sid o -> hok s' sid o.
Proof. intros Hc Hi [H1 H2]. split. - intros o' Ho. apply H1. auto. - rewrite Hc. auto. Qed.

Lemma Rabs_set_subj w aw w' aw' k s a s' a' :
  Rabs w aw -> nth_error (subjects w) k = Some s -> nth_error (asubjects aw) k = Some a ->
  subjects w' = list_set (subjects w) k s' -> asubjects aw' = list_set (asubjects aw) k a' ->
  (forall p, recof (heap w') p = recof (heap w) p) -> length (heap w') = length (heap w) ->
  anext aw' = anext aw -> handles w' = handles w -> ahandles aw' = ahandles aw ->
  calls_of (log w') = calls_of (log w) -> acalls aw' = acalls aw ->
  Rs (heap w') s' a' -> (forall sid o, hok s sid o -> hok s' sid o) -> Rabs w' aw'.
Proof.
  intros H Hs Ha Es Ea Hrec Hlen En Eh Eah Ec Eac HRs Hhok. constructor.
  - rewrite Es, Ea, !length_list_set. apply H.
  - intros j sj aj H1 H2. rewrite Es in H1. rewrite Ea in H2.
    apply nth_error_list_set_inv in H1. apply nth_error_list_set_inv in H2.
    destruct H1 as [(E1 & -> & _)|(N1 & H1)], H2 as [(E2 & -> & _)|(N2 & H2)]; try congruence.
    eapply Rs_heap_ext. eapply r_subj; eauto. intros; auto.
  - rewrite Eh, Eah. apply H.
  - intros h hd ah H1 H2. rewrite Eh in H1. rewrite Eah in H2. pose proof (r_hand _ _ H _ _ _ H1 H2) as Hr.
    rewrite Es. destruct ah as [[k' sid]|]; simpl in *; auto.
    destruct Hr as (o & s0 & E1 & E2 & E3). destruct (Nat.eq_dec k' k) as [->|Hne].
    + exists o, s'. rewrite Hs in E2. inversion E2; subst s0. split; auto. split; auto.
      eapply nth_error_list_set_eq; eauto.
    + exists o, s0. rewrite nth_error_list_set_neq; auto.
  - rewrite En, Hlen. apply H.
  - rewrite Eac, Ec. apply H.
Qed.

Lemma Rabs_set_handle w aw h hd ah :
  Rabs w aw -> Hrel (subjects w) hd ah ->
  Rabs (set_handle w h hd) (mkAW (asubjects aw) (list_set (ahandles aw) h ah) (anext aw) (acalls aw)).
Proof.
  intros H Hr. destruct H as [a1 a2 a3 a4 a5 a6]. constructor; cbn; auto.
  - rewrite !length_list_set. auto.
  - intros j x y H1 H2.
    apply nth_error_list_set_inv in H1. apply nth_error_list_set_inv in H2.
    destruct H1 as [(E1 & -> & _)|(N1 & H1)], H2 as [(E2 & -> & _)|(N2 & H2)]; try congruence; eauto.
Qed.

Lemma Rmem_same w w' :
  Rmem w -> heap w' = heap w -> subjects w' = subjects w -> stack w' = stack w -> log w' = log w -> Rmem w'.
Proof.
  intros M E1 E2 E3 E4. destruct M. constructor; rewrite ?E1, ?E2, ?E3, ?E4; auto.
Qed.

Lemma frame_same w w' :
  heap w' = heap w -> subjects w' = subjects w -> stack w' = stack w -> log w' = log w -> frame w w'.
Proof.
  intros E1 E2 E3 E4. constructor; rewrite ?E1, ?E2, ?E3, ?E4; auto.
  - exists []. reflexivity.
  - intros k s s' H1 H2. rewrite H1 in H2. inversion H2. apply sframe_refl.
Qed.

Lemma frame_set_subj w w' k s s' :
  nth_error (subjects w) k = Some s -> subjects w' = list_set (subjects w) k s' ->
  stack w' = stack w -> (exists new, log w' = new ++ log w) -> (length (heap w) <= length (heap w'))%nat ->
  sframe (length (heap w)) s s' -> frame w w'.
Proof.
  intros Hs Es Est El Eh Hsf. constructor; auto.
  - rewrite Es. apply length_list_set.
  - intros j sj sj' H1 H2. rewrite Es in H2. apply nth_error_list_set_inv in H2.
    destruct H2 as [(-> & -> & _)|(N & H2)].
    + rewrite Hs in H1. inversion H1; subst. auto.
    + rewrite H1 in H2. inversion H2. apply sframe_refl.
Qed.

(* ---------- subscribe ---------- *)
Lemma R_sub w aw k s a scr :
  R w aw -> nth_error (subjects w) k = Some s -> nth_error (asubjects aw) k = Some a -> 0 <= counter s ->
  let w' := add_handle (set_subj (set_heap w (heap w ++ [mkObs true true false scr])) k
              (mkSubj ((counter s, length (heap w)) :: observers s) (counter s :: active s) (counter s + 1)
                      (depth s) (graveyard s)))
              (mkH (Some (counter s)) (Some k) (Some (length (heap w)))) in
  R w' (mkAW (list_set (asubjects aw) k (mkAS (subs a ++ [mkRec (acounter a) (anext aw) true false scr]) (acounter a + 1)))
             (ahandles aw ++ [Some (k, acounter a)]) (S (anext aw)) (acalls aw)) /\ frame w w'.
Proof.
  intros [H M] Hs Ha Hc w'. pose proof (r_subj _ _ H _ _ _ Hs Ha) as HRs.
  assert (Hlt : forall j sj p, nth_error (subjects w) j = Some sj -> In p (observers sj) -> (snd p < length (heap w))%nat).
  { intros j sj [sid o] Hj Hp. destruct (r_owned_alive _ M o) as (ob & E & _).
    - exists j, sj. split; auto. unfold own. apply in_or_app. left. apply in_map_snd. eauto.
    - eapply nth_error_lt; eauto. }
  split; [split|].
  - constructor; cbn [w' subjects heap handles log add_handle set_subj set_heap asubjects ahandles anext acalls].
    + rewrite !length_list_set. apply H.
    + intros j sj aj H1 H2.
      apply nth_error_list_set_inv in H1. apply nth_error_list_set_inv in H2.
      destruct H1 as [(E1 & -> & _)|(N1 & H1)], H2 as [(E2 & -> & _)|(N2 & H2)]; try congruence.
      * destruct HRs as [a1 a2 a3 a4 a5 a6 a7]. constructor; cbn.
        -- rewrite a1. reflexivity.
        -- constructor; auto. intros Hi. apply a3 in Hi. lia.
        -- intros sid [<-|Hi]. lia. apply a3 in Hi. lia.
        -- rewrite a4. reflexivity.
        -- rewrite a5. f_equal.
           ++ f_equal. apply map_ext_in. intros p Hp. symmetry. apply recof_app. eapply Hlt; eauto.
           ++ rewrite recof_app_new. cbn. rewrite a4, (r_next _ _ H). reflexivity.
        -- auto.
        -- intros. lia.
      * eapply Rs_heap_ext. eapply r_subj; eauto. intros p Hp. apply recof_app. eapply Hlt; eauto.
    + rewrite !app_length. cbn. rewrite (r_hlen _ _ H). reflexivity.
    + intros h hd ah H1 H2. destruct (lt_dec h (length (handles w))) as [Hl|Hl].
      * rewrite nth_error_app1 in H1 by auto. rewrite nth_error_app1 in H2 by (rewrite <- (r_hlen _ _ H); auto).
        pose proof (r_hand _ _ H _ _ _ H1 H2) as Hr. destruct ah as [[k' sid]|]; simpl in *; auto.
        destruct Hr as (o & s0 & E1 & E2 & E3). destruct (Nat.eq_dec k' k) as [->|Hne].
        -- rewrite Hs in E2. inversion E2; subst s0. eexists o, _. split; auto.
           split. eapply nth_error_list_set_eq; eauto.
           destruct E3 as [E3 E4]. split; cbn.
           ++ intros o' [Ho|Ho]. inversion Ho; subst. lia. auto.
           ++ lia.
        -- exists o, s0. rewrite nth_error_list_set_neq; auto.
      * assert (Hh : h = length (handles w)).
        { apply nth_error_lt in H1. rewrite app_length in H1. cbn in H1. lia. }
        subst h. rewrite nth_error_app2, Nat.sub_diag in H1 by lia.
        rewrite (r_hlen _ _ H) in H2. rewrite nth_error_app2, Nat.sub_diag in H2 by lia.
        cbn in H1, H2. inversion H1; inversion H2; subst. simpl.
        eexists _, _. rewrite (rs_counter _ _ _ HRs). split; [reflexivity|].
        split. eapply nth_error_list_set_eq; eauto. split; cbn.
        -- intros o' [Ho|Ho]. inversion Ho; auto. exfalso.
           assert (counter s < counter s); [|lia]. apply (rs_lt _ _ _ HRs). apply in_map_fst. eauto.
        -- lia.
    + rewrite app_length. cbn. rewrite (r_next _ _ H). lia.
    + apply H.
  - apply Rmem_sub; auto.
  - apply (frame_set_subj w w' k s _ Hs eq_refl eq_refl).
    + exists []. reflexivity.
    + cbn. rewrite app_length. lia.
    + constructor; cbn; auto; try lia.
      * intros sid o [Ho|Ho] Hlt'; auto. inversion Ho; subst. lia.
      * unfold own. cbn. intros o [Ho|Ho] Hlt'; auto. lia.
Qed.

(* ---------- flag updates ---------- *)
Lemma Rabs_flags_handle w aw k s a sid o ob (f : obs -> obs) (f' : arec -> arec) :
  Rabs w aw -> Rmem w -> nth_error (subjects w) k = Some s -> nth_error (asubjects aw) k = Some a ->
  In (sid, o) (observers s) -> nth_error (heap w) o = Some ob ->
  (forall sid', f' (mkRec sid' o (o_valid ob) (o_muted ob) (o_script ob)) =
                mkRec sid' o (o_valid (f ob)) (o_muted (f ob)) (o_script (f ob))) ->
  Rabs (set_heap w (list_set (heap w) o (f ob))) (aset aw k (aupdate a sid f')).
Proof.
  intros H M Hs Ha Hin Hob Hf.
  assert (Ho : (o < length (heap w))%nat) by (eapply nth_error_lt; eauto).
  assert (Hown : In o (own s)).
  { unfold own. apply in_or_app. left. apply in_map_snd. eauto. }
  constructor; cbn [subjects heap handles log set_heap aset asubjects ahandles anext acalls].
  - rewrite length_list_set. apply H.
  - intros j sj aj H1 H2. apply nth_error_list_set_inv in H2.
    destruct H2 as [(-> & -> & _)|(N & H2)].
    + rewrite Hs in H1. inversion H1; subst sj. pose proof (r_subj _ _ H _ _ _ Hs Ha) as HRs.
      assert (Hnd : NoDup (map snd (observers s))).
      { pose proof (r_own_nodup _ M _ _ Hs) as Hn. apply NoDup_app_iff in Hn. tauto. }
      destruct HRs as [a1 a2 a3 a4 a5 a6 a7]. constructor; auto.
      cbn [subs aupdate]. rewrite a5, map_rev, map_map. f_equal. apply map_ext_in.
      intros [sid' o'] Hp. cbn [a_sid recof fst snd]. destruct (sid' =? sid) eqn:E.
      * apply Z.eqb_eq in E. subst sid'.
        assert (o' = o). { assert (X : (sid, o') = (sid, o)) by (eapply (NoDup_map_inj fst); eauto). congruence. }
        subst o'. fold (recof (heap w) (sid, o)). rewrite (recof_nth_error _ _ _ _ Hob), Hf.
        rewrite recof_list_set_eq; auto.
      * fold (recof (heap w) (sid', o')). rewrite recof_list_set_neq; auto. cbn. intros ->.
        assert (X : (sid', o) = (sid, o)) by (eapply (NoDup_map_inj snd); eauto).
        apply Z.eqb_neq in E. congruence.
    + eapply Rs_heap_ext. eapply r_subj; eauto. intros [sid' o'] Hp. apply recof_list_set_neq. cbn. intros ->.
      apply N. apply (r_own_inj _ M j k sj s o); auto.
      unfold own. apply in_or_app. left. apply in_map_snd. eauto.
  - apply H.
  - apply H.
  - rewrite length_list_set. apply H.
  - apply H.
Qed.

Lemma Rabs_inval_self w aw o ob :
  Rabs w aw -> nth_error (heap w) o = Some ob ->
  Rabs (set_heap w (list_set (heap w) o (mkObs (o_alive ob) false (o_muted ob) (o_script ob))))
       (mkAW (map (fun s => mkAS (map (fun r => if Nat.eqb (a_obs r) o
                                                 then mkRec (a_sid r) (a_obs r) false (a_muted r) (a_script r)
                                                 else r) (subs s)) (acounter s)) (asubjects aw))
             (ahandles aw) (anext aw) (acalls aw)).
Proof.
  intros H Hob.
  assert (Ho : (o < length (heap w))%nat) by (eapply nth_error_lt; eauto).
  constructor; cbn [subjects heap handles log set_heap asubjects ahandles anext acalls].
  - rewrite map_length. apply H.
  - intros j sj aj H1 H2. rewrite nth_error_map in H2.
    destruct (nth_error (asubjects aw) j) as [a0|] eqn:Ea; [|discriminate]. cbn in H2. inversion H2; subst aj.
    destruct (r_subj _ _ H _ _ _ H1 Ea) as [a1 a2 a3 a4 a5 a6 a7]. constructor; auto.
    cbn [subs]. rewrite a5, map_rev, map_map. f_equal. apply map_ext.
    intros [sid' o']. cbn [a_obs recof fst snd]. destruct (Nat.eqb o' o) eqn:E.
    + apply Nat.eqb_eq in E. subst o'. fold (recof (heap w) (sid', o)).
      rewrite (recof_nth_error _ _ _ _ Hob). cbn. rewrite recof_list_set_eq; auto.
    + apply Nat.eqb_neq in E. fold (recof (heap w) (sid', o')). rewrite recof_list_set_neq; auto.
  - apply H.
  - apply H.
  - rewrite length_list_set. apply H.
  - apply H.
Qed.

Lemma frame_flags w o x : frame w (set_heap w (list_set (heap w) o x)).
Proof.
  constructor; cbn; auto.
  - exists []. reflexivity.
  - rewrite length_list_set. lia.
  - intros k s s' H1 H2. rewrite H1 in H2. inversion H2. apply sframe_refl.
Qed.

(* ---------- unsubscribe ---------- *)
Lemma Rs_remove hp s a sid g :
  Rs hp s a -> (depth s = 0%nat -> g = []) ->
  Rs hp (mkSubj (filter (fun p => negb (fst p =? sid)) (observers s))
                (filter (fun x => negb (x =? sid)) (active s)) (counter s) (depth s) g) (aremove a sid).
Proof.
  intros [a1 a2 a3 a4 a5 a6 a7] Hg. constructor; cbn [observers active counter depth graveyard].
  - rewrite a1, filter_map_comm. reflexivity.
  - apply NoDup_map_filter. auto.
  - intros x Hx. apply a3. apply in_map_iff in Hx. destruct Hx as (p & <- & Hp). apply filter_In in Hp.
    apply in_map. tauto.
  - cbn. auto.
  - cbn [subs aremove]. rewrite a5, filter_rev', filter_map_comm. reflexivity.
  - auto.
  - intros Hc. rewrite (a7 Hc). reflexivity.
Qed.

Lemma in_snd_filter_split (l : list (Z * nat)) p x :
  In x (map snd l) <-> In x (map snd (filter p l)) \/ In x (map snd (filter (fun y => negb (p y)) l)).
Proof.
  rewrite !in_map_snd. split.
  - intros (a & Ha). destruct (p (a, x)) eqn:E.
    + left. exists a. apply filter_In. auto.
    + right. exists a. apply filter_In. rewrite E. auto.
  - intros [(a & Ha)|(a & Ha)]; apply filter_In in Ha; exists a; tauto.
Qed.

Lemma snd_filter_disjoint (l : list (Z * nat)) p x :
  NoDup (map snd l) -> In x (map snd (filter p l)) -> In x (map snd (filter (fun y => negb (p y)) l)) -> False.
Proof.
  intros Hn H1 H2. apply in_map_snd in H1. apply in_map_snd in H2.
  destruct H1 as (a & Ha). destruct H2 as (b & Hb). apply filter_In in Ha. apply filter_In in Hb.
  destruct Ha as [Ha1 Ha2]. destruct Hb as [Hb1 Hb2].
  assert (X : (a, x) = (b, x)) by (eapply (NoDup_map_inj snd); eauto).
  rewrite X in Ha2. rewrite Ha2 in Hb2. discriminate.
Qed.

Lemma stack_not_depth0 w k s x :
  Rmem w -> nth_error (subjects w) k = Some s -> depth s = 0%nat -> In x (stack w) -> ~ In x (own s).
Proof.
  intros M Hs Hd Hx Hi. destruct (r_stack _ M _ Hx) as (j & sj & E & Hin & Hdj).
  assert (j = k) by (eapply (r_own_inj _ M); eauto). subst j. rewrite Hs in E. inversion E; subst. lia.
Qed.

Lemma unsub_sim w aw k s a sid :
  R w aw -> nth_error (subjects w) k = Some s -> nth_error (asubjects aw) k = Some a ->
  exists w2, unsubscribe_by_id true w k sid = Ok w2 /\ R w2 (aset aw k (aremove a sid)) /\ frame w w2.
Proof.
  intros [H M] Hs Ha. pose proof (r_subj _ _ H _ _ _ Hs Ha) as HRs.
  pose proof (r_own_nodup _ M _ _ Hs) as Hnd. unfold own in Hnd. apply NoDup_app_iff in Hnd.
  destruct Hnd as (Hnd1 & Hnd2 & Hnd3).
  unfold unsubscribe_by_id. rewrite Hs. cbn [andb].
  set (pg := fun p : Z * nat => fst p =? sid).
  set (keep := filter (fun p => negb (fst p =? sid)) (observers s)).
  set (gone := map snd (filter pg (observers s))).
  set (act := filter (fun x => negb (x =? sid)) (active s)).
  assert (Hsplit : forall x, In x (map snd (observers s)) <-> In x gone \/ In x (map snd keep)).
  { intros x. apply (in_snd_filter_split (observers s) pg). }
  assert (Hkd : forall x, In x gone -> In x (map snd keep) -> False).
  { intros x. apply (snd_filter_disjoint (observers s) pg); auto. }
  assert (Hng : NoDup gone) by (apply NoDup_map_filter; auto).
  assert (Hnk : NoDup (map snd keep)) by (apply NoDup_map_filter; auto).
  assert (Hhok : forall sid0 o, hok s sid0 o -> forall g, hok (mkSubj keep act (counter s) (depth s) g) sid0 o).
  { intros sid0 o Hk g. apply (hok_sub s _ sid0 o); [reflexivity| |exact Hk].
    cbn. intros p Hp. apply filter_In in Hp. tauto. }
  destruct (Nat.eqb (depth s) 0) eqn:Ed; cbn [negb].
  - (* immediate destruction *)
    apply Nat.eqb_eq in Ed.
    destruct (Rmem_free w k s (mkSubj keep act (counter s) (depth s) (graveyard s)) gone M Hs)
      as (w2 & F1 & F2 & F3 & F4 & F5 & F6 & F7 & F8).
    + intros x. unfold own. cbn. rewrite !in_app_iff, Hsplit. tauto.
    + unfold own. cbn. apply NoDup_app_iff. repeat split; auto.
      intros x Hx. apply Hnd3. apply Hsplit. auto.
    + auto.
    + unfold own. cbn. intros x Hx Hg. apply in_app_or in Hx. destruct Hx as [Hx|Hx].
      * eapply Hkd; eauto.
      * apply (Hnd3 x); auto. apply Hsplit. auto.
    + intros x. eapply stack_not_depth0; eauto.
    + exists w2. split; auto. split; [split; auto|].
      * apply (Rabs_set_subj w aw w2 (aset aw k (aremove a sid)) k s a _ (aremove a sid) H Hs Ha F3 eq_refl F8 F7 eq_refl F4 eq_refl).
        -- rewrite F6, calls_of_app, calls_of_map_EFree. reflexivity.
        -- reflexivity.
        -- eapply Rs_heap_ext. apply Rs_remove; [exact HRs | apply (rs_grave _ _ _ HRs)]. intros. auto.
        -- intros. apply Hhok. auto.
      * apply (frame_set_subj w w2 k s _ Hs F3 F5).
        -- eexists. exact F6.
        -- lia.
        -- constructor; cbn; auto; try lia.
           ++ intros sid0 o Hi _. apply filter_In in Hi. tauto.
           ++ unfold own. cbn. intros o Hi _. rewrite in_app_iff in *. rewrite Hsplit. tauto.
  - (* parked in the graveyard *)
    apply Nat.eqb_neq in Ed.
    set (s' := mkSubj keep act (counter s) (depth s) (gone ++ graveyard s)).
    assert (Hown : forall o, In o (own s') <-> In o (own s)).
    { intros x. unfold own, s'. cbn. rewrite !in_app_iff, Hsplit. tauto. }
    eexists. split; [reflexivity|]. split; [split|].
    + apply (Rabs_set_subj w aw (set_subj w k s') (aset aw k (aremove a sid)) k s a s' (aremove a sid) H Hs Ha);
        try reflexivity.
      * cbn. apply Rs_remove; auto. intros; lia.
      * intros. apply Hhok. auto.
    + apply (Rmem_equiv_set w (set_subj w k s') k s s' M Hs); try reflexivity; auto.
      * unfold own, s'. cbn. apply NoDup_app_iff. split; auto. split.
        -- apply NoDup_app_iff. repeat split; auto. intros x Hx. apply Hnd3. apply Hsplit. auto.
        -- intros x Hx Hg. apply in_app_or in Hg. destruct Hg as [Hg|Hg].
           ++ eapply Hkd; eauto.
           ++ apply (Hnd3 x); auto. apply Hsplit. auto.
    + apply (frame_set_subj w (set_subj w k s') k s s' Hs); try reflexivity.
      * exists (@nil event). reflexivity.
      * constructor; cbn; auto; try lia.
        -- intros sid0 o Hi _. apply filter_In in Hi. tauto.
        -- intros o Hi _. apply Hown. auto.
        -- intros _ o Hi. apply Hown. auto.
Qed.

(* ---------- handles ---------- *)
Lemma R_set_handle w aw h hd ah :
  R w aw -> Hrel (subjects w) hd ah ->
  R (set_handle w h hd) (mkAW (asubjects aw) (list_set (ahandles aw) h ah) (anext aw) (acalls aw)).
Proof.
  intros [H M] Hr. split. apply Rabs_set_handle; auto. eapply Rmem_same; eauto.
Qed.

Lemma frame_set_handle w h hd : frame w (set_handle w h hd).
Proof. apply frame_same; reflexivity. Qed.

(* ---------- the call stack ---------- *)
Lemma R_push w aw k s o arg :
  R w aw -> nth_error (subjects w) k = Some s -> In o (own s) -> (0 < depth s)%nat ->
  R (set_stack (add_log w (ECall o arg)) (o :: stack w))
    (mkAW (asubjects aw) (ahandles aw) (anext aw) ((o, arg) :: acalls aw)).
Proof.
  intros [H M] Hs Ho Hd. split.
  - destruct H as [a1 a2 a3 a4 a5 a6]. constructor; cbn; auto. rewrite a6. reflexivity.
  - eapply Rmem_equiv; eauto; cbn.
    + intros; reflexivity.
    + intros j sj sj' H1 H2. rewrite H1 in H2. inversion H2; subst. repeat split; auto.
      apply (r_own_nodup _ M _ _ H1).
    + intros x [<-|Hx]; auto. right. eauto.
Qed.

Lemma R_set_stack w aw st : R w aw -> (forall o, In o st -> In o (stack w)) -> R (set_stack w st) aw.
Proof.
  intros [H M] Hst. split.
  - destruct H as [a1 a2 a3 a4 a5 a6]. constructor; cbn; auto.
  - eapply Rmem_equiv; eauto; cbn.
    + intros; reflexivity.
    + intros j sj sj' H1 H2. rewrite H1 in H2. inversion H2; subst. repeat split; auto.
      apply (r_own_nodup _ M _ _ H1).
Qed.

Lemma frame_push_pop w e st w2 :
  frame (set_stack (add_log w e) st) w2 -> frame w (set_stack w2 (stack w)).
Proof.
  intros [a1 [n a2] a3 a4 a5]. cbn in *. constructor; cbn; auto.
  exists (n ++ [e]). rewrite a2, <- app_assoc. reflexivity.
Qed.

(* ---------- notification depth ---------- *)
Lemma R_set_depth w aw k s d :
  R w aw -> nth_error (subjects w) k = Some s -> (0 < d)%nat ->
  R (set_subj w k (mkSubj (observers s) (active s) (counter s) d (graveyard s))) aw.
Proof.
  intros [H M] Hs Hd. destruct (Rabs_subj_ex _ _ _ _ H Hs) as (a & Ha & HRs).
  set (s' := mkSubj (observers s) (active s) (counter s) d (graveyard s)). split.
  - apply (Rabs_set_subj w aw (set_subj w k s') aw k s a s' a H Hs Ha eq_refl); try reflexivity.
    + symmetry. apply list_set_same. auto.
    + destruct HRs as [a1 a2 a3 a4 a5 a6 a7]. constructor; cbn; auto. intros; lia.
    + intros sid o Hk. apply (hok_sub s _ sid o); auto.
  - apply (Rmem_equiv_set w (set_subj w k s') k s s' M Hs eq_refl); try reflexivity; auto.
    + apply (r_own_nodup _ M _ _ Hs).
Qed.

Lemma R_finish w aw k s :
  R w aw -> nth_error (subjects w) k = Some s -> (forall x, In x (stack w) -> ~ In x (own s)) ->
  exists w2, free_all (set_subj w k (mkSubj (observers s) (active s) (counter s) 0 [])) (graveyard s) = Ok w2 /\
    R w2 aw /\ subjects w2 = list_set (subjects w) k (mkSubj (observers s) (active s) (counter s) 0 []) /\
    stack w2 = stack w /\ (exists new, log w2 = new ++ log w) /\ length (heap w2) = length (heap w).
Proof.
  intros [H M] Hs Hst. destruct (Rabs_subj_ex _ _ _ _ H Hs) as (a & Ha & HRs).
  pose proof (r_own_nodup _ M _ _ Hs) as Hnd. unfold own in Hnd. apply NoDup_app_iff in Hnd.
  destruct Hnd as (Hnd1 & Hnd2 & Hnd3).
  destruct (Rmem_free w k s (mkSubj (observers s) (active s) (counter s) 0 []) (graveyard s) M Hs)
    as (w2 & F1 & F2 & F3 & F4 & F5 & F6 & F7 & F8); auto.
  - intros x. unfold own. cbn. rewrite !in_app_iff. cbn [In]. tauto.
  - unfold own. cbn. rewrite app_nil_r. auto.
  - unfold own. cbn. rewrite app_nil_r. auto.
  - exists w2. split; auto. split; [split; auto|].
    + apply (Rabs_set_subj w aw w2 aw k s a _ a H Hs Ha F3); auto.
      * symmetry. apply list_set_same. auto.
      * rewrite F6, calls_of_app, calls_of_map_EFree. reflexivity.
      * destruct HRs as [a1 a2 a3 a4 a5 a6 a7]. constructor; cbn; auto.
        rewrite a5. f_equal. apply map_ext. intros. symmetry. auto.
    + repeat split; eauto.
Qed.

Lemma R_destroy w aw k s a :
  R w aw -> nth_error (subjects w) k = Some s -> nth_error (asubjects aw) k = Some a -> stack w = [] ->
  exists w2, free_all (set_subj w k tombstone) (map snd (observers s) ++ graveyard s) = Ok w2 /\
    R w2 (aset aw k (mkAS [] (-1))) /\ subjects w2 = list_set (subjects w) k tombstone /\
    stack w2 = [] /\ (exists new, log w2 = new ++ log w).
Proof.
  intros [H M] Hs Ha Hst.
  destruct (Rmem_free w k s tombstone (own s) M Hs) as (w2 & F1 & F2 & F3 & F4 & F5 & F6 & F7 & F8); auto.
  - intros x. unfold own at 2. cbn. tauto.
  - unfold own. cbn. constructor.
  - apply (r_own_nodup _ M _ _ Hs).
  - rewrite Hst. intros x [].
  - exists w2. split; auto. split; [split; auto|].
    + apply (Rabs_set_subj w aw w2 (aset aw k (mkAS [] (-1))) k s a tombstone (mkAS [] (-1)) H Hs Ha F3); auto.
      * rewrite F6, calls_of_app, calls_of_map_EFree. reflexivity.
      * constructor; cbn; auto; try lia; try constructor; try (intros x []); try discriminate.
      * intros sid o _. split; cbn. intros o' []. lia.
    + repeat split; eauto. congruence.
Qed.
