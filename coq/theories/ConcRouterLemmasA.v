(* ConcRouterLemmasA.v — helper lemmas for ConcRouterProofs (C11): how the steps of the
   Resource model touch the threads' lock states, the release sequence, the modes a valid lock
   table assigns, facts about the event log, and the facts about the router that the
   composition needs (a notify on a router whose records are all valid returns the same router;
   observer numbers are the handle numbers; an unsubscribe removes the observer for good). *)
From Coq Require Import List ZArith Bool Lia Arith.
From Tulz Require Import Common ResourceModel ResourceInv ResourceLemmas ResourceProofs
  RouterModel RouterSpec RouterLemmasA1 RouterLemmasA2 RouterLemmasA3 RouterProofsA
  ConcRouterModel ConcRouterSpec.
Import ListNotations.

(* ---- generic list facts ------------------------------------------------------------------------ *)

Lemma filter_all {A} (f : A -> bool) l : (forall x, In x l -> f x = true) -> filter f l = l.
Proof.
  induction l as [|a l IH]; intros H; cbn; auto.
  rewrite (H a (or_introl eq_refl)). f_equal. apply IH. intros x Hx. apply H. right. exact Hx.
Qed.

Lemma firstn_snoc_nth {A} (l : list A) : forall k x, nth_error l k = Some x -> firstn (S k) l = firstn k l ++ [x].
Proof.
  induction l as [|a l IH]; intros [|k] x H; cbn in H; try discriminate.
  - inversion H. reflexivity.
  - cbn [firstn app]. change (a :: firstn (S k) l = a :: (firstn k l ++ [x])). f_equal. apply IH. exact H.
Qed.

Lemma firstn_new {A} (new old : list A) : firstn (length (new ++ old) - length old) (new ++ old) = new.
Proof.
  rewrite app_length. replace (length new + length old - length old) with (length new + 0) by lia.
  rewrite firstn_app_2. cbn. apply app_nil_r.
Qed.

Lemma nth_error_app_some {A} (l l' : list A) n x : nth_error l n = Some x -> nth_error (l ++ l') n = Some x.
Proof. intro H. rewrite nth_error_app1; auto. eapply nth_error_lt; eauto. Qed.

(* ---- the Resource's steps and the other threads ------------------------------------------------- *)

Lemma step_req_inv l t m l' : step true l (Req t m) = Some l' ->
  nth_error (thr l) t = Some Idle /\
  (nth_error (thr l') t = Some (Holding m) \/ exists id a, nth_error (thr l') t = Some (Parked m id false a)) /\
  (forall t', t' <> t -> nth_error (thr l') t' = nth_error (thr l) t').
Proof.
  unfold step. cbv zeta. destruct (nth_error (thr l) t) as [[]|] eqn:E; try discriminate.
  intros H. split; [reflexivity|].
  assert (L : t < length (thr l)) by (eapply nth_error_lt; eauto).
  destruct (fast (rs l) m); inversion H; subst; clear H; cbn [thr]; split.
  - left. apply nth_error_list_set_eq; auto.
  - intros. apply nth_error_list_set_neq; auto.
  - right. do 2 eexists. apply nth_error_list_set_eq; auto.
  - intros. apply nth_error_list_set_neq; auto.
Qed.

Lemma step_wake_inv l t l' : step true l (Wake t) = Some l' ->
  exists m id a, nth_error (thr l) t = Some (Parked m id true a) /\
  (nth_error (thr l') t = Some (Holding m) \/ nth_error (thr l') t = Some (Parked m id false a)) /\
  (forall t', t' <> t -> nth_error (thr l') t' = nth_error (thr l) t').
Proof.
  unfold step. cbv zeta. destruct (nth_error (thr l) t) as [[|m id [|] a| |]|] eqn:E; try discriminate.
  intros H. exists m, id, a. split; [reflexivity|].
  assert (L : t < length (thr l)) by (eapply nth_error_lt; eauto).
  destruct (Z.ltb id (ubound (rs l))); inversion H; subst; clear H; cbn [thr]; split.
  - left. apply nth_error_list_set_eq; auto.
  - intros. apply nth_error_list_set_neq; auto.
  - right. apply nth_error_list_set_eq; auto.
  - intros. apply nth_error_list_set_neq; auto.
Qed.

Lemma release_eq m l t : m <> MNone ->
  release m l t = match step true l (Rel t) with
                  | Some l1 => match step true l1 (Notify t) with Some l2 => l2 | None => l1 end
                  | None => l
                  end.
Proof. destruct m; try reflexivity. congruence. Qed.

Lemma release_spec m l t op : m <> MNone -> RInv l -> nth_error (thr l) t = Some (Holding op) ->
  RInv (release m l t) /\ nth_error (thr (release m l t)) t = Some Idle /\
  (forall t' st, t' <> t -> nth_error (thr l) t' = Some st ->
     nth_error (thr (release m l t)) t' = Some st \/
     nth_error (thr (release m l t)) t' = Some (notify_one_thread st)).
Proof.
  intros Hm HI Ht. rewrite (release_eq m l t Hm).
  assert (L : t < length (thr l)) by (eapply nth_error_lt; eauto).
  assert (E1 : exists l1, step true l (Rel t) = Some l1 /\
                (thr l1 = list_set (thr l) t Notifying \/ thr l1 = list_set (thr l) t Idle)).
  { unfold step. cbv zeta. rewrite Ht. destruct (Z.eqb (activeCount (rs l) - 1) 0); eexists; split; try reflexivity; cbn [thr]; auto. }
  destruct E1 as (l1 & E1 & Hthr). rewrite E1.
  pose proof (rinv_step _ _ _ HI E1) as HI1.
  destruct Hthr as [Hthr|Hthr].
  - assert (N1 : nth_error (thr l1) t = Some Notifying) by (rewrite Hthr; apply nth_error_list_set_eq; auto).
    assert (E2 : step true l1 (Notify t) =
                 Some (mkS (rs l1) (map notify_one_thread (list_set (thr l1) t Idle)) (arrivals l1) (hist l1) (assert_failed l1))).
    { unfold step. cbv zeta. rewrite N1. reflexivity. }
    rewrite E2. split; [exact (rinv_step _ _ _ HI1 E2)|]. cbn [thr]. split.
    + rewrite nth_error_map, nth_error_list_set_eq; [reflexivity|]. rewrite Hthr, length_list_set. exact L.
    + intros t' st N Hst. right. rewrite nth_error_map, nth_error_list_set_neq by auto.
      rewrite Hthr, nth_error_list_set_neq by auto. rewrite Hst. reflexivity.
  - assert (N1 : nth_error (thr l1) t = Some Idle) by (rewrite Hthr; apply nth_error_list_set_eq; auto).
    assert (E2 : step true l1 (Notify t) = None).
    { unfold step. cbv zeta. rewrite N1. reflexivity. }
    rewrite E2. split; [exact HI1|]. split; [exact N1|].
    intros t' st N Hst. left. rewrite Hthr, nth_error_list_set_neq by auto. exact Hst.
Qed.

(* ---- the modes of a valid lock table -------------------------------------------------------------- *)

Lemma table_modes tbl o : lock_table_ok tbl = true -> op_in_scope o = true ->
  exists m, mode_op (op_mode tbl o) = Some m /\ op_mode tbl o <> MNone /\ (mutates o = true -> m = Wr).
Proof.
  unfold lock_table_ok. cbv beta zeta. intros H S.
  repeat (apply andb_prop in H; let H2 := fresh "H" in destruct H as [H H2]).
  destruct o; cbn in S; try discriminate; cbn [op_mode mutates];
    match goal with |- context [mode_op ?x] => destruct x eqn:E end; try discriminate;
    cbn [mode_op]; eexists; (split; [reflexivity|split; [congruence|intros; congruence || reflexivity]]).
Qed.

(* ---- the event log ---------------------------------------------------------------------------------- *)

Lemma csg_grant_self t o log : calls_since_grant t (CGrant t o :: log) = [].
Proof. cbn. rewrite Nat.eqb_refl. reflexivity. Qed.
Lemma csg_grant_other t t' o log : t <> t' -> calls_since_grant t (CGrant t' o :: log) = calls_since_grant t log.
Proof. intro N. cbn. apply Nat.eqb_neq in N. rewrite N. reflexivity. Qed.
Lemma csg_call_self t obs v log : calls_since_grant t (CCall t obs v :: log) = calls_since_grant t log ++ [(obs, v)].
Proof. cbn. rewrite Nat.eqb_refl. reflexivity. Qed.
Lemma csg_call_other t t' obs v log : t <> t' -> calls_since_grant t (CCall t' obs v :: log) = calls_since_grant t log.
Proof. intro N. cbn. apply Nat.eqb_neq in N. rewrite N. reflexivity. Qed.
Lemma csg_effect t t' o log : calls_since_grant t (CEffect t' o :: log) = calls_since_grant t log.
Proof. reflexivity. Qed.
Lemma csg_done t t' o ret log : calls_since_grant t (CDone t' o ret :: log) = calls_since_grant t log.
Proof. reflexivity. Qed.

(* no observer is called after an unsubscribe of its handle took effect (newest first) *)
Fixpoint nocall_ok (log : list cevent) : Prop :=
  match log with
  | [] => True
  | CCall _ obs _ :: rest => (forall t, ~ In (CEffect t (RUnsub obs)) rest) /\ nocall_ok rest
  | _ :: rest => nocall_ok rest
  end.

Lemma nocall_split post : forall t h pre t' v,
  nocall_ok (post ++ CEffect t (RUnsub h) :: pre) -> ~ In (CCall t' h v) post.
Proof.
  induction post as [|e post IH]; intros t h pre t' v H Hin; [destruct Hin|].
  destruct Hin as [->|Hin].
  - cbn in H. destruct H as [H _]. apply (H t). apply in_elt.
  - apply (IH t h pre t' v); auto. destruct e; cbn in H; try exact H. apply H.
Qed.

(* ---- notify on a router all of whose records are valid ------------------------------------------- *)

Definition all_valid (fs : fstate) : Prop := forall e x, In e fs -> In x (snd e) -> r_valid x = true.

Lemma notify_all_same (f : node -> nres) cs :
  Forall (fun c => forall k calls c', f c = Some (k, calls, c') -> c' = c) cs ->
  forall k calls cs', notify_all f cs = Some (k, calls, cs') -> cs' = cs.
Proof.
  induction 1 as [|c cs Hc _ IH]; intros k calls cs' H.
  - cbn in H. inversion H; auto.
  - rewrite notify_all_cons in H. destruct (f c) as [[[k1 c1] c']|] eqn:E; [|discriminate].
    destruct (notify_all f cs) as [[[k2 c2] cs2]|] eqn:E2; [|discriminate].
    inversion H; subst. f_equal; eauto.
Qed.

Lemma notify_one_same (f : node -> nres) x cs :
  Forall (fun c => forall k calls c', f c = Some (k, calls, c') -> c' = c) cs ->
  forall k calls cs', notify_one f x cs = Some (k, calls, cs') -> cs' = cs.
Proof.
  induction 1 as [|c cs Hc _ IH]; intros k calls cs' H.
  - cbn in H. inversion H; auto.
  - rewrite notify_one_cons in H. destruct (Z.eqb (nname c) x).
    + destruct (f c) as [[[k1 c1] c']|] eqn:E; [|discriminate]. inversion H; subst. f_equal; eauto.
    + destruct (notify_one f x cs) as [[[k2 c2] cs2]|] eqn:E2; [|discriminate].
      inversion H; subst. f_equal; eauto.
Qed.

Lemma all_valid_child nm sj ch c : all_valid (flat (Node nm sj ch)) -> In c ch -> all_valid (flat c).
Proof.
  intros V Hc e x He Hx. rewrite flat_eq in V.
  apply (V (nname c :: fst e, snd e)); [|exact Hx].
  apply in_or_app. right. unfold blocks. apply in_flat_map. exists c. split; auto.
  unfold rekey. apply in_map_iff. exists e. auto.
Qed.

Lemma notify_same byval arg : forall n lv cur k calls n',
  all_valid (flat n) -> notify_node true byval arg n lv cur = Some (k, calls, n') -> n' = n.
Proof.
  induction n as [nm sj ch IH] using node_ind2. intros lv cur k calls n' V H.
  destruct lv as [|l [|nl rest]].
  - cbn in H. inversion H; auto.
  - rewrite notify_leaf in H. destruct (negb (matches l nm)); [inversion H; auto|].
    destruct sj as [s|]; [|inversion H; auto].
    destruct (sig_eqb (s_sig s) cur); [|discriminate]. inversion H; subst; clear H.
    unfold deliver_subs. cbn [snd]. rewrite filter_all; [destruct s; reflexivity|].
    intros x Hx. rewrite flat_eq in V. apply (V ([], s_subs s)); [|exact Hx].
    apply in_or_app. left. unfold own. cbn [live_subs]. destruct (s_subs s); [destruct Hx|left; reflexivity].
  - rewrite notify_unfold in H. destruct (negb (matches l nm)); [inversion H; auto|].
    assert (CH : forall cur', Forall (fun c => forall k calls c',
                   notify_node true byval arg c (nl :: rest) cur' = Some (k, calls, c') -> c' = c) ch).
    { intro cur'. rewrite Forall_forall in *. intros c Hc k0 calls0 c' Hn.
      eapply IH; eauto. eapply all_valid_child; eauto. }
    destruct (is_regex nl).
    + destruct (notify_all _ ch) as [[[k0 c0] ch']|] eqn:E; cbn [wrap] in H; [|discriminate].
      inversion H; subst. f_equal. eapply notify_all_same; [|exact E]. apply CH.
    + destruct (notify_one _ _ ch) as [[[k0 c0] ch']|] eqn:E; cbn [wrap] in H; [|discriminate].
      inversion H; subst. f_equal. eapply notify_one_same; [|exact E]. apply CH.
Qed.

(* ---- the invariant of the router: observers are handle numbers ------------------------------------- *)

Definition fobs_in (fr : frouter) (h : nat) : Prop :=
  exists e x, In e (fst_ fr) /\ In x (snd e) /\ r_obs x = h.
Definition obs_in (r : router) (h : nat) : Prop := fobs_in (abs_router r) h.

Record FInv (fr : frouter) : Prop := {
  fi_next : fnext fr = length (fhandles fr);
  fi_h : forall h k o, nth_error (fhandles fr) h = Some (k, o) -> o = h;
  fi_rec : forall k subs x, In (k, subs) (fst_ fr) -> In x subs ->
             r_valid x = true /\ nth_error (fhandles fr) (r_obs x) = Some (k, r_obs x)
}.

Definition RtInv (r : router) : Prop := RI SIG r /\ FInv (abs_router r).

Lemma rtinv0 : RtInv router0.
Proof.
  split; [apply RI0|]. constructor; cbn.
  - reflexivity.
  - intros [|h] k o H; discriminate.
  - intros k subs x [].
Qed.

Lemma f_insert_in st key o : forall k subs x, In (k, subs) (f_insert st key o) -> In x subs ->
  (exists subs0, In (k, subs0) st /\ In x subs0) \/ (k = key /\ x = mkOR o true false).
Proof.
  induction st as [|[k0 subs0] st IH]; intros k subs x H Hx.
  - cbn in H. destruct H as [H|[]]. inversion H; subst. destruct Hx as [<-|[]]. right. auto.
  - cbn [f_insert] in H. destruct (key_eqb k0 key) eqn:E.
    + apply key_eqb_eq in E. subst k0. destruct H as [H|H].
      * inversion H; subst. apply in_app_or in Hx. destruct Hx as [Hx|[<-|[]]].
        -- left. exists subs0. split; [left; reflexivity|exact Hx].
        -- right. auto.
      * left. exists subs. split; [right; exact H|exact Hx].
    + destruct (key_ltb key k0).
      * destruct H as [H|H].
        -- inversion H; subst. destruct Hx as [<-|[]]. right. auto.
        -- left. exists subs. split; [exact H|exact Hx].
      * destruct H as [H|H].
        -- inversion H; subst. left. exists subs. split; [left; reflexivity|exact Hx].
        -- destruct (IH k subs x H Hx) as [(s1 & H1 & H2)|H1]; [left|right; exact H1].
           exists s1. split; [right; exact H1|exact H2].
Qed.

Lemma f_update_in st key f k subs : In (k, subs) (f_update st key f) ->
  exists subs0, In (k, subs0) st /\
    ((key_eqb k key = true /\ subs = f subs0) \/ (key_eqb k key = false /\ subs = subs0)).
Proof.
  unfold f_update. intro H. apply filter_In in H. destruct H as [H _].
  apply in_map_iff in H. destruct H as ([k0 s0] & E & Hin). cbn [fst snd] in E.
  destruct (key_eqb k0 key) eqn:K; inversion E; subst; eexists; (split; [exact Hin|]); auto.
Qed.

Definition unsub_f (o : nat) (l : list orec) : list orec := filter (fun x => negb (Nat.eqb (r_obs x) o)) l.

Record Fstep_ok (fr fr' : frouter) (o : rop) : Prop := {
  fs_inv : FInv fr';
  fs_ext : exists ext, fhandles fr' = fhandles fr ++ ext;
  fs_old : forall h, h < length (fhandles fr) -> ~ fobs_in fr h -> ~ fobs_in fr' h;
  fs_unsub : forall h, o = RUnsub h -> h < length (fhandles fr) -> ~ fobs_in fr' h
}.

Lemma fstep_ok_same fr o : FInv fr ->
  (forall h, o = RUnsub h -> h < length (fhandles fr) -> ~ fobs_in fr h) -> Fstep_ok fr fr o.
Proof.
  intros HI HU. constructor; auto. exists []. symmetry. apply app_nil_r.
Qed.

Lemma fstep_subscribe fr key : FInv fr -> Fstep_ok fr (fst (f_step fr (RSubscribe key))) (RSubscribe key).
Proof.
  intros HI. cbn [f_step fst]. constructor; cbn [fst_ fhandles fnext].
  - constructor; cbn [fst_ fhandles fnext].
    + rewrite app_length. cbn. rewrite (fi_next _ HI). lia.
    + intros h k o H. destruct (Nat.lt_ge_cases h (length (fhandles fr))) as [L|L].
      * rewrite nth_error_app1 in H by exact L. eapply fi_h; eauto.
      * rewrite nth_error_app2 in H by exact L.
        destruct (h - length (fhandles fr)) as [|d] eqn:D; cbn in H.
        -- inversion H; subst. rewrite (fi_next _ HI). lia.
        -- destruct d; discriminate.
    + intros k subs x H Hx. destruct (f_insert_in _ _ _ _ _ _ H Hx) as [(s0 & H1 & H2)|[-> ->]].
      * destruct (fi_rec _ HI _ _ _ H1 H2) as [V N]. split; [exact V|]. apply nth_error_app_some. exact N.
      * split; [reflexivity|]. cbn [r_obs]. rewrite (fi_next _ HI). apply nth_error_app_mid.
  - eexists. reflexivity.
  - intros h L N (e & x & He & Hx & Ho). destruct e as [k subs]. cbn [snd] in Hx.
    destruct (f_insert_in _ _ _ _ _ _ He Hx) as [(s0 & H1 & H2)|[-> ->]].
    + apply N. exists (k, s0), x. auto.
    + cbn [r_obs] in Ho. rewrite (fi_next _ HI) in Ho. lia.
  - intros h E. discriminate.
Qed.

Lemma fstep_unsub fr h : FInv fr -> Fstep_ok fr (fst (f_step fr (RUnsub h))) (RUnsub h).
Proof.
  intros HI. cbn [f_step fst]. fold unsub_f. unfold f_on_handle.
  destruct (nth_error (fhandles fr) h) as [[key o]|] eqn:Eh.
  - assert (o = h) by (eapply fi_h; eauto). subst o.
    destruct (f_present (fst_ fr) key h) eqn:P.
    + assert (SUB : forall k subs x, In (k, subs) (f_update (fst_ fr) key (unsub_f h)) -> In x subs ->
                      exists s0, In (k, s0) (fst_ fr) /\ In x s0).
      { intros k subs x H Hx. destruct (f_update_in _ _ _ _ _ H) as (s0 & H1 & [[_ ->]|[_ ->]]); exists s0; split; auto.
        unfold unsub_f in Hx. apply filter_In in Hx. apply Hx. }
      constructor; cbn [fst_ fhandles fnext].
      * constructor; cbn [fst_ fhandles fnext].
        -- apply (fi_next _ HI).
        -- apply (fi_h _ HI).
        -- intros k subs x H Hx. destruct (SUB _ _ _ H Hx) as (s0 & H1 & H2). eapply fi_rec; eauto.
      * exists []. symmetry. apply app_nil_r.
      * intros h0 L N (e & x & He & Hx & Ho). destruct e as [k subs]. cbn [snd] in Hx.
        destruct (SUB _ _ _ He Hx) as (s0 & H1 & H2). apply N. exists (k, s0), x. auto.
      * intros h0 E L. injection E as <-. intros (e & x & He & Hx & Ho). destruct e as [k subs]. cbn [snd] in Hx.
        destruct (f_update_in _ _ _ _ _ He) as (s0 & H1 & [[K ->]|[K ->]]).
        -- unfold unsub_f in Hx. apply filter_In in Hx. destruct Hx as [_ Hx]. rewrite Ho, Nat.eqb_refl in Hx. discriminate.
        -- destruct (fi_rec _ HI _ _ _ H1 Hx) as [_ Nx]. rewrite Ho, Eh in Nx. inversion Nx; subst.
           rewrite key_eqb_refl in K. discriminate.
    + apply fstep_ok_same; auto. intros h0 E L. injection E as <-. intros (e & x & He & Hx & Ho).
      destruct e as [k subs]. cbn [snd] in Hx.
      destruct (fi_rec _ HI _ _ _ He Hx) as [_ Nx]. rewrite Ho, Eh in Nx. inversion Nx; subst.
      assert (T : f_present (fst_ fr) k (r_obs x) = true).
      { unfold f_present. apply existsb_exists. exists (k, subs). split; [exact He|]. cbn [fst snd].
        rewrite key_eqb_refl. cbn [andb]. apply existsb_exists. exists x. split; [exact Hx|apply Nat.eqb_refl]. }
      congruence.
  - apply fstep_ok_same; auto. intros h0 E L. injection E as <-.
    apply nth_error_None in Eh. lia.
Qed.

(* ---- do_rstep on a router with the invariant --------------------------------------------------------- *)

Lemma do_rstep_spec r o : RtInv r ->
  exists r' ret, do_rstep r o = (r', ret, snd (f_step (abs_router r) o)) /\ RI SIG r' /\
                 abs_router r' = fst (f_step (abs_router r) o).
Proof.
  intros [HR _]. destruct (rstep_ok byval1 SIG r o HR) as (r' & ret & E & HR' & A).
  exists r', ret. unfold do_rstep. rewrite E. auto.
Qed.

Lemma rtinv_all_valid r : RtInv r -> all_valid (flat (root r)).
Proof.
  intros [_ HF] [k subs] x He Hx. cbn [snd] in Hx. apply (fi_rec _ HF k subs x); auto.
Qed.

Lemma do_rstep_notify r p a : RtInv r ->
  exists k, do_rstep r (RNotify p a) = (r, [k], fst (f_notify (flat (root r)) p a)).
Proof.
  intros HI. pose proof HI as [HR _].
  destruct (notify_root_ok byval1 SIG r p a HR) as (n' & E & _).
  pose proof (notify_same _ _ _ _ _ _ _ _ (rtinv_all_valid r HI) E) as En. subst n'.
  eexists. unfold do_rstep. cbn [rstep]. rewrite E. destruct r; reflexivity.
Qed.

Lemma delivery_obs r p a obs v : RtInv r -> In (obs, v) (delivery r (RNotify p a)) -> obs_in r obs.
Proof.
  intros HI H. unfold delivery in H. destruct (do_rstep_notify r p a HI) as (k & E). rewrite E in H.
  cbn [snd fst f_notify] in H. apply in_flat_map in H. destruct H as (e & He & H).
  destruct (key_matches p (fst e)); [|destruct H].
  unfold deliver_subs in H. cbn [fst] in H. apply in_map_iff in H. destruct H as (x & Ex & Hx).
  apply filter_In in Hx. destruct Hx as [Hx _]. inversion Ex; subst.
  exists e, x. auto.
Qed.

Definition is_notify (o : rop) : bool := match o with RNotify _ _ => true | _ => false end.

Lemma do_rstep_inv r o : RtInv r -> op_in_scope o = true ->
  RtInv (fst (fst (do_rstep r o))) /\
  (exists ext, rhandles (fst (fst (do_rstep r o))) = rhandles r ++ ext) /\
  (mutates o = false -> fst (fst (do_rstep r o)) = r) /\
  (forall h, h < length (rhandles r) -> ~ obs_in r h -> ~ obs_in (fst (fst (do_rstep r o))) h) /\
  (forall h, o = RUnsub h -> h < length (rhandles r) -> ~ obs_in (fst (fst (do_rstep r o))) h).
Proof.
  intros HI S.
  assert (SAME : fst (fst (do_rstep r o)) = r -> (forall h, o <> RUnsub h) ->
    RtInv (fst (fst (do_rstep r o))) /\
    (exists ext, rhandles (fst (fst (do_rstep r o))) = rhandles r ++ ext) /\
    (mutates o = false -> fst (fst (do_rstep r o)) = r) /\
    (forall h, h < length (rhandles r) -> ~ obs_in r h -> ~ obs_in (fst (fst (do_rstep r o))) h) /\
    (forall h, o = RUnsub h -> h < length (rhandles r) -> ~ obs_in (fst (fst (do_rstep r o))) h)).
  { intros E NU. rewrite E. split; [exact HI|]. split; [exists []; symmetry; apply app_nil_r|].
    split; [auto|]. split; [auto|]. intros h Eo. destruct (NU h Eo). }
  assert (VIA : Fstep_ok (abs_router r) (fst (f_step (abs_router r) o)) o ->
    RtInv (fst (fst (do_rstep r o))) /\
    (exists ext, rhandles (fst (fst (do_rstep r o))) = rhandles r ++ ext) /\
    (mutates o = false -> fst (fst (do_rstep r o)) = r) /\
    (forall h, h < length (rhandles r) -> ~ obs_in r h -> ~ obs_in (fst (fst (do_rstep r o))) h) /\
    (forall h, o = RUnsub h -> h < length (rhandles r) -> ~ obs_in (fst (fst (do_rstep r o))) h)).
  { intros F. destruct (do_rstep_spec r o HI) as (r' & ret & E & HR' & A). rewrite E. cbn [fst].
    unfold obs_in. rewrite A. destruct F as [F1 F2 F3 F4].
    split; [split; [exact HR'|rewrite A; exact F1]|].
    split; [replace (rhandles r') with (fhandles (abs_router r')) by reflexivity; rewrite A; exact F2|].
    split; [|split; [exact F3|exact F4]].
    intros M. destruct o; cbn in M; try discriminate; cbn in S; try discriminate.
    - destruct (do_rstep_notify r pat arg HI) as (k & E2). rewrite E2 in E. inversion E; auto.
    - cbn in E. inversion E; auto.
    - cbn in E. inversion E; auto. }
  destruct o; cbn in S; try discriminate.
  - exact (VIA (fstep_subscribe _ key (proj2 HI))).
  - exact (VIA (fstep_unsub _ h (proj2 HI))).
  - apply SAME; [|discriminate]. destruct (do_rstep_notify r pat arg HI) as (k & E). rewrite E. reflexivity.
  - assert (F : Fstep_ok (abs_router r) (fst (f_step (abs_router r) (RShrink pat))) (RShrink pat)).
    { cbn [f_step fst]. apply fstep_ok_same; [exact (proj2 HI)|discriminate]. }
    exact (VIA F).
  - apply SAME; [reflexivity|discriminate].
  - apply SAME; [reflexivity|discriminate].
Qed.
