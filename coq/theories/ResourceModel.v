(* ResourceModel.v — executable model of src/threading/rwp/Resource.cpp (definitions only).

   All five fields of Resource are only touched under m_mutex, so every critical section is
   one atomic step. Labels, one per critical section or condition-variable event:
     Req t op    the whole lock(op) of thread t up to its return (fast path) or until it is
                 blocked in m_cv.wait (ticket taken, entry enqueued)
     Wake t      a *notified* parked thread re-acquires the mutex and re-evaluates its wait
                 predicate (id < m_upperUnlockBound): proceeds and returns, or sleeps again
     Spurious t  a spurious wake-up (allowed by C++): marks a parked thread notified
     Rel t       the critical section of unlock(): decrement, select() at zero
     Notify t    the notify_all() that follows select(), after the mutex was released
   [precount] selects how holders are counted: true = the tree's code (select() counts the
   whole admitted batch, lock() increments only on the fast path); false = the pinned
   upstream code (an admitted waiter increments m_activeCount itself when it finally wakes).
   Ghost history: every Req gets the next arrival number; the log records Issue / Park /
   Grant events (newest first). *)
From Coq Require Import List ZArith Bool Lia Arith.
From Tulz Require Import Common.
Import ListNotations.
Local Open Scope Z_scope.

Inductive optype := Rd | Wr.
Inductive aop := ANone | ARd | AWr.
Definition aop_of (o : optype) : aop := match o with Rd => ARd | Wr => AWr end.
Definition optype_eqb (a b : optype) : bool :=
  match a, b with Rd, Rd => true | Wr, Wr => true | _, _ => false end.
Definition aop_eqb (a b : aop) : bool :=
  match a, b with ANone, ANone => true | ARd, ARd => true | AWr, AWr => true | _, _ => false end.

Record rstate := mkR {
  queue : list (optype * Z);      (* m_queue: (type, upperBound), front first *)
  activeOp : aop;                 (* m_activeOp *)
  activeCount : Z;                (* m_activeCount *)
  idCounter : Z;                  (* m_idCounter *)
  ubound : Z                      (* m_upperUnlockBound *)
}.
Definition r0 : rstate := mkR [] ANone 0 0 0.

Inductive tstate :=
| Idle
| Parked (op : optype) (id : Z) (notified : bool) (arr : nat)
| Holding (op : optype)
| Notifying.

Inductive hev :=
| HIssue (t arr : nat) (op : optype)
| HPark (t arr : nat)
| HGrant (t arr : nat).

Record state := mkS {
  rs : rstate;
  thr : list tstate;
  arrivals : nat;
  hist : list hev;                (* newest first *)
  assert_failed : bool            (* unlock()'s assert(m_activeOp == opType) was violated *)
}.

Definition init (n : nat) : state := mkS r0 (repeat Idle n) 0 [] false.

Inductive label :=
| Req (t : nat) (op : optype)
| Wake (t : nat)
| Spurious (t : nat)
| Rel (t : nat)
| Notify (t : nat).

(* the fast path condition of lock() *)
Definition fast (r : rstate) (op : optype) : bool :=
  match queue r with
  | [] => match activeOp r, op with
          | ANone, _ => true
          | ARd, Rd => true
          | _, _ => false
          end
  | _ :: _ => false
  end.

(* enqueue(opType), called with m_idCounter already incremented (= idc) *)
Definition enqueue (q : list (optype * Z)) (op : optype) (idc : Z) : list (optype * Z) :=
  match op with
  | Wr => q ++ [(Wr, idc)]
  | Rd => match rev q with
          | (Rd, _) :: rq => rev ((Rd, idc) :: rq)
          | _ => q ++ [(Rd, idc)]
          end
  end.

(* select(), called when m_activeCount has reached 0 *)
Definition select (pre : bool) (r : rstate) : rstate :=
  match queue r with
  | [] => mkR [] ANone (activeCount r) 0 0
  | (ty, b) :: q' =>
      mkR q' (aop_of ty) (if pre then b - ubound r else activeCount r) (idCounter r) b
  end.

Definition notify_one_thread (t : tstate) : tstate :=
  match t with Parked op id _ a => Parked op id true a | _ => t end.

Definition step (pre : bool) (s : state) (l : label) : option state :=
  let r := rs s in
  match l with
  | Req t op =>
      match nth_error (thr s) t with
      | Some Idle =>
          let a := arrivals s in
          if fast r op then
            Some (mkS (mkR (queue r) (aop_of op) (activeCount r + 1) (idCounter r) (ubound r))
                      (list_set (thr s) t (Holding op)) (S a)
                      (HGrant t a :: HIssue t a op :: hist s) (assert_failed s))
          else
            let id := idCounter r in
            Some (mkS (mkR (enqueue (queue r) op (id + 1)) (activeOp r) (activeCount r) (id + 1) (ubound r))
                      (list_set (thr s) t (Parked op id false a)) (S a)
                      (HPark t a :: HIssue t a op :: hist s) (assert_failed s))
      | _ => None
      end
  | Rel t =>
      match nth_error (thr s) t with
      | Some (Holding op) =>
          let bad := negb (aop_eqb (activeOp r) (aop_of op)) in
          let c := activeCount r - 1 in
          if c =? 0 then
            Some (mkS (select pre (mkR (queue r) (activeOp r) c (idCounter r) (ubound r)))
                      (list_set (thr s) t Notifying) (arrivals s) (hist s) (assert_failed s || bad))
          else
            Some (mkS (mkR (queue r) (activeOp r) c (idCounter r) (ubound r))
                      (list_set (thr s) t Idle) (arrivals s) (hist s) (assert_failed s || bad))
      | _ => None
      end
  | Notify t =>
      match nth_error (thr s) t with
      | Some Notifying =>
          Some (mkS r (map notify_one_thread (list_set (thr s) t Idle)) (arrivals s) (hist s) (assert_failed s))
      | _ => None
      end
  | Wake t =>
      match nth_error (thr s) t with
      | Some (Parked op id true a) =>
          if id <? ubound r then
            Some (mkS (mkR (queue r) (activeOp r) (if pre then activeCount r else activeCount r + 1)
                           (idCounter r) (ubound r))
                      (list_set (thr s) t (Holding op)) (arrivals s) (HGrant t a :: hist s) (assert_failed s))
          else
            Some (mkS r (list_set (thr s) t (Parked op id false a)) (arrivals s) (hist s) (assert_failed s))
      | _ => None
      end
  | Spurious t =>
      match nth_error (thr s) t with
      | Some (Parked op id false a) =>
          Some (mkS r (list_set (thr s) t (Parked op id true a)) (arrivals s) (hist s) (assert_failed s))
      | _ => None
      end
  end.

(* run a label sequence; labels that are not enabled are skipped (and reported as such) *)
Fixpoint run (pre : bool) (s : state) (ls : list label) : state :=
  match ls with
  | [] => s
  | l :: rest => match step pre s l with Some s' => run pre s' rest | None => run pre s rest end
  end.

(* executions in which every label is enabled *)
Fixpoint exec (pre : bool) (s : state) (ls : list label) : option state :=
  match ls with
  | [] => Some s
  | l :: rest => match step pre s l with Some s' => exec pre s' rest | None => None end
  end.

(* ---- closed system: every thread runs a finite program of lock/unlock pairs ------------ *)

Record cstate := mkC { cs : state; progs : list (list optype) }.

Definition cinit (ps : list (list optype)) : cstate := mkC (init (length ps)) ps.

Definition cstep (pre : bool) (c : cstate) (l : label) : option cstate :=
  match l with
  | Req t op =>
      match nth_error (progs c) t with
      | Some (op' :: rest) =>
          if optype_eqb op op' then
            match step pre (cs c) l with
            | Some s' => Some (mkC s' (list_set (progs c) t rest))
            | None => None
            end
          else None
      | _ => None
      end
  | _ => match step pre (cs c) l with Some s' => Some (mkC s' (progs c)) | None => None end
  end.

Fixpoint cexec (pre : bool) (c : cstate) (ls : list label) : option cstate :=
  match ls with
  | [] => Some c
  | l :: rest => match cstep pre c l with Some c' => cexec pre c' rest | None => None end
  end.

Definition is_spurious (l : label) : bool := match l with Spurious _ => true | _ => false end.

Definition finished (c : cstate) : bool :=
  forallb (fun p => match p with [] => true | _ => false end) (progs c) &&
  forallb (fun t => match t with Idle => true | _ => false end) (thr (cs c)).

(* all labels that mention thread indices below n *)
Definition labels_of (n : nat) : list label :=
  flat_map (fun t => [Req t Rd; Req t Wr; Wake t; Rel t; Notify t]) (seq 0 n).

(* some non-spurious label is enabled *)
Definition can_progress (pre : bool) (c : cstate) : bool :=
  existsb (fun l => match cstep pre c l with Some _ => true | None => false end)
          (labels_of (length (thr (cs c)))).

(* the termination measure of C02 (see Properties_C02) *)
Definition phase (n : Z) (t : tstate) : Z :=
  match t with
  | Idle => 0
  | Parked _ _ nt _ => n + 1 + (if nt then 1 else 0)
  | Holding _ => n + 1
  | Notifying => n
  end.
Definition measure (c : cstate) : Z :=
  let n := Zlen (thr (cs c)) in
  fold_right Z.add 0 (map (fun p => (2 * n + 4) * Zlen p) (progs c)) +
  fold_right Z.add 0 (map (phase n) (thr (cs c))).

(* ---- runner for the correspondence check ------------------------------------------------ *)

Definition tstate_z (t : tstate) : Z :=
  match t with
  | Idle => 0
  | Parked _ _ false _ => 1
  | Parked _ _ true _ => 2
  | Holding Rd => 3
  | Holding Wr => 4
  | Notifying => 5
  end.

Definition label_of (l : list Z) : option label :=
  match l with
  | [0; t; o] | [0; t; o; _] => if 0 <=? t then Some (Req (Z.to_nat t) (if o =? 0 then Rd else Wr)) else None
  | [1; t] => if 0 <=? t then Some (Wake (Z.to_nat t)) else None
  | [2; t] => if 0 <=? t then Some (Spurious (Z.to_nat t)) else None
  | [3; t] => if 0 <=? t then Some (Rel (Z.to_nat t)) else None
  | [4; t] => if 0 <=? t then Some (Notify (Z.to_nat t)) else None
  | _ => None
  end.

Fixpoint res_run_lines (pre : bool) (s : state) (ls : list (list Z)) : list (list Z) :=
  match ls with
  | [] => []
  | l :: rest =>
      match label_of l with
      | None => [PRE] :: res_run_lines pre s rest
      | Some lab =>
          match step pre s lab with
          | Some s' => (1 :: map tstate_z (thr s')) :: res_run_lines pre s' rest
          | None => (0 :: map tstate_z (thr s)) :: res_run_lines pre s rest
          end
      end
  end.

(* header line: [threads; variant] (variant 1 = the tree's code, 0 = pinned upstream) *)
Definition res_run (case : list (list Z)) : list (list Z) :=
  match case with
  | [n; v] :: ls | [n; v; _] :: ls =>
      (* an optional third field tells the implementation side which threads hold a read lock on a second,
         unrelated Resource throughout the case: instances are independent, the model is the same *)
      [] :: res_run_lines (negb (v =? 0)) (init (Z.to_nat n)) ls
  | _ => [[PRE]]
  end.
