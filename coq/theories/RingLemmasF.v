(* RingLemmasF.v — destroy, copy, init_list, new_ring, equality of the RingBuffer model. *)
From Coq Require Import List ZArith Bool Lia ZifyBool Permutation.
From Tulz Require Import Common RingModel RingInv RingLemmasA RingLemmasB RingLemmasC RingLemmasD RingLemmasE.
Import ListNotations.
Local Open Scope Z_scope.

Section F.
Context {V : Type}.
Implicit Types (d : list (slot V)) (r : ring V).

Lemma destroy_spec r : wf0 r -> evfacts (destroy r) (items r) [] [].
Proof.
  intros [W | ->].
  2:{ cbv. auto. }
  destruct r as [p s c d].
  destruct (wf_elim _ _ _ _ W) as (Hc & Hp & Hs & Hl & Hph).
  destruct (wf_contents _ W) as [HC HZ]. cbn [size] in HZ.
  set (its := items (mkRing p s c d)) in *.
  unfold destroy, dataIndex; cbn [pos size cap data].
  destruct (dtor_loop d (fun i => modCap (p + i) c) 0 (Z.to_nat s)) as [d2 ev2] eqn:HDL.
  apply dtor_loop_spec in HDL; try lia. destruct HDL as (Hl2 & Ha & Hb & ->).
  rewrite Z2Nat.id in * by lia.
  replace (modCap (p + 0) c) with p by (mc; lia). rewrite HC.
  assert (Hno : existsb is_live d2 = false).
  { apply no_live_list. intros j Hj. rewrite Hl2 in Hj.
    assert (Hi : exists i, 0 <= i < c /\ modCap (p + i) c = j).
    { destruct (Z_lt_le_dec j p); [exists (j - p + c)|exists (j - p)]; split; try lia; mc; lia. }
    destruct Hi as (i & Hi & Hij).
    destruct (Z_lt_le_dec i s).
    - rewrite <- Hij. rewrite Ha by lia. reflexivity.
    - rewrite Hb by (intros i' Hi'; mcz; lia).
      pose proof (Hph j Hj). mcz; lia. }
  pose proof (evfacts_app _ _ _ _ _ _ _ _ (evfacts_dtors its) (evfacts_free d2 Hno)) as HE.
  rewrite app_nil_r in HE. exact HE.
Qed.

Lemma map_fst_copy (l : list V) : map fst (map (@copy_slot V) (map Live l)) = map Live l.
Proof. induction l; simpl; congruence. Qed.

Lemma flat_snd_copy (l : list V) : flat_map snd (map (@copy_slot V) (map Live l)) = map ECtor l.
Proof. induction l; simpl; congruence. Qed.

Lemma copy_assign_spec dst src r' evs :
  wf0 dst -> wf0 src -> copy_assign fixed_variant dst src = (r', evs) ->
  wf0 r' /\ items r' = items src /\ cap r' = cap src /\ evfacts evs (items dst) (items src) [].
Proof.
  intros Wd Ws. destruct (wf0_contents src Ws) as [HC HZ].
  unfold copy_assign; cbn [assign_releases fixed_variant].
  rewrite HC, map_fst_copy, flat_snd_copy.
  intros E. inversion E; subst r' evs; clear E.
  assert (Hle : size src <= cap src).
  { destruct Ws as [W | ->]; [apply (wf_size _ W)|cbn; lia]. }
  assert (HZ' : Zlen (map (@Live V) (items src)) = size src) by (unfold Zlen in *; rewrite map_length; auto).
  replace (Zlen (map Live (items src)) <=? cap src) with true by lia.
  assert (HE : evfacts (destroy dst ++ map ECtor (items src) ++ []) (items dst) (items src) []).
  { pose proof (evfacts_app _ _ _ _ _ _ _ _ (destroy_spec dst Wd) (evfacts_ctors (items src))) as HE.
    rewrite !app_nil_r in *. cbn [app] in HE. exact HE. }
  destruct Ws as [W | ->].
  - destruct (fresh_wf (items src) (cap src) (size src) (map Live (items src))) as [W' I']; auto.
    + apply (wf_cap _ W).
    + split; [left; exact W'|]. split; [exact I'|]. split; [reflexivity|exact HE].
  - split; [right; reflexivity|]. split; [reflexivity|]. split; [reflexivity|exact HE].
Qed.

Lemma init_list_spec (vals : list V) c r' evs :
  ((c =? -1) && (1 <=? Zlen vals) || (Zlen vals <=? c) && (1 <=? c)) = true ->
  init_list vals c = (r', evs) ->
  wf r' /\ items r' = vals /\ cap r' = (if c =? -1 then Zlen vals else c) /\ evfacts evs [] vals [].
Proof.
  intros Hg. unfold init_list. intros E. inversion E; subst r' evs; clear E.
  set (c' := if c =? -1 then Zlen vals else c).
  assert (Hc' : 1 <= c' /\ Zlen vals <= c') by (unfold c'; destruct (c =? -1) eqn:E; lia).
  destruct (fresh_wf vals c' (Zlen vals) (map Live vals)) as [W' I']; auto; try lia.
  split; [exact W'|]. split; [exact I'|]. split; [reflexivity|].
  replace (Zlen vals <=? c') with true by lia. rewrite app_nil_r. apply evfacts_ctors.
Qed.

Lemma new_ring_spec c : 1 <= c -> wf (@new_ring V c) /\ items (@new_ring V c) = [].
Proof.
  intros Hc. unfold new_ring.
  replace (Z.to_nat c) with (Z.to_nat (c - 0)) by lia.
  apply (fresh_wf [] c 0 []); auto; lia.
Qed.

End F.

Lemma slots_eqb_spec (a : list Z) : forall b,
  slots_eqb Z.eqb (map Live a) (map Live b) = if list_eq_dec Z.eq_dec a b then true else false.
Proof.
  induction a as [|x a IH]; intros [|y b]; cbn [map slots_eqb].
  - destruct (list_eq_dec Z.eq_dec [] []); congruence.
  - destruct (list_eq_dec Z.eq_dec [] (y :: b)); congruence.
  - destruct (list_eq_dec Z.eq_dec (x :: a) []); congruence.
  - rewrite IH. destruct (list_eq_dec Z.eq_dec a b) as [->|Hn].
    + destruct (Z.eqb_spec x y) as [->|Hxy]; cbn [andb].
      * destruct (list_eq_dec Z.eq_dec (y :: b) (y :: b)); congruence.
      * destruct (list_eq_dec Z.eq_dec (x :: b) (y :: b)); congruence.
    + rewrite andb_false_r. destruct (list_eq_dec Z.eq_dec (x :: a) (y :: b)); congruence.
Qed.

Lemma ring_eqb_spec (x y : ring Z) : wf0 x -> wf0 y ->
  ring_eqb Z.eqb x y = if list_eq_dec Z.eq_dec (items x) (items y) then true else false.
Proof.
  intros Wx Wy. unfold ring_eqb.
  destruct (wf0_contents x Wx) as [-> _]. destruct (wf0_contents y Wy) as [-> _].
  apply slots_eqb_spec.
Qed.
