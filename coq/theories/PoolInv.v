(* PoolInv.v — the notions the ThreadPool theorems are stated with (definitions only). *)
From Coq Require Import List ZArith Bool Lia Arith.
From Tulz Require Import Common PoolModel.
Import ListNotations.

Definition is_begin (k : nat) (e : pevent) : bool := match e with EvBegin k' _ => Nat.eqb k k' | _ => false end.
Definition is_end (k : nat) (e : pevent) : bool := match e with EvEnd k' _ => Nat.eqb k k' | _ => false end.
Definition is_delete (k : nat) (e : pevent) : bool := match e with EvDelete k' => Nat.eqb k k' | _ => false end.
Definition count_ev (f : pevent -> bool) (l : list pevent) : nat := length (filter f l).

(* the tasks whose run() was entered, oldest first *)
Definition begins (l : list pevent) : list nat :=
  flat_map (fun e => match e with EvBegin k _ => [k] | _ => [] end) (rev l).

(* the owner is inside stop() *)
Definition in_stop (s : pstate) : bool :=
  match own s with OP_flag | OP_notify | OP_join _ | OP_clear => true | _ => false end.

Definition all_gone (s : pstate) : Prop := Forall (fun x => x = WGone) (ws s).

Definition is_spur (l : plabel) : bool := match l with LSpur _ => true | _ => false end.

Local Open Scope Z_scope.

(* the termination measure of stop(): every non-spurious step taken while the owner is inside
   stop() decreases it *)
Definition wrank (x : wst) : Z :=
  match x with
  | WStart => 8 | WWant => 7 | WPre => 5 | WWait false => 4 | WWait true => 6
  | WRun _ => 9 | WEnd _ => 8 | WFin => 0 | WGone => 0
  end.
Definition orank (s : pstate) : Z :=
  match own s with
  | OP_flag => 2 * Zlen (ws s) + Zlen (pool s) + 5
  | OP_notify => 2 * Zlen (ws s) + Zlen (pool s) + 4
  | OP_join rest => Zlen rest + 2
  | OP_clear => 1
  | _ => 0
  end.
Definition pmeasure (s : pstate) : Z :=
  orank s + fold_right Z.add 0 (map wrank (ws s)) + 10 * Zlen (queue s).
