(* PoolProofsA.v — ThreadPool: every task runs at most once and is owned until destroyed once.
   The invariants live in PoolLemmasA. *)
From Coq Require Import List ZArith Bool Lia Sorted.
From Tulz Require Import Common PoolModel PoolInv PoolLemmasA.
Import ListNotations.

Lemma at_most_once : forall maxw pr ls k,
  (count_ev (is_begin k) (evs (prun true (pinit maxw pr) ls)) <= 1)%nat /\
  (count_ev (is_delete k) (evs (prun true (pinit maxw pr) ls)) <= 1)%nat.
Proof.
  intros maxw pr ls k. change count_ev with (@cnt pevent).
  destruct (TInv_run true maxw pr ls k) as [H1 [H2 H3]].
  destruct (k <? next_task (prun true (pinit maxw pr) ls))%nat; cbn [b2n] in *; lia.
Qed.

Lemma delete_after_run : forall maxw pr ls k post pre,
  evs (prun true (pinit maxw pr) ls) = post ++ EvDelete k :: pre ->
  count_ev (is_begin k) pre = count_ev (is_end k) pre /\ count_ev (is_begin k) post = 0%nat.
Proof.
  intros maxw pr ls k post pre E. change count_ev with (@cnt pevent).
  exact (DInv_run true maxw pr ls k post pre E).
Qed.

Lemma nothing_runs_when_stopped : forall s w, all_gone s -> step_worker s w = None.
Proof.
  intros s w H. unfold step_worker. destruct (nth_error (ws s) w) as [x|] eqn:E; [|reflexivity].
  apply nth_error_In in E. unfold all_gone in H. rewrite Forall_forall in H.
  rewrite (H x E). reflexivity.
Qed.

Lemma all_destroyed_at_the_end : forall maxw pr ls k,
  let s := prun true (pinit maxw (pr ++ [OStop])) ls in
  prog s = [] -> own s = OIdle -> (k < next_task s)%nat ->
  count_ev (is_delete k) (evs s) = 1%nat /\ count_ev (is_begin k) (evs s) = count_ev (is_end k) (evs s).
Proof.
  intros maxw pr ls k s Hp Ho Hk. change count_ev with (@cnt pevent).
  destruct (PAll_run true maxw pr ls) as [_ [_ HF]]. fold s in HF.
  destruct (HF Hp Ho) as [Hq Hng].
  destruct (TInv_run true maxw (pr ++ [OStop]) ls k) as [H1 [H2 H3]]. fold s in H1, H2, H3.
  unfold pend in *. rewrite Ho, Hq in *.
  rewrite (NG_nil_cnt s (isrun k) eq_refl Hng) in *.
  rewrite (NG_nil_cnt s (isend k) eq_refl Hng) in *.
  rewrite !cnt_nil in *.
  apply Nat.ltb_lt in Hk. rewrite Hk in *. cbn [b2n] in *. lia.
Qed.

Lemma submission_order : forall maxw pr ls,
  StronglySorted lt (begins (evs (prun true (pinit maxw pr) ls))).
Proof.
  intros maxw pr ls. destruct (SInv_run true maxw pr ls) as [H _].
  unfold SL in H. eapply SS_app_l. exact H.
Qed.
