(* ArrayModel.v — executable model of include/tulz/container/Array.h (definitions only).

   An Array is (m_size, the allocation m_array points to). The allocation is a list of slots
   whose length is what was malloc'ed / realloc'ed — kept separate from m_size so that an
   access beyond the allocation is visible (EUb) instead of being defined away.
   [cls] says whether T is a class type (std::is_class_v<T>): class types are constructed
   and destroyed element by element (events), other types are memcpy'ed and left
   uninitialised by Array(size) / resize(size) (slot Raw = unspecified value). *)
From Coq Require Import List ZArith Bool Lia.
From Tulz Require Import Common RingModel.
Import ListNotations.
Local Open Scope Z_scope.

Section Arr.
Context {V : Type}.
Variable dflt : V.          (* the value T() has, for class types *)

Record arr := mkArr { asize : Z; adata : list (slot V) }.

(* variant: the pointer+length constructor for class types uses the parameter [size]
   (repaired code) or the still-zero member m_size (pinned upstream, DESIGN.md D4) *)
Record avariant := mkAVariant { ptr_ctor_uses_param : bool }.
Definition afixed := mkAVariant true.
Definition aupstream := mkAVariant false.

Definition empty_arr : arr := mkArr 0 [].

(* construct elements [vals] by placement-new at indices start.. of allocation d *)
Fixpoint construct_at (d : list (slot V)) (start : Z) (vals : list V) : list (slot V) * list (event V) :=
  match vals with
  | [] => (d, [])
  | v :: vs =>
      let '(d', ev) := construct_at (wr d start (Live v)) (start + 1) vs in
      (d', ub d start ++ [ECtor v] ++ placed (rd d start) ++ ev)
  end.

(* destroy(begin, end) *)
Definition destroy_range (cls : bool) (d : list (slot V)) (b e : Z) : list (slot V) * list (event V) :=
  if cls then dtor_loop d (fun i => i) b (Z.to_nat (e - b)) else (d, []).

(* memcpy of n elements from src allocation into a fresh allocation of n slots *)
Definition memcpy_new (src : list (slot V)) (n : Z) : list (slot V) * list (event V) :=
  (firstn (Z.to_nat n) src ++ repeat Raw (Z.to_nat n - length src),
   if n <=? Zlen src then [] else [EUb]).

(* Array(T *array, size_t size) with copy = true; [src] are the caller's elements *)
Definition ctor_ptr (vr : avariant) (cls : bool) (src : list V) (n : Z) : arr * list (event V) :=
  if cls then
    let m := if ptr_ctor_uses_param vr then n else 0 in
    let '(d, ev) := construct_at (repeat Raw (Z.to_nat m)) 0 (firstn (Z.to_nat m) src) in
    (mkArr n d, ev ++ (if m <=? Zlen src then [] else [EUb]))
  else
    (mkArr n (map Live (firstn (Z.to_nat n) src) ++ repeat Raw (Z.to_nat n - length src)),
     if n <=? Zlen src then [] else [EUb]).

Definition ctor_list (vals : list V) : arr * list (event V) :=
  let n := Zlen vals in
  let '(d, ev) := construct_at (repeat Raw (Z.to_nat n)) 0 vals in
  (mkArr n d, ev).

Definition ctor_size (cls : bool) (n : Z) : arr * list (event V) :=
  if cls then
    let '(d, ev) := construct_at (repeat Raw (Z.to_nat n)) 0 (repeat dflt (Z.to_nat n)) in (mkArr n d, ev)
  else (mkArr n (repeat Raw (Z.to_nat n)), []).

Definition ctor_fill (n : Z) (v : V) : arr * list (event V) :=
  let '(d, ev) := construct_at (repeat Raw (Z.to_nat n)) 0 (repeat v (Z.to_nat n)) in (mkArr n d, ev).

(* copy of a slot by the element's copy constructor: copying a non-element is undefined *)
Definition copy_elems (d : list (slot V)) (n : Z) : list (slot V) * list (event V) :=
  let cs := map (@copy_slot V) (firstn (Z.to_nat n) d) in
  (map fst cs ++ repeat Raw (Z.to_nat n - length d),
   flat_map snd cs ++ (if n <=? Zlen d then [] else [EUb])).

Definition ctor_copy (cls : bool) (src : arr) : arr * list (event V) :=
  let '(d, ev) := if cls then copy_elems (adata src) (asize src) else memcpy_new (adata src) (asize src) in
  (mkArr (asize src) d, ev).

Definition dtor (cls : bool) (a : arr) : list (event V) :=
  let '(d, ev) := destroy_range cls (adata a) 0 (asize a) in
  ev ++ [EFree (if cls then d else [])].

(* operator=(const Array&): Array(rhs).swap( *this ); the temporary then dies with the old contents *)
Definition assign_copy (cls : bool) (dst src : arr) : arr * list (event V) :=
  let '(tmp, ev1) := ctor_copy cls src in
  (tmp, ev1 ++ dtor cls dst).

(* realloc to n slots: the first min(old, n) slots are relocated *)
Definition realloc (d : list (slot V)) (n : Z) : list (slot V) :=
  firstn (Z.to_nat n) d ++ repeat Raw (Z.to_nat n - length d).

Definition resize_default (cls : bool) (a : arr) (n : Z) : arr * list (event V) :=
  let '(d1, ev1) := destroy_range cls (adata a) n (asize a) in
  let d2 := realloc d1 n in
  if (asize a <? n) && cls then
    let '(d3, ev3) := construct_at d2 (asize a) (repeat dflt (Z.to_nat (n - asize a))) in
    (mkArr n d3, ev1 ++ [EFree (if cls then skipn (Z.to_nat n) d1 else [])] ++ ev3)
  else (mkArr n d2, ev1 ++ [EFree (if cls then skipn (Z.to_nat n) d1 else [])]).

Definition resize_fill (cls : bool) (a : arr) (n : Z) (v : V) : arr * list (event V) :=
  let '(d1, ev1) := destroy_range cls (adata a) n (asize a) in
  let d2 := realloc d1 n in
  if asize a <? n then
    let '(d3, ev3) := construct_at d2 (asize a) (repeat v (Z.to_nat (n - asize a))) in
    (mkArr n d3, ev1 ++ [EFree (if cls then skipn (Z.to_nat n) d1 else [])] ++ (if cls then ev3 else filter (fun e => match e with EUb => true | _ => false end) ev3))
  else (mkArr n d2, ev1 ++ [EFree (if cls then skipn (Z.to_nat n) d1 else [])]).

(* a[i] = v through operator[] (copy assignment of the element) *)
Definition write (cls : bool) (a : arr) (i : Z) (v : V) : option (arr * list (event V)) :=
  if (0 <=? i) && (i <? asize a) then
    Some (mkArr (asize a) (wr (adata a) i (Live v)),
          ub (adata a) i ++ (if cls then [EAssign (rd (adata a) i) v] else []))
  else None.

Definition read (a : arr) (i : Z) : option (slot V * list (event V)) :=
  if (0 <=? i) && (i <? asize a) then Some (rd (adata a) i, ub (adata a) i) else None.

(* what operator[] / iteration shows for the m_size elements *)
Definition acontents (a : arr) : list (slot V) :=
  map (fun i => rd (adata a) (Z.of_nat i)) (seq 0 (Z.to_nat (asize a))).
Definition acontents_ub (a : arr) : list (event V) :=
  if asize a <=? Zlen (adata a) then [] else [EUb].

End Arr.
Arguments arr : clear implicits.

(* ======================================================================================= *)
(* Specification: an array is a list of element values; None = unspecified value (only ever   *)
(* produced for non-class element types by Array(size) / resize(size)).                       *)

Definition sarr := list (option Z).

(* ======================================================================================= *)
(* Runner: three array variables; one integer line per operation.                             *)

Definition aenv := list (option (arr Z)).
Definition aenv_get (e : aenv) (b : Z) : option (arr Z) :=
  if 0 <=? b then nth (Z.to_nat b) e None else None.
Definition aenv_set (e : aenv) (b : Z) (r : option (arr Z)) : aenv :=
  if (0 <=? b) && (b <? Zlen e) then list_set e (Z.to_nat b) r else e.
Definition slot_ok (b : Z) (e : aenv) : bool := (0 <=? b) && (b <? Zlen e).

Definition dump_arr (o : option (arr Z)) : list Z :=
  match o with
  | None => [-1]
  | Some a => asize a :: map slot_z (acontents a)
  end.
Definition dump_aenv (e : aenv) : list Z := flat_map dump_arr e.

Definition aoutcome := option (list Z * list (event Z)).

(* the event of a copy assignment onto an element is rendered with code 5 by the runner;
   EAssign is reused in the model and re-tagged here *)
Definition aevent_z (e : event Z) : list Z :=
  match e with
  | EAssign old v => [5; slot_z old; v]
  | _ => event_z e
  end.

Definition arr_step (vr : avariant) (cls : bool) (e : aenv) (op : list Z) : aenv * aoutcome :=
  match op with
  | [0; b; n] =>
      match aenv_get e b with
      | None => if (0 <=? n) && slot_ok b e then
                  let '(a, evs) := ctor_size 0 cls n in (aenv_set e b (Some a), Some ([], evs))
                else (e, None)
      | Some _ => (e, None)
      end
  | [1; b; n; v] =>
      match aenv_get e b with
      | None => if (0 <=? n) && slot_ok b e then
                  let '(a, evs) := ctor_fill n v in
                  (aenv_set e b (Some a), Some ([], if cls then evs else []))
                else (e, None)
      | Some _ => (e, None)
      end
  | 2 :: b :: vals =>
      match aenv_get e b with
      | None => if slot_ok b e then
                  let '(a, evs) := ctor_list vals in
                  (aenv_set e b (Some a), Some ([], if cls then evs else []))
                else (e, None)
      | Some _ => (e, None)
      end
  | 3 :: b :: vals =>
      match aenv_get e b with
      | None => if slot_ok b e then
                  let '(a, evs) := ctor_ptr vr cls vals (Zlen vals) in
                  (aenv_set e b (Some a), Some ([], evs ++ acontents_ub a))
                else (e, None)
      | Some _ => (e, None)
      end
  | [4; b; c] =>
      match aenv_get e b, aenv_get e c with
      | None, Some src => if slot_ok b e then
                            let '(a, evs) := ctor_copy cls src in (aenv_set e b (Some a), Some ([], evs))
                          else (e, None)
      | _, _ => (e, None)
      end
  | [5; b; c] =>
      match aenv_get e b, aenv_get e c with
      | Some dst, Some src =>
          if b =? c then (e, Some ([], []))
          else let '(a, evs) := assign_copy cls dst src in (aenv_set e b (Some a), Some ([], evs))
      | _, _ => (e, None)
      end
  | [6; b; c] =>
      match aenv_get e b, aenv_get e c with
      | None, Some src => if slot_ok b e then
                            (aenv_set (aenv_set e b (Some src)) c (Some empty_arr), Some ([], []))
                          else (e, None)
      | _, _ => (e, None)
      end
  | [7; b; c] | [8; b; c] =>
      match aenv_get e b, aenv_get e c with
      | Some x, Some y => (aenv_set (aenv_set e b (Some y)) c (Some x), Some ([], []))
      | _, _ => (e, None)
      end
  | [9; b; n] =>
      match aenv_get e b with
      | Some a => if 0 <=? n then
                    let '(a', evs) := resize_default 0 cls a n in (aenv_set e b (Some a'), Some ([], evs))
                  else (e, None)
      | None => (e, None)
      end
  | [10; b; n; v] =>
      match aenv_get e b with
      | Some a => if 0 <=? n then
                    let '(a', evs) := resize_fill cls a n v in (aenv_set e b (Some a'), Some ([], evs))
                  else (e, None)
      | None => (e, None)
      end
  | [11; b; i; v] =>
      match aenv_get e b with
      | Some a => match write cls a i v with
                  | Some (a', evs) => (aenv_set e b (Some a'), Some ([], evs))
                  | None => (e, None) end
      | None => (e, None)
      end
  | [12; b] =>
      match aenv_get e b with
      | Some a => (aenv_set e b None, Some ([], dtor cls a))
      | None => (e, None)
      end
  | [13; b; i] =>
      match aenv_get e b with
      | Some a => match read a i with
                  | Some (s, evs) => (e, Some ([slot_z s], evs))
                  | None => (e, None) end
      | None => (e, None)
      end
  | [14; b] =>
      match aenv_get e b with
      | Some a => if 1 <=? asize a then
                    (e, Some ([slot_z (rd (adata a) 0); slot_z (rd (adata a) (asize a - 1))],
                              ub (adata a) 0 ++ ub (adata a) (asize a - 1)))
                  else (e, None)
      | None => (e, None)
      end
  | _ => (e, None)
  end.

Fixpoint arr_trace (vr : avariant) (cls : bool) (e : aenv) (ops : list (list Z)) : list (aoutcome * list Z) :=
  match ops with
  | [] => []
  | op :: rest => let '(e', o) := arr_step vr cls e op in (o, dump_aenv e') :: arr_trace vr cls e' rest
  end.

Definition aenv0 : aenv := [None; None; None].

(* ---- the same operation language over plain lists of values (the specification) -------- *)

Definition senv := list (option sarr).
Definition senv_get (e : senv) (b : Z) : option sarr := if 0 <=? b then nth (Z.to_nat b) e None else None.
Definition senv_set (e : senv) (b : Z) (r : option sarr) : senv :=
  if (0 <=? b) && (b <? Zlen e) then list_set e (Z.to_nat b) r else e.
Definition sslot_ok (b : Z) (e : senv) : bool := (0 <=? b) && (b <? Zlen e).

Definition oz (o : option Z) : Z := match o with Some v => v | None => RAWZ end.
Definition dump_sarr (o : option sarr) : list Z :=
  match o with None => [-1] | Some a => Zlen a :: map oz a end.
Definition dump_senv (e : senv) : list Z := flat_map dump_sarr e.

(* the values an element-wise class type constructs / destroys *)
Definition somes (a : sarr) : list Z := flat_map (fun o => match o with Some v => [v] | None => [] end) a.

(* spec outcome: returned values, values constructed, values destroyed or assigned over *)
Definition soutcome := option (list Z * list Z * list Z).

Definition fresh (cls : bool) (n : Z) : sarr := repeat (if cls then Some 0 else None) (Z.to_nat n).
Definition sresize (a : sarr) (n : Z) (fill : option Z) : sarr :=
  firstn (Z.to_nat n) a ++ repeat fill (Z.to_nat n - length a).

Definition spec_step (cls : bool) (e : senv) (op : list Z) : senv * soutcome :=
  let c (l : list Z) := if cls then l else [] in
  match op with
  | [0; b; n] =>
      match senv_get e b with
      | None => if (0 <=? n) && sslot_ok b e then
                  (senv_set e b (Some (fresh cls n)), Some ([], c (somes (fresh cls n)), []))
                else (e, None)
      | Some _ => (e, None)
      end
  | [1; b; n; v] =>
      match senv_get e b with
      | None => if (0 <=? n) && sslot_ok b e then
                  (senv_set e b (Some (repeat (Some v) (Z.to_nat n))), Some ([], c (repeat v (Z.to_nat n)), []))
                else (e, None)
      | Some _ => (e, None)
      end
  | 2 :: b :: vals | 3 :: b :: vals =>
      match senv_get e b with
      | None => if sslot_ok b e then (senv_set e b (Some (map Some vals)), Some ([], c vals, []))
                else (e, None)
      | Some _ => (e, None)
      end
  | [4; b; s] =>
      match senv_get e b, senv_get e s with
      | None, Some src => if sslot_ok b e then (senv_set e b (Some src), Some ([], c (somes src), []))
                          else (e, None)
      | _, _ => (e, None)
      end
  | [5; b; s] =>
      match senv_get e b, senv_get e s with
      | Some dst, Some src =>
          if b =? s then (e, Some ([], [], []))
          else (senv_set e b (Some src), Some ([], c (somes src), c (somes dst)))
      | _, _ => (e, None)
      end
  | [6; b; s] =>
      match senv_get e b, senv_get e s with
      | None, Some src => if sslot_ok b e then
                            (senv_set (senv_set e b (Some src)) s (Some []), Some ([], [], []))
                          else (e, None)
      | _, _ => (e, None)
      end
  | [7; b; s] | [8; b; s] =>
      match senv_get e b, senv_get e s with
      | Some x, Some y => (senv_set (senv_set e b (Some y)) s (Some x), Some ([], [], []))
      | _, _ => (e, None)
      end
  | [9; b; n] =>
      match senv_get e b with
      | Some a => if 0 <=? n then
                    (senv_set e b (Some (sresize a n (if cls then Some 0 else None))),
                     Some ([], c (repeat 0 (Z.to_nat n - length a)), c (somes (skipn (Z.to_nat n) a))))
                  else (e, None)
      | None => (e, None)
      end
  | [10; b; n; v] =>
      match senv_get e b with
      | Some a => if 0 <=? n then
                    (senv_set e b (Some (sresize a n (Some v))),
                     Some ([], c (repeat v (Z.to_nat n - length a)), c (somes (skipn (Z.to_nat n) a))))
                  else (e, None)
      | None => (e, None)
      end
  | [11; b; i; v] =>
      match senv_get e b with
      | Some a => if (0 <=? i) && (i <? Zlen a) then
                    (senv_set e b (Some (list_set a (Z.to_nat i) (Some v))),
                     Some ([], [], c (somes [nth (Z.to_nat i) a None])))
                  else (e, None)
      | None => (e, None)
      end
  | [12; b] =>
      match senv_get e b with
      | Some a => (senv_set e b None, Some ([], [], c (somes a)))
      | None => (e, None)
      end
  | [13; b; i] =>
      match senv_get e b with
      | Some a => if (0 <=? i) && (i <? Zlen a) then (e, Some ([oz (nth (Z.to_nat i) a None)], [], []))
                  else (e, None)
      | None => (e, None)
      end
  | [14; b] =>
      match senv_get e b with
      | Some a => if 1 <=? Zlen a then
                    (e, Some ([oz (nth 0 a None); oz (nth (length a - 1) a None)], [], []))
                  else (e, None)
      | None => (e, None)
      end
  | _ => (e, None)
  end.

Fixpoint spec_trace (cls : bool) (e : senv) (ops : list (list Z)) : list (soutcome * list Z) :=
  match ops with
  | [] => []
  | op :: rest => let '(e', o) := spec_step cls e op in (o, dump_senv e') :: spec_trace cls e' rest
  end.

Definition senv0 : senv := [None; None; None].

(* ---- rendering ------------------------------------------------------------------------- *)

Definition arender (x : aoutcome * list Z) : list Z :=
  match x with
  | (None, _) => [PRE]
  | (Some (ret, evs), dump) => ret ++ [SEP] ++ dump ++ [SEP] ++ flat_map aevent_z evs
  end.

(* ---- resize(n, a[i]): the fill value is a reference to an element of the same array -------------
   [15; b; n; i]. The tree's code ([guarded]) notices that the argument lies inside its own allocation,
   copies it and resizes with the copy — one extra construction and destruction of that value around
   the ordinary resize; the pinned upstream code used the reference after destroy()/realloc() had
   invalidated it whenever the array grew (D11). The runner handles this line itself, so that the
   histories the theorems quantify over consist of the ordinary operations only: what the repaired
   code executes for this call IS the ordinary resize with a copied value. *)
Definition resize_fill_alias (guarded cls : bool) (a : arr Z) (n i : Z) : option (arr Z * list (event Z)) :=
  match read a i with
  | Some (Live v, _) =>
      if n <? 0 then None else
      let '(a', evs) := resize_fill cls a n v in
      if guarded then Some (a', (if cls then [ECtor v] else []) ++ evs ++ (if cls then [EDtor (Live v)] else []))
      else Some (a', evs ++ (if asize a <? n then [EUb] else []))
  | _ => None
  end.

(* Array(T *array, size, copy = false): the Array adopts the caller's malloc'ed block, whose elements the caller
   constructed — [16; b; v1 .. vn]. No element is constructed by the library; the state is the one the
   initializer-list constructor reaches (ArrayAliasProofs.adopt_is_list_state), so every history that starts with
   an adoption continues exactly like the history that starts with that constructor. *)
Definition adopt (vals : list Z) : arr Z := mkArr (Zlen vals) (map Live vals).

Definition arr_step_d (guarded : bool) (vr : avariant) (cls : bool) (e : aenv) (op : list Z) : aenv * aoutcome :=
  match op with
  | 16 :: b :: vals =>
      match aenv_get e b with
      | None => if slot_ok b e then (aenv_set e b (Some (adopt vals)), Some ([], [])) else (e, None)
      | Some _ => (e, None)
      end
  | [15; b; n; i] =>
      match aenv_get e b with
      | Some a => match resize_fill_alias guarded cls a n i with
                  | Some (a', evs) => (aenv_set e b (Some a'), Some ([], evs))
                  | None => (e, None)
                  end
      | None => (e, None)
      end
  | _ => arr_step vr cls e op
  end.

Fixpoint arr_trace_d (guarded : bool) (vr : avariant) (cls : bool) (e : aenv) (ops : list (list Z)) : list (aoutcome * list Z) :=
  match ops with
  | [] => []
  | op :: rest => let '(e', o) := arr_step_d guarded vr cls e op in (o, dump_aenv e') :: arr_trace_d guarded vr cls e' rest
  end.

(* header line: [is_class; variant] (variant 1 = the tree's code, 0 = pinned upstream); an
   optional third field selects which non-class element type the implementation side
   instantiates (the model is generic in the element type) *)
Definition arr_run (case : list (list Z)) : list (list Z) :=
  match case with
  | [cls; v] :: ops | [cls; v; _] :: ops =>
      [] :: map arender (arr_trace_d (v =? 1) (if v =? 1 then afixed else aupstream) (negb (cls =? 0)) aenv0 ops)
  | _ => [[PRE]]
  end.

Definition srender (x : soutcome * list Z) : list Z :=
  match x with
  | (None, _) => [PRE]
  | (Some (ret, ctor, rem), dump) => ret ++ [SEP] ++ dump ++ [SEP] ++ ctor ++ [SEP] ++ rem
  end.

Definition arr_spec_run (case : list (list Z)) : list (list Z) :=
  match case with
  | [cls; v] :: ops | [cls; v; _] :: ops => [] :: map srender (spec_trace (negb (cls =? 0)) senv0 ops)
  | _ => [[PRE]]
  end.
