(* LocaleModel.v — executable model of LocaleInfo::get (src/LocaleInfo.cpp), definitions only.

   Input: the bytes of a NUL-terminated string (without the NUL). The 64-byte stack buffer is a
   list of 64 cells with checked operations: a memcpy of more than 64 bytes or of a negative
   length (size_t wrap-around), and a strcmp that would have to read past cell 63, are the
   error LOob. The two table scans are transcribed as written (a code match continues the
   scan, a name match ends it; the country is the first row matching by code or by name).
   Result fields that the code never assigns are None (uninitialised): languageCode, country
   and countryCode have no default initialiser in LocaleInfo::Info.

   The tables are parameters (they are regenerated from the source on every run into
   gen/LocaleTables.v). [guarded] selects the variant: true = the tree's code (part lengths and
   the order of '_' and '.' are checked, an unknown language falls back), false = the pinned
   upstream code. *)
From Coq Require Import List ZArith Bool Lia Arith.
From Tulz Require Import Common.
Import ListNotations.
Local Open Scope Z_scope.

Definition BUF : Z := 64.
Definition DOT : Z := 46.
Definition USC : Z := 95.

Record info := mkInfo {
  i_langs : list (list Z);
  i_code : option (list Z);
  i_country : option (list Z);
  i_ccode : option (list Z);
  i_error : bool
}.
Inductive lres := LOob | LOk (i : info).

(* strstr(s, "c"): offset of the first occurrence *)
Fixpoint index_of (c : Z) (s : list Z) : option Z :=
  match s with
  | [] => None
  | x :: s' => if x =? c then Some 0 else option_map Z.succ (index_of c s')
  end.

Definition zero_buf : list Z := repeat 0 (Z.to_nat BUF).

(* memcpy(buffer, src, n) into a zeroed buffer; src has at least n bytes before its NUL *)
Definition memcpy_buf (src : list Z) (n : Z) : option (list Z) :=
  if (0 <=? n) && (n <=? BUF) then Some (firstn (Z.to_nat n) src ++ skipn (Z.to_nat n) zero_buf) else None.

(* strcmp(t, buffer) == 0 for a table string t; None if it would read past the buffer *)
Fixpoint strcmp_buf (t b : list Z) : option bool :=
  match t, b with
  | [], x :: _ => Some (x =? 0)
  | [], [] => None
  | _ :: _, [] => None
  | c :: t', x :: b' => if c =? x then strcmp_buf t' b' else Some false
  end.

Definition ascii (s : list nat) : list Z := map Z.of_nat s.
Definition fallback : info :=
  mkInfo [ascii [69; 110; 103; 108; 105; 115; 104]%nat]                                  (* "English" *)
         (Some (ascii [101; 110]%nat))                                                   (* "en" *)
         (Some (ascii [85; 110; 105; 116; 101; 100; 32; 75; 105; 110; 103; 100; 111; 109]%nat))   (* "United Kingdom" *)
         (Some (ascii [71; 66]%nat))                                                     (* "GB" *)
         true.

Section Locale.
  Variable langs countries : list (list Z * list Z).      (* rows (name, code) *)

  (* the language loop *)
  Fixpoint scan_langs (rows : list (list Z * list Z)) (b : list Z) (code : option (list Z)) (names : list (list Z))
    : option (option (list Z) * list (list Z)) :=
    match rows with
    | [] => Some (code, names)
    | (nm, cd) :: rest =>
        match strcmp_buf cd b with
        | None => None
        | Some true => scan_langs rest b (Some cd) (names ++ [nm])
        | Some false =>
            match strcmp_buf nm b with
            | None => None
            | Some true => Some (Some cd, names ++ [nm])        (* break *)
            | Some false => scan_langs rest b code names
            end
        end
    end.

  (* the country loop: Some (Some row) = found, Some None = not found, None = out of bounds *)
  Fixpoint scan_country (rows : list (list Z * list Z)) (b : list Z) : option (option (list Z * list Z)) :=
    match rows with
    | [] => Some None
    | (nm, cd) :: rest =>
        match strcmp_buf cd b with
        | None => None
        | Some true => Some (Some (nm, cd))
        | Some false =>
            match strcmp_buf nm b with
            | None => None
            | Some true => Some (Some (nm, cd))
            | Some false => scan_country rest b
            end
        end
    end.

  Definition get (guarded : bool) (s : list Z) : lres :=
    let dot := match index_of DOT s with Some i => i | None => Zlen s end in
    match index_of USC s with
    | None => LOk fallback
    | Some us =>
        if guarded && negb ((us <? dot) && (us <=? BUF - 1) && (dot - us - 1 <=? BUF - 1)) then LOk fallback
        else
          match memcpy_buf s us with
          | None => LOob
          | Some b1 =>
              match scan_langs langs b1 None [] with
              | None => LOob
              | Some (code, names) =>
                  match memcpy_buf (skipn (Z.to_nat (us + 1)) s) (dot - us - 1) with
                  | None => LOob
                  | Some b2 =>
                      if guarded && (match names with [] => true | _ => false end) then LOk fallback
                      else
                        match scan_country countries b2 with
                        | None => LOob
                        | Some (Some (cn, cc)) => LOk (mkInfo names code (Some cn) (Some cc) false)
                        | Some None => LOk fallback
                        end
                  end
              end
          end
    end.

  (* ---- the specification: split, then plain table lookups ----------------------------------- *)

  Fixpoint list_eqb (a b : list Z) : bool :=
    match a, b with
    | [], [] => true
    | x :: a', y :: b' => (x =? y) && list_eqb a' b'
    | _, _ => false
    end.

  (* language part = text before the first '_'; country part = text between it and the first
     '.' of the whole string (or the end); defined iff a '_' exists and no '.' precedes it *)
  Definition split (s : list Z) : option (list Z * list Z) :=
    let dot := match index_of DOT s with Some i => i | None => Zlen s end in
    match index_of USC s with
    | Some us => if us <? dot
                 then Some (firstn (Z.to_nat us) s, firstn (Z.to_nat (dot - us - 1)) (skipn (Z.to_nat (us + 1)) s))
                 else None
    | None => None
    end.

  (* by code: the code and all table names carrying it, in table order; else by name: the code
     of the first row with that name and that name *)
  Definition lang_lookup (l : list Z) : option (list Z * list (list Z)) :=
    match filter (fun r => list_eqb (snd r) l) langs with
    | (_ :: _) as rows => Some (l, map fst rows)
    | [] => match find (fun r => list_eqb (fst r) l) langs with
            | Some (nm, cd) => Some (cd, [nm])
            | None => None
            end
    end.
  Definition country_lookup (c : list Z) : option (list Z * list Z) :=
    find (fun r => list_eqb (snd r) c || list_eqb (fst r) c) countries.

  Definition spec_get (s : list Z) : info :=
    match split s with
    | Some (l, c) =>
        match lang_lookup l, country_lookup c with
        | Some (cd, names), Some (cn, cc) => mkInfo names (Some cd) (Some cn) (Some cc) false
        | _, _ => fallback
        end
    | None => fallback
    end.

  (* side condition on the tables (checked on the generated tables by vm_compute): every table
     string is non-empty, NUL-free and shorter than the buffer; no language name equals a
     language code *)
  Definition str_ok (t : list Z) : bool :=
    negb (match t with [] => true | _ => false end) && (Zlen t <? BUF) && forallb (fun c => negb (c =? 0)) t.
  Definition tables_ok : bool :=
    forallb (fun r => str_ok (fst r) && str_ok (snd r)) langs &&
    forallb (fun r => str_ok (fst r) && str_ok (snd r)) countries &&
    forallb (fun r => negb (existsb (fun r' => list_eqb (fst r) (snd r')) langs)) langs.
End Locale.

(* ---- runner for the correspondence check ------------------------------------------------------ *)
Definition enc_s (s : list Z) : list Z := Zlen s :: s.
Definition enc_o (o : option (list Z)) : list Z := match o with Some s => enc_s s | None => [-1] end.

Definition OOB : Z := -777004.
Definition render_l (r : lres) : list Z :=
  match r with
  | LOob => [OOB]
  | LOk i => [b2z (i_error i)] ++ enc_o (i_code i) ++ [Zlen (i_langs i)] ++ flat_map enc_s (i_langs i) ++
             enc_o (i_country i) ++ enc_o (i_ccode i)
  end.

(* case: header [variant], then one input string per line (bytes; the empty line is the empty string) *)
Definition locale_run_with (langs countries : list (list Z * list Z)) (case : list (list Z)) : list (list Z) :=
  match case with
  | [v] :: ls => [] :: map (fun s => if forallb (fun c => (1 <=? c) && (c <=? 255)) s
                                     then render_l (get langs countries (negb (v =? 0)) s) else [PRE]) ls
  | _ => [[PRE]]
  end.
